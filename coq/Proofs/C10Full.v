(* Proofs/C10Full.v — C10 with Integrity on both sides and the client's token
   pre-filter: lemmas and proofs for the theorems of the second part of
   Props/C10.v.  Builds on Proofs/C10.v (list, bitmask and loop lemmas). *)
From Coq Require Import List NArith ZArith Bool Lia.
From Cedar Require Import Model.Negotiate Proofs.C10.
Import ListNotations.
Local Open Scope Z_scope.

(* ---- the decision table with Integrity and token availability (same text as in
   Props/C10.v, restated so that the theorems there are closed by [exact]) ------ *)

Definition Usable (aok : meth -> bool) (tok : bool) (m : meth) : Prop :=
  m <> mNONE /\ aok m = true /\ (is_token m = true -> tok = true).
Definition MutualUsable (aok : meth -> bool) (tok : bool) (cm sm : list meth) : Prop :=
  exists m, In m cm /\ In m sm /\ Usable aok tok m.
Definition MustFail_i (aok : meth -> bool) (tok : bool) (C S : policy) : Prop :=
  (Req (p_auth C) (p_auth S) /\ Nev (p_auth C) (p_auth S)) \/
  (Req (p_enc C) (p_enc S) /\ Nev (p_enc C) (p_enc S)) \/
  (Req (p_integ C) (p_integ S) /\ Nev (p_integ C) (p_integ S)) \/
  (Req (p_auth C) (p_auth S) /\ ~ MutualUsable aok tok (p_meths C) (p_meths S)) \/
  (Req (p_enc C) (p_enc S) /\ ~ MutualCipher (p_ciphs C) (p_ciphs S)) \/
  (Req (p_integ C) (p_integ S) /\ ~ MutualCipher (p_ciphs C) (p_ciphs S)).
Definition AuthRuns_i (aok : meth -> bool) (tok : bool) (C S : policy) : Prop :=
  Req (p_auth C) (p_auth S) \/
  (Pref (p_auth C) (p_auth S) /\ ~ Nev (p_auth C) (p_auth S) /\ MutualUsable aok tok (p_meths C) (p_meths S)).
Definition Agreed_i (aok : meth -> bool) (tok : bool) (C S : policy) (r : hok) : Prop :=
  (k_sauth r = true <-> AuthRuns_i aok tok C S) /\
  k_cauth r = k_sauth r /\
  (k_sauth r = true ->
     exists m, k_ran r = Some m /\ k_cmeth r = m /\ k_smeth r = m /\
               In m (p_meths C) /\ In m (p_meths S) /\ Usable aok tok m) /\
  (k_sauth r = false -> k_ran r = None) /\
  (Req (p_enc C) (p_enc S) \/ Req (p_integ C) (p_integ S) -> k_creal r = true) /\
  k_cenc r = k_creal r /\ k_senc r = k_sreal r /\ k_creal r = k_sreal r /\
  k_csid r = k_ssid r /\ k_ckey r = k_skey r /\
  (k_creal r = true -> k_ckey r <> None).
(* the cells in which the server commits to authentication on the strength of the
   two advertised lists although no listed method is usable by this client *)
Definition StaleOffer (aok : meth -> bool) (tok : bool) (C S : policy) : Prop :=
  MutualMethod aok (p_meths C) (p_meths S) /\ ~ MutualUsable aok tok (p_meths C) (p_meths S) /\
  (Req (p_auth C) (p_auth S) \/ (Pref (p_auth C) (p_auth S) /\ ~ Nev (p_auth C) (p_auth S))) /\
  ~ (Req (p_auth C) (p_auth S) /\ Nev (p_auth C) (p_auth S)) /\
  ~ (Req (p_enc C) (p_enc S) /\ Nev (p_enc C) (p_enc S)) /\
  ~ (Req (p_integ C) (p_integ S) /\ Nev (p_integ C) (p_integ S)) /\
  ~ ((Req (p_enc C) (p_enc S) \/ Req (p_integ C) (p_integ S)) /\ ~ MutualCipher (p_ciphs C) (p_ciphs S)).

(* ---- small facts -------------------------------------------------------------- *)

Lemma tokflag m tok : negb (is_token m) || tok = true <-> (is_token m = true -> tok = true).
Proof. destruct (is_token m), tok; simpl; split; auto; intro H; try discriminate; symmetry; apply H; reflexivity. Qed.

Lemma cl_methods_t_In tok m cm sm :
  In m (cl_methods_t tok cm sm) <-> In m cm /\ In m sm /\ (is_token m = true -> tok = true).
Proof.
  unfold cl_methods_t. rewrite filter_In, andb_true_iff, mem_In, tokflag. tauto.
Qed.

(* decide_i is decide when neither side has Integrity REQUIRED *)
Lemma decide_i_no_integ sA cA sE cE sI cI hm hk :
  is_rq sI = false -> is_rq cI = false ->
  match decide_i sA cA sE cE sI cI hm hk, decide sA cA sE cE hm hk with
  | (Some _, v), (Some _, w) => v = w
  | (None, v), (None, w) => v = w
  | _, _ => False
  end.
Proof.
  intros A B. unfold decide_i, decide. rewrite A, B. simpl.
  destruct (is_rq sA && is_nv cA); [reflexivity|].
  destruct (is_nv sA && is_rq cA); [reflexivity|].
  destruct (is_rq sE && is_nv cE); [reflexivity|].
  destruct (is_nv sE && is_rq cE); [reflexivity|].
  rewrite andb_false_r. simpl.
  destruct (should sE cE hk && negb hk); [reflexivity|].
  destruct (should sA cA hm && negb hm); reflexivity.
Qed.

(* a successful end of the retry loop: the server's selection has a non-zero bit and
   the client ran a method it offered under that bit whose sub-protocol works *)
Lemma loop_lok_inv aok sm cms : forall fuel a ms,
  snd (auth_loop fuel aok sm cms a) = LOk ms ->
  bit ms <> 0 /\ exists mc, In mc cms /\ aok mc = true /\ bit mc = bit ms.
Proof.
  induction fuel as [|f IH]; intros a ms; [simpl; discriminate|].
  rewrite auth_loop_S.
  destruct (a =? 0); [simpl; discriminate|].
  destruct (srv_select sm a) as [m0|] eqn:E; [|simpl; discriminate].
  apply srv_select_some in E as [_ Hs].
  assert (Hb : bit m0 <> 0).
  { unfold sel in Hs. intro Z0. rewrite Z0, Z.land_0_r in Hs. discriminate. }
  cbv zeta.
  destruct (of_bit (bit m0)).
  - destruct (offered_under cms (bit m0)) as [mo|] eqn:Eo; [|simpl; discriminate].
    destruct (aok m0 && aok mo) eqn:Ea.
    + simpl. intro H. inversion H; subst ms. split; [assumption|].
      apply andb_true_iff in Ea as [_ Ea]. unfold offered_under in Eo.
      apply find_some in Eo as [Hin Hb']. apply Z.eqb_eq in Hb'. exists mo. auto.
    + unfold cons_round. simpl snd. apply IH.
  - unfold cons_round. simpl snd. apply IH.
Qed.

(* ---- boolean form of the table over the finite data -------------------------------- *)

Definition tb_fail_i (cA sA cE sE cI sI : lvl) (hu hk : bool) : bool :=
  ((is_rq cA || is_rq sA) && (is_nv cA || is_nv sA))
  || ((is_rq cE || is_rq sE) && (is_nv cE || is_nv sE))
  || ((is_rq cI || is_rq sI) && (is_nv cI || is_nv sI))
  || ((is_rq cA || is_rq sA) && negb hu)
  || ((is_rq cE || is_rq sE) && negb hk)
  || ((is_rq cI || is_rq sI) && negb hk).
Definition tb_auth_i (cA sA : lvl) (hu : bool) : bool :=
  (is_rq cA || is_rq sA) || ((is_pf cA || is_pf sA) && negb (is_nv cA || is_nv sA) && hu).
Definition tb_stale (cA sA cE sE cI sI : lvl) (hm hu hk : bool) : bool :=
  hm && (negb hu
  && (((is_rq cA || is_rq sA) || ((is_pf cA || is_pf sA) && negb (is_nv cA || is_nv sA)))
  && (negb ((is_rq cA || is_rq sA) && (is_nv cA || is_nv sA))
  && (negb ((is_rq cE || is_rq sE) && (is_nv cE || is_nv sE))
  && (negb ((is_rq cI || is_rq sI) && (is_nv cI || is_nv sI))
  && negb (((is_rq cE || is_rq sE) || (is_rq cI || is_rq sI)) && negb hk)))))).

Lemma and_iff_b (P Q : Prop) p q : (P <-> p = true) -> (Q <-> q = true) -> (P /\ Q <-> p && q = true).
Proof. intros A B. rewrite andb_true_iff. tauto. Qed.
Lemma or_iff_b (P Q : Prop) p q : (P <-> p = true) -> (Q <-> q = true) -> (P \/ Q <-> p || q = true).
Proof. intros A B. rewrite orb_true_iff. tauto. Qed.
Lemma not_iff_b (P : Prop) p : (P <-> p = true) -> (~ P <-> negb p = true).
Proof. intros A. rewrite negb_true_iff, <- not_true_iff_false. tauto. Qed.

(* [hm]: some listed common method is implemented (what the server sees);
   [hu]: some listed common method is usable by this client (hu -> hm);
   [cn]: the client's filtered intersection is empty; [lo]: the loop ended with a
   successful exchange.  hu -> ~cn /\ lo, and lo -> hu (loop lemmas). *)
Definition row_ok_i (cA sA cE sE cI sI : lvl) (hm hu hk cn lo : bool) : bool :=
  if (hu && negb hm) || (hu && (cn || negb lo)) || (negb hu && lo) then true
  else
    let stale := tb_stale cA sA cE sE cI sI hm hu hk in
    match flow_i cA sA cE sE cI sI hm hk hm hk cn lo with
    | ADenied => negb stale && tb_fail_i cA sA cE sE cI sI hu hk
    | AFail ce se => stale && ce && se
    | AOk ca sa ce se =>
        negb stale && negb (tb_fail_i cA sA cE sE cI sI hu hk)
        && Bool.eqb sa (tb_auth_i cA sA hu) && Bool.eqb ca sa
        && Bool.eqb ce hk && Bool.eqb se hk
        && implb ((is_rq cE || is_rq sE) || (is_rq cI || is_rq sI)) hk
        && Bool.eqb (consulted_i cA sA cE sE cI sI hm hk hm hk cn) sa && implb sa (hu && lo)
    end.

(* 4^6 level combinations x 2^5 booleans = 131 072 rows *)
Lemma row_ok_i_all :
  forallb (fun cA => forallb (fun sA => forallb (fun cE => forallb (fun sE =>
  forallb (fun cI => forallb (fun sI =>
    forallb (fun hm => forallb (fun hu => forallb (fun hk => forallb (fun cn => forallb (fun lo =>
      row_ok_i cA sA cE sE cI sI hm hu hk cn lo) bools) bools) bools) bools) bools)
    four_levels) four_levels) four_levels) four_levels) four_levels) four_levels = true.
Proof. vm_compute. reflexivity. Qed.

Lemma row_ok_i_holds cA sA cE sE cI sI hm hu hk cn lo :
  In cA four_levels -> In sA four_levels -> In cE four_levels -> In sE four_levels ->
  In cI four_levels -> In sI four_levels ->
  row_ok_i cA sA cE sE cI sI hm hu hk cn lo = true.
Proof.
  intros H1 H2 H3 H4 H5 H6. pose proof row_ok_i_all as A.
  rewrite forallb_forall in A. specialize (A _ H1).
  rewrite forallb_forall in A. specialize (A _ H2).
  rewrite forallb_forall in A. specialize (A _ H3).
  rewrite forallb_forall in A. specialize (A _ H4).
  rewrite forallb_forall in A. specialize (A _ H5).
  rewrite forallb_forall in A. specialize (A _ H6).
  rewrite forallb_forall in A. specialize (A _ (in_bools hm)).
  rewrite forallb_forall in A. specialize (A _ (in_bools hu)).
  rewrite forallb_forall in A. specialize (A _ (in_bools hk)).
  rewrite forallb_forall in A. specialize (A _ (in_bools cn)).
  rewrite forallb_forall in A. exact (A _ (in_bools lo)).
Qed.

Section TableI.
  Variable aok : meth -> bool.
  Variable tok : bool.
  Variables Cl Sv : policy.
  Variable sid : N.
  Hypothesis HcA : In (p_auth Cl) four_levels.
  Hypothesis HsA : In (p_auth Sv) four_levels.
  Hypothesis HcE : In (p_enc Cl) four_levels.
  Hypothesis HsE : In (p_enc Sv) four_levels.
  Hypothesis HcI : In (p_integ Cl) four_levels.
  Hypothesis HsI : In (p_integ Sv) four_levels.
  Hypothesis no_alias : ~ (In mTOK (p_meths Sv) /\ In mIDT (p_meths Sv)).
  Hypothesis aok_impl :
    forall m, In m (p_meths Cl) -> In m (p_meths Sv) -> m <> mNONE -> aok m = implemented m.

  Let m := neg_meth (p_meths Sv) (p_meths Cl).
  Let k := neg_ciph (p_ciphs Sv) (p_ciphs Cl).
  Let hm := has_meth m.
  Let hk := has_ciph k.
  Let hu := existsb (fun x => implemented x && negb (meth_eqb x mNONE) && mem x (p_meths Sv)
                              && (negb (is_token x) || tok)) (p_meths Cl).

  Lemma listed_iff : MutualMethod aok (p_meths Cl) (p_meths Sv) <-> hm = true.
  Proof. exact (mutual_method_iff aok Cl Sv aok_impl). Qed.

  Lemma cipher_iff : MutualCipher (p_ciphs Cl) (p_ciphs Sv) <-> hk = true.
  Proof. unfold hk, k, MutualCipher. rewrite neg_ciph_has. tauto. Qed.

  Lemma usable_iff : MutualUsable aok tok (p_meths Cl) (p_meths Sv) <-> hu = true.
  Proof.
    unfold hu, MutualUsable, Usable. rewrite existsb_exists. split.
    - intros [x (Hc & Hs & Hn & Ha & Ht)]. exists x. split; [assumption|].
      rewrite <- (aok_impl x Hc Hs Hn), Ha.
      apply meth_eqb_neq in Hn. rewrite Hn. apply mem_In in Hs. rewrite Hs.
      apply tokflag in Ht. rewrite Ht. reflexivity.
    - intros [x (Hc & H)].
      apply andb_true_iff in H as [H Ht]. apply andb_true_iff in H as [H Hs]. apply andb_true_iff in H as [Hi Hn].
      apply mem_In in Hs. apply negb_true_iff, meth_eqb_neq in Hn. pose proof (proj1 (tokflag x tok) Ht) as Ht'.
      exists x. split; [exact Hc|]. split; [exact Hs|]. split; [exact Hn|]. split; [|exact Ht'].
      rewrite (aok_impl x Hc Hs Hn). exact Hi.
  Qed.

  Lemma usable_listed : hu = true -> hm = true.
  Proof.
    intro H. apply listed_iff. apply usable_iff in H. destruct H as [x (A & B & C & D & _)].
    exists x. auto.
  Qed.

  Let sm' := seen_meths (p_meths Sv) m.
  Let cms := cl_methods_t tok (p_meths Cl) sm'.
  Let lp := auth_loop (S (length cms)) aok (p_meths Sv) cms (mask cms).

  Lemma cms_sub x : In x cms -> bit x <> 0 ->
    In x (p_meths Cl) /\ In x (p_meths Sv) /\ (is_token x = true -> tok = true).
  Proof.
    unfold cms. rewrite cl_methods_t_In. intros (A & B & C) Hb. repeat split; auto.
    unfold sm', seen_meths in B. destruct (p_meths Sv) eqn:E; [|exact B].
    simpl in B. destruct B as [B|[]]. exfalso. apply Hb. rewrite <- B. unfold m. rewrite ?E. reflexivity.
  Qed.

  (* a usable mutual method: non-empty intersection, the loop ends with a usable mutual method *)
  Lemma loop_facts_i : hu = true ->
    cms <> [] /\
    exists ms, snd lp = LOk ms /\ In ms (p_meths Cl) /\ In ms (p_meths Sv) /\ Usable aok tok ms
               /\ offered_under cms (bit ms) = Some ms.
  Proof.
    intro H. apply usable_iff in H. destruct H as [g (Hc & Hs & Hn & Ha & Ht)].
    assert (Hi : implemented g = true) by (rewrite <- (aok_impl g Hc Hs Hn); exact Ha).
    assert (Esm : sm' = p_meths Sv).
    { unfold sm', seen_meths. destruct (p_meths Sv); [contradiction | reflexivity]. }
    assert (Hg : In g cms) by (unfold cms; rewrite Esm; apply cl_methods_t_In; auto).
    split. { intro E. rewrite E in Hg. contradiction. }
    assert (Hsub : forall x, In x cms -> In x (p_meths Cl) /\ In x (p_meths Sv) /\ (is_token x = true -> tok = true)).
    { intros x Hx. unfold cms in Hx. rewrite Esm in Hx. apply cl_methods_t_In in Hx. exact Hx. }
    unfold lp.
    destruct cms as [|c0 r0] eqn:Ecms; [contradiction|].
    destruct (loop_ok aok (p_meths Sv) (c0 :: r0) no_alias
                (fun x Hx => proj1 (proj2 (Hsub x Hx)))
                (fun x Hx Hn' => aok_impl x (proj1 (Hsub x Hx)) (proj1 (proj2 (Hsub x Hx))) Hn')
                g Hg Hi Hn (length r0) (mask (c0 :: r0)))
      as [rs [ms (L & Hin & Ha' & Ho)]].
    { apply inv_mask; auto. apply implemented_bit; assumption. }
    exists ms. simpl length. rewrite L. simpl snd.
    pose proof (loop_lok_inv aok (p_meths Sv) (c0 :: r0) (S (S (length r0))) (mask (c0 :: r0)) ms) as I.
    rewrite L in I. destruct (I eq_refl) as [Hb _].
    destruct (Hsub ms Hin) as (A & B & C).
    repeat split; auto. intro E0. subst ms. apply Hb. reflexivity.
  Qed.

  (* conversely: a successful loop means a usable mutual method exists *)
  Lemma loop_lok_usable ms : snd lp = LOk ms -> hu = true.
  Proof.
    intro H. apply usable_iff.
    destruct (loop_lok_inv _ _ _ _ _ _ H) as [Hb [mc (Hin & Ha & Eb)]].
    assert (Hbc : bit mc <> 0) by congruence.
    destruct (cms_sub mc Hin Hbc) as (A & B & C).
    exists mc. repeat split; auto. intro E0. subst mc. apply Hbc. reflexivity.
  Qed.

  Lemma must_fail_i_iff :
    MustFail_i aok tok Cl Sv <->
    tb_fail_i (p_auth Cl) (p_auth Sv) (p_enc Cl) (p_enc Sv) (p_integ Cl) (p_integ Sv) hu hk = true.
  Proof.
    unfold MustFail_i, tb_fail_i, Req, Nev.
    rewrite !orb_true_iff, !andb_true_iff, !negb_true_iff, !orb_true_iff, !is_rq_iff, !is_nv_iff.
    rewrite usable_iff, cipher_iff, !not_true_iff_false. tauto.
  Qed.

  Lemma auth_runs_i_iff : AuthRuns_i aok tok Cl Sv <-> tb_auth_i (p_auth Cl) (p_auth Sv) hu = true.
  Proof.
    unfold AuthRuns_i, tb_auth_i, Req, Nev, Pref.
    rewrite !orb_true_iff, !andb_true_iff, negb_true_iff, !orb_true_iff, !is_rq_iff, !is_pf_iff.
    rewrite usable_iff, <- not_true_iff_false, orb_true_iff, !is_nv_iff. tauto.
  Qed.

  Lemma stale_iff :
    StaleOffer aok tok Cl Sv <->
    tb_stale (p_auth Cl) (p_auth Sv) (p_enc Cl) (p_enc Sv) (p_integ Cl) (p_integ Sv) hm hu hk = true.
  Proof.
    unfold StaleOffer, tb_stale.
    repeat first [apply listed_iff | apply usable_iff | apply cipher_iff | apply Req_b | apply Nev_b | apply Pref_b
                 | apply and_iff_b | apply or_iff_b | apply not_iff_b].
  Qed.

  Theorem table_full :
    (StaleOffer aok tok Cl Sv -> exists rs, honest_i aok tok Cl Sv sid = HFail true true rs) /\
    (~ StaleOffer aok tok Cl Sv ->
       (MustFail_i aok tok Cl Sv -> honest_i aok tok Cl Sv sid = HDenied) /\
       (~ MustFail_i aok tok Cl Sv -> exists r, honest_i aok tok Cl Sv sid = HOk r /\ Agreed_i aok tok Cl Sv r)).
  Proof.
    set (cn := match cms with [] => true | _ => false end).
    set (lo := match snd lp with LOk _ => true | _ => false end).
    pose proof (row_ok_i_holds (p_auth Cl) (p_auth Sv) (p_enc Cl) (p_enc Sv) (p_integ Cl) (p_integ Sv)
                  hm hu hk cn lo HcA HsA HcE HsE HcI HsI) as R.
    assert (Hprem : hu = true -> cn = false /\ lo = true /\
                    exists ms, snd lp = LOk ms /\ In ms (p_meths Cl) /\ In ms (p_meths Sv) /\ Usable aok tok ms
                               /\ offered_under cms (bit ms) = Some ms).
    { intro H. destruct (loop_facts_i H) as [Hne [ms (L & A & B & D & O)]].
      unfold cn, lo. rewrite L. destruct cms; [congruence|]. eauto 10. }
    unfold row_ok_i in R.
    destruct ((hu && negb hm) || (hu && (cn || negb lo)) || (negb hu && lo)) eqn:Eprem.
    { exfalso. apply orb_true_iff in Eprem as [Eprem|Eprem]; [apply orb_true_iff in Eprem as [Eprem|Eprem]|].
      - apply andb_true_iff in Eprem as [H1 H2]. rewrite (usable_listed H1) in H2. discriminate.
      - apply andb_true_iff in Eprem as [H1 H2]. destruct (Hprem H1) as (A & B & _).
        rewrite A, B in H2. discriminate.
      - apply andb_true_iff in Eprem as [H1 H2]. unfold lo in H2.
        destruct (snd lp) as [ms| | |] eqn:L; try discriminate.
        rewrite (loop_lok_usable ms L) in H1. discriminate. }
    assert (Hhonest : honest_i aok tok Cl Sv sid =
      match flow_i (p_auth Cl) (p_auth Sv) (p_enc Cl) (p_enc Sv) (p_integ Cl) (p_integ Sv) hm hk hm hk cn lo with
      | ADenied => HDenied
      | AFail ce se => HFail ce se (if consulted_i (p_auth Cl) (p_auth Sv) (p_enc Cl) (p_enc Sv) (p_integ Cl) (p_integ Sv) hm hk hm hk cn then fst lp else [])
      | AOk ca sa ce se =>
          let ran := if consulted_i (p_auth Cl) (p_auth Sv) (p_enc Cl) (p_enc Sv) (p_integ Cl) (p_integ Sv) hm hk hm hk cn
                     then match snd lp with LOk x => Some x | _ => None end else None in
          HOk (mkOk (if consulted_i (p_auth Cl) (p_auth Sv) (p_enc Cl) (p_enc Sv) (p_integ Cl) (p_integ Sv) hm hk hm hk cn then fst lp else [])
                 ran ca sa ce se
                 (match ran with
                  | Some x => match offered_under cms (bit x) with Some mc => mc | None => x end
                  | None => m end)
                 (match ran with Some x => x | None => m end)
                 ce se
                 (if ce then Some (KDH (p_pub Cl) (p_pub Sv)) else None)
                 (if se then Some (KDH (p_pub Cl) (p_pub Sv)) else None)
                 sid sid)
      end).
    { unfold honest_i. fold m. fold k. fold sm'. fold cms.
      replace (neg_meth sm' (p_meths Cl)) with m by (unfold sm', m; symmetry; apply neg_meth_seen).
      fold hm. fold hk. fold cn. fold lp. fold lo. reflexivity. }
    rewrite Hhonest. clear Hhonest.
    rewrite must_fail_i_iff, stale_iff.
    destruct (flow_i (p_auth Cl) (p_auth Sv) (p_enc Cl) (p_enc Sv) (p_integ Cl) (p_integ Sv) hm hk hm hk cn lo)
      as [|ce se|ca sa ce se] eqn:F.
    - (* denied *)
      apply andb_true_iff in R as [R1 R2]. apply negb_true_iff in R1. rewrite R1, R2.
      split; [discriminate|]. intros _. split; [reflexivity|]. intro N. contradiction N. reflexivity.
    - (* failure without a denial: exactly the stale-offer cells, both ends fail *)
      apply andb_true_iff in R as [R R3]. apply andb_true_iff in R as [R1 R2]. subst ce se. rewrite R1.
      split; [intros _; eexists; reflexivity|]. intro N. contradiction N. reflexivity.
    - repeat (apply andb_true_iff in R as [R ?]).
      apply negb_true_iff in R.
      repeat match goal with H : Bool.eqb _ _ = true |- _ => apply eqb_prop in H end.
      match goal with H : negb (tb_fail_i _ _ _ _ _ _ _ _) = true |- _ => apply negb_true_iff in H; rename H into RF end.
      rewrite R, RF.
      split; [discriminate|]. intros _. split; [discriminate|]. intros _.
      eexists. split; [reflexivity|]. unfold Agreed_i.
      cbn [k_sauth k_cauth k_ran k_cmeth k_smeth k_creal k_sreal k_cenc k_senc k_csid k_ssid k_ckey k_skey].
      subst ca ce se.
      match goal with H : consulted_i _ _ _ _ _ _ _ _ _ _ _ = sa |- _ => rewrite H end.
      repeat split.
      + intro E. apply auth_runs_i_iff. congruence.
      + intro E. apply auth_runs_i_iff in E. congruence.
      + intro E. rewrite E in *.
        match goal with H : implb true _ = true |- _ => simpl in H; apply andb_true_iff in H as [Hh _] end.
        destruct (Hprem Hh) as (_ & _ & ms & Hl & A & B & D & O). rewrite Hl. exists ms.
        cbn beta iota. rewrite O. auto 8.
      + intro E. rewrite E. reflexivity.
      + intro E.
        assert (Eb : (is_rq (p_enc Cl) || is_rq (p_enc Sv)) || (is_rq (p_integ Cl) || is_rq (p_integ Sv)) = true).
        { apply orb_true_iff. destruct E as [E|E]; apply Req_b in E; auto. }
        match goal with H : implb _ hk = true |- _ => rewrite Eb in H; simpl in H; exact H end.
      + intro E. rewrite E. discriminate.
  Qed.

  (* with a usable token (or no token method in play) no cell is stale *)
  Lemma no_stale_when_tok : tok = true -> ~ StaleOffer aok tok Cl Sv.
  Proof.
    intros T [[x (A & B & C & D)] [N _]]. apply N. exists x. repeat split; auto.
  Qed.
End TableI.

(* the full table for a client whose token methods are backed by a usable token *)
Theorem table_tok aok Cl Sv sid :
  In (p_auth Cl) four_levels -> In (p_auth Sv) four_levels ->
  In (p_enc Cl) four_levels -> In (p_enc Sv) four_levels ->
  In (p_integ Cl) four_levels -> In (p_integ Sv) four_levels ->
  ~ (In mTOK (p_meths Sv) /\ In mIDT (p_meths Sv)) ->
  (forall m, In m (p_meths Cl) -> In m (p_meths Sv) -> m <> mNONE -> aok m = implemented m) ->
  (MustFail_i aok true Cl Sv -> honest_i aok true Cl Sv sid = HDenied) /\
  (~ MustFail_i aok true Cl Sv -> exists r, honest_i aok true Cl Sv sid = HOk r /\ Agreed_i aok true Cl Sv r).
Proof.
  intros H1 H2 H3 H4 H5 H6 H7 H8.
  exact (proj2 (table_full aok true Cl Sv sid H1 H2 H3 H4 H5 H6 H7 H8) (no_stale_when_tok aok true Cl Sv eq_refl)).
Qed.

(* ... and likewise for any client that lists no token method the server lists *)
Lemma no_stale_when_no_token aok tok Cl Sv :
  (forall m, In m (p_meths Cl) -> In m (p_meths Sv) -> is_token m = false) -> ~ StaleOffer aok tok Cl Sv.
Proof.
  intros T [[x (A & B & C & D)] [N _]]. apply N. exists x. repeat split; auto.
  intro E. rewrite (T x A B) in E. discriminate.
Qed.

(* ---- REQUIRED protection, with Integrity and the pre-filter, no hypotheses --------- *)

Lemma flow_i_protection cA sA cE sE cI sI hm hk hm' hk' cn lo ca sa ce se :
  flow_i cA sA cE sE cI sI hm hk hm' hk' cn lo = AOk ca sa ce se ->
  (is_rq cE || is_rq cI = true -> ce = true) /\ (is_rq sE || is_rq sI = true -> se = true) /\ ce = se.
Proof.
  unfold flow_i.
  destruct (decide_i sA cA sE cE sI cI hm hk) as [[e|] [[a b] c]]; [discriminate|].
  destruct (decide_i Ot cA Ot cE Ot cI hm' hk') as [[e|] x]; [discriminate|].
  assert (F : forall ran,
    (if negb hk && (is_rq sE || is_rq sI) then AFail true true
     else if negb hk' && (is_rq cE || is_rq cI) then AFail true false
     else if negb (Bool.eqb hk hk') then AFail true false else AOk ran a hk' hk) = AOk ca sa ce se ->
    (is_rq cE || is_rq cI = true -> ce = true) /\ (is_rq sE || is_rq sI = true -> se = true) /\ ce = se).
  { intros ran H. destruct hk, hk', (is_rq sE || is_rq sI), (is_rq cE || is_rq cI); simpl in H;
      try discriminate; inversion H; subst; auto. }
  destruct a.
  - destruct cn; [discriminate|]. destruct lo; [|discriminate]. apply F.
  - destruct (is_rq cA); [discriminate|]. apply F.
Qed.

Lemma honest_i_protection aok tok Cl Sv sid r :
  honest_i aok tok Cl Sv sid = HOk r ->
  (requires_protection Cl = true -> k_creal r = true) /\
  (requires_protection Sv = true -> k_sreal r = true) /\
  k_creal r = k_sreal r /\ k_cenc r = k_creal r /\ k_senc r = k_sreal r.
Proof.
  unfold honest_i. cbv zeta.
  match goal with |- match ?F with _ => _ end = _ -> _ => destruct F as [|ce se|ca sa ce se] eqn:E end;
    try discriminate.
  intro H. inversion H; subst; simpl.
  apply flow_i_protection in E. destruct E as (A & B & C). unfold requires_protection. auto.
Qed.

(* the model of the first part is the new one whenever nobody requires Integrity and
   the pre-filter lets every token method through *)
Lemma cl_methods_t_true cm sm : cl_methods_t true cm sm = cl_methods cm sm.
Proof.
  unfold cl_methods_t, cl_methods. apply filter_ext. intro a. rewrite orb_true_r, andb_true_r. reflexivity.
Qed.

(* ---- the unconditional statement fails without a usable token ---------------------- *)
Lemma token_refuted :
  (~ MustFail_i implemented false (mkP Pf Op Op [mTOK] [cAES] 11) (mkP Pf Op Op [mTOK] [cAES] 22) /\
   honest_i implemented false (mkP Pf Op Op [mTOK] [cAES] 11) (mkP Pf Op Op [mTOK] [cAES] 22) 5 = HFail true true []) /\
  (MustFail_i implemented false (mkP Op Op Op [mTOK] [cAES] 11) (mkP Rq Op Op [mTOK] [cAES] 22) /\
   honest_i implemented false (mkP Op Op Op [mTOK] [cAES] 11) (mkP Rq Op Op [mTOK] [cAES] 22) 5 = HFail true true []).
Proof.
  split; split; try (vm_compute; reflexivity).
  - unfold MustFail_i, Req, Nev, MutualCipher. simpl.
    intros [[[H|H] _]|[[[H|H] _]|[[[H|H] _]|[[[H|H] _]|[[[H|H] _]|[[H|H] _]]]]]]; discriminate.
  - unfold MustFail_i. do 3 right. left. split; [right; reflexivity|].
    intros [x (Hc & _ & _ & _ & Ht)]. simpl in Hc. destruct Hc as [<-|[]]. specialize (Ht eq_refl). discriminate.
Qed.
