(* Proofs/C04sites.v — the call-site obligations of C04.

   C04_binding is about two endpoints running arbitrary sequences of the cleartext operations
   `cop`.  That this says anything about cedar's handshakes rests on a premise about the SOURCE:
   between the construction of the Stream a handshake runs on and SetSymmetricKey, every byte
   the handshake code exchanges with the peer goes through the digest-updating Stream
   operations `cop` models.  gen/FactsC04.v is regenerated from /repo's source on every run
   (harness/cmd/vh-c04 facts); the obligations below are re-proved over it by vm_compute, so a
   handshake step that reads with ReceiveFrame or from the raw connection, a Stream method that
   stops feeding the digest, a digest that is reset or swapped, each break a named lemma here.

   Every allow-list entry carries a reason; an empty reason does not count (reasons_given). *)
From Coq Require Import List Bool String.
From Cedar Require Import gen.FactsC04.
Import ListNotations.
Local Open Scope string_scope.

Notation str := String.string (only parsing).
Definition seqb := String.eqb.
Definition mem (x : str) (l : list str) : bool := existsb (seqb x) l.
Definition subset (a b : list str) : bool := forallb (fun x => mem x b) a.
Definition prefix_of (p s : str) : bool := String.prefix p s.
Definition nonempty (s : str) : bool := negb (seqb s "").

(* ------------------------------------------------------------------------------------------ *)
(* 1. the method table: every Stream / StreamInterface method the handshake code may call,    *)
(*    the class of model operation that stands for it (Proofs/C04Binding.v copclass), and why *)
(* ------------------------------------------------------------------------------------------ *)
Inductive mclass := MSend | MRecv | MSetAddr | MSetAuth | MNop | MKey | MFinalize.

Definition method_table : list (str * mclass * str) := [
  ("WriteFrame",   MSend, "SendMessage / SendPartialMessage = sendMessageWithEnd(data, 1|0): cop CSend d fl, model send_frame");
  ("SendMessage",  MSend, "sendMessageWithEnd(data, 1): CSend d 1");
  ("SendPartialMessage", MSend, "sendMessageWithEnd(data, 0): CSend d 0");
  ("ReadFrame",    MRecv, "ReceiveFrameWithEnd: cop CRecv fl d, model recv_frame_we (hashes zero-length frames too)");
  ("ReceiveFrameWithEnd", MRecv, "cop CRecv fl d, model recv_frame_we");
  ("ReceiveCompleteMessage", MRecv, "a loop of ReceiveFrameWithEnd: a run of CRecv, model recv_complete");
  ("SetPeerAddr",  MSetAddr, "writes peerAddr only: cop CSetConn addr (set_connection is exactly that update)");
  ("SetConnection", MSetAddr, "replaces conn/reader/writer and peerAddr; the digests run on: cop CSetConn addr");
  ("SetAuthenticated", MSetAuth, "writes the authenticated flag only: cop CSetAuth b");
  ("IsEncrypted",  MNop, "reads gcm/encrypted: cop CNop");
  ("IsAuthenticated", MNop, "reads a flag: cop CNop");
  ("GetPeerAddr",  MNop, "reads peerAddr: cop CNop");
  ("IsConnected",  MNop, "reads conn != nil: cop CNop");
  ("GetConnection", MNop, "returns conn; what is done with the result is the separate list conn_uses: cop CNop");
  ("Close",        MNop, "closes the transport: no byte moves, nothing can be accepted afterwards: cop CNop");
  ("SetSymmetricKey", MKey, "ends the cleartext phase: set_key (freezes both digests)");
  ("FinalizeDigests", MFinalize, "finalize_digests; allowed only where nothing stream-affecting can follow (finalize_sites): C04_finalize_before_key_is_neutral")
].

Definition lookup (m : str) : option mclass :=
  match find (fun e : str * mclass * str => seqb (fst (fst e)) m) method_table with
  | Some e => Some (snd (fst e)) | None => None end.

Definition modelled (c : str * str) : bool := match lookup (snd c) with Some _ => true | None => false end.

(* which transport-I/O functions of package stream a method of each class may reach *)
Definition reach_of (m : str) : option (list str) :=
  match find (fun e : str * list str => seqb (fst e) m) reaches with Some e => Some (snd e) | None => None end.
Definition reach_ok (e : str * mclass * str) : bool :=
  match reach_of (fst (fst e)) with
  | None => false                                  (* the method no longer exists *)
  | Some r =>
      match snd (fst e) with
      | MSend => subset r ["sendMessageWithEnd"] && negb (match r with [] => true | _ => false end)
      | MRecv => subset r ["ReceiveFrameWithEnd"; "<self>"; "readWithContext"] && mem "ReceiveFrameWithEnd" (fst (fst e) :: r)
      | _ => match r with [] => true | _ => false end   (* accessors, flags, key installation: no transport I/O at all *)
      end
  end.

(* ------------------------------------------------------------------------------------------ *)
(* 2. package stream: who moves transport bytes, and that each of them feeds the digest        *)
(* ------------------------------------------------------------------------------------------ *)
Definition tr3 := (str * str * str)%type.
Definition has3 (l : list tr3) (a b c : str) : bool :=
  existsb (fun e : tr3 => seqb (fst (fst e)) a && seqb (snd (fst e)) b && seqb (snd e) c) l.

(* success returns that do not feed the digest, with the reason each is tolerated *)
Definition unhashed_allowed : list (str * str * str) := [
  ("stream.Stream.ReceiveFrame", "recvDigest",
   "the zero-length branch of ReceiveFrame returns without hashing the 5 header bytes; modelled (recv_frame_gen false), outside the receive API of the theorem, and no handshake call reaches ReceiveFrame (C04_handshake_io_is_hashed, first part)")
].

Definition tio_ok (e : str * str) : bool :=
  let f := fst e in
  if seqb (snd e) "read" then
    has3 digest_touch f "recvDigest" "update" && has3 success_paths f "recvDigest" "hashed"
    && (negb (has3 success_paths f "recvDigest" "unhashed")
        || existsb (fun a : tr3 => seqb (fst (fst a)) f && seqb (snd (fst a)) "recvDigest" && nonempty (snd a)) unhashed_allowed)
  else if seqb (snd e) "write" then
    has3 digest_touch f "sendDigest" "update" && has3 success_paths f "sendDigest" "hashed"
    && negb (has3 success_paths f "sendDigest" "unhashed")
  else if seqb (snd e) "raw-read" then seqb f "stream.Stream.readWithContext"
  else if seqb (snd e) "raw-write" then seqb f "stream.Stream.writeWithContext"
  else false.

(* the conditions an update of the digest may sit under: "the digest of this direction is still
   running" (live), the zero-length-frame branch (zerolen), and "skip an empty Write" (nonempty,
   payload only and only beside an unconditional-but-live header update in the same function) *)
Definition guards_ok (e : str * str * str * list str) : bool :=
  let '(f, fld, what, gs) := e in
  match gs with
  | ["live"] => true
  | ["live"; "zerolen"] => true
  | ["live"; "nonempty"] =>
      seqb what "bytes" &&
      existsb (fun e2 : str * str * str * list str =>
                 let '(f2, fld2, what2, gs2) := e2 in
                 seqb f2 f && seqb fld2 fld && seqb what2 "header" && match gs2 with ["live"] => true | _ => false end)
              digest_guards
  | _ => false
  end.

(* who may do what to the six digest fields *)
Definition touch_ok (e : tr3) : bool :=
  let f := fst (fst e) in let fld := snd (fst e) in let k := snd e in
  let hashfld := seqb fld "sendDigest" || seqb fld "recvDigest" in
  if seqb k "read" || seqb k "sum" then true
  else if seqb k "update" then hashfld
  else if seqb k "init" then seqb f "stream.NewStream" && hashfld
  else if seqb k "new-stream-literal" then seqb f "stream.NewStream"
  else if seqb k "assign" then
    negb hashfld &&            (* the hash states are never replaced *)
    mem f ["stream.Stream.sendMessageWithEnd"; "stream.Stream.ReceiveFrame"; "stream.Stream.ReceiveFrameWithEnd";
           "stream.Stream.finalizeSendDigest"; "stream.Stream.finalizeRecvDigest";
           "stream.NewStreamWithCryptoState"]   (* import of an already keyed session: the frozen digests come with it *)
  else false.                  (* reset, address-taken, any other method of hash.Hash *)

(* the translator did not go blind: what the property is anchored in must be among the facts *)
Definition required_stream_facts : bool :=
  has3 digest_touch "stream.Stream.sendMessageWithEnd" "sendDigest" "update" &&
  has3 digest_touch "stream.Stream.ReceiveFrameWithEnd" "recvDigest" "update" &&
  has3 digest_touch "stream.Stream.finalizeSendDigest" "sendDigest" "sum" &&
  has3 digest_touch "stream.Stream.finalizeRecvDigest" "recvDigest" "sum" &&
  existsb (fun e : str * str => seqb (fst e) "stream.Stream.ReceiveFrameWithEnd" && seqb (snd e) "read") transport_io &&
  existsb (fun e : str * str => seqb (fst e) "stream.Stream.sendMessageWithEnd" && seqb (snd e) "write") transport_io &&
  existsb (fun e : str * str => seqb (fst e) "stream.Stream.readWithContext" && seqb (snd e) "raw-read") transport_io &&
  existsb (fun e : str * str => seqb (fst e) "stream.Stream.writeWithContext" && seqb (snd e) "raw-write") transport_io.

Definition has2 (l : list (str * str)) (a b : str) : bool := existsb (fun e : str * str => seqb (fst e) a && seqb (snd e) b) l.
Definition required_call_facts : bool :=
  has2 iface_calls "message.Message.ensureData" "ReadFrame" &&
  has2 iface_calls "message.Message.FlushFrame" "WriteFrame" &&
  has2 stream_calls "security.Authenticator.setupStreamEncryption" "SetSymmetricKey" &&
  has2 iface_values "security.Authenticator.performFullAuthentication" "*stream.Stream" &&
  has2 iface_values "security.Authenticator.ServerHandshakeWithMessage" "*stream.Stream" &&
  has2 iface_values "security.Authenticator.resumeSession" "*stream.Stream" &&
  has2 new_streams "server.Server.ServeConn" "one".

(* ------------------------------------------------------------------------------------------ *)
(* 3. the raw connection                                                                       *)
(* ------------------------------------------------------------------------------------------ *)
(* uses of the result of GetConnection() that move no byte *)
Definition accessor_uses : list str :=
  ["call:Close"; "call:RemoteAddr"; "call:LocalAddr"; "nilcheck"; "discard";
   "call:SetDeadline"; "call:SetReadDeadline"; "call:SetWriteDeadline"].

Definition conn_use_allowed : list (str * str * str) := [
  ("ccb.brokerReg.register", "store:field:conn",
   "the broker registration keeps the connection only to Close() it on shutdown (closeConn); all traffic on it goes through r.stream");
  ("ccb.brokerReg.handleRequest", "arg:?.Handler",
   "reversed CCB connection: after the one-message CCB preamble the connection is handed to the user's handler, which starts the security handshake on a FRESH Stream (server.ServeConn); the preamble is routing, symmetric on both ends (ccb.acceptReversed), and precedes the handshake");
  ("ccb.dialBrokerAuthCmd", "return",
   "returned to the caller only after ClientHandshake has completed on the Stream returned with it; callers close it or use it as the tunnel carrier after the handshake")
].

Definition conn_use_ok (e : str * str) : bool :=
  mem (snd e) accessor_uses
  || existsb (fun a : tr3 => seqb (fst (fst a)) (fst e) && seqb (snd (fst a)) (snd e) && nonempty (snd a)) conn_use_allowed.

(* direct I/O on connection-like values in the handshake packages *)
Definition raw_io_allowed : list (str * str * str) := [
  ("client/sharedport.", "*net.UnixConn",
   "shared-port fd passing over a local unix socket between two processes of one host (SCM_RIGHTS): not the peer connection of a handshake");
  ("security.SSLAuthenticator.", "*crypto/tls.Conn",
   "the TLS engine's transport is CEDARTLSConnection, whose sendMessage/receiveMessage are Messages over the authenticator's Stream (iface_values lists both): every TLS record travels in hashed CEDAR frames")
].
Definition raw_io_ok (e : tr3) : bool :=
  existsb (fun a : tr3 => prefix_of (fst (fst a)) (fst (fst e)) && seqb (snd (fst a)) (snd e) && nonempty (snd a)) raw_io_allowed.

(* ------------------------------------------------------------------------------------------ *)
(* 4. the digest state is the one the handshake started with                                   *)
(* ------------------------------------------------------------------------------------------ *)
Definition several_streams_allowed : list (str * str) := [
  ("ccb.dialBrokerWith",
   "direct dial or shared-port dial of the broker: two exclusive branches, plus the shared-port preamble Stream that is replaced by a fresh one before any handshake");
  ("client.HTCondorClient.Connect",
   "exclusive branches (CCB, shared port, direct TCP), each creating the one Stream the handshake then runs on");
  ("client/sharedport.SharedPortClient.ConnectViaSharedPort",
   "the shared-port request is read by the shared-port server, not by the target daemon: the Stream is re-created afterwards so that the transcript digests start with the handshake, on both ends (HTCondor does the same)")
].
Definition new_stream_ok (e : str * str) : bool :=
  negb (prefix_of "security." (fst e)) &&          (* the handshake proper never creates a Stream *)
  (seqb (snd e) "one"
   || existsb (fun a : str * str => seqb (fst a) (fst e) && nonempty (snd a)) several_streams_allowed).

Definition stream_store_allowed : list (str * str * str) := [
  ("security.NewAuthenticator", "stream", "the constructor: the Stream the handshake runs on, set once");
  ("server.Server.ServeConn", "Stream", "the per-connection record built after the handshake");
  ("client.HTCondorClient.Connect", "stream", "the client's one Stream, created here before any handshake");
  ("ccb.brokerReg.register", "stream", "kept after ClientHandshake has completed on it");
  ("ccb.brokerReg.closeConn", "stream", "set to nil on shutdown")
].
Definition stream_store_ok (e : str * str) : bool :=
  existsb (fun a : tr3 => seqb (fst (fst a)) (fst e) && seqb (snd (fst a)) (snd e) && nonempty (snd a)) stream_store_allowed.

Definition finalize_ok (e : str * list str) : bool := match snd e with [] => true | _ => false end.
Definition iface_value_ok (e : str * str) : bool := seqb (snd e) "*stream.Stream".

Definition reasons_given : bool :=
  forallb (fun e : str * mclass * str => nonempty (snd e)) method_table &&
  forallb (fun e : tr3 => nonempty (snd e)) unhashed_allowed &&
  forallb (fun e : tr3 => nonempty (snd e)) conn_use_allowed &&
  forallb (fun e : tr3 => nonempty (snd e)) raw_io_allowed &&
  forallb (fun e : str * str => nonempty (snd e)) several_streams_allowed &&
  forallb (fun e : tr3 => nonempty (snd e)) stream_store_allowed.

(* ------------------------------------------------------------------------------------------ *)
(* the obligations, re-proved on the regenerated lists                                         *)
(* ------------------------------------------------------------------------------------------ *)
Lemma calls_modelled_b : forallb modelled (stream_calls ++ iface_calls) = true.
Proof. vm_compute. reflexivity. Qed.
Lemma table_reach_b : forallb reach_ok method_table = true.
Proof. vm_compute. reflexivity. Qed.
Lemma tio_b : forallb tio_ok transport_io = true.
Proof. vm_compute. reflexivity. Qed.
Lemma guards_b : forallb guards_ok digest_guards = true.
Proof. vm_compute. reflexivity. Qed.
Lemma touch_b : forallb touch_ok digest_touch = true.
Proof. vm_compute. reflexivity. Qed.
Lemma required_b : required_stream_facts && required_call_facts && reasons_given = true.
Proof. vm_compute. reflexivity. Qed.
Lemma conn_uses_b : forallb conn_use_ok conn_uses = true.
Proof. vm_compute. reflexivity. Qed.
Lemma raw_io_b : forallb raw_io_ok raw_io = true.
Proof. vm_compute. reflexivity. Qed.
Lemma iface_values_b : forallb iface_value_ok iface_values = true.
Proof. vm_compute. reflexivity. Qed.
Lemma escapes_b : stream_escapes = [].
Proof. vm_compute. reflexivity. Qed.
Lemma ctor_b : digest_ctor = [].
Proof. vm_compute. reflexivity. Qed.
Lemma new_streams_b : forallb new_stream_ok new_streams = true.
Proof. vm_compute. reflexivity. Qed.
Lemma stores_b : forallb stream_store_ok stream_stores = true.
Proof. vm_compute. reflexivity. Qed.
Lemma finalize_b : forallb finalize_ok finalize_sites = true.
Proof. vm_compute. reflexivity. Qed.

(* lifted to the quantified statements used in Props/C04.v *)
Lemma every_handshake_call_is_modelled :
  forall c, In c (stream_calls ++ iface_calls) -> exists k, lookup (snd c) = Some k.
Proof.
  intros c Hc. pose proof calls_modelled_b as H. rewrite forallb_forall in H. specialize (H c Hc).
  unfold modelled in H. destruct (lookup (snd c)) as [k|]; [exists k; reflexivity|discriminate H].
Qed.

Lemma handshake_io_is_hashed :
  (forall e, In e method_table -> reach_ok e = true) /\
  (forall e, In e transport_io -> tio_ok e = true) /\
  (forall e, In e digest_guards -> guards_ok e = true) /\
  (forall e, In e digest_touch -> touch_ok e = true) /\
  required_stream_facts && required_call_facts && reasons_given = true.
Proof.
  split; [|split; [|split; [|split]]].
  - apply forallb_forall. exact table_reach_b.
  - apply forallb_forall. exact tio_b.
  - apply forallb_forall. exact guards_b.
  - apply forallb_forall. exact touch_b.
  - exact required_b.
Qed.

Lemma raw_connection_unused_for_io :
  (forall e, In e conn_uses -> conn_use_ok e = true) /\
  (forall e, In e raw_io -> raw_io_ok e = true) /\
  (forall e, In e iface_values -> iface_value_ok e = true) /\
  stream_escapes = [].
Proof.
  split; [|split; [|split]].
  - apply forallb_forall. exact conn_uses_b.
  - apply forallb_forall. exact raw_io_b.
  - apply forallb_forall. exact iface_values_b.
  - exact escapes_b.
Qed.

Lemma digest_state_not_replaced :
  digest_ctor = [] /\
  (forall e, In e new_streams -> new_stream_ok e = true) /\
  (forall e, In e stream_stores -> stream_store_ok e = true) /\
  (forall e, In e finalize_sites -> snd e = []).
Proof.
  split; [|split; [|split]].
  - exact ctor_b.
  - apply forallb_forall. exact new_streams_b.
  - apply forallb_forall. exact stores_b.
  - intros e He. pose proof finalize_b as H. rewrite forallb_forall in H. specialize (H e He).
    unfold finalize_ok in H. destruct (snd e); [reflexivity|discriminate].
Qed.
