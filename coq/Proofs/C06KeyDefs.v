(* Proofs/C06KeyDefs.v — histories that also contain connections accepted by the
   dispatching server (server.ServeConn: resumption, then the command is served or
   refused), and the predicates the key-immutability theorems are stated with.
   Definitions only. *)
From Coq Require Import List NArith ZArith Bool.
From Cedar Require Import Lib.Bytes Lib.Sym Model.Cache Model.Resume Proofs.C06Defs.
Import ListNotations.
Local Open Scope Z_scope.

(* an event of C06Defs (store, bare resumption, renew, tick, Invalidate, sweep, resumption with
   invalidations in flight), or a connection through a dispatching server with ANY command table,
   per-command policy and Authorizer: the command may be served or refused in any of the ways *)
Inductive kevent :=
| KBase (e : sevent)
| KServe (d : dsrv) (q : request) (wire_cmd : Z).

(* what a request got: reply, handshake result, and the dispatch decision if there was one *)
Definition kobs := (request * reply * sres * option dres)%type.

Definition kstep (st : srv * Z) (e : kevent) : (srv * Z) * list kobs :=
  match e with
  | KBase ev => let '(st', o) := sstep st ev in (st', map (fun x => (x, @None dres)) o)
  | KServe d q wc =>
      let '(s', rep, res, dr) := serve_conn d (fst st) (snd st) q wc in ((s', snd st), [(q, rep, res, dr)])
  end.

Fixpoint krun (st : srv * Z) (h : list kevent) : (srv * Z) * list kobs :=
  match h with
  | [] => (st, [])
  | e :: r => let '(st1, o1) := kstep st e in let '(st2, o2) := krun st1 r in (st2, o1 ++ o2)
  end.

(* which cache a found_in names: true = the server's own, false = the process-wide one *)
Definition has_custom (s : srv) : bool := match s_custom s with Some _ => true | None => false end.
Definition slotb (hc : bool) (w : found_in) : bool := match w with InCustom => hc | InGlobal => false end.

(* every entry stored under sid in cache w carries key k (in particular when there is none) *)
Definition key_is (s : srv) (w : found_in) (sid : str) (k : option key_info) : Prop :=
  forall e, In e (c_sessions (cache_at s w)) -> e_id e = sid -> e_key e = k.

(* the key of the LAST Store under sid into cache w in the history; k0 when the history has none *)
Definition last_key1 (hc : bool) (w : found_in) (sid : str) (k : option key_info) (ev : kevent) : option key_info :=
  match ev with
  | KBase (SEstablish en w') =>
      if Bool.eqb (slotb hc w') (slotb hc w) && bytes_eqb (e_id en) sid then e_key en else k
  | _ => k
  end.
Definition last_key (hc : bool) (w : found_in) (sid : str) (k0 : option key_info) (h : list kevent) : option key_info :=
  fold_left (last_key1 hc w sid) h k0.
