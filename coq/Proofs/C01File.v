(* Proofs/C01File.v — a file sent with PutFile arrives intact through GetFile, on plaintext and
   on AES-GCM streams alike, and the two ends stay paired. *)
From Coq Require Import List NArith ZArith Bool Lia.
From Cedar Require Import Lib.Bytes Lib.Sym gen.Consts Model.Frame Model.File Proofs.FrameBase.
Import ListNotations.
Local Open Scope N_scope.

Lemma consts_file :
  FileChunk = 65536 /\ FileEofMarker = 666 /\ FileSizeLen = 8 /\ FileMarkerLen = 4 /\
  FlagMaxRecv = FlagMaxRecvWE /\ EndFlagComplete <= FlagMaxRecvWE.
Proof. vm_compute. repeat split; discriminate. Qed.

(* ReceiveFrame and ReceiveFrameWithEnd agree on every non-empty payload *)
Lemma recv_frame_of_we B f B' d fl :
  recv_frame_we B f = (B', SOk (d, fl)) -> d <> [] -> recv_frame B f = (B', SOk d).
Proof.
  destruct consts_file as [_ [_ [_ [_ [Hfm _]]]]].
  unfold recv_frame, recv_frame_we, recv_frame_gen. rewrite Hfm.
  destruct (max_wire B <? body_len (f_body f)); [discriminate|].
  destruct (FlagMaxRecvWE <? f_flag f); [discriminate|].
  destruct (body_len (f_body f) =? 0).
  - destruct (enc_active B); [discriminate|]. intros E Hne. inversion E; subst. contradiction.
  - destruct (recv_body B (hdr_of (f_flag f) (body_len (f_body f))) (f_body f)) as [s1 [x|e]]; [|discriminate].
    intros E _. inversion E; subst. reflexivity.
Qed.

Lemma send_recv_plainapi A B d A' f :
  duplex A B -> d <> [] -> send_frame A d EndFlagComplete = (A', SOk f) ->
  exists B', recv_frame B f = (B', SOk d) /\ duplex A' B'.
Proof.
  intros D Hne Hs. destruct consts_file as [_ [_ [_ [_ [_ Hfl]]]]].
  destruct (send_recv_frame _ _ _ _ _ _ D Hfl Hs) as [B' [Hr D']].
  exists B'. split; [eapply recv_frame_of_we; eassumption|exact D'].
Qed.

(* ---- the pieces ----------------------------------------------------------- *)
Lemma chunk_pos : (0 < N.to_nat FileChunk)%nat.
Proof.
  destruct consts_file as [H _]. rewrite H.
  assert (Hn : N.to_nat 65536 <> 0%nat).
  { intro E. apply (f_equal N.of_nat) in E. rewrite N2Nat.id in E. discriminate. }
  set (n := N.to_nat 65536) in *. lia.
Qed.

Lemma chunks_nonempty fuel d : Forall (fun c => c <> []) (chunks fuel d).
Proof.
  revert d. induction fuel as [|fu IH]; intro d; cbn [chunks]; [constructor|].
  destruct d as [|x d']; [constructor|]. constructor; [|apply IH].
  pose proof chunk_pos as Hp. destruct (N.to_nat FileChunk) as [|n]; [lia|]. cbn [firstn]. discriminate.
Qed.

Lemma chunks_concat fuel d : (length d <= fuel)%nat -> concat (chunks fuel d) = d.
Proof.
  revert d. induction fuel as [|fu IH]; intros d Hl; cbn [chunks].
  - destruct d; [reflexivity|cbn [length] in Hl; lia].
  - destruct d as [|x d']; [reflexivity|]. cbn [concat].
    set (n := N.to_nat FileChunk). set (l := x :: d') in *.
    rewrite IH; [apply firstn_skipn|].
    rewrite skipn_length. pose proof chunk_pos as Hp. fold n in Hp. subst l. cbn [length] in *. lia.
Qed.

(* ---- sender --------------------------------------------------------------- *)
Lemma send_msgs_cons s m r s' fs :
  send_msgs s (m :: r) = (s', 0, fs) ->
  exists s1 f fs', send_frame s m EndFlagComplete = (s1, SOk f) /\ send_msgs s1 r = (s', 0, fs') /\ fs = f :: fs'.
Proof.
  cbn [send_msgs]. destruct (send_frame s m EndFlagComplete) as [s1 [f|e]] eqn:E.
  - destruct (send_msgs s1 r) as [[s2 e2] fs2] eqn:E2. intro H; inversion H; subst.
    exists s1, f, fs2. split; [reflexivity|split; [exact E2|reflexivity]].
  - intro H; inversion H.
Qed.

Lemma send_msgs_app s a b s' fs :
  send_msgs s (a ++ b) = (s', 0, fs) ->
  exists s1 fs1 fs2, send_msgs s a = (s1, 0, fs1) /\ send_msgs s1 b = (s', 0, fs2) /\ fs = fs1 ++ fs2.
Proof.
  revert s fs. induction a as [|m a IH]; intros s fs H.
  - exists s, [], fs. repeat split. exact H.
  - cbn [app] in H. destruct (send_msgs_cons _ _ _ _ _ H) as [s1 [f [fs' [Hs [Hr ->]]]]].
    destruct (IH _ _ Hr) as [s2 [fs1 [fs2 [H1 [H2 ->]]]]].
    exists s2, (f :: fs1), fs2. split; [|split; [exact H2|reflexivity]].
    cbn [send_msgs]. rewrite Hs, H1. reflexivity.
Qed.

(* ---- receiver: the content loop ---------------------------------------------- *)
Lemma get_chunks_ok cs : forall A B A1 fs1 tot got more,
  duplex A B -> Forall (fun c => c <> []) cs -> send_msgs A cs = (A1, 0, fs1) ->
  exists B1, get_chunks B (Z.of_N (tot + lenN (concat cs))) tot got (fs1 ++ more) = (B1, SOk (got ++ concat cs), more)
             /\ duplex A1 B1.
Proof.
  induction cs as [|c cs IH]; intros A B A1 fs1 tot got more D Hne Hs.
  - cbn [send_msgs] in Hs. inversion Hs; subst. exists B. cbn [concat]. rewrite lenN_nil, N.add_0_r, app_nil_r.
    split; [|exact D]. cbn [app]. destruct more as [|m more']; cbn [get_chunks]; rewrite Z.leb_refl; reflexivity.
  - inversion Hne as [|c' cs' Hc Hcs]; subst.
    destruct (send_msgs_cons _ _ _ _ _ Hs) as [A' [f [fs' [Hsf [Hr ->]]]]].
    destruct (send_recv_plainapi _ _ _ _ _ D Hc Hsf) as [B' [Hrf D']].
    cbn [concat]. rewrite lenN_app.
    assert (Hpos : 0 < lenN c). { destruct c as [|x c0]; [contradiction|rewrite lenN_cons; lia]. }
    cbn [app get_chunks].
    assert (Hlt : (Z.of_N (tot + (lenN c + lenN (concat cs))) <=? Z.of_N tot)%Z = false) by (apply Z.leb_gt; lia).
    rewrite Hlt, Hrf.
    destruct (IH _ _ _ _ (tot + lenN c) (got ++ c) more D' Hcs Hr) as [B1 [Hg D1]].
    exists B1. split; [|exact D1].
    replace (tot + (lenN c + lenN (concat cs))) with (tot + lenN c + lenN (concat cs)) by lia.
    rewrite Hg. rewrite <- app_assoc. reflexivity.
Qed.

Lemma lenN_be_enc k n : lenN (be_enc k n) = N.of_nat k.
Proof. rewrite lenN_spec, be_enc_length. reflexivity. Qed.

(* ---- the round trip ------------------------------------------------------------ *)
Lemma file_roundtrip A B d A' fs :
  duplex A B -> lenN d < 9223372036854775808 -> put_file A d = (A', 0, fs) ->
  exists B', get_file B fs = (B', SOk d, []) /\ duplex A' B'.
Proof.
  intros D Hsz Hp. destruct consts_file as [_ [Hm [Hsl [Hml _]]]].
  unfold put_file, file_msgs in Hp.
  destruct (send_msgs_cons _ _ _ _ _ Hp) as [A1 [f0 [fs' [Hs0 [Hr ->]]]]].
  destruct (send_msgs_app _ _ _ _ _ Hr) as [A2 [fs1 [fs2 [Hc [Hmk ->]]]]].
  destruct (send_msgs_cons _ _ _ _ _ Hmk) as [A3 [fm [fs3 [Hsm [Hnil ->]]]]].
  cbn [send_msgs] in Hnil. inversion Hnil; subst A3 fs3.
  assert (Hne0 : be_enc 8 (lenN d) <> []) by (intro E; apply (f_equal (@length _)) in E; rewrite be_enc_length in E; discriminate).
  destruct (send_recv_plainapi _ _ _ _ _ D Hne0 Hs0) as [B1 [Hr0 D1]].
  pose proof (chunks_nonempty (length d) d) as Hcn.
  pose proof (chunks_concat (length d) d (le_n _)) as Hcc.
  destruct (get_chunks_ok _ _ _ _ _ 0 [] [fm] D1 Hcn Hc) as [B2 [Hg D2]].
  rewrite Hcc, N.add_0_l in Hg. cbn [app] in Hg.
  assert (Hnem : be_enc 4 FileEofMarker <> []) by (intro E; apply (f_equal (@length _)) in E; rewrite be_enc_length in E; discriminate).
  destruct (send_recv_plainapi _ _ _ _ _ D2 Hnem Hsm) as [B3 [Hrm D3]].
  exists B3. split; [|exact D3].
  unfold get_file. cbn [app]. rewrite Hr0.
  rewrite lenN_be_enc, Hsl. change (N.of_nat 8 =? 8) with true. cbn [negb].
  rewrite be_dec_enc. change (2 ^ (8 * N.of_nat 8)) with 18446744073709551616.
  rewrite N.mod_small by lia.
  unfold to_i64. assert (E : lenN d <? 9223372036854775808 = true) by (apply N.ltb_lt; exact Hsz). rewrite E.
  rewrite Hg, Hrm.
  rewrite lenN_be_enc, Hml. change (N.of_nat 4 =? 4) with true. cbn [negb].
  rewrite be_dec_enc. change (2 ^ (8 * N.of_nat 4)) with 4294967296.
  rewrite Hm. change (666 mod 4294967296 =? 666) with true. reflexivity.
Qed.
