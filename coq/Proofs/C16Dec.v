(* Proofs/C16Dec.v — decimal rendering (strconv.FormatInt / Itoa / %d) and
   strconv.ParseInt are inverse on int64; the rendered text consists of digits and
   at most a leading '-' (so it is safe inside a session_info block). *)
From Coq Require Import List NArith ZArith Lia Bool.
From Coq Require Import ZifyBool ZifyN.
From Cedar Require Import Lib.Bytes Lib.SymC16 Model.ClaimId Proofs.C16Str.
Import ListNotations.
Local Open Scope N_scope.

Lemma digit_val_digit d : d < 10 -> digit_val (digit d) = Some d.
Proof.
  intro H. unfold digit_val, digit. rewrite b2n_n2b.
  rewrite N.mod_small by lia.
  assert ((48 <=? 48 + d) && (48 + d <=? 57) = true) as -> by lia.
  f_equal. lia.
Qed.

Lemma is_digit_digit d : d < 10 -> is_digit (digit d) = true.
Proof. intro H. unfold is_digit. rewrite (digit_val_digit _ H). reflexivity. Qed.

Lemma parse_digits_app acc a b :
  parse_digits acc (a ++ b)
  = match parse_digits acc a with Some n => parse_digits n b | None => None end.
Proof.
  revert acc. induction a as [|x a IH]; intro acc; simpl; [reflexivity|].
  destruct (digit_val x); [apply IH|reflexivity].
Qed.

Lemma dec_fuel_acc f : forall n acc, dec_fuel f n acc = dec_fuel f n [] ++ acc.
Proof.
  induction f as [|f IH]; intros n acc; simpl; [reflexivity|].
  destruct (n <? 10); [reflexivity|].
  rewrite (IH (n / 10) (digit (n mod 10) :: acc)), (IH (n / 10) [digit (n mod 10)]).
  rewrite <- app_assoc. reflexivity.
Qed.

Lemma parse_dec_fuel f : forall n, n < 10 ^ N.of_nat f -> parse_digits 0 (dec_fuel f n []) = Some n.
Proof.
  induction f as [|f IH]; intros n H.
  - simpl in *. f_equal. lia.
  - cbn [dec_fuel]. destruct (n <? 10) eqn:E.
    + simpl. rewrite digit_val_digit by (apply N.mod_lt; lia).
      f_equal. apply N.ltb_lt in E. rewrite N.mod_small by lia. lia.
    + rewrite dec_fuel_acc, parse_digits_app.
      assert (Hq : n / 10 < 10 ^ N.of_nat f).
      { apply N.div_lt_upper_bound; [lia|].
        replace (N.of_nat (S f)) with (N.succ (N.of_nat f)) in H by lia.
        rewrite N.pow_succ_r' in H. exact H. }
      rewrite (IH _ Hq). simpl. rewrite digit_val_digit by (apply N.mod_lt; lia).
      f_equal. pose proof (N.div_mod n 10). lia.
Qed.

Lemma fuel_enough n : n < 10 ^ N.of_nat (S (N.to_nat (N.log2 n))).
Proof.
  replace (N.of_nat (S (N.to_nat (N.log2 n)))) with (N.succ (N.log2 n)) by lia.
  destruct (N.eq_dec n 0) as [->|Hn].
  - simpl. lia.
  - assert (Hpos : 0 < n) by lia.
    pose proof (N.log2_spec n Hpos) as [_ Hlt].
    eapply N.lt_le_trans; [exact Hlt|].
    apply N.pow_le_mono_l. lia.
Qed.

Lemma parse_dec_of_N n : parse_digits 0 (dec_of_N n) = Some n.
Proof. unfold dec_of_N. apply parse_dec_fuel, fuel_enough. Qed.

(* every byte rendered is a digit; the rendering is not empty *)
Lemma dec_fuel_digits f : forall n acc,
  forallb is_digit acc = true -> forallb is_digit (dec_fuel f n acc) = true.
Proof.
  induction f as [|f IH]; intros n acc H; simpl; [exact H|].
  assert (Hd : is_digit (digit (n mod 10)) = true) by (apply is_digit_digit, N.mod_lt; lia).
  destruct (n <? 10).
  - simpl. rewrite Hd, H. reflexivity.
  - apply IH. simpl. rewrite Hd, H. reflexivity.
Qed.
Lemma dec_of_N_digits n : forallb is_digit (dec_of_N n) = true.
Proof. unfold dec_of_N. apply dec_fuel_digits. reflexivity. Qed.

Lemma dec_fuel_nonnil f n acc : dec_fuel (S f) n acc <> [].
Proof.
  cbn [dec_fuel]. destruct (n <? 10); [discriminate|].
  rewrite dec_fuel_acc. intro E. apply app_eq_nil in E as [_ E]. discriminate.
Qed.
Lemma dec_of_N_nonnil n : dec_of_N n <> [].
Proof. unfold dec_of_N. apply dec_fuel_nonnil. Qed.

Definition dec_char (b : byte) : bool := is_digit b || byte_eqb b ch_minus.

Lemma forallb_impl {A} (f g : A -> bool) l :
  (forall x, f x = true -> g x = true) -> forallb f l = true -> forallb g l = true.
Proof.
  intros H. induction l as [|x l IH]; simpl; [reflexivity|].
  intro E. apply andb_true_iff in E as [E1 E2]. rewrite (H _ E1), (IH E2). reflexivity.
Qed.

Lemma dec_of_Z_chars z : forallb dec_char (dec_of_Z z) = true.
Proof.
  unfold dec_of_Z. destruct (z <? 0)%Z.
  - simpl. apply (forallb_impl is_digit); [|apply dec_of_N_digits].
    intros x Hx. unfold dec_char. rewrite Hx. reflexivity.
  - apply (forallb_impl is_digit); [|apply dec_of_N_digits].
    intros x Hx. unfold dec_char. rewrite Hx. reflexivity.
Qed.
Lemma dec_of_Z_nonnil z : dec_of_Z z <> [].
Proof. unfold dec_of_Z. destruct (z <? 0)%Z; [discriminate|apply dec_of_N_nonnil]. Qed.

(* characters a decimal never contains *)
Lemma dec_char_not c : dec_char c = false -> forall z, contains c (dec_of_Z z) = false.
Proof.
  intros Hc z. eapply (forallb_contains (fun b => dec_char b)); [exact Hc|apply dec_of_Z_chars].
Qed.

Lemma dec_char_nospace b : dec_char b = true -> negb (is_space b) = true.
Proof. destruct b; vm_compute; intro H; congruence. Qed.

Lemma dec_of_Z_trim z : trim_space (dec_of_Z z) = dec_of_Z z.
Proof.
  apply trim_space_nospace. apply (forallb_impl dec_char); [exact dec_char_nospace|apply dec_of_Z_chars].
Qed.

Lemma dec_char_noquote b : dec_char b = true -> byte_eqb b ch_quote = false.
Proof. destruct b; vm_compute; intro H; congruence. Qed.

Lemma dec_of_Z_unquote z : unquote (dec_of_Z z) = dec_of_Z z.
Proof.
  pose proof (dec_of_Z_chars z) as H. destruct (dec_of_Z z) as [|q r]; [reflexivity|].
  simpl in H. apply andb_true_iff in H as [H _]. unfold unquote.
  rewrite (dec_char_noquote _ H). reflexivity.
Qed.

(* ---- ParseInt (FormatInt z) = z on int64 ---------------------------------- *)
Lemma is_digit_not_sign b : is_digit b = true -> byte_eqb b ch_plus = false /\ byte_eqb b ch_minus = false.
Proof. destruct b; vm_compute; intro H; split; congruence. Qed.

Lemma parse_int64_dec z :
  (- 9223372036854775808 <= z < 9223372036854775808)%Z -> parse_int64 (dec_of_Z z) = Some z.
Proof.
  intro Hr. unfold dec_of_Z. destruct (z <? 0)%Z eqn:Ez.
  - unfold parse_int64.
    assert (byte_eqb ch_minus ch_plus = false) as -> by reflexivity.
    assert (byte_eqb ch_minus ch_minus = true) as -> by reflexivity.
    pose proof (dec_of_N_nonnil (Z.to_N (- z))) as Hn.
    pose proof (parse_dec_of_N (Z.to_N (- z))) as Hp.
    destruct (dec_of_N (Z.to_N (- z))) as [|d ds] eqn:Ed; [congruence|].
    rewrite Hp. unfold two63.
    assert ((Z.to_N (- z) <=? 9223372036854775808) = true) as -> by lia.
    f_equal. lia.
  - pose proof (dec_of_N_nonnil (Z.to_N z)) as Hn.
    pose proof (parse_dec_of_N (Z.to_N z)) as Hp.
    pose proof (dec_of_N_digits (Z.to_N z)) as Hd.
    unfold parse_int64.
    destruct (dec_of_N (Z.to_N z)) as [|d ds] eqn:Ed; [congruence|].
    simpl in Hd. apply andb_true_iff in Hd as [Hd _].
    destruct (is_digit_not_sign _ Hd) as [-> ->].
    rewrite Hp. unfold two63.
    assert ((Z.to_N z <? 9223372036854775808) = true) as -> by lia.
    f_equal. lia.
Qed.

(* joined command lists: digits, '-' and ',' only *)
Definition cmd_char (b : byte) : bool := dec_char b || byte_eqb b ch_comma.

Lemma join_with_chars (f : byte -> bool) c l :
  f c = true -> Forall (fun s => forallb f s = true) l -> forallb f (join_with c l) = true.
Proof.
  intros Hc. induction l as [|x l IH]; intro H; [reflexivity|].
  inversion H as [|? ? Hx Hl]; subst. simpl. destruct l as [|y l']; [exact Hx|].
  rewrite forallb_app, Hx. simpl. rewrite Hc. apply IH. exact Hl.
Qed.

Lemma join_ints_chars l : forallb cmd_char (join_ints l) = true.
Proof.
  unfold join_ints. apply join_with_chars; [reflexivity|].
  apply Forall_forall. intros s Hs. apply in_map_iff in Hs as [z [<- _]].
  apply (forallb_impl dec_char); [|apply dec_of_Z_chars].
  intros x Hx. unfold cmd_char. rewrite Hx. reflexivity.
Qed.

Lemma cmd_char_not c l : cmd_char c = false -> contains c (join_ints l) = false.
Proof. intro Hc. eapply (forallb_contains cmd_char); [exact Hc|apply join_ints_chars]. Qed.

Lemma expiry_text_roundtrip z :
  (- 9223372036854775808 <= z < 9223372036854775808)%Z -> parse_int64 (trim_space (dec_of_Z z)) = Some z.
Proof. intro H. rewrite dec_of_Z_trim. apply parse_int64_dec. exact H. Qed.
