(* Proofs/C09Round.v — keyed, non-encrypting stream: the receiver reassembles the ad.
   Part A: reads are frame-local (they never pull a frame beyond the bytes they need). *)
From Coq Require Import List NArith ZArith Lia Bool.
From Coq Require Import ZifyBool ZifyNat ZifyN.
From Cedar Require Import Lib.Bytes gen.Consts Model.Msg Model.Privacy Model.AdWire.
From Cedar Require Import Proofs.C14Reader Proofs.C14Writer Proofs.C14Roundtrip Proofs.C08Round Proofs.C08Bridge.
Import ListNotations.
Local Open Scope N_scope.

Definition noeom (A : list mframe) : Prop := Forall (fun f : mframe => snd f = false) A.
Definition cat (A : list mframe) : bytes := concat (map fst A).

Lemma cat_app A B : cat (A ++ B) = cat A ++ cat B.
Proof. unfold cat. rewrite map_app, concat_app. reflexivity. Qed.

Lemma ensure_loop_enough fs buf eom n : short_of buf n = false -> ensure_loop fs buf eom n = Some (buf, eom, fs).
Proof. intro H. destruct fs as [|[d e] r]; cbn [ensure_loop]; rewrite H; reflexivity. Qed.

Lemma ensure_loop_local A : forall B buf n, noeom A -> short_of (buf ++ cat A) n = false ->
  exists A1 A2, A = A1 ++ A2 /\ ensure_loop (A ++ B) buf false n = Some (buf ++ cat A1, false, A2 ++ B)
                /\ short_of (buf ++ cat A1) n = false.
Proof.
  induction A as [|[d e] A IH]; intros B buf n HN HS.
  - exists [], []. cbn [cat map concat app] in *. rewrite app_nil_r in *. split; [reflexivity|].
    split; [apply ensure_loop_enough; exact HS|exact HS].
  - inversion HN as [|? ? He HN']; subst. cbn [snd] in He. subst e.
    destruct (short_of buf n) eqn:S0.
    + cbn [app ensure_loop]. rewrite S0. cbn [andb negb].
      destruct (IH B (buf ++ d) n HN') as (A1 & A2 & E & L & S1).
      { unfold cat in *. cbn [map concat fst] in HS. rewrite <- app_assoc. exact HS. }
      exists ((d, false) :: A1), A2. subst A. split; [reflexivity|].
      unfold cat in *. cbn [map concat fst]. rewrite app_assoc. split; assumption.
    + exists [], ((d, false) :: A). cbn [cat map concat app]. rewrite app_nil_r.
      split; [reflexivity|]. split; [apply ensure_loop_enough; exact S0|exact S0].
Qed.

Lemma ensure_local r A B n : r_in r = A ++ B -> r_eom r = false -> noeom A ->
  short_of (r_buf r ++ cat A) n = false ->
  exists A1 A2 r', A = A1 ++ A2 /\ ensure r n = (r', MOk tt) /\ r_buf r' = r_buf r ++ cat A1 /\
                   r_in r' = A2 ++ B /\ r_eom r' = false /\ r_fin r' = r_fin r /\ short_of (r_buf r') n = false.
Proof.
  intros HI HE HN HS. destruct (ensure_loop_local A B (r_buf r) n HN HS) as (A1 & A2 & E & L & S1).
  unfold ensure. rewrite HI, HE, L, S1. exists A1, A2. eexists. split; [exact E|]. split; [reflexivity|]. cbn. auto.
Qed.

Lemma split_prefix (a b x rest : bytes) : a ++ b = x ++ rest -> (length x <= length a)%nat ->
  firstn (length x) a = x /\ skipn (length x) a ++ b = rest.
Proof.
  intros E L. assert (F : firstn (length x) (a ++ b) = x) by (rewrite E, firstn_app, Nat.sub_diag, firstn_all; cbn; apply app_nil_r).
  assert (S : skipn (length x) (a ++ b) = rest) by (rewrite E, skipn_app, Nat.sub_diag, skipn_all; reflexivity).
  rewrite firstn_app in F. rewrite skipn_app in S.
  replace (length x - length a)%nat with 0%nat in * by lia. cbn [firstn skipn] in *. rewrite app_nil_r in F. auto.
Qed.

Lemma raw_local r A B x rest : r_in r = A ++ B -> r_eom r = false -> noeom A ->
  r_buf r ++ cat A = x ++ rest ->
  exists A1 A2 r', A = A1 ++ A2 /\ get_raw r (lenN x) = (r', MOk x) /\ r_buf r' ++ cat A2 = rest /\
                   r_in r' = A2 ++ B /\ r_eom r' = false /\ r_fin r' = r_fin r.
Proof.
  intros HI HE HN HA.
  assert (HS : short_of (r_buf r ++ cat A) (Z.of_N (lenN x)) = false).
  { rewrite short_of_spec, HA, lenN_app. lia. }
  destruct (ensure_local r A B _ HI HE HN HS) as (A1 & A2 & r1 & E & EN & B1 & I1 & E1 & F1 & S1).
  unfold get_raw. rewrite EN. unfold take.
  assert (HL : (length x <= length (r_buf r1))%nat).
  { rewrite short_of_spec, !lenN_spec in S1. lia. }
  assert (HA1 : r_buf r1 ++ cat A2 = x ++ rest).
  { rewrite B1, <- app_assoc, <- cat_app, <- E. exact HA. }
  destruct (split_prefix _ _ _ _ HA1 HL) as [P1 P2].
  rewrite lenN_spec, Nat2N.id, P1.
  exists A1, A2. eexists. split; [exact E|]. split; [reflexivity|].
  cbn [set_buf add_alloc r_buf r_in r_eom r_fin]. auto.
Qed.

Lemma int_local r A B z rest : r_in r = A ++ B -> r_eom r = false -> noeom A ->
  (- 2 ^ 63 <= z < 2 ^ 63)%Z -> r_buf r ++ cat A = enc_int z ++ rest ->
  exists A1 A2 r', A = A1 ++ A2 /\ get_int r = (r', MOk z) /\ r_buf r' ++ cat A2 = rest /\
                   r_in r' = A2 ++ B /\ r_eom r' = false /\ r_fin r' = r_fin r.
Proof.
  intros HI HE HN Hz HA.
  destruct (raw_local r A B _ _ HI HE HN HA) as (A1 & A2 & r1 & E & G & R1 & I1 & E1 & F1).
  rewrite enc_int_lenN in G. unfold get_int. rewrite G, (dec_enc_int z Hz).
  exists A1, A2, r1. repeat split; auto.
Qed.

Lemma lstr_local r A B s rest : r_in r = A ++ B -> r_eom r = false -> noeom A -> valid_str true s ->
  r_buf r ++ cat A = string_bytes true s ++ rest ->
  exists A1 A2 r', A = A1 ++ A2 /\ get_lstr r = (r', MOk s) /\ r_buf r' ++ cat A2 = rest /\
                   r_in r' = A2 ++ B /\ r_eom r' = false /\ r_fin r' = r_fin r.
Proof.
  intros HI HE HN V HA. rewrite (string_bytes_valid true s V), <- !app_assoc in HA.
  destruct V as [NF Ve]. destruct (Ve eq_refl) as [HD L].
  assert (Hz : (- 2 ^ 63 <= Z.of_N (lenN s) + 1 < 2 ^ 63)%Z).
  { change (2 ^ 63)%Z with 9223372036854775808%Z. change (2 ^ 31)%Z with 2147483648%Z in L. lia. }
  destruct (int_local r A B (Z.of_N (lenN s) + 1) _ HI HE HN Hz HA) as (A1 & A2 & r1 & E & G & R1 & I1 & E1 & F1).
  unfold get_lstr, get_int32. rewrite G. cbn [map_res].
  rewrite wrap32_small by (change (2 ^ 31)%Z with 2147483648%Z in *; lia).
  replace (Z.of_N (lenN s) + 1 <? 0)%Z with false by lia.
  rewrite get_lstr_tail by lia.
  assert (NA2 : noeom A2). { subst A. unfold noeom in *. apply Forall_app in HN. tauto. }
  rewrite app_assoc in R1.
  destruct (raw_local r1 A2 B (s ++ [x00]) rest I1 E1 NA2 R1) as (A3 & A4 & r2 & E' & G' & R2 & I2 & E2 & F2).
  replace (Z.to_N (Z.of_N (lenN s) + 1)) with (lenN (s ++ [x00])) by (rewrite lenN_app; change (lenN [x00]) with 1; lia).
  rewrite G'. cbn [map_res]. rewrite (strip_string_terminated s NF HD).
  exists (A1 ++ A3), A4, r2. subst A A2. rewrite app_assoc. repeat split; auto. congruence.
Qed.

Lemma cstr_loop_local B s : forall fuel r acc A rest, r_in r = A ++ B -> r_eom r = false -> noeom A ->
  nul_free s -> r_buf r ++ cat A = s ++ x00 :: rest -> (length s < fuel)%nat ->
  exists A1 A2 r', A = A1 ++ A2 /\ get_cstr_loop fuel r acc = (r', MOk (rev acc ++ s)) /\ r_buf r' ++ cat A2 = rest /\
                   r_in r' = A2 ++ B /\ r_eom r' = false /\ r_fin r' = r_fin r.
Proof.
  induction s as [|c s IH]; intros fuel r acc A rest HI HE HN NF HA HF.
  - destruct fuel as [|f]; [lia|]. cbn [get_cstr_loop app] in *.
    assert (HS : short_of (r_buf r ++ cat A) 1 = false).
    { rewrite short_of_spec, HA, lenN_cons. lia. }
    destruct (ensure_local r A B 1 HI HE HN HS) as (A1 & A2 & r1 & E & EN & B1 & I1 & E1 & F1 & S1).
    rewrite EN.
    assert (HA1 : r_buf r1 ++ cat A2 = x00 :: rest) by (rewrite B1, <- app_assoc, <- cat_app, <- E; exact HA).
    destruct (r_buf r1) as [|b rb] eqn:RB.
    { rewrite short_of_spec, lenN_nil in S1. lia. }
    cbn [app] in HA1. inversion HA1; subst b.
    change (byte_eqb x00 x00) with true. cbv iota.
    exists A1, A2. eexists. split; [exact E|]. split; [unfold rev'; rewrite <- rev_alt, app_nil_r; reflexivity|].
    cbn [set_buf r_buf r_in r_eom r_fin]. auto.
  - destruct fuel as [|f]; [lia|]. cbn [get_cstr_loop app] in *.
    assert (HS : short_of (r_buf r ++ cat A) 1 = false).
    { rewrite short_of_spec, HA, lenN_cons. lia. }
    destruct (ensure_local r A B 1 HI HE HN HS) as (A1 & A2 & r1 & E & EN & B1 & I1 & E1 & F1 & S1).
    rewrite EN.
    assert (HA1 : r_buf r1 ++ cat A2 = c :: s ++ x00 :: rest) by (rewrite B1, <- app_assoc, <- cat_app, <- E; exact HA).
    destruct (r_buf r1) as [|b rb] eqn:RB.
    { rewrite short_of_spec, lenN_nil in S1. lia. }
    cbn [app] in HA1. inversion HA1; subst b.
    inversion NF as [|? ? Hc NF']; subst. rewrite (neq_x00 c Hc).
    assert (NA2 : noeom A2). { unfold noeom in *. apply Forall_app in HN. tauto. }
    destruct (IH f (set_buf r1 rb) (c :: acc) A2 rest I1 E1 NA2 NF') as (A3 & A4 & r2 & E' & G' & R2 & I2 & E2 & F2).
    { cbn [set_buf r_buf]. assumption. }
    { cbn [length] in HF. lia. }
    exists (A1 ++ A3), A4, r2. rewrite <- app_assoc, <- E'. split; [reflexivity|].
    split; [rewrite G'; cbn [rev]; rewrite <- app_assoc; reflexivity|].
    cbn [set_buf r_fin] in F2. repeat split; auto. congruence.
Qed.

(* ------------------------------------------------------------------ *)
(* Part B: the same on a receiving stream, with frame tags             *)

Definition last_nonempty (A : list mframe) : Prop :=
  match rev A with [] => True | f :: _ => fst f <> [] end.

Record TSeg (t : treader) (A B : list mframe) (tb : list bool) : Prop := {
  ts_in : r_in (t_r t) = A ++ B;
  ts_tags : exists ta, t_tags t = ta ++ tb /\ length ta = length A /\ Forall (fun b => b = t_sealed t) ta;
  ts_eom : r_eom (t_r t) = false;
  ts_noeom : noeom A;
  ts_fin : r_fin (t_r t) = false }.

Definition avail (t : treader) (A : list mframe) : bytes := r_buf (t_r t) ++ cat A.
Definition same_flags (t t' : treader) : Prop := t_key t' = t_key t /\ t_enc t' = t_enc t /\ t_saved t' = t_saved t.

Lemma t_step_local {X} (f : reader -> reader * mres X) t A B tb A1 A2 r' x :
  TSeg t A B tb -> A = A1 ++ A2 -> f (t_r t) = (r', MOk x) ->
  r_in r' = A2 ++ B -> r_eom r' = false -> r_fin r' = r_fin (t_r t) ->
  exists t', t_step f t = (t', MOk x) /\ t_r t' = r' /\ TSeg t' A2 B tb /\ same_flags t t'.
Proof.
  intros [HI (ta & HT & HL & HF) HE HN HFin] EA Hf I' E' F'.
  unfold t_step. rewrite Hf, HI, I'.
  assert (K : (length (A ++ B) - length (A2 ++ B))%nat = length A1).
  { subst A. rewrite !app_length. lia. }
  rewrite K, HT.
  assert (LA : (length A1 <= length ta)%nat) by (subst A; rewrite app_length in HL; lia).
  rewrite firstn_app, skipn_app. replace (length A1 - length ta)%nat with 0%nat by lia.
  cbn [firstn skipn]. rewrite app_nil_r.
  assert (C : forallb (Bool.eqb (t_sealed t)) (firstn (length A1) ta) = true).
  { apply forallb_forall. intros b Hb. rewrite Forall_forall in HF.
    assert (In b ta) by (clear -Hb; revert ta Hb; induction (length A1) as [|k IH]; intros [|y l] H; cbn in *; try contradiction; destruct H; auto).
    rewrite (HF b H). apply eqb_reflx. }
  rewrite C. eexists. split; [reflexivity|]. cbn [t_r]. split; [reflexivity|]. split; [|repeat split].
  constructor; cbn [t_r t_tags].
  - exact I'.
  - exists (skipn (length A1) ta). split; [reflexivity|]. split.
    + rewrite skipn_length. subst A. rewrite app_length in HL. lia.
    + unfold t_sealed. cbn [t_key t_enc]. apply Forall_forall. intros b Hb. rewrite Forall_forall in HF. apply HF.
      clear -Hb. revert ta Hb. induction (length A1) as [|k IH]; intros [|y l] H; cbn in *; try contradiction; auto.
  - exact E'.
  - subst A. unfold noeom in *. apply Forall_app in HN. tauto.
  - rewrite F'. exact HFin.
Qed.

Lemma fuel_ok r A B s rest : r_in r = A ++ B -> r_buf r ++ cat A = s ++ x00 :: rest ->
  (length s < S (S (N.to_nat (total_bytes r))))%nat.
Proof.
  intros HI HA. rewrite total_bytes_spec. unfold remaining. rewrite HI.
  change (concat (map fst (A ++ B))) with (cat (A ++ B)). rewrite cat_app, app_assoc, HA.
  rewrite !app_length. cbn [length]. lia.
Qed.

Lemma t_cstr_local t A B tb s rest : TSeg t A B tb -> t_enc t = false -> nul_free s ->
  avail t A = s ++ x00 :: rest ->
  exists t' A2, t_get_string t = (t', MOk s) /\ TSeg t' A2 B tb /\ avail t' A2 = rest /\ same_flags t t'
                /\ (exists A1, A = A1 ++ A2).
Proof.
  intros TS He NF HA. pose proof TS as [HI _ HE HN HFin]. unfold avail in HA.
  destruct (cstr_loop_local B s _ (t_r t) [] A rest HI HE HN NF HA (fuel_ok _ _ _ _ _ HI HA))
    as (A1 & A2 & r' & EA & G & R & I' & E' & F').
  unfold t_get_string. rewrite He. 
  destruct (t_step_local (get_string false) t A B tb A1 A2 r' s TS EA) as (t' & S & Rt & TS' & SF); auto.
  exists t', A2. split; [exact S|]. split; [exact TS'|]. split; [unfold avail; rewrite Rt; exact R|]. split; [exact SF|].
  exists A1. exact EA.
Qed.

Lemma t_lstr_local t A B tb s rest : TSeg t A B tb -> t_enc t = true -> valid_str true s ->
  avail t A = string_bytes true s ++ rest ->
  exists t' A2, t_get_string t = (t', MOk s) /\ TSeg t' A2 B tb /\ avail t' A2 = rest /\ same_flags t t'
                /\ (exists A1, A = A1 ++ A2).
Proof.
  intros TS He V HA. pose proof TS as [HI _ HE HN HFin]. unfold avail in HA.
  destruct (lstr_local (t_r t) A B s rest HI HE HN V HA) as (A1 & A2 & r' & EA & G & R & I' & E' & F').
  unfold t_get_string. rewrite He.
  destruct (t_step_local (get_string true) t A B tb A1 A2 r' s TS EA) as (t' & S & Rt & TS' & SF); auto.
  exists t', A2. split; [exact S|]. split; [exact TS'|]. split; [unfold avail; rewrite Rt; exact R|]. split; [exact SF|].
  exists A1. exact EA.
Qed.

Lemma t_int_local t A B tb z rest : TSeg t A B tb -> (- 2 ^ 63 <= z < 2 ^ 63)%Z ->
  avail t A = enc_int z ++ rest ->
  exists t' A2, t_get_int t = (t', MOk z) /\ TSeg t' A2 B tb /\ avail t' A2 = rest /\ same_flags t t'
                /\ (exists A1, A = A1 ++ A2).
Proof.
  intros TS Hz HA. pose proof TS as [HI _ HE HN HFin]. unfold avail in HA.
  destruct (int_local (t_r t) A B z rest HI HE HN Hz HA) as (A1 & A2 & r' & EA & G & R & I' & E' & F').
  unfold t_get_int.
  destruct (t_step_local get_int t A B tb A1 A2 r' z TS EA) as (t' & S & Rt & TS' & SF); auto.
  exists t', A2. split; [exact S|]. split; [exact TS'|]. split; [unfold avail; rewrite Rt; exact R|]. split; [exact SF|].
  exists A1. exact EA.
Qed.

(* ------------------------------------------------------------------ *)
(* Part C: the frames the sender produces, as rounds                   *)

Definition cstr (s : bytes) : bytes := string_bytes false s.
Definition lstr (s : bytes) : bytes := string_bytes true s.

Record round := { rd_pre : bytes; rd_pubs : list bytes; rd_sec : bytes; rd_C : list mframe; rd_S : list mframe }.

Definition round_ok (r : round) : Prop :=
  noeom (rd_C r) /\ noeom (rd_S r) /\ last_nonempty (rd_C r) /\ last_nonempty (rd_S r) /\
  cat (rd_C r) = rd_pre r ++ concat (map cstr (rd_pubs r)) ++ cstr secret_marker /\
  cat (rd_S r) = lstr (rd_sec r).

Definition tagf (m : bool) (fs : list mframe) : list tframe := map (fun fr => (m, fr)) fs.
Definition flat (rs : list round) : list tframe :=
  concat (map (fun r => tagf false (rd_C r) ++ tagf true (rd_S r)) rs).

Record SInv (st : sstate) (rs : list round) (pre : bytes) (pubs : list bytes) (cur : list mframe) : Prop := {
  si_out : s_out st = flat rs ++ tagf false cur;
  si_noeom : noeom cur;
  si_bytes : cat cur ++ s_buf st = pre ++ concat (map cstr pubs);
  si_key : s_key st = true;
  si_enc : s_enc st = false;
  si_ok : Forall round_ok rs }.

Lemma flat_app a b : flat (a ++ b) = flat a ++ flat b.
Proof. unfold flat. rewrite map_app, concat_app. reflexivity. Qed.

Lemma tagf_app m a b : tagf m (a ++ b) = tagf m a ++ tagf m b.
Proof. apply map_app. Qed.

Lemma fresh_content f buf delta : content (f {| w_buf := buf; w_out := [] |}) = buf ++ delta ->
  cat (w_out (f {| w_buf := buf; w_out := [] |})) ++ w_buf (f {| w_buf := buf; w_out := [] |}) = buf ++ delta.
Proof. intro H. exact H. Qed.

Lemma plain_step st rs pre pubs cur e : SInv st rs pre pubs cur ->
  exists cur', SInv (s_put_string st e) rs pre (pubs ++ [e]) cur'.
Proof.
  intros [O N Bt K E Ok]. unfold s_put_string, s_lift, sealed_now. rewrite K, E. cbn [andb].
  set (w' := put_string false {| w_buf := s_buf st; w_out := [] |} e).
  exists (cur ++ w_out w'). constructor; cbn [s_out s_buf s_key s_enc]; auto.
  - rewrite O, tagf_app, <- app_assoc. reflexivity.
  - unfold noeom in *. apply Forall_app. split; [exact N|].
    apply (no_eom_put_string false {| w_buf := s_buf st; w_out := [] |} e). constructor.
  - rewrite cat_app, <- app_assoc.
    assert (C : cat (w_out w') ++ w_buf w' = s_buf st ++ cstr e).
    { apply (fresh_content (fun w => put_string false w e)). rewrite content_put_string. reflexivity. }
    rewrite C, app_assoc, Bt, map_app, concat_app. cbn [map concat]. rewrite app_nil_r, <- app_assoc. reflexivity.
Qed.

Lemma last_nonempty_snoc A d e : d <> [] -> last_nonempty (A ++ [(d, e)]).
Proof. intro H. unfold last_nonempty. rewrite rev_app_distr. cbn. exact H. Qed.

Lemma firstn_nonempty (M : N) (b : byte) r : M <> 0 -> firstn (N.to_nat M) (b :: r) <> [].
Proof. intro H. destruct (N.to_nat M) eqn:E; [lia|]. cbn [firstn]. discriminate. Qed.

Lemma MaxFrameSize_nz : MaxFrameSize <> 0.
Proof. vm_compute. discriminate. Qed.

Lemma put_chunks_buf fuel : forall w data, w_buf w <> [] -> w_buf (put_chunks fuel w data) <> [].
Proof.
  induction fuel as [|f IH]; intros w data H; cbn [put_chunks]; [exact H|].
  destruct data as [|b r]; [exact H|]. apply IH.
  unfold w_append. cbn [w_buf]. intro C. apply app_eq_nil in C as [_ C].
  exact (firstn_nonempty MaxFrameSize b r MaxFrameSize_nz C).
Qed.

Lemma put_chunks_first f w data : data <> [] -> w_buf (put_chunks (S f) w data) <> [].
Proof.
  intro H. cbn [put_chunks]. destruct data as [|b r]; [congruence|]. apply put_chunks_buf.
  unfold w_append. cbn [w_buf]. intro C. apply app_eq_nil in C as [_ C].
  exact (firstn_nonempty MaxFrameSize b r MaxFrameSize_nz C).
Qed.

Lemma put_bytes_buf w data : data <> [] -> w_buf (put_bytes w data) <> [].
Proof.
  intro H. unfold put_bytes. cbv zeta.
  destruct (lenN data =? 0) eqn:Z.
  { destruct data; [congruence|]. rewrite lenN_cons in Z. lia. }
  destruct (MaxFrameSize <? lenN data).
  - apply put_chunks_first. exact H.
  - unfold w_append. cbn [w_buf]. intro C. apply app_eq_nil in C as [_ C]. contradiction.
Qed.

(* after PutString the buffer is never empty: the frame a following flush writes has a payload *)
Lemma small_put_string_buf enc buf s : w_buf (put_string enc {| w_buf := buf; w_out := [] |} s) <> [].
Proof.
  unfold put_string. cbv zeta.
  assert (D : upto_nul s ++ [x00] <> []) by (intro C; apply app_eq_nil in C as [_ C]; discriminate).
  destruct (MaxFrameSize <? _).
  - apply put_bytes_buf. exact D.
  - unfold w_append. cbn [w_buf]. intro C. apply app_eq_nil in C as [_ C]. contradiction.
Qed.

Lemma put_string_shape st s :
  s_out (s_put_string st s) = s_out st ++ tagf (sealed_now st) (w_out (put_string (s_enc st) {| w_buf := s_buf st; w_out := [] |} s)) /\
  s_buf (s_put_string st s) = w_buf (put_string (s_enc st) {| w_buf := s_buf st; w_out := [] |} s) /\
  s_key (s_put_string st s) = s_key st /\ s_enc (s_put_string st s) = s_enc st /\ s_saved (s_put_string st s) = s_saved st.
Proof. repeat split. Qed.

Lemma flush_shape st :
  s_out (s_flush st false) = s_out st ++ tagf (sealed_now st) [(s_buf st, false)] /\
  s_buf (s_flush st false) = [] /\
  s_key (s_flush st false) = s_key st /\ s_enc (s_flush st false) = s_enc st /\ s_saved (s_flush st false) = s_saved st.
Proof. repeat split. Qed.

Lemma secret_step st rs pre pubs cur e : SInv st rs pre pubs cur ->
  exists C S, SInv (put_secret_expr st e)
                   (rs ++ [{| rd_pre := pre; rd_pubs := pubs; rd_sec := e; rd_C := C; rd_S := S |}]) [] [] [].
Proof.
  intros [O N Bt K E Ok]. unfold put_secret_expr.
  destruct (put_string_shape st secret_marker) as (O1 & B1 & K1 & E1 & V1).
  set (st1 := s_put_string st secret_marker) in *.
  destruct (flush_shape st1) as (O2 & B2 & K2 & E2 & V2).
  set (st2 := s_flush st1 false) in *.
  assert (P3 : s_out (s_prepare st2) = s_out st2 /\ s_buf (s_prepare st2) = [] /\ s_key (s_prepare st2) = true /\
               s_enc (s_prepare st2) = true /\ s_saved (s_prepare st2) = false).
  { unfold s_prepare. cbn [s_out s_buf s_key s_enc s_saved]. rewrite K2, E2, K1, E1, K, E, B2. auto. }
  destruct P3 as (O3 & B3 & K3 & E3 & V3).
  set (st3 := s_prepare st2) in *.
  destruct (put_string_shape st3 e) as (O4 & B4 & K4 & E4 & V4).
  set (st4 := s_put_string st3 e) in *.
  destruct (flush_shape st4) as (O5 & B5 & K5 & E5 & V5).
  set (st5 := s_flush st4 false) in *.
  unfold sealed_now in O1, O2, O4, O5.
  rewrite K, E in O1. rewrite K1, E1, K, E in O2. rewrite K3, E3 in O4. rewrite K4, E4, K3, E3 in O5.
  rewrite E in B1. rewrite B3 in O4. rewrite E3, B3 in B4. cbn [andb] in *.
  set (w1 := put_string false {| w_buf := s_buf st; w_out := [] |} secret_marker) in *.
  set (w2 := put_string true {| w_buf := []; w_out := [] |} e) in *.
  exists (cur ++ w_out w1 ++ [(w_buf w1, false)]), (w_out w2 ++ [(w_buf w2, false)]).
  assert (C1 : cat (w_out w1) ++ w_buf w1 = s_buf st ++ cstr secret_marker).
  { apply (fresh_content (fun w => put_string false w secret_marker)). rewrite content_put_string. reflexivity. }
  assert (C2 : cat (w_out w2) ++ w_buf w2 = lstr e).
  { apply (fresh_content (fun w => put_string true w e) [] (lstr e)). rewrite content_put_string. reflexivity. }
  assert (N1 : noeom (w_out w1)) by (apply (no_eom_put_string false {| w_buf := s_buf st; w_out := [] |}); constructor).
  assert (N2 : noeom (w_out w2)) by (apply (no_eom_put_string true {| w_buf := []; w_out := [] |}); constructor).
  constructor; unfold s_restore; cbn [s_out s_buf s_key s_enc s_saved].
  - rewrite O5, O4, O3, O2, O1, B1, B4, O, flat_app.
    change (flat [{| rd_pre := pre; rd_pubs := pubs; rd_sec := e; rd_C := cur ++ w_out w1 ++ [(w_buf w1, false)]; rd_S := w_out w2 ++ [(w_buf w2, false)] |}])
      with ((tagf false (cur ++ w_out w1 ++ [(w_buf w1, false)]) ++ tagf true (w_out w2 ++ [(w_buf w2, false)])) ++ []).
    rewrite app_nil_r, !tagf_app, <- !app_assoc. reflexivity.
  - constructor.
  - rewrite B5. reflexivity.
  - rewrite K5, K4, K3. reflexivity.
  - rewrite V5, V4, V3. reflexivity.
  - apply Forall_app. split; [exact Ok|]. constructor; [|constructor].
    unfold round_ok. cbn [rd_C rd_S rd_pre rd_pubs rd_sec].
    repeat split.
    + unfold noeom in *. apply Forall_app. split; [exact N|]. apply Forall_app. split; [exact N1|repeat constructor].
    + unfold noeom in *. apply Forall_app. split; [exact N2|repeat constructor].
    + rewrite app_assoc. apply last_nonempty_snoc.
      apply (small_put_string_buf false (s_buf st) secret_marker).
    + apply last_nonempty_snoc. apply (small_put_string_buf true [] e).
    + rewrite !cat_app. unfold cat at 3. cbn [map concat fst]. rewrite app_nil_r.
      rewrite C1, app_assoc, Bt, <- app_assoc. reflexivity.
    + rewrite cat_app. unfold cat at 2. cbn [map concat fst]. rewrite app_nil_r. exact C2.
Qed.

Definition items_of (rs : list round) (pubs : list bytes) : list bytes :=
  concat (map (fun r => rd_pubs r ++ [rd_sec r]) rs) ++ pubs.

Definition pres_ok (first : bytes) (rs : list round) (pre : bytes) : Prop :=
  match rs with
  | [] => pre = first
  | r :: rs' => rd_pre r = first /\ Forall (fun r => rd_pre r = []) rs' /\ pre = []
  end.

Definition secret_attr' (c : config) (a : attr) : bool := is_private_any (fst a) || in_list (fst a) (c_enc_attrs c).

Lemma fold_rounds c first l : forall st rs pre pubs cur,
  SInv st rs pre pubs cur -> pres_ok first rs pre ->
  exists rs' pre' pubs' cur', SInv (fold_left (put_one c true) l st) rs' pre' pubs' cur' /\ pres_ok first rs' pre' /\
                             items_of rs' pubs' = items_of rs pubs ++ map expr_text l.
Proof.
  induction l as [|a l IH]; intros st rs pre pubs cur HI HP; cbn [fold_left map].
  - exists rs, pre, pubs, cur. rewrite app_nil_r. auto.
  - unfold put_one at 2. cbn [andb]. fold (secret_attr' c a).
    destruct (secret_attr' c a) eqn:Sa.
    + destruct (secret_step st rs pre pubs cur (expr_text a) HI) as (C & S & HI').
      destruct (IH _ _ _ _ _ HI') as (rs' & pre' & pubs' & cur' & H1 & H2 & H3).
      { destruct rs as [|r0 rs0]; cbn [app pres_ok] in *.
        - cbn [rd_pre]. auto.
        - destruct HP as (P1 & P2 & P3). repeat split; auto. apply Forall_app. split; [exact P2|].
          constructor; [cbn [rd_pre]; exact P3|constructor]. }
      exists rs', pre', pubs', cur'. split; [exact H1|]. split; [exact H2|].
      rewrite H3. unfold items_of. rewrite map_app, concat_app. cbn [map concat rd_pubs rd_sec].
      rewrite !app_nil_r, <- !app_assoc. reflexivity.
    + destruct (plain_step st rs pre pubs cur (expr_text a) HI) as (cur1 & HI').
      destruct (IH _ _ _ _ _ HI' HP) as (rs' & pre' & pubs' & cur' & H1 & H2 & H3).
      exists rs', pre', pubs', cur'. split; [exact H1|]. split; [exact H2|].
      rewrite H3. unfold items_of. rewrite <- !app_assoc. reflexivity.
Qed.

Definition ad_exprs (c : config) (a : ad) : list bytes :=
  (if opt_server_time (c_opts c) then [server_time_expr] else []) ++ map expr_text (attrs_to_send c (ad_attrs a)).
Definition ad_count (c : config) (a : ad) : Z :=
  (Z.of_nat (length (attrs_to_send c (ad_attrs a))) + (if opt_server_time (c_opts c) then 1 else 0))%Z.

(* the frames of a whole ad on a keyed, non-encrypting stream *)
Lemma put_ad_rounds c a :
  opt_no_types (c_opts c) = false ->
  exists rs pre pubs cur buf,
    s_frames (s_finish (put_ad c (sstate_init true false) a)) = flat rs ++ tagf false (cur ++ [(buf, true)]) /\
    noeom cur /\ cat cur ++ buf = pre ++ concat (map cstr (pubs ++ [ad_mytype a; ad_targettype a])) /\ Forall round_ok rs /\
    pres_ok (enc_int (ad_count c a)) rs pre /\
    items_of rs pubs = ad_exprs c a.
Proof.
  intros Hnt. unfold put_ad. cbv zeta. rewrite Hnt. fold (ad_count c a).
  set (st1 := s_put_int (sstate_init true false) (ad_count c a)).
  assert (I1 : SInv st1 [] (enc_int (ad_count c a)) [] []).
  { constructor; try reflexivity; constructor. }
  set (st2 := if opt_server_time (c_opts c) then s_put_string st1 server_time_expr else st1).
  assert (I2 : exists cur2, SInv st2 [] (enc_int (ad_count c a)) (if opt_server_time (c_opts c) then [server_time_expr] else []) cur2).
  { subst st2. destruct (opt_server_time (c_opts c)).
    - destruct (plain_step _ _ _ _ _ server_time_expr I1) as (cur2 & H). exists cur2. exact H.
    - exists []. exact I1. }
  destruct I2 as (cur2 & I2).
  assert (F2 : s_key st2 = true /\ s_enc st2 = false) by (destruct I2; auto).
  destruct F2 as [K2 E2]. rewrite K2, E2. cbn [secret_is_noop negb orb].
  destruct (fold_rounds c (enc_int (ad_count c a)) (attrs_to_send c (ad_attrs a)) st2 [] _ _ cur2 I2 eq_refl) as (rs & pre & pubs & cur & I3 & P3 & It3).
  destruct (plain_step _ _ _ _ _ (ad_mytype a) I3) as (cur4 & I4).
  destruct (plain_step _ _ _ _ _ (ad_targettype a) I4) as (cur5 & I5).
  destruct I5 as [O N Bt K E Ok].
  exists rs, pre, pubs, cur5. eexists.
  split.
  { unfold s_frames, s_finish, s_flush, s_lift, sealed_now. cbn [s_out s_buf flush w_out w_buf app].
    rewrite K, E, O. cbn [andb]. rewrite tagf_app, <- app_assoc. reflexivity. }
  split; [exact N|]. split; [rewrite <- app_assoc in Bt; exact Bt|]. split; [exact Ok|]. split; [exact P3|].
  unfold items_of in *. rewrite It3. cbn [map concat app]. unfold ad_exprs. reflexivity.
Qed.

(* ------------------------------------------------------------------ *)
(* Part D: the receiver follows the rounds                             *)

Lemma consumed_all A A1 A2 : last_nonempty A -> A = A1 ++ A2 -> cat A2 = [] -> A2 = [].
Proof.
  intros L E C. destruct (rev A2) as [|f r'] eqn:R.
  - apply (f_equal (@rev mframe)) in R. rewrite rev_involutive in R. exact R.
  - exfalso. assert (E2 : A2 = rev r' ++ [f]) by (rewrite <- (rev_involutive A2), R; reflexivity).
    unfold last_nonempty in L. rewrite E, rev_app_distr, R in L. cbn in L.
    rewrite E2, cat_app in C. apply app_eq_nil in C as [_ C]. unfold cat in C. cbn in C. rewrite app_nil_r in C. contradiction.
Qed.

Lemma cstr_nulfree s : nul_free s -> cstr s = s ++ [x00].
Proof. intro H. unfold cstr, string_bytes. rewrite (upto_nul_nulfree s H). reflexivity. Qed.

Lemma same_flags_trans a b c : same_flags a b -> same_flags b c -> same_flags a c.
Proof. intros (A1 & A2 & A3) (B1 & B2 & B3). repeat split; congruence. Qed.

Lemma walk_pubs B tb pubs : forall t A acc m rest,
  TSeg t A B tb -> t_enc t = false ->
  avail t A = concat (map cstr pubs) ++ rest ->
  Forall nul_free pubs -> Forall (fun s => bytes_eqb s secret_marker = false) pubs ->
  exists t' A', get_exprs (fun _ => true) true (length pubs + m) t acc
                = get_exprs (fun _ => true) true m t' (rev pubs ++ acc) /\
                TSeg t' A' B tb /\ avail t' A' = rest /\ same_flags t t' /\ (exists P, A = P ++ A').
Proof.
  induction pubs as [|e pubs IH]; intros t A acc m rest TS He HA NF NM.
  - exists t, A. cbn [length map concat app rev] in *. split; [reflexivity|]. split; [exact TS|]. split; [exact HA|].
    split; [repeat split|]. exists []. reflexivity.
  - inversion NF as [|? ? NFe NF']; subst. inversion NM as [|? ? NMe NM']; subst.
    cbn [map concat] in HA. rewrite (cstr_nulfree e NFe), <- !app_assoc in HA. cbn [app] in HA.
    destruct (t_cstr_local t A B tb e _ TS He NFe HA) as (t1 & A1 & G & TS1 & HA1 & SF1 & (P1 & EP1)).
    assert (Fin : t_finished t = false) by (destruct TS as [_ _ _ _ F]; unfold t_finished; rewrite F; reflexivity).
    cbn [length plus get_exprs]. rewrite Fin. cbn [andb]. rewrite G, NMe.
    assert (He1 : t_enc t1 = false) by (destruct SF1 as (_ & E1 & _); congruence).
    destruct (IH t1 A1 (e :: acc) m rest TS1 He1 HA1 NF' NM') as (t2 & A2 & G2 & TS2 & HA2 & SF2 & (P2 & EP2)).
    exists t2, A2. rewrite G2. cbn [rev]. rewrite <- app_assoc. split; [reflexivity|]. split; [exact TS2|]. split; [exact HA2|].
    split; [eapply same_flags_trans; eassumption|].
    exists (P1 ++ P2). rewrite EP1, EP2, app_assoc. reflexivity.
Qed.

Lemma marker_nulfree : nul_free secret_marker.
Proof. repeat constructor; discriminate. Qed.

Lemma round_step t A Sf B' tb' tS pubs sec acc m :
  TSeg t A (Sf ++ B') (tS ++ tb') -> t_key t = true -> t_enc t = false -> last_nonempty A ->
  avail t A = concat (map cstr pubs) ++ cstr secret_marker ->
  noeom Sf -> last_nonempty Sf -> length tS = length Sf -> Forall (fun b => b = true) tS -> cat Sf = lstr sec ->
  Forall nul_free pubs -> Forall (fun s => bytes_eqb s secret_marker = false) pubs -> valid_str true sec ->
  exists t', get_exprs (fun _ => true) true (length pubs + S m) t acc
             = get_exprs (fun _ => true) true m t' (sec :: rev pubs ++ acc) /\
             TSeg t' [] B' tb' /\ r_buf (t_r t') = [] /\ t_key t' = true /\ t_enc t' = false.
Proof.
  intros TS Hk He LA HA NS LS HtS FtS CS NF NM VS.
  destruct (walk_pubs _ _ pubs t A acc (S m) _ TS He HA NF NM) as (t1 & A1 & G1 & TS1 & HA1 & SF1 & (P1 & EP1)).
  rewrite G1. destruct SF1 as (K1 & E1 & V1). rewrite Hk in K1. rewrite He in E1.
  rewrite (cstr_nulfree _ marker_nulfree) in HA1.
  rewrite <- (app_nil_r (secret_marker ++ [x00])) in HA1. rewrite <- app_assoc in HA1. cbn [app] in HA1.
  destruct (t_cstr_local t1 A1 _ _ secret_marker [] TS1 E1 marker_nulfree HA1) as (t2 & A2 & G2 & TS2 & HA2 & SF2 & (P2 & EP2)).
  assert (Fin1 : t_finished t1 = false) by (destruct TS1 as [_ _ _ _ F]; unfold t_finished; rewrite F; reflexivity).
  cbn [get_exprs]. rewrite Fin1. cbn [andb]. rewrite G2.
  assert (MM : bytes_eqb secret_marker secret_marker = true) by (apply bytes_eqb_eq; reflexivity). rewrite MM.
  destruct SF2 as (K2 & E2 & V2). rewrite K1 in K2. rewrite E1 in E2.
  unfold avail in HA2. apply app_eq_nil in HA2 as [B2 C2].
  assert (A2nil : A2 = []).
  { apply (consumed_all A (P1 ++ P2) A2 LA); [rewrite EP1, EP2, app_assoc; reflexivity|exact C2]. }
  subst A2.
  (* the secret, under the seal *)
  unfold t_get_secret.
  set (t2p := t_prepare t2).
  assert (Fp : t_key t2p = true /\ t_enc t2p = true /\ t_saved t2p = false /\ t_r t2p = t_r t2 /\ t_tags t2p = t_tags t2).
  { unfold t2p, t_prepare. cbn. rewrite K2, E2. cbn. auto. }
  destruct Fp as (Kp & Ep & Vp & Rp & Tp).
  assert (TSp : TSeg t2p Sf B' tb').
  { destruct TS2 as [HI (ta & HT & HL & HF) HE HN HFin]. constructor; rewrite ?Rp, ?Tp.
    - exact HI.
    - destruct ta; [|discriminate]. exists tS. split; [exact HT|]. split; [exact HtS|].
      unfold t_sealed. rewrite Kp, Ep. exact FtS.
    - exact HE.
    - exact NS.
    - exact HFin. }
  assert (HAp : avail t2p Sf = lstr sec ++ []).
  { unfold avail. rewrite Rp, B2, app_nil_r. exact CS. }
  destruct (t_lstr_local t2p Sf B' tb' sec [] TSp Ep VS HAp) as (t3 & S2 & G3 & TS3 & HA3 & SF3 & (P3 & EP3)).
  rewrite G3.
  unfold avail in HA3. apply app_eq_nil in HA3 as [B3 C3].
  assert (S2nil : S2 = []) by (apply (consumed_all Sf P3 S2 LS EP3 C3)). subst S2.
  destruct SF3 as (K3 & E3 & V3). rewrite Kp in K3. rewrite Vp in V3.
  exists (t_restore t3). split; [reflexivity|].
  split.
  { destruct TS3 as [HI (ta & HT & HL & HF) HE HN HFin]. constructor; unfold t_restore; cbn [t_r t_tags t_key t_enc t_saved].
    - exact HI.
    - destruct ta; [|discriminate]. exists []. split; [exact HT|]. split; [reflexivity|constructor].
    - exact HE.
    - constructor.
    - exact HFin. }
  unfold t_restore. cbn [t_r t_key t_enc]. auto.
Qed.

Lemma map_snd_tagf m X : map snd (tagf m X) = X.
Proof. unfold tagf. rewrite map_map. cbn [snd]. apply map_id. Qed.
Lemma map_fst_tagf m X : map fst (tagf m X) = map (fun _ => m) X.
Proof. unfold tagf. rewrite map_map. reflexivity. Qed.
Lemma flat_cons r rs : flat (r :: rs) = tagf false (rd_C r) ++ tagf true (rd_S r) ++ flat rs.
Proof. unfold flat. cbn [map concat]. rewrite <- app_assoc. reflexivity. Qed.

Definition Bd (t : treader) (fs : list tframe) : Prop :=
  TSeg t [] (map snd fs) (map fst fs) /\ r_buf (t_r t) = [] /\ t_key t = true /\ t_enc t = false.

Lemma regroup t C B tc tb : TSeg t [] (C ++ B) (tc ++ tb) -> length tc = length C ->
  Forall (fun b => b = t_sealed t) tc -> noeom C -> TSeg t C B tb.
Proof.
  intros [HI (ta & HT & HL & HF) HE HN HFin] L F N. destruct ta; [|discriminate]. constructor; auto.
  exists tc. auto.
Qed.

Lemma last_nonempty_suffix C P A2 : C = P ++ A2 -> last_nonempty C -> last_nonempty A2.
Proof.
  intros E L. unfold last_nonempty in *. rewrite E, rev_app_distr in L.
  destruct (rev A2) as [|f r]; [exact I|exact L].
Qed.

Definition round_valid (r : round) : Prop :=
  Forall nul_free (rd_pubs r) /\ Forall (fun s => bytes_eqb s secret_marker = false) (rd_pubs r) /\ valid_str true (rd_sec r).

Lemma bd_round t r rest : Bd t (tagf false (rd_C r) ++ tagf true (rd_S r) ++ rest) -> round_ok r ->
  TSeg t (rd_C r) (rd_S r ++ map snd rest) (map (fun _ => true) (rd_S r) ++ map fst rest) /\ avail t (rd_C r) = cat (rd_C r).
Proof.
  intros (TS & B0 & K & E) (N1 & N2 & L1 & L2 & C1 & C2).
  rewrite !map_app, !map_snd_tagf, !map_fst_tagf in TS. split.
  - apply (regroup t (rd_C r) _ (map (fun _ => false) (rd_C r)) _ TS); [apply map_length| |exact N1].
    apply Forall_forall. intros b Hb. apply in_map_iff in Hb as (x & <- & _). unfold t_sealed. rewrite K, E. reflexivity.
  - unfold avail. rewrite B0. reflexivity.
Qed.

Lemma recv_rounds rs : forall t fin acc m,
  Forall round_ok rs -> Forall (fun r => rd_pre r = []) rs -> Forall round_valid rs ->
  Bd t (flat rs ++ fin) ->
  exists t', get_exprs (fun _ => true) true (length (items_of rs []) + m) t acc
             = get_exprs (fun _ => true) true m t' (rev (items_of rs []) ++ acc) /\ Bd t' fin.
Proof.
  induction rs as [|r rs IH]; intros t fin acc m Ok Pre Val HB.
  - exists t. cbn. auto.
  - inversion Ok as [|? ? Okr Ok']; subst. inversion Pre as [|? ? Prer Pre']; subst. inversion Val as [|? ? Valr Val']; subst.
    rewrite flat_cons, <- !app_assoc in HB.
    destruct (bd_round t r (flat rs ++ fin) HB Okr) as [TS HA].
    pose proof Okr as (N1 & N2 & L1 & L2 & C1 & C2). destruct Valr as (V1 & V2 & V3).
    destruct HB as (_ & _ & K & E).
    rewrite C1, Prer in HA. cbn [app] in HA.
    destruct (round_step t (rd_C r) (rd_S r) _ _ _ (rd_pubs r) (rd_sec r) acc (length (items_of rs []) + m) TS K E L1 HA N2 L2)
      as (t1 & G1 & TS1 & B1 & K1 & E1); auto.
    { apply map_length. }
    { apply Forall_forall. intros b Hb. apply in_map_iff in Hb as (x & <- & _). reflexivity. }
    destruct (IH t1 fin (rd_sec r :: rev (rd_pubs r) ++ acc) m Ok' Pre' Val') as (t2 & G2 & HB2).
    { split; [exact TS1|]. auto. }
    exists t2. split; [|exact HB2].
    assert (LL : (length (items_of (r :: rs) []) + m = length (rd_pubs r) + S (length (items_of rs []) + m))%nat).
    { unfold items_of. cbn [map concat]. rewrite !app_nil_r, !app_length. cbn [length]. lia. }
    rewrite LL, G1, G2. f_equal.
    unfold items_of. cbn [map concat]. rewrite !app_nil_r, !rev_app_distr. cbn [rev app]. rewrite <- !app_assoc. reflexivity.
Qed.

Lemma bd_U t cur buf : Bd t (tagf false (cur ++ [(buf, true)])) -> noeom cur ->
  U true false t /\ remaining (t_r t) = cat cur ++ buf.
Proof.
  intros ([HI (ta & HT & HL & HF) HE HN HFin] & B0 & K & E) N.
  rewrite map_snd_tagf in HI. rewrite map_fst_tagf in HT. destruct ta; [|discriminate]. cbn [app] in HI, HT.
  split.
  - repeat split; auto.
    + rewrite HT. apply Forall_forall. intros b Hb. apply in_map_iff in Hb as (x & <- & _). reflexivity.
    + unfold wf. rewrite HE, HI. apply frames_ok_last. exact N.
  - unfold remaining. rewrite B0, HI. cbn [app].
    change (concat (map fst (cur ++ [(buf, true)]))) with (cat (cur ++ [(buf, true)])).
    rewrite cat_app. unfold cat at 2. cbn [map concat fst]. rewrite app_nil_r. reflexivity.
Qed.

Lemma vs_false s : nul_free s -> valid_str false s.
Proof. intro H. split; [exact H|discriminate]. Qed.

Lemma final_U t pubs my tg acc :
  U true false t -> remaining (t_r t) = concat (map cstr (pubs ++ [my; tg])) ->
  Forall nul_free pubs -> Forall (fun s => bytes_eqb s secret_marker = false) pubs ->
  nul_free my -> nul_free tg -> type_ok my -> type_ok tg ->
  exists t1 t', get_exprs (fun _ => true) true (length pubs) t acc = (t1, MOk (rev acc ++ pubs)) /\
                get_types true t1 (rev acc ++ pubs) = (t', MOk (rev acc ++ pubs, my, tg)).
Proof.
  intros HU R NF NM Nmy Ntg Tmy Ttg.
  rewrite map_app, concat_app in R.
  assert (Hne : concat (map cstr [my; tg]) <> []).
  { cbn [map concat]. intro H. apply app_eq_nil in H as [H _]. unfold cstr in H. exact (string_bytes_nonempty _ _ H). }
  assert (V : Forall (valid_str false) pubs).
  { apply Forall_forall. intros s Hs. apply vs_false. rewrite Forall_forall in NF. exact (NF s Hs). }
  unfold cstr in *.
  destruct (walk_exprs true false pubs t acc _ HU R Hne V NM) as (t1 & G & U1 & R1).
  exists t1. rewrite G.
  unfold get_types. cbn [andb map concat] in *. rewrite app_nil_r in R1.
  destruct (step_string true false t1 my _ U1 R1 (vs_false _ Nmy)) as (t2 & G2 & R2 & U2). rewrite G2.
  rewrite (type_ok_check _ Tmy).
  specialize (U2 (string_bytes_nonempty _ _)).
  rewrite <- (app_nil_r (string_bytes false tg)) in R2.
  destruct (step_string true false t2 tg [] U2 R2 (vs_false _ Ntg)) as (t3 & G3 & _ & _). rewrite G3.
  rewrite (type_ok_check _ Ttg). exists t3. auto.
Qed.

Lemma items_forall (P : bytes -> Prop) rs : forall pubs, Forall P (items_of rs pubs) ->
  Forall (fun r => Forall P (rd_pubs r) /\ P (rd_sec r)) rs /\ Forall P pubs.
Proof.
  induction rs as [|r rs IH]; intros pubs H; unfold items_of in *; cbn [map concat app] in *.
  - split; [constructor|exact H].
  - rewrite <- !app_assoc in H. apply Forall_app in H as [H1 H2]. cbn [app] in H2.
    inversion H2 as [|? ? Hs H3]; subst. destruct (IH pubs H3) as [A B].
    split; [constructor; [split; assumption|exact A]|exact B].
Qed.

Lemma exprs_not_marker c a : Forall (fun s => bytes_eqb s secret_marker = false) (ad_exprs c a).
Proof.
  unfold ad_exprs. apply Forall_app. split.
  - destruct (opt_server_time (c_opts c)); repeat constructor.
  - apply Forall_forall. intros s Hs. apply in_map_iff in Hs as (x & <- & _). apply expr_text_not_marker.
Qed.

Lemma bd_init fs : Bd (treader_of true false fs) fs.
Proof.
  unfold Bd, treader_of. cbn [t_r t_tags t_key t_enc].
  split; [|split; [reflexivity|split; reflexivity]].
  constructor; cbn [t_r t_tags reader_of r_in r_eom r_fin].
  - reflexivity.
  - exists []. split; [reflexivity|]. split; [reflexivity|constructor].
  - reflexivity.
  - constructor.
  - reflexivity.
Qed.

(* keyed, non-encrypting stream: GetClassAdRaw on the sender's frames returns the sender's items *)
Theorem marker_roundtrip c a :
  opt_no_types (c_opts c) = false ->
  Forall (valid_str true) (ad_exprs c a) ->
  nul_free (ad_mytype a) -> nul_free (ad_targettype a) -> type_ok (ad_mytype a) -> type_ok (ad_targettype a) ->
  (Z.of_nat (length (ad_attrs a)) < 2 ^ 62)%Z ->
  exists t1,
    get_ad_raw (treader_of true false (s_frames (s_finish (put_ad c (sstate_init true false) a)))) =
      (t1, MOk (ad_exprs c a, ad_mytype a, ad_targettype a)).
Proof.
  intros Hnt Hv Nmy Ntg Tmy Ttg Hl.
  destruct (put_ad_rounds c a Hnt) as (rs & pre & pubs & cur & buf & Fr & Ncur & Cb & Ok & Pr & It).
  rewrite Fr. set (fin := tagf false (cur ++ [(buf, true)])).
  pose proof (bd_init (flat rs ++ fin)) as B0. set (t0 := treader_of true false (flat rs ++ fin)) in *.
  pose proof (exprs_not_marker c a) as NMall. rewrite <- It in NMall, Hv.
  destruct (items_forall _ rs pubs NMall) as [NMr NMp].
  destruct (items_forall _ rs pubs Hv) as [Vr Vp].
  assert (NFp : Forall nul_free pubs).
  { apply Forall_forall. intros s Hs. rewrite Forall_forall in Vp. exact (proj1 (Vp s Hs)). }
  assert (Hcount : (- 2 ^ 63 <= ad_count c a < 2 ^ 63)%Z).
  { unfold ad_count. assert (length (attrs_to_send c (ad_attrs a)) <= length (ad_attrs a))%nat.
    { unfold attrs_to_send, filter_whitelist, filter_privacy. destruct (c_whitelist c); apply filter_len. }
    destruct (opt_server_time (c_opts c)); lia. }
  assert (Hlen : Z.to_nat (ad_count c a) = length (ad_exprs c a)).
  { unfold ad_count, ad_exprs. rewrite app_length, map_length. destruct (opt_server_time (c_opts c)); cbn [length]; lia. }
  assert (RV : Forall round_valid rs).
  { apply Forall_forall. intros r Hr. rewrite Forall_forall in NMr, Vr. destruct (NMr r Hr) as [A1 _]. destruct (Vr r Hr) as [A2 A3].
    split; [|split; [exact A1|exact A3]]. apply Forall_forall. intros s Hs. rewrite Forall_forall in A2. exact (proj1 (A2 s Hs)). }
  unfold get_ad_raw, get_ad_gen.
  destruct rs as [|r1 rs'].
  - (* no secret attribute was sent: one clear, honest segment *)
    cbn [pres_ok] in Pr. subst pre. unfold flat in B0. cbn [map concat app] in B0.
    destruct (bd_U t0 cur buf B0 Ncur) as [U0 R0]. rewrite Cb in R0.
    destruct (step_int true false t0 _ _ U0 R0 Hcount) as (t1 & G1 & U1 & R1). rewrite G1, Hlen, <- It.
    unfold items_of. cbn [map concat app].
    destruct (final_U t1 pubs _ _ [] U1 R1 NFp NMp Nmy Ntg Tmy Ttg) as (t2 & t3 & G2 & G3).
    rewrite G2. cbn [rev app] in *. rewrite G3. exists t3. reflexivity.
  - (* at least one secret *)
    cbn [pres_ok] in Pr. destruct Pr as (P1 & P2 & P3). subst pre.
    inversion Ok as [|? ? Ok1 Ok']; subst. inversion RV as [|? ? RV1 RV']; subst.
    rewrite flat_cons, <- !app_assoc in B0.
    destruct (bd_round t0 r1 (flat rs' ++ fin) B0 Ok1) as [TS0 HA0].
    pose proof Ok1 as (N1 & N2 & L1 & L2 & C1 & C2). destruct RV1 as (V1 & V2 & V3).
    pose proof B0 as (_ & _ & K0 & E0).
    rewrite C1, P1 in HA0.
    destruct (t_int_local t0 (rd_C r1) _ _ _ _ TS0 Hcount HA0) as (t1 & A2 & G1 & TS1 & HA1 & (K1 & E1 & _) & (P & EP)).
    rewrite G1, Hlen, <- It.
    rewrite K0 in K1. rewrite E0 in E1.
    assert (LL : length (items_of (r1 :: rs') pubs) = (length (rd_pubs r1) + S (length (items_of rs' []) + length pubs))%nat).
    { unfold items_of. cbn [map concat]. rewrite !app_nil_r, !app_length. cbn [length]. lia. }
    rewrite LL.
    destruct (round_step t1 A2 (rd_S r1) _ _ _ (rd_pubs r1) (rd_sec r1) [] (length (items_of rs' []) + length pubs)
                TS1 K1 E1 (last_nonempty_suffix _ _ _ EP L1) HA1 N2 L2) as (t2 & G2 & TS2 & B2 & K2 & E2); auto.
    { apply map_length. }
    { apply Forall_forall. intros b Hb. apply in_map_iff in Hb as (x & <- & _). reflexivity. }
    rewrite G2.
    destruct (recv_rounds rs' t2 fin (rd_sec r1 :: rev (rd_pubs r1) ++ []) (length pubs) Ok' P2 RV') as (t3 & G3 & B3).
    { split; [exact TS2|]. auto. }
    rewrite G3.
    destruct (bd_U t3 cur buf B3 Ncur) as [U3 R3]. rewrite Cb in R3. cbn [app] in R3.
    destruct (final_U t3 pubs _ _ (rev (items_of rs' []) ++ rd_sec r1 :: rev (rd_pubs r1) ++ []) U3 R3 NFp NMp Nmy Ntg Tmy Ttg)
      as (t4 & t5 & G4 & G5).
    rewrite G4.
    assert (EQ : rev (rev (items_of rs' []) ++ rd_sec r1 :: rev (rd_pubs r1) ++ []) ++ pubs = items_of (r1 :: rs') pubs).
    { rewrite app_nil_r, rev_app_distr, rev_involutive. cbn [rev]. rewrite rev_involutive.
      unfold items_of. cbn [map concat]. rewrite !app_nil_r, <- !app_assoc. reflexivity. }
    rewrite EQ in *. rewrite G5. exists t5. reflexivity.
Qed.
