(* Proofs/C13ad.v — the summed byte budget of the bounded ClassAd reader on a
   cleartext stream: the whole ad consumes at most cap + 8 bytes. *)
From Coq Require Import List NArith ZArith Lia Bool.
From Coq Require Import ZifyBool ZifyNat ZifyN.
From Cedar Require Import Lib.Bytes gen.Consts Model.Msg Model.Decode Proofs.C13.
Import ListNotations.
Local Open Scope N_scope.

(* strengthened post-condition of the capped cleartext loop: a returned string
   and its terminator fit in [left], and no more than that was consumed *)
Definition cmax2 (r : reader) (acc : bytes) (left : N) (x : reader * mres bytes) : Prop :=
  forall s, snd x = MOk s ->
    lenN s + 1 <= lenN acc + left /\ avail r + lenN acc <= avail (fst x) + lenN s + 1.

Lemma get_cstr_max_loop_post2 fuel : forall r acc left, cmax2 r acc left (get_cstr_max_loop fuel r acc left).
Proof.
  induction fuel as [|f IH]; intros r acc left; cbn [get_cstr_max_loop];
    destruct (N.eqb_spec left 0) as [->|Hl].
  1,2,3: unfold cmax2; cbn [fst snd]; intros s Hs; discriminate.
  destruct (ensure r 1) as [r1 [[]|e|]] eqn:E; apply ensure_spec in E;
    destruct E as (E0 & E1 & E2 & E3 & _ & E5).
  - destruct (r_buf r1) as [|b rest] eqn:Hb.
    + unfold cmax2; cbn [fst snd]; intros s Hs; discriminate.
    + destruct (set_buf_tail r1 b rest Hb) as (S1 & S2 & S3).
      destruct (byte_eqb b x00).
      * unfold cmax2; cbn [fst snd]. intros s Hs. inversion Hs; subst. rewrite lenN_rev'. lia.
      * specialize (IH (set_buf r1 rest) (b :: acc) (N.pred left)). unfold cmax2 in *.
        intros s Hs. specialize (IH s Hs). rewrite lenN_cons in IH. lia.
  - destruct e; try (unfold cmax2; cbn [fst snd]; intros s Hs; discriminate).
    destruct acc as [|a acc']; unfold cmax2; cbn [fst snd]; intros s Hs; inversion Hs; subst.
    rewrite lenN_nil. lia.
  - exfalso. apply E0. reflexivity.
Qed.

(* one budgeted read on a cleartext stream, in Z *)
Definition zav (r : reader) : Z := Z.of_N (avail r).

Lemma budget_read_clear cap total r :
  (0 < cap)%Z -> (0 <= total <= cap)%Z ->
  let x := budget_read false cap total r in
  (zav r + total <= zav (fst x) + cap)%Z /\ (zav (fst x) <= zav r)%Z /\
  (forall s, snd x = MOk s ->
     (total <= charge_total cap total s <= cap)%Z /\
     (zav r + total <= zav (fst x) + charge_total cap total s)%Z).
Proof.
  intros Hc Ht. cbn zeta. unfold budget_read, charge_total, zav.
  destruct (Z.ltb_spec 0 cap); [|lia].
  destruct (Z.leb_spec (cap - total) 0).
  - cbn [fst snd]. split; [lia|]. split; [lia|]. intros s Hs; discriminate.
  - unfold get_string_max. destruct (Z.leb_spec (cap - total) 0); [lia|].
    unfold get_cstr_max.
    pose proof (get_cstr_max_loop_post (S (S (N.to_nat (avail r)))) r [] (Z.to_N (cap - total))) as P.
    pose proof (get_cstr_max_loop_post2 (S (S (N.to_nat (avail r)))) r [] (Z.to_N (cap - total))) as Q.
    destruct P as ((_ & _ & P2 & _ & _) & P5 & _ & _).
    match goal with |- context [charge lenN ?t] => destruct (charge_fst_snd t) as (C1 & C2 & C3); set (T := t) in * end.
    rewrite C1, C3. split; [lia|]. split; [lia|].
    intros s Hs. destruct (Q s Hs) as (Q1 & Q2). rewrite lenN_nil in *. lia.
Qed.

Section AdClear.
  Variable parse : N -> bytes -> bool.
  Variable cap : Z.
  Hypothesis Hcap : (0 < cap)%Z.

  Definition ad_post (total : Z) (r : reader) (x : reader * mres Z) : Prop :=
    (zav r + total <= zav (fst x) + cap)%Z /\
    (forall t', snd x = MOk t' -> (total <= t' <= cap)%Z /\ (zav r + total <= zav (fst x) + t')%Z).

  Lemma ad_loop_clear fuel : forall left i total r,
    (0 <= total <= cap)%Z -> ad_post total r (ad_loop parse false cap fuel left i total r).
  Proof.
    induction fuel as [|f IH]; intros left i total r Ht; cbn [ad_loop];
      destruct (left <=? 0)%Z.
    1,2,3: unfold ad_post; cbn [fst snd]; split; [lia|]; intros t' H'; try discriminate; inversion H'; subst; lia.
    pose proof (budget_read_clear cap total r Hcap Ht) as B1. cbn zeta in B1.
    destruct (budget_read false cap total r) as [r1 [s|e|]]; cbn [fst snd bind] in *;
      destruct B1 as (B1a & B1b & B1c).
    2,3: unfold ad_post; cbn [fst snd]; split; [lia|]; intros t' H'; discriminate.
    destruct (B1c s eq_refl) as (T1 & T2). set (total1 := charge_total cap total s) in *.
    destruct (bytes_eqb s secret_marker).
    - pose proof (budget_read_clear cap total1 r1 Hcap ltac:(lia)) as B2. cbn zeta in B2.
      destruct (budget_read false cap total1 r1) as [r2 [e|e|]]; cbn [fst snd bind] in *;
        destruct B2 as (B2a & B2b & B2c).
      2,3: unfold ad_post; cbn [fst snd]; split; [lia|]; intros t' H'; discriminate.
      destruct (B2c e eq_refl) as (U1 & U2). set (total2 := charge_total cap total1 e) in *.
      destruct (has_eq e && parse i e).
      + specialize (IH (left - 1)%Z (N.succ i) total2 r2 ltac:(lia)). unfold ad_post in *.
        destruct IH as (I1 & I2). split; [lia|]. intros t' H'. specialize (I2 t' H'). lia.
      + unfold ad_post; cbn [fst snd]. split; [lia|]. intros t' H'; discriminate.
    - cbn [bind].
      destruct (has_eq s && parse i s).
      + specialize (IH (left - 1)%Z (N.succ i) total1 r1 ltac:(lia)). unfold ad_post in *.
        destruct IH as (I1 & I2). split; [lia|]. intros t' H'. specialize (I2 t' H'). lia.
      + unfold ad_post; cbn [fst snd]. split; [lia|]. intros t' H'; discriminate.
  Qed.

  Lemma get_int_consumes r : (zav r <= zav (fst (get_int r)) + 8)%Z.
  Proof.
    unfold get_int, zav. destruct (get_raw r 8) as [r1 [bs|e|]] eqn:E; apply get_raw_spec in E;
      destruct E as ((E1 & E2) & _); cbn [fst]; lia.
  Qed.

  Theorem get_classad_clear_cap r :
    avail r <= avail (fst (get_classad parse false cap r)) + Z.to_N cap + 8.
  Proof.
    unfold get_classad. pose proof (get_int_consumes r) as G.
    destruct (get_int r) as [r0 [num|e|]]; cbn [fst bind] in *; unfold zav in *; try lia.
    pose proof (ad_loop_clear (S (S (N.to_nat (avail r0)))) num 0 0%Z r0 ltac:(lia)) as L.
    destruct (ad_loop parse false cap (S (S (N.to_nat (avail r0)))) num 0 0 r0) as [r1 [t1|e|]];
      cbn [fst snd bind] in *; destruct L as (L1 & L2); cbn [fst snd] in *; unfold zav in *; try lia.
    destruct (L2 t1 eq_refl) as (M1 & M2).
    pose proof (budget_read_clear cap t1 r1 Hcap ltac:(lia)) as B1. cbn zeta in B1.
    destruct (budget_read false cap t1 r1) as [r2 [mt|e|]]; cbn [fst snd bind] in *;
      destruct B1 as (B1a & B1b & B1c); unfold zav in *; try lia.
    destruct (B1c mt eq_refl) as (T1 & T2).
    pose proof (budget_read_clear cap (charge_total cap t1 mt) r2 Hcap ltac:(lia)) as B2. cbn zeta in B2.
    destruct (budget_read false cap (charge_total cap t1 mt) r2) as [r3 [tt'|e|]]; cbn [fst snd bind] in *;
      destruct B2 as (B2a & B2b & B2c); unfold zav in *; lia.
  Qed.
End AdClear.

(* ---------- the same on an encrypted stream: at most 7*cap + 24 bytes ---------------------- *)
Lemma lstr_tail_exact {A} r z (k : bytes -> mres A) r' res :
  (0 <= z)%Z ->
  bind (ensure r z) (fun r2 _ => bind (r_make r2 z) (fun r3 _ =>
        let '(r4, data) := r_read r3 (Z.to_N z) in (r4, k data))) = (r', res) ->
  forall a, res = MOk a -> avail r' + Z.to_N z = avail r.
Proof.
  intros Hz. destruct (ensure r z) as [r2 [[]|e|]] eqn:E; cbn [bind].
  - unfold r_make, go_make. destruct (Z.ltb_spec z 0); [lia|]. cbn [bind].
    pose proof (read_after_ensure _ _ _ E Hz) as K. cbn in K. destruct K as (K1 & K2 & K3 & K4).
    cbn. intro Heq; inversion Heq; subst; clear Heq. intros a _. exact K2.
  - intro Heq; inversion Heq; subst. intros a Ha; discriminate.
  - apply ensure_spec in E. destruct E as (E0 & _). exfalso; apply E0; reflexivity.
Qed.

Lemma strip_string_nonempty d : strip_string d <> [] -> lenN d <= lenN (strip_string d) + 1.
Proof.
  unfold strip_string. destruct d as [|b d']; [congruence|].
  destruct (byte_eqb b (n2b BinNullChar)); [congruence|].
  destruct (rev' (b :: d')) as [|l r] eqn:E; [lia|].
  destruct (byte_eqb l x00); [|lia].
  intros _. pose proof (lenN_rev' (b :: d')) as K. rewrite E, lenN_cons in K. rewrite lenN_rev'. lia.
Qed.

(* an Ok result of the capped encrypted reader: 8 + n bytes were consumed, n <= cap, the
   string is no longer than n, and a non-empty string is at most one byte shorter than n *)
Lemma get_lstr_max_ok_spec m r r' s :
  (0 < m)%Z -> get_lstr_max m r = (r', MOk s) ->
  exists n, avail r' + 8 + n = avail r /\ n <= Z.to_N m /\ lenN s <= n /\ (s <> [] -> n <= lenN s + 1).
Proof.
  intros Hm. unfold get_lstr_max. destruct (get_int32 r) as [r1 [len|e|]] eqn:E; cbn [bind]; try discriminate.
  apply get_int32_spec in E. destruct E as (_ & E2 & _). specialize (E2 len eq_refl).
  destruct (Z.ltb_spec len 0); [discriminate|].
  destruct (Z.ltb_spec m len).
  - intro T. pose proof T as T'. apply (lstr_tail_spec r1 m (fun d => MErr MTooBig)) in T; [|lia].
    destruct T as (_ & _ & T3). destruct (T3 s eq_refl) as (d & Hd & _). discriminate.
  - intro T. pose proof T as T'.
    apply (lstr_tail_spec r1 len (fun d => MOk (strip_string d))) in T; [|lia].
    apply (lstr_tail_exact r1 len (fun d => MOk (strip_string d))) with (a := s) in T'; [|lia|reflexivity].
    destruct T as (_ & _ & T3). destruct (T3 s eq_refl) as (d & Hd & Hl). inversion Hd; subst.
    exists (Z.to_N len). split; [lia|]. split; [lia|]. split; [pose proof (strip_string_len d); lia|].
    intro Hne. pose proof (strip_string_nonempty d Hne). lia.
Qed.

Lemma budget_read_enc cap total r :
  (0 < cap)%Z -> (0 <= total)%Z ->
  let x := budget_read true cap total r in
  (zav (fst x) <= zav r)%Z /\
  ((cap - total <= 0)%Z -> zav (fst x) = zav r /\ forall s, snd x <> MOk s) /\
  ((0 < cap - total)%Z ->
     (zav r <= zav (fst x) + (cap - total) + 8)%Z /\
     (forall s, snd x = MOk s ->
        (total < charge_total cap total s <= cap + 1)%Z /\
        (s <> [] -> (zav r + total <= zav (fst x) + charge_total cap total s + 8)%Z))).
Proof.
  intros Hc Ht. cbn zeta. unfold budget_read, charge_total, zav.
  destruct (Z.ltb_spec 0 cap); [|lia].
  destruct (Z.leb_spec (cap - total) 0).
  - cbn [fst snd]. split; [lia|]. split; [|lia]. intros _. split; [reflexivity|]. intros s Hs; discriminate.
  - unfold get_string_max. destruct (Z.leb_spec (cap - total) 0); [lia|].
    pose proof (get_lstr_max_ok (cap - total) r ltac:(lia)) as O. destruct O as (_ & O1 & O2 & _).
    pose proof (get_lstr_max_cap (cap - total) r ltac:(lia)) as C. destruct C as (C1 & _ & _).
    destruct (get_lstr_max (cap - total) r) as [r' res] eqn:G. cbn [fst snd] in *.
    split; [lia|]. split; [lia|]. intros _. split; [lia|].
    intros s Hs. subst res. apply get_lstr_max_ok_spec in G; [|lia].
    destruct G as (n & G1 & G2 & G3 & G4). split; [lia|]. intro Hne. specialize (G4 Hne). lia.
Qed.

Lemma has_eq_nonempty e : has_eq e = true -> e <> [].
Proof. destruct e; [discriminate|congruence]. Qed.
Lemma marker_nonempty s : bytes_eqb s secret_marker = true -> s <> [] /\ lenN s = 3.
Proof. intro H. apply bytes_eqb_eq in H. subst. split; [discriminate|reflexivity]. Qed.

Section AdEnc.
  Variable parse : N -> bytes -> bool.
  Variable cap : Z.
  Hypothesis Hcap : (0 < cap)%Z.

  (* potential: 5 bytes of wire per byte of budget while the loop goes on, one more
     budget-sized read when it stops *)
  Definition ade_post (total : Z) (r : reader) (x : reader * mres Z) : Prop :=
    (zav r + 5 * total <= zav (fst x) + 5 * (cap + 1) + (cap + 16))%Z /\
    (forall t', snd x = MOk t' -> (total <= t' <= cap + 1)%Z /\ (zav r + 5 * total <= zav (fst x) + 5 * t')%Z).

  Lemma ad_loop_enc fuel : forall left i total r,
    (0 <= total <= cap + 1)%Z -> ade_post total r (ad_loop parse true cap fuel left i total r).
  Proof.
    induction fuel as [|f IH]; intros left i total r Ht; cbn [ad_loop];
      destruct (left <=? 0)%Z.
    1,2,3: unfold ade_post; cbn [fst snd]; split; [lia|]; intros t' H'; try discriminate; inversion H'; subst; lia.
    pose proof (budget_read_enc cap total r Hcap ltac:(lia)) as B1. cbn zeta in B1.
    destruct (budget_read true cap total r) as [r1 [s|e|]]; cbn [fst snd bind] in *;
      destruct B1 as (B1a & B1b & B1c).
    2,3: unfold ade_post; cbn [fst snd]; split; [|intros t' H'; discriminate];
         destruct (Z.leb_spec (cap - total) 0); [destruct (B1b ltac:(lia)); lia|destruct (B1c ltac:(lia)); lia].
    destruct (Z.leb_spec (cap - total) 0) as [Hr|Hr]; [exfalso; destruct (B1b Hr) as (_ & Q); exact (Q s eq_refl)|].
    destruct (B1c Hr) as (B1d & B1e). destruct (B1e s eq_refl) as (T1 & T2).
    set (total1 := charge_total cap total s) in *.
    destruct (bytes_eqb s secret_marker) eqn:Mk.
    - destruct (marker_nonempty s Mk) as (Hne & Hl3). specialize (T2 Hne).
      assert (Ht1 : (total1 = total + 4)%Z).
      { unfold total1, charge_total. destruct (Z.ltb_spec 0 cap); lia. }
      pose proof (budget_read_enc cap total1 r1 Hcap ltac:(lia)) as B2. cbn zeta in B2.
      destruct (budget_read true cap total1 r1) as [r2 [e|e|]]; cbn [fst snd bind] in *;
        destruct B2 as (B2a & B2b & B2c).
      2,3: unfold ade_post; cbn [fst snd]; split; [|intros t' H'; discriminate];
           destruct (Z.leb_spec (cap - total1) 0); [destruct (B2b ltac:(lia)); lia|destruct (B2c ltac:(lia)); lia].
      destruct (Z.leb_spec (cap - total1) 0) as [Hr2|Hr2]; [exfalso; destruct (B2b Hr2) as (_ & Q); exact (Q e eq_refl)|].
      destruct (B2c Hr2) as (B2d & B2e). destruct (B2e e eq_refl) as (U1 & U2).
      set (total2 := charge_total cap total1 e) in *.
      destruct (has_eq e) eqn:He; cbn [andb].
      + specialize (U2 (has_eq_nonempty e He)).
        assert (Hlen : (total1 + 2 <= total2)%Z).
        { unfold total2, charge_total. destruct (Z.ltb_spec 0 cap); [|lia].
          destruct e as [|b0 e']; [discriminate|]. rewrite lenN_cons. lia. }
        destruct (parse i e).
        * specialize (IH (left - 1)%Z (N.succ i) total2 r2 ltac:(lia)). unfold ade_post in *.
          destruct IH as (I1 & I2). split; [lia|]. intros t' H'. specialize (I2 t' H'). lia.
        * unfold ade_post; cbn [fst snd]. split; [lia|]. intros t' H'; discriminate.
      + unfold ade_post; cbn [fst snd]. split; [lia|]. intros t' H'; discriminate.
    - cbn [bind].
      destruct (has_eq s) eqn:He; cbn [andb].
      + specialize (T2 (has_eq_nonempty s He)).
        assert (Hlen : (total + 2 <= total1)%Z).
        { unfold total1, charge_total. destruct (Z.ltb_spec 0 cap); [|lia].
          destruct s as [|b0 s']; [discriminate|]. rewrite lenN_cons. lia. }
        destruct (parse i s).
        * specialize (IH (left - 1)%Z (N.succ i) total1 r1 ltac:(lia)). unfold ade_post in *.
          destruct IH as (I1 & I2). split; [lia|]. intros t' H'. specialize (I2 t' H'). lia.
        * unfold ade_post; cbn [fst snd]. split; [lia|]. intros t' H'; discriminate.
      + unfold ade_post; cbn [fst snd]. split; [lia|]. intros t' H'; discriminate.
  Qed.
End AdEnc.

Theorem get_classad_enc_cap parse cap r :
  (0 < cap)%Z ->
  avail r <= avail (fst (get_classad parse true cap r)) + 6 * Z.to_N cap + 32.
Proof.
  intro Hcap. unfold get_classad. pose proof (get_int_consumes parse r) as G.
  destruct (get_int r) as [r0 [num|e|]]; cbn [fst bind] in *; unfold zav in *; try lia.
  pose proof (ad_loop_enc parse cap Hcap (S (S (N.to_nat (avail r0)))) num 0 0%Z r0 ltac:(lia)) as L.
  destruct (ad_loop parse true cap (S (S (N.to_nat (avail r0)))) num 0 0 r0) as [r1 [t1|e|]];
    cbn [fst snd bind] in *; destruct L as (L1 & L2); cbn [fst snd] in *; unfold zav in *; try lia.
  destruct (L2 t1 eq_refl) as (M1 & M2).
  pose proof (budget_read_enc cap t1 r1 Hcap ltac:(lia)) as B1. cbn zeta in B1.
  destruct (budget_read true cap t1 r1) as [r2 [mt|e|]]; cbn [fst snd bind] in *;
    destruct B1 as (B1a & B1b & B1c); unfold zav in *.
  2,3: destruct (Z.leb_spec (cap - t1) 0); [destruct (B1b ltac:(lia)); lia|destruct (B1c ltac:(lia)); lia].
  destruct (Z.leb_spec (cap - t1) 0) as [Hr|Hr]; [exfalso; destruct (B1b Hr) as (_ & Q); exact (Q mt eq_refl)|].
  destruct (B1c Hr) as (B1d & B1e). destruct (B1e mt eq_refl) as (T1 & _).
  set (t2 := charge_total cap t1 mt) in *.
  pose proof (budget_read_enc cap t2 r2 Hcap ltac:(lia)) as B2. cbn zeta in B2.
  destruct (budget_read true cap t2 r2) as [r3 [tt'|e|]]; cbn [fst snd bind] in *;
    destruct B2 as (B2a & B2b & B2c); unfold zav in *;
    (destruct (Z.leb_spec (cap - t2) 0); [destruct (B2b ltac:(lia)); lia|destruct (B2c ltac:(lia)); lia]).
Qed.
