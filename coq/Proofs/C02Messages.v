(* Proofs/C02Messages.v — from the frame-level prefix theorem to whole messages and
   whole honest histories. *)
From Coq Require Import List NArith ZArith Lia Bool.
From Cedar Require Import Lib.Bytes Lib.Sym gen.Consts Model.Frame Model.FrameSpec
     Proofs.FrameBase Proofs.C12Nonce Proofs.C01Stream Proofs.C02Prefix.
Import ListNotations.
Local Open Scope N_scope.

(* ---- prefix facts ------------------------------------------------------ *)
Lemma prefix_refl {A} (l : list A) : prefix l l.
Proof. induction l; constructor; assumption. Qed.
Lemma prefix_trans {A} (a b c : list A) : prefix a b -> prefix b c -> prefix a c.
Proof.
  intro H. revert c. induction H as [l|x a b H IH]; intros c H2; [constructor|].
  inversion H2; subst. constructor. apply IH. assumption.
Qed.
Lemma prefix_app {A} (a b : list A) : prefix a (a ++ b).
Proof. induction a; cbn [app]; constructor; assumption. Qed.

(* ---- messages carried by a frame trace --------------------------------- *)
(* a frame with end flag 0 continues the message, any other flag ends it *)
Fixpoint msgs_of_tr (acc : bytes) (tr : list (bytes * N)) : list bytes :=
  match tr with
  | [] => []
  | (d, fl) :: r => if fl =? 0 then msgs_of_tr (acc ++ d) r else (acc ++ d) :: msgs_of_tr [] r
  end.

Lemma msgs_of_tr_prefix l tr : prefix l tr -> forall acc, prefix (msgs_of_tr acc l) (msgs_of_tr acc tr).
Proof.
  induction 1 as [tr|[d fl] a b H IH]; intro acc; [constructor|].
  cbn [msgs_of_tr]. destruct (fl =? 0); [apply IH|constructor; apply IH].
Qed.

(* one message's worth of accepted frames: zero or more partial frames, then a frame with a non-zero flag *)
Inductive is_group : list (bytes * N) -> Prop :=
| grp_end d fl : fl <> 0 -> is_group [(d, fl)]
| grp_more d l : is_group l -> is_group ((d, 0) :: l).
Definition gconcat (l : list (bytes * N)) : bytes := concat (map fst l).

Lemma group_msgs l : is_group l -> forall acc l2,
  msgs_of_tr acc (l ++ l2) = (acc ++ gconcat l) :: msgs_of_tr [] l2.
Proof.
  induction 1 as [d fl Hfl|d l Hg IH]; intros acc l2; cbn [app msgs_of_tr].
  - apply N.eqb_neq in Hfl. rewrite Hfl. unfold gconcat. cbn [map fst concat]. rewrite app_nil_r. reflexivity.
  - cbn [N.eqb]. rewrite IH. unfold gconcat. cbn [map fst concat]. rewrite app_assoc. reflexivity.
Qed.

(* ---- what the whole-message receive APIs deliver ------------------------ *)
Lemma recv_msg_frames_spec fs : forall B acc B1 b r,
  recv_msg_frames B acc fs = (B1, SOk b, r) ->
  exists l, is_group l /\ b = acc ++ gconcat l /\
            snd (recv_frames B fs) = l ++ snd (recv_frames B1 r).
Proof.
  induction fs as [|f fs IH]; intros B acc B1 b r Hr; cbn [recv_msg_frames] in Hr; [discriminate|].
  cbn [recv_frames]. destruct (recv_frame_we B f) as [B2 [[d fl]|e]] eqn:Ef; [|discriminate].
  destruct (fl =? 0) eqn:E0.
  - destruct (IH _ _ _ _ _ Hr) as [l [Hg [Hb Hrf]]].
    destruct (recv_frames B2 fs) as [B3 l3] eqn:E3. cbn [snd] in *.
    apply N.eqb_eq in E0. subst fl.
    exists ((d, 0) :: l). split; [constructor; exact Hg|]. split.
    + rewrite Hb. unfold gconcat. cbn [map fst concat]. rewrite app_assoc. reflexivity.
    + rewrite Hrf. reflexivity.
  - injection Hr as <- <- <-.
    destruct (recv_frames B2 fs) as [B3 l3] eqn:E3. cbn [snd].
    exists [(d, fl)]. split; [constructor; apply N.eqb_neq; exact E0|]. split.
    + unfold gconcat. cbn [map fst concat]. rewrite app_nil_r. reflexivity.
    + reflexivity.
Qed.

Lemma recv_complete_spec fs : forall B acc B1 b r,
  recv_complete B acc fs = (B1, SOk b, r) ->
  exists l, is_group l /\ b = acc ++ gconcat l /\
            snd (recv_frames B fs) = l ++ snd (recv_frames B1 r).
Proof.
  induction fs as [|f fs IH]; intros B acc B1 b r Hr; cbn [recv_complete] in Hr; [discriminate|].
  cbn [recv_frames]. destruct (recv_frame_we B f) as [B2 [[d fl]|e]] eqn:Ef; [|discriminate].
  destruct (fl =? EndFlagComplete) eqn:E1.
  - injection Hr as <- <- <-.
    destruct (recv_frames B2 fs) as [B3 l3] eqn:E3. cbn [snd].
    apply N.eqb_eq in E1. subst fl.
    exists [(d, EndFlagComplete)]. split; [constructor; discriminate|]. split.
    + unfold gconcat. cbn [map fst concat]. rewrite app_nil_r. reflexivity.
    + reflexivity.
  - destruct (fl =? EndFlagPartial) eqn:E0; [|discriminate].
    destruct (IH _ _ _ _ _ Hr) as [l [Hg [Hb Hrf]]].
    destruct (recv_frames B2 fs) as [B3 l3] eqn:E3. cbn [snd] in *.
    apply N.eqb_eq in E0. subst fl.
    exists ((d, 0) :: l). split; [constructor; exact Hg|]. split.
    + rewrite Hb. unfold gconcat. cbn [map fst concat]. rewrite app_assoc. reflexivity.
    + rewrite Hrf. reflexivity.
Qed.

(* the list delivered by recv_upto is a prefix of the groups of the accepted frames *)
Lemma recv_upto_groups api : api = ApiComplete \/ api = ApiMessage -> forall n B fs,
  prefix (snd (fst (fst (recv_upto api B n fs)))) (msgs_of_tr [] (snd (recv_frames B fs))).
Proof.
  intros Hapi n. induction n as [|n IH]; intros B fs; cbn [recv_upto]; [constructor|].
  assert (Hone : forall B1 b r, recv_one api B fs = (B1, SOk b, r) ->
            exists l, is_group l /\ b = [] ++ gconcat l /\
                      snd (recv_frames B fs) = l ++ snd (recv_frames B1 r)).
  { intros B1 b r Hr. destruct Hapi as [-> | ->]; cbn [recv_one] in Hr.
    - apply recv_complete_spec. exact Hr.
    - apply recv_msg_frames_spec. exact Hr. }
  destruct (recv_one api B fs) as [[B1 [b|e]] r] eqn:Er; [|constructor].
  destruct (Hone _ _ _ eq_refl) as [l [Hg [Hb Hrf]]].
  specialize (IH B1 r).
  destruct (recv_upto api B1 n r) as [[[B2 got] e2] r2] eqn:Eu. cbn [fst snd] in *.
  rewrite Hrf, (group_msgs _ Hg), <- Hb. constructor. exact IH.
Qed.

(* ---- honest histories are frame traces ---------------------------------- *)
Definition norm (s : stream) : stream := upd_sbuf s [] false.

Lemma send_frame_norm A d fl A1 f :
  send_frame A d fl = (A1, SOk f) -> send_frame (norm A) d fl = (norm A1, SOk f).
Proof. intro H. unfold norm. rewrite send_frame_sbuf_indep, H. reflexivity. Qed.

Lemma sent_app A tr1 fs1 A1 tr2 fs2 A2 :
  sent A tr1 fs1 A1 -> sent A1 tr2 fs2 A2 -> sent A (tr1 ++ tr2) (fs1 ++ fs2) A2.
Proof. induction 1; intro H2; cbn [app]; [exact H2|]. econstructor; eauto. Qed.

Lemma partials_sent ps : forall A A1 fs,
  partials A ps = (A1, SOk fs) -> sent (norm A) (partial_tr ps) fs (norm A1).
Proof.
  induction ps as [|p ps IH]; intros A A1 fs Hp; cbn [partials] in Hp.
  - injection Hp as <- <-. constructor.
  - destruct (send_frame A p EndFlagPartial) as [A2 [f|e]] eqn:Es; [|discriminate].
    destruct (partials A2 ps) as [A3 [fs2|e]] eqn:Ep; [|discriminate].
    injection Hp as <- <-. cbn [partial_tr map].
    econstructor; [left; reflexivity|apply send_frame_norm; exact Es|apply IH; exact Ep].
Qed.

Lemma write_message_sent A c A1 fs :
  send_eom A = false -> write_message A c = (A1, SOk fs) ->
  exists ds, sent (norm A) (partial_tr ds) fs (norm A1) /\ send_eom A1 = false /\
             concat ds ++ send_buf A1 = send_buf A ++ c.
Proof.
  intros He Hw. unfold write_message in Hw. rewrite He in Hw.
  set (A0 := upd_sbuf A (send_buf A ++ c) false) in *.
  destruct (DefaultFrameThreshold <=? lenN (send_buf A0)) eqn:Et.
  - unfold flush_partial in Hw.
    destruct (lenN (send_buf A0) =? 0) eqn:E0.
    + injection Hw as <- <-. exists []. split; [constructor|]. subst A0; proj_simpl. split; reflexivity.
    + destruct (send_frame A0 (send_buf A0) EndFlagPartial) as [A2 [f|e]] eqn:Es; [|discriminate].
      injection Hw as <- <-.
      destruct (send_frame_sbuf _ _ _ _ _ Es) as [Hb Hee].
      exists [send_buf A0]. split.
      * cbn [partial_tr map].
        change (norm A) with (norm A0). change (norm (upd_sbuf A2 [] (send_eom A2))) with (norm A2).
        econstructor; [left; reflexivity|apply send_frame_norm; exact Es|constructor].
      * proj_simpl. split; [rewrite Hee; subst A0; proj_simpl; reflexivity|].
        cbn [concat]. rewrite !app_nil_r. subst A0; proj_simpl. reflexivity.
  - injection Hw as <- <-. exists []. split; [constructor|]. subst A0; proj_simpl. split; reflexivity.
Qed.

Lemma writes_sent cs : forall A A1 fs,
  send_eom A = false -> writes A cs = (A1, SOk fs) ->
  exists ds, sent (norm A) (partial_tr ds) fs (norm A1) /\ send_eom A1 = false /\
             concat ds ++ send_buf A1 = send_buf A ++ concat cs.
Proof.
  induction cs as [|c cs IH]; intros A A1 fs He Hw; cbn [writes] in Hw.
  - injection Hw as <- <-. exists []. split; [constructor|]. split; [exact He|].
    cbn [concat]. rewrite app_nil_r. reflexivity.
  - destruct (write_message A c) as [A2 [fs1|e]] eqn:E1; [|discriminate].
    destruct (writes A2 cs) as [A3 [fs2|e]] eqn:E2; [|discriminate].
    injection Hw as <- <-.
    destruct (write_message_sent _ _ _ _ He E1) as [ds1 [Hs1 [He2 Hc1]]].
    destruct (IH _ _ _ He2 E2) as [ds2 [Hs2 [He3 Hc2]]].
    exists (ds1 ++ ds2). split; [rewrite partial_tr_app; eapply sent_app; eassumption|].
    split; [exact He3|].
    rewrite concat_app, <- app_assoc, Hc2. cbn [concat]. rewrite !app_assoc. f_equal. exact Hc1.
Qed.

Lemma msgs_of_partials ds : forall acc rest,
  msgs_of_tr acc (partial_tr ds ++ rest) = msgs_of_tr (acc ++ concat ds) rest.
Proof.
  induction ds as [|d ds IH]; intros acc rest; cbn [partial_tr map app concat].
  - rewrite app_nil_r. reflexivity.
  - cbn [msgs_of_tr]. change (EndFlagPartial =? 0) with true. cbv iota.
    fold (partial_tr ds). rewrite IH, app_assoc. reflexivity.
Qed.

Lemma send_msg_sent m A A1 fs :
  send_msg A m = (A1, SOk fs) ->
  exists tr, sent (norm A) tr fs (norm A1) /\
             forall acc rest, msgs_of_tr acc (tr ++ rest) = (acc ++ payload_of m) :: msgs_of_tr [] rest.
Proof.
  intro Hs. destruct m as [cs|ps l]; cbn [send_msg] in Hs.
  - destruct (writes (start_message A) cs) as [A2 [fs1|e]] eqn:E1; [|discriminate].
    destruct (end_message A2) as [A3 [fs2|e]] eqn:E2; [|discriminate].
    injection Hs as <- <-.
    destruct (writes_sent cs (start_message A) _ _ eq_refl E1) as [ds [Hs1 [He Hc]]].
    change (norm (start_message A)) with (norm A) in Hs1.
    unfold end_message in E2. rewrite He in E2. rewrite send_frame_sbuf_indep in E2. proj_simpl.
    destruct (send_frame A2 (send_buf A2) EndFlagComplete) as [A4 [f|e]] eqn:Es; [|discriminate].
    injection E2 as <- <-.
    exists (partial_tr ds ++ [(send_buf A2, EndFlagComplete)]). split.
    + eapply sent_app; [exact Hs1|].
      change (norm (upd_sbuf (upd_sbuf A4 (send_buf A2) true) [] (send_eom (upd_sbuf A4 (send_buf A2) true)))) with (norm A4).
      econstructor; [right; reflexivity|apply send_frame_norm; exact Es|constructor].
    + intros acc rest. rewrite <- app_assoc, msgs_of_partials. cbn [app msgs_of_tr].
      change (EndFlagComplete =? 0) with false. cbv iota.
      rewrite <- app_assoc, Hc. unfold start_message. proj_simpl. reflexivity.
  - destruct (partials A ps) as [A2 [fs1|e]] eqn:E1; [|discriminate].
    destruct (send_frame A2 l EndFlagComplete) as [A3 [f|e]] eqn:E2; [|discriminate].
    injection Hs as <- <-.
    exists (partial_tr ps ++ [(l, EndFlagComplete)]). split.
    + eapply sent_app; [apply partials_sent; exact E1|].
      econstructor; [right; reflexivity|apply send_frame_norm; exact E2|constructor].
    + intros acc rest. rewrite <- app_assoc, msgs_of_partials. cbn [app msgs_of_tr].
      change (EndFlagComplete =? 0) with false. cbv iota. rewrite <- app_assoc. reflexivity.
Qed.

Lemma send_all_sent h : forall A A1 fs,
  send_all A h = (A1, SOk fs) ->
  exists tr, sent (norm A) tr fs (norm A1) /\ msgs_of_tr [] tr = map payload_of h.
Proof.
  induction h as [|m h IH]; intros A A1 fs Hs; cbn [send_all] in Hs.
  - injection Hs as <- <-. exists []. split; [constructor|reflexivity].
  - destruct (send_msg A m) as [A2 [fs1|e]] eqn:E1; [|discriminate].
    destruct (send_all A2 h) as [A3 [fs2|e]] eqn:E2; [|discriminate].
    injection Hs as <- <-.
    destruct (send_msg_sent _ _ _ _ E1) as [tr1 [Hs1 Hm1]].
    destruct (IH _ _ _ E2) as [tr2 [Hs2 Hm2]].
    exists (tr1 ++ tr2). split; [eapply sent_app; eassumption|].
    rewrite Hm1. cbn [app map]. rewrite Hm2. reflexivity.
Qed.

(* ---- the message-level theorem ------------------------------------------ *)
Theorem delivered_is_prefix api : api = ApiComplete \/ api = ApiMessage ->
  forall (h : list msg) (A B A1 : stream) (fs fs' : list frame) (k : bytes) (o : other_dir) (K : ctext -> Prop) (n : nat),
    duplex A B -> key A = Some k -> encrypted A = true -> wf_send A -> reflect_safe A B o ->
    send_all A h = (A1, SOk fs) ->
    known_ok k (enc_iv A) (enc_ctr A) fs o K -> uses_only K fs' ->
    prefix (snd (fst (fst (recv_upto api B n fs')))) (map payload_of h).
Proof.
  intros Hapi h A B A1 fs fs' k o K n D Hk He Hwf Hsafe Hs HK Huse.
  destruct (send_all_sent _ _ _ _ Hs) as [tr [Hsent Hm]].
  assert (Dn : duplex (norm A) B) by (apply duplex_upd_sbuf; exact D).
  pose proof (prefix_frames fs' (norm A) B k o K tr fs (norm A1) Dn Hk He Hwf Hsafe Hsent HK Huse) as Hp.
  eapply prefix_trans; [apply recv_upto_groups; exact Hapi|].
  rewrite <- Hm. apply msgs_of_tr_prefix. exact Hp.
Qed.
