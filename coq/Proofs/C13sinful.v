(* Proofs/C13sinful.v — ParseSinful (Model/Sinful.v): totality, boundedness, what a
   successful parse guarantees. *)
From Coq Require Import List NArith ZArith Lia Bool.
From Coq Require Import ZifyBool ZifyNat ZifyN.
From Cedar Require Import Lib.Bytes Model.Decode Model.Sinful Proofs.C13.
Import ListNotations.
Local Open Scope N_scope.

(* ---------- slices ---------------------------------------------------------------- *)
Lemma go_slice_len s lo hi v : go_slice s lo hi = Some v -> Z.of_N (lenN v) = (hi - lo)%Z /\ (0 <= lo <= hi)%Z /\ (hi <= Z.of_N (lenN s))%Z.
Proof.
  unfold go_slice. destruct (Z.leb_spec 0 lo); cbn [andb]; [|discriminate].
  destruct (Z.leb_spec lo hi); cbn [andb]; [|discriminate].
  destruct (Z.leb_spec hi (Z.of_N (lenN s))); [|discriminate].
  intro E; inversion E; subst. rewrite lenN_spec, firstn_length, skipn_length. rewrite lenN_spec in *. lia.
Qed.

Lemma index_byte_bounds b s : index_byte b s = (-1)%Z \/ (0 <= index_byte b s < Z.of_N (lenN s))%Z.
Proof. unfold index_byte. destruct (index_from_bounds b s 0) as [E|E]; [left; exact E|right; lia]. Qed.

(* split at an index found by Index / LastIndex: both halves exist *)
Lemma split_at_some s i :
  (0 <= i < Z.of_N (lenN s))%Z ->
  exists a b, go_slice s 0 i = Some a /\ go_slice s (i + 1) (Z.of_N (lenN s)) = Some b /\
              lenN a + lenN b + 1 = lenN s.
Proof.
  intro H. destruct (go_slice_some s 0 i) as (a & Ea & La); try lia.
  destruct (go_slice_some s (i + 1) (Z.of_N (lenN s))) as (b & Eb & Lb); try lia.
  exists a, b. repeat split; try assumption. lia.
Qed.

(* ---------- white space ------------------------------------------------------------- *)
Lemma lenN_skipn_le' (l : bytes) n : lenN (skipn n l) <= lenN l.
Proof. rewrite !lenN_spec, skipn_length. lia. Qed.

Lemma utrim_left_f_len fuel : forall s, lenN (utrim_left_f fuel s) <= lenN s.
Proof.
  induction fuel as [|f IH]; intro s; cbn [utrim_left_f]; [lia|].
  destruct (uspace_len s); [lia|]. etransitivity; [apply IH|apply lenN_skipn_le'].
Qed.
Lemma utrim_rev_f_len fuel : forall s, lenN (utrim_rev_f fuel s) <= lenN s.
Proof.
  induction fuel as [|f IH]; intro s; cbn [utrim_rev_f]; [lia|].
  destruct (uspace_len_rev s); [lia|]. etransitivity; [apply IH|apply lenN_skipn_le'].
Qed.
Lemma utrim_space_len s : lenN (utrim_space s) <= lenN s.
Proof.
  unfold utrim_space. rewrite lenN_rev'.
  etransitivity; [apply utrim_rev_f_len|]. rewrite lenN_rev'. apply utrim_left_f_len.
Qed.

Lemma trim_prefix_b_len b s : lenN (trim_prefix_b b s) <= lenN s.
Proof. unfold trim_prefix_b. destruct s as [|x r]; [lia|]. destruct (byte_eqb x b); rewrite ?lenN_cons; lia. Qed.
Lemma trim_suffix_b_len b s : lenN (trim_suffix_b b s) <= lenN s.
Proof.
  unfold trim_suffix_b. destruct (rev' s) as [|x r] eqn:E; [rewrite lenN_nil; lia|].
  destruct (byte_eqb x b); [|lia]. pose proof (lenN_rev' s) as K. rewrite E, lenN_cons in K. rewrite lenN_rev'. lia.
Qed.

(* ---------- percent decoding ----------------------------------------------------------- *)
Lemma unescape_len_n n : forall s d, (length s <= n)%nat -> unescape s = Some d -> lenN d <= lenN s.
Proof.
  induction n as [|n IH]; intros s d Hn.
  - destruct s; [|cbn in Hn; lia]. cbn [unescape]. intro E; inversion E; subst. lia.
  - destruct s as [|b r]; cbn [unescape].
    + intro E; inversion E; subst. lia.
    + cbn [length] in Hn. destruct (byte_eqb b x25).
      * destruct r as [|h1 [|h2 r']]; try discriminate.
        destruct (hexdigit h1); [|discriminate]. destruct (hexdigit h2); [|discriminate].
        destruct (unescape r') as [d'|] eqn:E'; cbn [option_map]; [|discriminate].
        intro E; inversion E; subst. apply IH in E'; [|cbn [length] in Hn; lia]. rewrite !lenN_cons. lia.
      * destruct (unescape r) as [d'|] eqn:E'; cbn [option_map]; [|discriminate].
        intro E; inversion E; subst. apply IH in E'; [|lia]. rewrite !lenN_cons. lia.
Qed.
Lemma unescape_len s d : unescape s = Some d -> lenN d <= lenN s.
Proof. apply (unescape_len_n (length s)). lia. Qed.

Definition no_percent (s : bytes) : Prop := forall x, In x s -> byte_eqb x x25 = false.
Lemma unescape_no_percent : forall s, no_percent s -> unescape s = Some s.
Proof.
  induction s as [|b r IH]; intro H; cbn [unescape]; [reflexivity|].
  rewrite (H b (or_introl eq_refl)). rewrite IH; [reflexivity|]. intros x Hx. apply H. right; exact Hx.
Qed.

(* ---------- pairs ------------------------------------------------------------------------ *)
Lemma parse_pair_total p : parse_pair p <> None.
Proof.
  unfold parse_pair. destruct (Z.ltb_spec (index_byte x3d p) 0); cbn [obind fst snd].
  - destruct (unescape p); [destruct (unescape [])|]; congruence.
  - destruct (index_byte_bounds x3d p) as [E|E]; [lia|].
    destruct (split_at_some p _ E) as (a & b & -> & -> & _). cbn [obind fst snd].
    destruct (unescape a); [destruct (unescape b)|]; congruence.
Qed.

Lemma parse_pair_len p k v : parse_pair p = Some (Some (k, v)) -> lenN k + lenN v <= lenN p.
Proof.
  unfold parse_pair. destruct (Z.ltb_spec (index_byte x3d p) 0); cbn [obind fst snd].
  - destruct (unescape p) as [dk|] eqn:E1; [|discriminate]. cbn [unescape].
    intro E; inversion E; subst. apply unescape_len in E1. rewrite lenN_nil. lia.
  - destruct (index_byte_bounds x3d p) as [E|E]; [lia|].
    destruct (split_at_some p _ E) as (a & b & -> & -> & L). cbn [obind fst snd].
    destruct (unescape a) as [dk|] eqn:E1; [|discriminate]. destruct (unescape b) as [dv|] eqn:E2; [|discriminate].
    intro E'; inversion E'; subst. apply unescape_len in E1. apply unescape_len in E2. lia.
Qed.

Lemma parse_pairs_total ps : parse_pairs ps <> None.
Proof.
  induction ps as [|p rest IH]; cbn [parse_pairs]; [congruence|].
  destruct (parse_pair p) as [[kv|]|] eqn:E; cbn [obind]; [|congruence|exfalso; revert E; apply parse_pair_total].
  destruct (parse_pairs rest) as [tl|]; [|congruence]. cbn [obind]. congruence.
Qed.

Lemma parse_pairs_length ps l : parse_pairs ps = Some (Some l) -> length l = length ps.
Proof.
  revert l; induction ps as [|p rest IH]; intro l; cbn [parse_pairs].
  - intro E; inversion E; reflexivity.
  - destruct (parse_pair p) as [[kv|]|]; cbn [obind]; try discriminate.
    destruct (parse_pairs rest) as [[tl|]|]; cbn [obind]; try discriminate.
    intro E; inversion E; subst. cbn [length]. rewrite (IH tl eq_refl). reflexivity.
Qed.

(* number of fields <= number of separators + 1 *)
Fixpoint count_sep (sep : byte -> bool) (s : bytes) : nat :=
  match s with [] => O | x :: r => (if sep x then 1 else 0) + count_sep sep r end.
Lemma fields_by_length sep s : forall cur, (length (fields_by sep s cur) <= count_sep sep s + 1)%nat.
Proof.
  induction s as [|x r IH]; intro cur; cbn [fields_by count_sep].
  - destruct cur; cbn; lia.
  - destruct (sep x).
    + destruct cur; [specialize (IH []); lia|cbn [length]; specialize (IH []); lia].
    + specialize (IH (x :: cur)). lia.
Qed.

(* every field is no longer than the text it was cut from *)
Lemma fields_by_len sep s : forall cur f, In f (fields_by sep s cur) -> lenN f <= lenN cur + lenN s.
Proof.
  induction s as [|x r IH]; intros cur f; cbn [fields_by].
  - destruct cur; cbn [In]; [tauto|]. intros [<-|[]]. rewrite lenN_rev'. lia.
  - rewrite lenN_cons. destruct (sep x).
    + destruct cur as [|c0 cur'].
      * intro H. apply IH in H. rewrite lenN_nil in *. lia.
      * cbn [In]. intros [<-|H]; [rewrite lenN_rev'; lia|]. apply IH in H. rewrite lenN_nil in H. lia.
    + intro H. apply IH in H. rewrite lenN_cons in H. lia.
Qed.

(* ---------- CCB contacts -------------------------------------------------------------------- *)
Lemma split_ccb_contact_total c : split_ccb_contact c <> None.
Proof.
  unfold split_ccb_contact. set (s := utrim_space c).
  destruct (Z.ltb_spec (last_index_byte x23 s) 0); [congruence|].
  destruct (last_index_byte_bounds x23 s) as [E|E]; [lia|].
  destruct (split_at_some s _ E) as (a & b & -> & -> & _). cbn [obind].
  set (broker := utrim_space a).
  destruct (N.leb_spec 2 (lenN broker)); cbn [andb].
  - destruct (match broker with x :: _ => byte_eqb x x3c | [] => false end && last_byte_is broker x3e).
    + destruct (go_slice_some broker 1 (Z.of_N (lenN broker) - 1)) as (v & -> & _); try lia. cbn [obind].
      destruct v; destruct (utrim_space b); congruence.
    + cbn [obind]. destruct broker; destruct (utrim_space b); congruence.
  - cbn [obind]. destruct broker; destruct (utrim_space b); congruence.
Qed.

Lemma split_ccb_contact_nonempty c b i : split_ccb_contact c = Some (Some (b, i)) -> b <> [] /\ i <> [].
Proof.
  unfold split_ccb_contact. set (s := utrim_space c).
  destruct (Z.ltb_spec (last_index_byte x23 s) 0); [discriminate|].
  destruct (go_slice s 0 (last_index_byte x23 s)) as [a|]; cbn [obind]; [|discriminate].
  destruct (go_slice s (last_index_byte x23 s + 1) (Z.of_N (lenN s))) as [d|]; cbn [obind]; [|discriminate].
  match goal with |- obind ?x _ = _ -> _ => destruct x as [br|] end; cbn [obind]; [|discriminate].
  destruct br as [|b0 br']; [discriminate|]. destruct (utrim_space d) as [|i0 i']; [discriminate|].
  intro E; inversion E; subst. split; discriminate.
Qed.

Lemma ccb_contacts_total cs : ccb_contacts cs <> None.
Proof.
  induction cs as [|c rest IH]; cbn [ccb_contacts]; [congruence|].
  destruct (split_ccb_contact c) as [o|] eqn:E; [|exfalso; revert E; apply split_ccb_contact_total].
  cbn [obind]. destruct (ccb_contacts rest); [|congruence]. cbn [obind]. congruence.
Qed.

Lemma ccb_contacts_nonempty cs : forall l, ccb_contacts cs = Some l ->
  Forall (fun t => fst (fst t) <> [] /\ snd (fst t) <> []) l /\ (length l <= length cs)%nat.
Proof.
  induction cs as [|c rest IH]; intro l; cbn [ccb_contacts].
  - intro E; inversion E; subst. split; [constructor|cbn; lia].
  - destruct (split_ccb_contact c) as [o|] eqn:E; cbn [obind]; [|discriminate].
    destruct (ccb_contacts rest) as [tl|]; cbn [obind]; [|discriminate].
    destruct (IH tl eq_refl) as (F & L).
    intro E'; inversion E'; subst. destruct o as [[b i]|].
    + apply split_ccb_contact_nonempty in E. split; [constructor; [exact E|exact F]|cbn [length]; lia].
    + split; [exact F|cbn [length]; lia].
Qed.

(* ---------- ParseSinful ------------------------------------------------------------------------ *)
Lemma split_host_port_total a : split_host_port a <> None.
Proof.
  unfold split_host_port. destruct (Z.ltb_spec (last_index_byte x3a a) 0); [congruence|].
  destruct (last_index_byte_bounds x3a a) as [E|E]; [lia|].
  destruct (split_at_some a _ E) as (h & p & -> & -> & _). cbn [obind]. congruence.
Qed.
Lemma split_host_port_len a h p : split_host_port a = Some (h, p) ->
  (h = [] /\ p = []) \/ lenN h + lenN p + 1 = lenN a.
Proof.
  unfold split_host_port. destruct (Z.ltb_spec (last_index_byte x3a a) 0).
  - intro E; inversion E; subst. left; split; reflexivity.
  - destruct (last_index_byte_bounds x3a a) as [E|E]; [lia|].
    destruct (split_at_some a _ E) as (h' & p' & -> & -> & L). cbn [obind].
    intro E'; inversion E'; subst. right; exact L.
Qed.

(* the primary / query split *)
Definition cut_query (s : bytes) : option (bytes * bytes) :=
  let i := index_byte x3f s in
  if (i <? 0)%Z then Some (s, [])
  else obind (go_slice s 0 i) (fun p =>
       obind (go_slice s (i + 1) (Z.of_N (lenN s))) (fun q => Some (p, q))).
Lemma cut_query_spec s : exists p q, cut_query s = Some (p, q) /\ lenN p + lenN q <= lenN s.
Proof.
  unfold cut_query. destruct (Z.ltb_spec (index_byte x3f s) 0).
  - exists s, []. split; [reflexivity|rewrite lenN_nil; lia].
  - destruct (index_byte_bounds x3f s) as [E|E]; [lia|].
    destruct (split_at_some s _ E) as (p & q & -> & -> & L). cbn [obind]. exists p, q. split; [reflexivity|lia].
Qed.

Definition sinful_input (addr : bytes) : bytes := trim_suffix_b x3e (trim_prefix_b x3c (utrim_space addr)).
Lemma sinful_input_len addr : lenN (sinful_input addr) <= lenN addr.
Proof.
  unfold sinful_input. etransitivity; [apply trim_suffix_b_len|].
  etransitivity; [apply trim_prefix_b_len|apply utrim_space_len].
Qed.

Lemma parse_sinful_unfold addr :
  parse_sinful addr =
  obind (cut_query (sinful_input addr)) (fun pq =>
  let '(primary, query) := pq in
  obind (split_host_port primary) (fun hp =>
  let '(host, port) := hp in
  match query with
  | [] => Some {| sf_err := false; sf_primary := primary; sf_host := host; sf_port := port;
                  sf_sock := []; sf_priv_addr := []; sf_priv_net := []; sf_alias := [];
                  sf_noudp := false; sf_addrs := []; sf_ccb := []; sf_params := [] |}
  | _ =>
      obind (parse_sinful_params query) (fun o =>
      match o with
      | None => Some {| sf_err := true; sf_primary := primary; sf_host := host; sf_port := port;
                        sf_sock := []; sf_priv_addr := []; sf_priv_net := []; sf_alias := [];
                        sf_noudp := false; sf_addrs := []; sf_ccb := []; sf_params := [] |}
      | Some params =>
          obind (ccb_contacts (ufields (param k_ccbid params))) (fun ccb =>
          Some {| sf_err := false; sf_primary := primary; sf_host := host; sf_port := port;
                  sf_sock := param k_sock params; sf_priv_addr := param k_priv_addr params;
                  sf_priv_net := param k_priv_net params; sf_alias := param k_alias params;
                  sf_noudp := match plookup k_noudp params None with Some _ => true | None => false end;
                  sf_addrs := match param k_addrs params with [] => [] | _ => split_on x2b (param k_addrs params) [] end;
                  sf_ccb := ccb; sf_params := params |})
      end)
  end)).
Proof. reflexivity. Qed.

Theorem parse_sinful_total addr : parse_sinful addr <> None.
Proof.
  rewrite parse_sinful_unfold. destruct (cut_query_spec (sinful_input addr)) as (p & q & -> & _). cbn [obind].
  destruct (split_host_port p) as [[h po]|] eqn:E; [|exfalso; revert E; apply split_host_port_total]. cbn [obind].
  destruct q as [|q0 q']; [congruence|].
  unfold parse_sinful_params.
  destruct (parse_pairs (fields_by is_param_sep (q0 :: q') [])) as [[params|]|] eqn:P; cbn [obind];
    [|congruence|exfalso; revert P; apply parse_pairs_total].
  destruct (ccb_contacts (ufields (param k_ccbid params))) eqn:C; [cbn [obind]; congruence|exfalso; revert C; apply ccb_contacts_total].
Qed.

(* what every result satisfies *)

Lemma parse_pairs_forall ps : forall l, parse_pairs ps = Some (Some l) ->
  forall bound, (forall p, In p ps -> lenN p <= bound) ->
  Forall (fun kv => lenN (fst kv) + lenN (snd kv) <= bound) l.
Proof.
  induction ps as [|p rest IH]; intros l; cbn [parse_pairs].
  - intro E; inversion E; subst. intros; constructor.
  - destruct (parse_pair p) as [[kv|]|] eqn:P; cbn [obind]; try discriminate.
    destruct (parse_pairs rest) as [[tl|]|]; cbn [obind]; try discriminate.
    intro E; inversion E; subst. intros bound Hb. constructor.
    + destruct kv as [k v]. apply parse_pair_len in P. cbn [fst snd]. specialize (Hb p (or_introl eq_refl)). lia.
    + apply (IH tl eq_refl). intros q Hq. apply Hb. right; exact Hq.
Qed.

(* what every result satisfies: all fields are cut out of the input *)
Theorem parse_sinful_bounded addr r :
  parse_sinful addr = Some r ->
  exists q,
    cut_query (sinful_input addr) = Some (sf_primary r, q) /\
    lenN (sf_primary r) + lenN q <= lenN addr /\
    ((sf_host r = [] /\ sf_port r = []) \/ lenN (sf_host r) + lenN (sf_port r) + 1 = lenN (sf_primary r)) /\
    (length (sf_params r) <= count_sep is_param_sep q + 1)%nat /\
    Forall (fun kv => lenN (fst kv) + lenN (snd kv) <= lenN q) (sf_params r) /\
    Forall (fun t => fst (fst t) <> [] /\ snd (fst t) <> []) (sf_ccb r).
Proof.
  rewrite parse_sinful_unfold. destruct (cut_query_spec (sinful_input addr)) as (p & q & Ec & Lc). rewrite Ec. cbn [obind].
  pose proof (sinful_input_len addr) as Li.
  destruct (split_host_port p) as [[h po]|] eqn:E; cbn [obind]; [|discriminate].
  apply split_host_port_len in E.
  destruct q as [|q0 q'].
  - intro R; inversion R; subst; cbn [sf_primary sf_host sf_port sf_params sf_ccb]. exists [].
    split; [reflexivity|]. split; [lia|]. split; [exact E|]. split; [cbn; lia|]. split; constructor.
  - unfold parse_sinful_params.
    destruct (parse_pairs (fields_by is_param_sep (q0 :: q') [])) as [[params|]|] eqn:P; cbn [obind]; [| |discriminate].
    + destruct (ccb_contacts (ufields (param k_ccbid params))) as [ccb|] eqn:C; cbn [obind]; [|discriminate].
      intro R; inversion R; subst; cbn [sf_primary sf_host sf_port sf_params sf_ccb]. exists (q0 :: q').
      split; [reflexivity|]. split; [lia|]. split; [exact E|]. split.
      * rewrite (parse_pairs_length _ _ P). apply fields_by_length.
      * split.
        -- apply (parse_pairs_forall _ _ P). intros f Hf. apply fields_by_len in Hf. rewrite lenN_nil in Hf. lia.
        -- apply (ccb_contacts_nonempty _ _ C).
    + intro R; inversion R; subst; cbn [sf_primary sf_host sf_port sf_params sf_ccb]. exists (q0 :: q').
      split; [reflexivity|]. split; [lia|]. split; [exact E|]. split; [cbn; lia|]. split; constructor.
Qed.

Lemma In_firstn' (x : byte) n l : In x (firstn n l) -> In x l.
Proof. intro H. rewrite <- (firstn_skipn n l). apply in_or_app. left; exact H. Qed.
Lemma In_skipn' (x : byte) n l : In x (skipn n l) -> In x l.
Proof. intro H. rewrite <- (firstn_skipn n l). apply in_or_app. right; exact H. Qed.
Lemma go_slice_In s lo hi v x : go_slice s lo hi = Some v -> In x v -> In x s.
Proof.
  unfold go_slice. destruct ((0 <=? lo)%Z && (lo <=? hi)%Z && (hi <=? Z.of_N (lenN s))%Z); [|discriminate].
  intro E; inversion E; subst. intro H. apply In_firstn' in H. apply In_skipn' in H. exact H.
Qed.

(* the only error is a malformed %XX escape: a query without '%' always parses *)
Lemma parse_pair_no_percent p : no_percent p -> exists kv, parse_pair p = Some (Some kv).
Proof.
  intro H. unfold parse_pair. destruct (Z.ltb_spec (index_byte x3d p) 0); cbn [obind fst snd].
  - rewrite (unescape_no_percent p H). cbn [unescape]. eexists; reflexivity.
  - destruct (index_byte_bounds x3d p) as [E|E]; [lia|].
    destruct (split_at_some p _ E) as (a & b & Ea & Eb & _). rewrite Ea, Eb. cbn [obind fst snd].
    assert (Ha : no_percent a) by (intros x Hx; apply H; exact (go_slice_In _ _ _ _ _ Ea Hx)).
    assert (Hb : no_percent b) by (intros x Hx; apply H; exact (go_slice_In _ _ _ _ _ Eb Hx)).
    rewrite (unescape_no_percent a Ha), (unescape_no_percent b Hb). eexists; reflexivity.
Qed.

Lemma parse_pairs_no_percent ps : (forall p, In p ps -> no_percent p) -> exists l, parse_pairs ps = Some (Some l).
Proof.
  induction ps as [|p rest IH]; intro H; cbn [parse_pairs]; [eexists; reflexivity|].
  destruct (parse_pair_no_percent p (H p (or_introl eq_refl))) as (kv & ->). cbn [obind].
  destruct IH as (l & ->); [intros q Hq; apply H; right; exact Hq|]. cbn [obind]. eexists; reflexivity.
Qed.

Lemma rev'_In (x : byte) l : In x (rev' l) -> In x l.
Proof. unfold rev'. rewrite <- rev_alt. intro H. apply in_rev. exact H. Qed.

Lemma fields_by_in sep s : forall cur f x, In f (fields_by sep s cur) -> In x f -> In x cur \/ In x s.
Proof.
  induction s as [|y r IH]; intros cur f x; cbn [fields_by].
  - destruct cur as [|c0 cur']; [intros []|]. intros [<-|[]] Hx. left. apply rev'_In. exact Hx.
  - destruct (sep y).
    + destruct cur as [|c0 cur'].
      * intros Hf Hx. destruct (IH [] f x Hf Hx) as [[]|H]. right; right; exact H.
      * intros [<-|Hf] Hx; [left; apply rev'_In; exact Hx|].
        destruct (IH [] f x Hf Hx) as [[]|H]. right; right; exact H.
    + intros Hf Hx. destruct (IH (y :: cur) f x Hf Hx) as [[<-|H]|H]; [right; left; reflexivity|left; exact H|right; right; exact H].
Qed.

Theorem parse_sinful_error_needs_percent addr r q :
  parse_sinful addr = Some r -> cut_query (sinful_input addr) = Some (sf_primary r, q) ->
  no_percent q -> sf_err r = false.
Proof.
  rewrite parse_sinful_unfold. intros R Ec Hq. rewrite Ec in R. cbn [obind] in R.
  destruct (split_host_port (sf_primary r)) as [[h po]|]; cbn [obind] in R; [|discriminate].
  destruct q as [|q0 q']; [inversion R; subst; reflexivity|].
  unfold parse_sinful_params in R.
  destruct (parse_pairs_no_percent (fields_by is_param_sep (q0 :: q') [])) as (l & P).
  { intros f Hf x Hx. destruct (fields_by_in _ _ _ _ _ Hf Hx) as [[]|H]. apply Hq. exact H. }
  rewrite P in R. cbn [obind] in R.
  destruct (ccb_contacts (ufields (param k_ccbid l))); cbn [obind] in R; [|discriminate].
  inversion R; subst; reflexivity.
Qed.
