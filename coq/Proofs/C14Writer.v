(* Proofs/C14Writer.v — what the Message writer of Model/Msg.v emits:
   [content] (all bytes handed to the stream plus the pending buffer) grows by
   exactly the value's encoding on every Put*, whatever the flush decisions;
   only the frame written by FinishMessage carries EOM. *)
From Coq Require Import List NArith ZArith Lia Bool ZifyBool ZifyNat ZifyN.
From Cedar Require Import Lib.Bytes gen.Consts Model.Msg.
Import ListNotations.
Local Open Scope N_scope.

Definition content (w : writer) : bytes := concat (map fst (w_out w)) ++ w_buf w.
Definition no_eom (w : writer) : Prop := Forall (fun f : mframe => snd f = false) (w_out w).

Lemma content_init : content writer_init = [].
Proof. reflexivity. Qed.
Lemma no_eom_init : no_eom writer_init.
Proof. constructor. Qed.

Lemma content_flush w e : content (flush w e) = content w.
Proof.
  unfold content, flush; cbn [w_out w_buf]. rewrite map_app, concat_app. cbn [map concat fst].
  rewrite !app_nil_r. reflexivity.
Qed.
Lemma content_append w bs : content (w_append w bs) = content w ++ bs.
Proof. unfold content, w_append; cbn [w_out w_buf]. apply app_assoc. Qed.
Lemma no_eom_flush w : no_eom w -> no_eom (flush w false).
Proof.
  unfold no_eom, flush; cbn [w_out]. intro H. apply Forall_app. split; [exact H|].
  constructor; [reflexivity|constructor].
Qed.
Lemma no_eom_append w bs : no_eom w -> no_eom (w_append w bs).
Proof. intro H; exact H. Qed.

(* "flush first if some condition holds": never changes content, never adds EOM *)
Lemma content_cond_flush (c : bool) w : content (if c then flush w false else w) = content w.
Proof. destruct c; [apply content_flush|reflexivity]. Qed.
Lemma no_eom_cond_flush (c : bool) w : no_eom w -> no_eom (if c then flush w false else w).
Proof. destruct c; [apply no_eom_flush|auto]. Qed.

Lemma content_put_char w c : content (put_char w c) = content w ++ [c].
Proof. unfold put_char. rewrite content_append, content_cond_flush. reflexivity. Qed.
Lemma no_eom_put_char w c : no_eom w -> no_eom (put_char w c).
Proof. intro H. unfold put_char. apply no_eom_append, no_eom_cond_flush, H. Qed.

Lemma content_put_int w z : content (put_int w z) = content w ++ enc_int z.
Proof. unfold put_int. rewrite content_append, content_cond_flush. reflexivity. Qed.
Lemma no_eom_put_int w z : no_eom w -> no_eom (put_int w z).
Proof. intro H. unfold put_int. apply no_eom_append, no_eom_cond_flush, H. Qed.

Lemma MaxFrameSize_pos : 0 < MaxFrameSize.
Proof. reflexivity. Qed.

(* PutBytes' chunk loop: enough fuel writes everything *)
Lemma content_put_chunks fuel : forall w data,
  lenN data <= N.of_nat fuel * MaxFrameSize ->
  content (put_chunks fuel w data) = content w ++ data.
Proof.
  pose proof MaxFrameSize_pos as MP.
  induction fuel as [|f IH]; intros w data L.
  - assert (lenN data = 0) by lia. destruct data; [|rewrite lenN_cons in *; lia].
    cbn [put_chunks]. rewrite app_nil_r. reflexivity.
  - cbn [put_chunks]. destruct data as [|b data']; [rewrite app_nil_r; reflexivity|].
    set (data := b :: data') in *.
    rewrite IH.
    + rewrite content_append, content_cond_flush, <- app_assoc, firstn_skipn. reflexivity.
    + rewrite lenN_spec in *. rewrite skipn_length. lia.
Qed.
Lemma no_eom_put_chunks fuel : forall w data, no_eom w -> no_eom (put_chunks fuel w data).
Proof.
  induction fuel as [|f IH]; intros w data H; cbn [put_chunks]; [exact H|].
  destruct data; [exact H|]. apply IH, no_eom_append, no_eom_cond_flush, H.
Qed.

Lemma put_bytes_fuel (len : N) : len <= N.of_nat (S (N.to_nat (len / MaxFrameSize))) * MaxFrameSize.
Proof.
  pose proof MaxFrameSize_pos as MP.
  rewrite Nat2N.inj_succ, N2Nat.id.
  pose proof (N.mul_succ_div_gt len MaxFrameSize ltac:(lia)). lia.
Qed.

Lemma content_put_bytes w data : content (put_bytes w data) = content w ++ data.
Proof.
  unfold put_bytes. destruct (lenN data =? 0) eqn:E0.
  - destruct data; [rewrite app_nil_r; reflexivity|rewrite lenN_cons in E0; lia].
  - destruct (MaxFrameSize <? lenN data).
    + apply content_put_chunks, put_bytes_fuel.
    + rewrite content_append, content_cond_flush. reflexivity.
Qed.
Lemma no_eom_put_bytes w data : no_eom w -> no_eom (put_bytes w data).
Proof.
  intro H. unfold put_bytes. destruct (lenN data =? 0); [exact H|].
  destruct (MaxFrameSize <? lenN data).
  - apply no_eom_put_chunks, H.
  - apply no_eom_append, no_eom_cond_flush, H.
Qed.

(* the bytes PutString / PutStringBytes add *)
Definition string_bytes (encrypted : bool) (s : bytes) : bytes :=
  (if encrypted then enc_int (wrap32 (Z.of_N (lenN (upto_nul s) + 1))) else []) ++ upto_nul s ++ [x00].

Lemma content_put_string enc w s : content (put_string enc w s) = content w ++ string_bytes enc s.
Proof.
  unfold put_string, string_bytes.
  rewrite lenN_app. change (lenN [x00]) with 1.
  destruct (MaxFrameSize <? _).
  - rewrite content_put_bytes. destruct enc.
    + rewrite content_put_int, content_cond_flush, <- app_assoc. reflexivity.
    + rewrite content_cond_flush. reflexivity.
  - rewrite content_append. destruct enc.
    + rewrite content_put_int, content_cond_flush, <- app_assoc. reflexivity.
    + rewrite content_cond_flush. reflexivity.
Qed.
Lemma no_eom_put_string enc w s : no_eom w -> no_eom (put_string enc w s).
Proof.
  intro H. unfold put_string. destruct (MaxFrameSize <? _).
  - apply no_eom_put_bytes. destruct enc; [apply no_eom_put_int|]; apply no_eom_cond_flush, H.
  - apply no_eom_append. destruct enc; [apply no_eom_put_int|]; apply no_eom_cond_flush, H.
Qed.

Lemma content_put_string_bytes enc w s :
  content (put_string_bytes enc w s) = content w ++ string_bytes enc s.
Proof.
  unfold put_string_bytes, string_bytes.
  destruct (MaxFrameSize <? _).
  - rewrite !content_put_bytes. destruct enc.
    + rewrite content_put_int, content_cond_flush, <- !app_assoc. reflexivity.
    + rewrite content_cond_flush, <- !app_assoc. reflexivity.
  - rewrite content_append. destruct enc.
    + rewrite content_put_int, content_cond_flush, <- !app_assoc. reflexivity.
    + rewrite content_cond_flush. reflexivity.
Qed.
Lemma no_eom_put_string_bytes enc w s : no_eom w -> no_eom (put_string_bytes enc w s).
Proof.
  intro H. unfold put_string_bytes. destruct (MaxFrameSize <? _).
  - apply no_eom_put_bytes, no_eom_put_bytes. destruct enc; [apply no_eom_put_int|]; apply no_eom_cond_flush, H.
  - apply no_eom_append. destruct enc; [apply no_eom_put_int|]; apply no_eom_cond_flush, H.
Qed.

(* PutString and PutStringBytes emit the same bytes *)
Lemma put_string_bytes_same enc w s :
  content (put_string_bytes enc w s) = content (put_string enc w s).
Proof. rewrite content_put_string, content_put_string_bytes. reflexivity. Qed.

(* FinishMessage: everything is out, and only its frame carries EOM *)
Lemma finish_out w : concat (map fst (w_out (finish w))) = content w.
Proof.
  unfold finish, flush, content; cbn [w_out]. rewrite map_app, concat_app. cbn [map concat fst].
  rewrite app_nil_r. reflexivity.
Qed.
Lemma finish_frames w : w_out (finish w) = w_out w ++ [(w_buf w, true)].
Proof. reflexivity. Qed.

(* ---------- arbitrary sequences of writer operations -------------------- *)
Inductive wop := WChar (c : byte) | WInt (z : Z) | WStr (s : bytes) | WStrB (s : bytes)
               | WBytes (bs : bytes) | WFlush.
Definition do_put (enc : bool) (w : writer) (o : wop) : writer :=
  match o with
  | WChar c => put_char w c
  | WInt z => put_int w z
  | WStr s => put_string enc w s
  | WStrB s => put_string_bytes enc w s
  | WBytes bs => put_bytes w bs
  | WFlush => flush w false          (* FlushFrame(ctx, false) called by the user *)
  end.
Definition wop_bytes (enc : bool) (o : wop) : bytes :=
  match o with
  | WChar c => [c]
  | WInt z => enc_int z
  | WStr s | WStrB s => string_bytes enc s
  | WBytes bs => bs
  | WFlush => []
  end.
Definition write_ops (enc : bool) (ops : list wop) : writer :=
  finish (fold_left (do_put enc) ops writer_init).

Lemma content_do_put enc w o : content (do_put enc w o) = content w ++ wop_bytes enc o.
Proof.
  destruct o; cbn [do_put wop_bytes].
  - apply content_put_char.
  - apply content_put_int.
  - apply content_put_string.
  - apply content_put_string_bytes.
  - apply content_put_bytes.
  - rewrite content_flush, app_nil_r. reflexivity.
Qed.
Lemma no_eom_do_put enc w o : no_eom w -> no_eom (do_put enc w o).
Proof.
  intro H. destruct o; cbn [do_put].
  - apply no_eom_put_char, H.
  - apply no_eom_put_int, H.
  - apply no_eom_put_string, H.
  - apply no_eom_put_string_bytes, H.
  - apply no_eom_put_bytes, H.
  - apply no_eom_flush, H.
Qed.

Lemma fold_puts enc ops : forall w,
  content (fold_left (do_put enc) ops w) = content w ++ concat (map (wop_bytes enc) ops) /\
  (no_eom w -> no_eom (fold_left (do_put enc) ops w)).
Proof.
  induction ops as [|o t IH]; intro w; cbn [fold_left map concat].
  - rewrite app_nil_r. auto.
  - destruct (IH (do_put enc w o)) as [C E]. rewrite C, content_do_put, <- app_assoc.
    split; [reflexivity|]. intro H. apply E, no_eom_do_put, H.
Qed.

(* the frames of a finished message: payload = concatenation of the encodings,
   every frame but the last has EOM = false, the last has EOM = true *)
Theorem write_ops_content enc ops :
  concat (map fst (w_out (write_ops enc ops))) = concat (map (wop_bytes enc) ops).
Proof.
  unfold write_ops. rewrite finish_out. destruct (fold_puts enc ops writer_init) as [C _].
  rewrite C. reflexivity.
Qed.
Theorem write_ops_eom enc ops :
  exists fs last, w_out (write_ops enc ops) = fs ++ [(last, true)] /\
                  Forall (fun f : mframe => snd f = false) fs.
Proof.
  unfold write_ops. rewrite finish_frames.
  destruct (fold_puts enc ops writer_init) as [_ E].
  eexists _, _. split; [reflexivity|]. apply E, no_eom_init.
Qed.
