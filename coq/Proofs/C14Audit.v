(* Proofs/C14Audit.v — the complementary cases of the hypotheses of the C14 theorems:
   strings containing NULs, strings starting with the null-string marker, and strings
   too long for the encrypted length prefix. *)
From Coq Require Import List NArith ZArith Lia Bool ZifyBool ZifyNat ZifyN.
From Cedar Require Import Lib.Bytes gen.Consts Model.Msg Model.MsgLimit
     Proofs.C14Reader Proofs.C14Writer Proofs.C14Layout Proofs.C14Roundtrip.
Import ListNotations.
Local Open Scope N_scope.

(* ---------- strings with NULs: the sender truncates at the first NUL ------------ *)
Lemma upto_nul_nul_free s : nul_free (upto_nul s).
Proof.
  induction s as [|b r IH]; cbn [upto_nul]; [constructor|].
  destruct (byte_eqb b x00) eqn:E; [constructor|].
  constructor; [|exact IH]. intro H. subst b. discriminate.
Qed.
Lemma upto_nul_idem s : upto_nul (upto_nul s) = upto_nul s.
Proof. apply upto_nul_nulfree, upto_nul_nul_free. Qed.
Lemma string_bytes_upto enc s : string_bytes enc (upto_nul s) = string_bytes enc s.
Proof. unfold string_bytes. rewrite upto_nul_idem. reflexivity. Qed.

(* what the receiver gets for a value: strings cut at their first NUL, the rest as sent *)
Definition as_sent (v : tval) : tval :=
  match v with
  | TStr s => TStr (upto_nul s)
  | TStrB s => TStrB (upto_nul s)
  | _ => v
  end.
Lemma wop_bytes_as_sent enc v : wop_bytes enc (wop_of (as_sent v)) = wop_bytes enc (wop_of v).
Proof. destruct v; cbn [as_sent wop_of wop_bytes]; try reflexivity; apply string_bytes_upto. Qed.
Lemma op_of_as_sent v : op_of (as_sent v) = op_of v.
Proof. destruct v; reflexivity. Qed.

Lemma map_as_sent_bytes enc vs :
  concat (map (wop_bytes enc) (map wop_of (map as_sent vs))) = concat (map (wop_bytes enc) (map wop_of vs)).
Proof.
  induction vs as [|v t IH]; cbn [map concat]; [reflexivity|].
  rewrite IH, wop_bytes_as_sent. reflexivity.
Qed.

(* round trip WITHOUT the no-NUL hypothesis: any strings; the reader returns each string up
   to its first NUL.  (The remaining conditions are on the truncated strings.) *)
Theorem roundtrip_truncating enc vs fs :
  Forall (fun v => valid enc (as_sent v)) vs ->
  frames_ok false fs ->
  concat (map fst fs) = concat (map fst (w_out (write_vals enc vs))) ->
  run_ops enc (reader_of fs) (map op_of vs) = map (fun v => MOk (val_of (as_sent v))) vs.
Proof.
  intros V F E.
  assert (E' : concat (map fst fs) = concat (map fst (w_out (write_vals enc (map as_sent vs))))).
  { rewrite E. unfold write_vals. rewrite !write_ops_content. symmetry. apply map_as_sent_bytes. }
  pose proof (roundtrip_any_framing enc (map as_sent vs) fs) as R.
  rewrite !map_map in R.
  rewrite (map_ext (fun v => op_of (as_sent v)) op_of op_of_as_sent) in R.
  apply R; auto. apply Forall_map. exact V.
Qed.

(* ---------- encrypted stream: a string starting with 0xAD is HTCondor's null string --- *)
Theorem null_marker_reads_empty (t rest : bytes) :
  (Z.of_N (lenN (upto_nul (xad :: t))) + 1 < 2 ^ 31)%Z ->
  flat_string true (string_bytes true (xad :: t) ++ rest) = (rest, MOk []).
Proof.
  intro L. unfold string_bytes. cbn [upto_nul] in *.
  change (byte_eqb xad x00) with false in *. cbn iota in *.
  rewrite wrap32_small by lia.
  cbn [flat_string]. unfold flat_lstr.
  rewrite <- !app_assoc. rewrite flat_int_enc by lia. cbn [mapr].
  rewrite wrap32_small by lia.
  replace (Z.of_N (lenN (xad :: upto_nul t) + 1) <? 0)%Z with false by lia.
  rewrite app_assoc.
  rewrite flat_raw_exact by (rewrite lenN_app; change (lenN [x00]) with 1; lia).
  cbn [mapr]. reflexivity.
Qed.

(* ---------- the length hypothesis is exactly "the writer accepts the string" ---------- *)
Lemma lay_cstr_length s : Z.of_nat (length (lay_cstr s)) = Z.of_N (lenN (upto_nul s) + 1).
Proof. rewrite <- upto_nul_lay, app_length, lenN_spec. cbn [length]. lia. Qed.

Theorem string_accepted_iff enc w s :
  lay_ok enc (WStr s) <-> put_string_go enc w s = Some (put_string enc w s).
Proof.
  unfold put_string_go, string_too_long. cbn [lay_ok]. rewrite lay_cstr_length.
  destruct enc; cbn [andb].
  - destruct (2 ^ 31 <=? Z.of_N (lenN (upto_nul s) + 1))%Z eqn:E; split; intro H;
      try reflexivity; try discriminate; try (intros _; lia).
    specialize (H eq_refl). lia.
  - split; intro H; [reflexivity|discriminate].
Qed.
Theorem string_refused_iff enc w s :
  put_string_go enc w s = None <->
  enc = true /\ (2 ^ 31 <= Z.of_nat (length (lay_cstr s)))%Z.
Proof.
  unfold put_string_go, string_too_long. rewrite lay_cstr_length.
  destruct enc; cbn [andb].
  - destruct (2 ^ 31 <=? Z.of_N (lenN (upto_nul s) + 1))%Z eqn:E; split; intro H;
      try discriminate; try reflexivity; try (split; [reflexivity|lia]).
    destruct H as [_ H]. lia.
  - split; [discriminate|intros [H _]; discriminate].
Qed.
Theorem string_bytes_accepted_iff enc w s :
  lay_ok enc (WStrB s) <-> put_string_bytes_go enc w s = Some (put_string_bytes enc w s).
Proof.
  unfold put_string_bytes_go, string_too_long. cbn [lay_ok]. rewrite lay_cstr_length.
  destruct enc; cbn [andb].
  - destruct (2 ^ 31 <=? Z.of_N (lenN (upto_nul s) + 1))%Z eqn:E; split; intro H;
      try reflexivity; try discriminate; try (intros _; lia).
    specialize (H eq_refl). lia.
  - split; intro H; [reflexivity|discriminate].
Qed.
