(* Proofs/C05Spec.v — the predicates the C05 theorems are stated with
   (definitions only; no model code, no proofs). *)
From Coq Require Import List ZArith NArith Bool.
From Cedar Require Import gen.FactsC05 Model.Server.
Import ListNotations.

(* the policy that governs invocation [i] at the moment of the call *)
Definition policy_now (i : invocation) : option policy := current_policy (i_srv i) (i_cmd i).

(* the function that ran is the one currently registered for the command, and
   it is registered as an authenticated (non-raw) handler *)
Definition registered_authenticated (i : invocation) : Prop :=
  exists h, lookup (s_handlers (i_srv i)) (i_cmd i) = Some h /\ h_raw h = false /\ h_id h = i_handler i.

Definition registered_raw (i : invocation) : Prop :=
  exists h, lookup (s_handlers (i_srv i)) (i_cmd i) = Some h /\ h_raw h = true /\ h_id h = i_handler i.

(* the session handed to the handler REPORTS what the command's current policy demands *)
Definition meets_policy_reported (i : invocation) : Prop :=
  exists n, i_neg i = Some n /\
    (requires_authn (policy_now i) = true -> n_authn n = true) /\
    (requires_enc (policy_now i) = true -> n_enc n = true).

(* ... and REALLY has it: an authentication really ran (or the resumed session
   was established by one) and the stream really is encrypting *)
Definition meets_policy_real (i : invocation) : Prop :=
  (requires_authn (policy_now i) = true -> i_auth_real i = true) /\
  (requires_enc (policy_now i) = true -> i_enc_real i = true).

(* if an authorizer is configured now, the session's identity is authorized
   now, from this peer, at one of the command's currently registered levels *)
Definition authorized_now (i : invocation) : Prop :=
  forall az, s_authorizer (i_srv i) = Some az ->
    exists n p, i_neg i = Some n /\ In p (command_perms (i_srv i) (i_cmd i)) /\ az p (i_peer i) (n_user n) = true.

(* "reported = real": what C03 guarantees about a full handshake's outcome *)
Definition full_faithful (r : full) : Prop :=
  (f_authn r = true -> f_auth_real r = true) /\ (f_enc r = true -> f_enc_real r = true).

(* a cache entry (e.g. one installed by the application): marked Authenticated
   only if the session really was established by an authentication *)
Definition entry_faithful (e : sentry) : Prop :=
  e_client e = false -> e_authn e = true -> e_auth_real e = true.

Definition cache_faithful (k : cache) : Prop := Forall (fun se => entry_faithful (snd se)) k.

(* the commands a connection's script delivers, in order *)
Definition follow_ons (steps : list step) : list cmd :=
  flat_map (fun st => match st_next st with Some c => [c] | None => [] end) steps.

Definition is_prefix {A} (a b : list A) : Prop := exists rest, b = a ++ rest.

(* the command a DC_AUTHENTICATE connection asks for first, if its handshake succeeds *)
Definition requested (h : hs_in) : option cmd :=
  match h with
  | HsErr _ => None
  | HsFull r => Some (f_cmd r)
  | HsResume _ c _ => Some (match c with Some x => x | None => DC_AUTHENTICATE end)
  end.
