(* Proofs/C08CapFit.v — the size-capped parsing receiver accepts the sender's own frames as soon as the cap
   covers what it charges (streams that do not toggle crypto for secrets: no key, or encrypting). *)
From Coq Require Import List NArith ZArith Lia Bool.
From Coq Require Import ZifyBool ZifyNat ZifyN.
From Cedar Require Import Lib.Bytes gen.Consts Model.Msg Model.Privacy Model.AdWire.
From Cedar Require Model.Decode.
From Cedar Require Import Proofs.C14Reader Proofs.C14Writer Proofs.C14Roundtrip Proofs.C08Round Proofs.C08Wire Proofs.C08Bridge Proofs.C08Cap.
Import ListNotations.
Local Open Scope N_scope.

(* with the terminating NUL within reach of the budget, the capped byte loop IS the uncapped one *)
Lemma cstr_max_loop_fits fuel : forall r acc left s rest, wf r ->
  remaining r = s ++ x00 :: rest -> nul_free s -> lenN s < left ->
  Decode.get_cstr_max_loop fuel r acc left = get_cstr_loop fuel r acc.
Proof.
  induction fuel as [|f IH]; intros r acc left s rest W R NF L; cbn [Decode.get_cstr_max_loop get_cstr_loop].
  - destruct (left =? 0) eqn:E; [apply N.eqb_eq in E; lia|reflexivity].
  - destruct (left =? 0) eqn:E; [apply N.eqb_eq in E; lia|].
    destruct (ensure r 1) as [r1 res] eqn:En.
    destruct (ensure_spec r _ _ _ W En) as (W1 & R1 & H).
    rewrite short_of_spec, R in H. rewrite lenN_app, lenN_cons in H.
    replace (Z.of_N (lenN s + (1 + lenN rest)) <? 1)%Z with false in H by lia.
    destruct H as [-> S].
    rewrite R in R1. unfold remaining in R1.
    destruct (r_buf r1) as [|b rest'] eqn:B; [reflexivity|].
    destruct (byte_eqb b x00) eqn:Zb; [reflexivity|].
    cbn [app] in R1.
    destruct s as [|c s'].
    + cbn [app] in R1. injection R1 as Hb _. subst b.
      assert (byte_eqb x00 x00 = true) by reflexivity. congruence.
    + cbn [app] in R1. injection R1 as Hb R2. subst c.
      apply (IH (set_buf r1 rest') (b :: acc) (N.pred left) s' rest).
      * exact W1.
      * unfold remaining. cbn [set_buf r_buf r_in]. exact R2.
      * inversion NF; assumption.
      * rewrite lenN_cons in L. lia.
Qed.

Lemma cstr_max_fits k r s rest : wf r -> remaining r = s ++ x00 :: rest -> nul_free s ->
  (Z.of_N (lenN s) + 1 <= k)%Z ->
  Decode.get_cstr_max k r = Decode.charge lenN (get_cstr r).
Proof.
  intros W R NF L. unfold Decode.get_cstr_max, get_cstr. rewrite avail_total. f_equal.
  apply (cstr_max_loop_fits _ _ _ _ s rest); auto. lia.
Qed.

Lemma lstr_max_fits k r r1 len : get_int32 r = (r1, MOk len) -> (len <= k)%Z ->
  Decode.get_lstr_max k r = get_lstr r.
Proof.
  intros G L. unfold Decode.get_lstr_max, get_lstr. rewrite G. cbn [Decode.bind].
  destruct (len <? 0)%Z eqn:Neg; [reflexivity|].
  replace (k <? len)%Z with false by lia.
  destruct (ensure r1 len) as [rb [u|e|]]; cbn [Decode.bind]; try reflexivity.
  unfold Decode.r_make, Decode.go_make. rewrite Neg. cbn [Decode.bind Decode.r_read take]. reflexivity.
Qed.

Lemma same_rest_wf r r' : same_rest r r' -> wf r' -> wf r.
Proof. intros (_ & I & E & _). unfold wf. rewrite I, E. auto. Qed.
Lemma same_rest_remaining r r' : same_rest r r' -> remaining r = remaining r'.
Proof. intros (B & I & _ & _). unfold remaining. rewrite B, I. reflexivity. Qed.
Lemma same_rest_fin r r' : same_rest r r' -> r_fin r = r_fin r'.
Proof. intros (_ & _ & _ & F). exact F. Qed.

(* one well-formed string that fits: the capped read returns it, in the reader state GetString ends in
   (up to the allocation counter) *)
Lemma string_max_fits enc k r s rest : wf r -> remaining r = string_bytes enc s ++ rest -> valid_str enc s ->
  (Z.of_N (lenN s) + 1 <= k)%Z ->
  exists r1 r1', get_string enc r = (r1, MOk s) /\ Decode.get_string_max enc k r = (r1', MOk s) /\ same_rest r1' r1.
Proof.
  intros W R V L.
  pose proof (get_string_refines enc r W) as (W1 & R1 & S1).
  rewrite R, (flat_string_enc enc s rest V) in R1, S1. cbn [fst snd] in R1, S1.
  destruct (get_string enc r) as [r1 y] eqn:GS. cbn [fst snd] in *. subst y.
  exists r1. unfold Decode.get_string_max. destruct (Z.leb_spec k 0); [lia|].
  rewrite (string_bytes_valid _ _ V) in R. destruct V as [NF Ve]. destruct enc.
  - (* length-prefixed *)
    destruct (Ve eq_refl) as [_ Hlen].
    pose proof (get_int32_refines r W) as (_ & _ & S2).
    rewrite R, <- app_assoc in S2. rewrite flat_int_enc in S2 by lia. cbn [mapr snd] in S2.
    rewrite wrap32_small in S2 by lia.
    destruct (get_int32 r) as [ra x] eqn:GI. cbn [snd] in S2. subst x.
    exists r1. split; [reflexivity|]. split; [|apply same_rest_refl].
    rewrite (lstr_max_fits k r ra _ GI) by lia. exact GS.
  - cbn [app] in R. rewrite <- app_assoc in R. cbn [app] in R.
    rewrite (cstr_max_fits k r s rest W R NF L).
    unfold get_string in GS. rewrite GS. cbn [Decode.charge].
    exists (add_alloc r1 (lenN s)). split; [reflexivity|]. split; [reflexivity|apply same_rest_add_alloc].
Qed.

Section fit.
Variables key enc : bool.

Lemma step_string_max t s rest k : U key enc t -> remaining (t_r t) = string_bytes enc s ++ rest -> valid_str enc s ->
  (Z.of_N (lenN s) + 1 <= k)%Z ->
  exists t1, t_get_string_max k t = (t1, MOk s) /\ remaining (t_r t1) = rest /\ (rest <> [] -> U key enc t1).
Proof.
  intros HU R V L. pose proof HU as (K & E & T & W & F).
  destruct (string_max_fits enc k (t_r t) s rest W R V L) as (r1 & r1' & GS & GM & SR).
  pose proof (get_string_refines enc (t_r t) W) as (W1 & R1 & _).
  rewrite R, (flat_string_enc enc s rest V), GS in R1. rewrite GS in W1. cbn [fst snd] in R1, W1.
  destruct (t_step_U key enc (Decode.get_string_max (t_enc t) k) t HU) as (A & B & C & D & G).
  rewrite E in A, B, C, D, G. rewrite GM in A, B. cbn [fst snd] in A, B.
  unfold t_get_string_max. rewrite E.
  destruct (t_step (Decode.get_string_max enc k) t) as [t1 x]. cbn [fst snd] in *. subst x.
  exists t1. split; [reflexivity|]. split; [rewrite B, (same_rest_remaining _ _ SR); exact R1|].
  intro Hne. repeat split; auto; rewrite B; [apply (same_rest_wf _ _ SR W1)|].
  rewrite (same_rest_fin _ _ SR).
  destruct (get_string_fin enc _ _ _ W GS) as [Q|Q]; [rewrite Q; exact F|congruence].
Qed.

Lemma charge1_mono l : forall total, (total <= fold_left charge1 l total)%Z.
Proof.
  induction l as [|s l IH]; intro total; cbn [fold_left]; [lia|].
  specialize (IH (charge1 total s)). unfold charge1 in *. lia.
Qed.

Lemma budget_step cap total t s rest : U key enc t -> remaining (t_r t) = string_bytes enc s ++ rest -> valid_str enc s ->
  (charge1 total s <= cap)%Z ->
  exists t1, budget_get cap total false t = (t1, MOk s) /\ remaining (t_r t1) = rest /\ (rest <> [] -> U key enc t1).
Proof.
  intros HU R V L. unfold budget_get. unfold charge1 in L.
  destruct (Z.leb_spec (cap - total) 0); [lia|].
  apply step_string_max; auto. lia.
Qed.

Lemma walk_exprs_capped cap items : forall t total acc rest,
  U key enc t -> remaining (t_r t) = concat (map (string_bytes enc) items) ++ rest -> rest <> [] ->
  Forall (valid_str enc) items -> Forall (fun s => bytes_eqb s secret_marker = false) items ->
  (fold_left charge1 items total <= cap)%Z ->
  exists t1, get_exprs_capped (fun _ => true) cap (length items) t total acc =
               (t1, MOk (rev acc ++ items, fold_left charge1 items total))
             /\ U key enc t1 /\ remaining (t_r t1) = rest.
Proof.
  induction items as [|s items IH]; intros t total acc rest HU R Hne V M L; cbn [length get_exprs_capped fold_left] in *.
  - exists t. rewrite app_nil_r. auto.
  - inversion V as [|? ? Vs Vr]; subst. inversion M as [|? ? Ms Mr]; subst.
    cbn [map concat] in R. rewrite <- app_assoc in R.
    pose proof (charge1_mono items (charge1 total s)) as Mo.
    destruct (budget_step cap total t s _ HU R Vs ltac:(lia)) as (t1 & G & R1 & U1). rewrite G, Ms.
    assert (Hne1 : concat (map (string_bytes enc) items) ++ rest <> []).
    { intro H. apply app_eq_nil in H as [_ H]. contradiction. }
    destruct (IH t1 (charge1 total s) (s :: acc) rest (U1 Hne1) R1 Hne Vr Mr L) as (t2 & G2 & U2 & R2).
    exists t2. rewrite G2. cbn [rev]. rewrite <- app_assoc. auto.
Qed.
End fit.

(* the capped receiver on the frames PutClassAd produced: it returns the rendered items, in order, and the
   two type names as soon as the cap is at least what it charges: len + 1 for every item *)
Lemma capped_fits c key enc a cap :
  secret_is_noop key enc = true ->
  opt_no_types (c_opts c) = false ->
  Forall (valid_str enc) (ad_items c a) ->
  (Z.of_nat (length (ad_attrs a)) < 2 ^ 62)%Z ->
  (charged (ad_items c a) <= cap)%Z ->
  exists t1,
    get_ad_capped (fun _ => true) cap (treader_of key enc (s_frames (s_finish (put_ad c (sstate_init key enc) a)))) =
      (t1, MOk ((if opt_server_time (c_opts c) then [server_time_expr] else []) ++
                map expr_text (attrs_to_send c (ad_attrs a)), ad_mytype a, ad_targettype a)).
Proof.
  intros Hn Hnt Hv Hl Hcap.
  set (fsT := s_frames (s_finish (put_ad c (sstate_init key enc) a))).
  destruct (own_frames_honest c key enc a) as [Fok Fc]. fold fsT in Fok, Fc.
  pose proof (wire_layout c key enc a Hn) as L. rewrite <- Fc in L.
  set (exprs := (if opt_server_time (c_opts c) then [server_time_expr] else []) ++ map expr_text (attrs_to_send c (ad_attrs a))).
  assert (Items : ad_items c a = exprs ++ [ad_mytype a; ad_targettype a]).
  { unfold ad_items, exprs. rewrite Hnt, app_assoc. reflexivity. }
  set (n := (Z.of_nat (length (attrs_to_send c (ad_attrs a))) + (if opt_server_time (c_opts c) then 1 else 0))%Z) in *.
  assert (Hlen : Z.to_nat n = length exprs).
  { unfold exprs, n. rewrite app_length, map_length. destruct (opt_server_time (c_opts c)); cbn [length]; lia. }
  assert (Hcount : (- 2 ^ 63 <= n < 2 ^ 63)%Z).
  { unfold n. assert (length (attrs_to_send c (ad_attrs a)) <= length (ad_attrs a))%nat.
    { unfold attrs_to_send, filter_whitelist, filter_privacy. destruct (c_whitelist c); apply filter_len. }
    destruct (opt_server_time (c_opts c)); lia. }
  set (t0 := treader_of key enc fsT).
  assert (U0 : U key enc t0).
  { unfold U, t0, treader_of. cbn [t_key t_enc t_tags t_r]. repeat split.
    - apply Forall_forall. intros b Hb. apply in_map_iff in Hb as (f & <- & Hin).
      pose proof (put_ad_tagged c key enc a Hn) as Tg. unfold s_tagged in Tg. rewrite Forall_forall in Tg.
      apply Tg. exact Hin.
    - apply wf_reader_of. exact Fok. }
  assert (R0 : remaining (t_r t0) = enc_int n ++ concat (map (string_bytes enc) (ad_items c a))).
  { unfold t0, treader_of. cbn [t_r]. rewrite remaining_reader_of. exact L. }
  unfold charged in Hcap. rewrite Items in R0, Hv, Hcap. rewrite map_app, concat_app in R0.
  rewrite fold_left_app in Hcap. cbn [fold_left] in Hcap.
  set (te := fold_left charge1 exprs 0%Z) in *.
  pose proof (charge1_mono exprs 0%Z) as Mo. fold te in Mo.
  apply Forall_app in Hv as [Hve Hvt]. inversion Hvt as [|? ? Vmy Hvt2]; subst. inversion Hvt2 as [|? ? Vtg _]; subst.
  unfold get_ad_capped. assert (Hpos : (cap <=? 0)%Z = false) by (unfold charge1 in Hcap; lia). rewrite Hpos.
  destruct (step_int key enc t0 n _ U0 R0 Hcount) as (t1 & G1 & U1 & R1). rewrite G1, Hlen.
  assert (Hne : concat (map (string_bytes enc) [ad_mytype a; ad_targettype a]) <> []).
  { cbn [map concat]. intro H. apply app_eq_nil in H as [H _]. exact (string_bytes_nonempty _ _ H). }
  assert (Mk : Forall (fun s => bytes_eqb s secret_marker = false) exprs).
  { unfold exprs. apply Forall_app. split.
    - destruct (opt_server_time (c_opts c)); repeat constructor.
    - apply Forall_forall. intros s Hs. apply in_map_iff in Hs as (x & <- & _). apply expr_text_not_marker. }
  destruct (walk_exprs_capped key enc cap exprs t1 0%Z [] _ U1 R1 Hne Hve Mk) as (t2 & G2 & U2 & R2).
  { fold te. unfold charge1 in Hcap. lia. }
  rewrite G2. cbn [rev app]. fold te.
  unfold get_types_capped. cbn [map concat] in *. rewrite app_nil_r in R2.
  destruct (budget_step key enc cap te t2 (ad_mytype a) _ U2 R2 Vmy) as (t3 & G3 & R3 & U3).
  { unfold charge1 in *. lia. }
  rewrite G3.
  specialize (U3 (string_bytes_nonempty _ _)).
  rewrite <- (app_nil_r (string_bytes enc (ad_targettype a))) in R3.
  destruct (budget_step key enc cap (charge1 te (ad_mytype a)) t3 (ad_targettype a) [] U3 R3 Vtg Hcap) as (t4 & G4 & _ & _).
  rewrite G4. exists t4. reflexivity.
Qed.
