(* Proofs/C02Sre.v — the prefix theorem for the StartMessageRead / ReadMessageBytes /
   EndMessageRead receive API. *)
From Coq Require Import List NArith ZArith Lia Bool.
From Cedar Require Import Lib.Bytes Lib.Sym gen.Consts Model.Frame Model.FrameSpec
     Proofs.FrameBase Proofs.C12Nonce Proofs.C01Stream Proofs.C01Sre Proofs.C02Prefix Proofs.C02Messages.
Import ListNotations.
Local Open Scope N_scope.

(* receive-buffer fields do not influence which frames are accepted *)
Lemma recv_frames_rbuf_indep fs : forall s b r t i,
  snd (recv_frames (upd_rbuf s b r t i) fs) = snd (recv_frames s fs).
Proof.
  induction fs as [|f fs IH]; intros s b r t i; cbn [recv_frames]; [reflexivity|].
  rewrite recv_we_rbuf_indep.
  destruct (recv_frame_we s f) as [s1 [x|e]]; [|reflexivity].
  specialize (IH s1 b r t i).
  destruct (recv_frames (upd_rbuf s1 b r t i) fs) as [s2 l] eqn:E1.
  destruct (recv_frames s1 fs) as [s3 l3] eqn:E2. cbn [snd] in *. congruence.
Qed.

(* readNextFrame consumes exactly one group of accepted frames and appends its bytes *)
Lemma read_next_spec fs : forall s s1 r,
  read_next s fs = (s1, SOk tt, r) ->
  exists l s0, is_group l /\ recv_buf s1 = recv_buf s ++ gconcat l /\
             snd (recv_frames s fs) = l ++ snd (recv_frames s0 r) /\
             (forall b rd t i, snd (recv_frames (upd_rbuf s1 b rd t i) r) = snd (recv_frames s0 r)) /\
             in_msg s1 = in_msg s /\ bytes_read s1 = bytes_read s /\ total_msg s1 = lenN (recv_buf s1).
Proof.
  induction fs as [|f fs IH]; intros s s1 r Hr; cbn [read_next] in Hr; [discriminate|].
  cbn [recv_frames].
  destruct (recv_frame_we s f) as [s2 [[d fl]|e]] eqn:Ef; [|discriminate].
  cbv zeta in Hr.
  set (s3 := upd_rbuf s2 (recv_buf s2 ++ d) (bytes_read s2) (lenN (recv_buf s2 ++ d)) (in_msg s2)) in *.
  (* recv_frame_we leaves the receive-buffer fields alone *)
  assert (Hkeep : recv_buf s2 = recv_buf s /\ in_msg s2 = in_msg s /\ bytes_read s2 = bytes_read s).
  { pose proof (recv_we_rbuf_indep s f (recv_buf s) (bytes_read s) (total_msg s) (in_msg s)) as Hi.
    assert (Hs : upd_rbuf s (recv_buf s) (bytes_read s) (total_msg s) (in_msg s) = s) by (destruct s; reflexivity).
    rewrite Hs, Ef in Hi. injection Hi as Hi. rewrite Hi. proj_simpl. repeat split; reflexivity. }
  destruct Hkeep as [Hb [Hi Hbr]].
  destruct (fl =? EndFlagPartial) eqn:E0.
  - apply N.eqb_eq in E0. subst fl.
    destruct (IH _ _ _ Hr) as [l [s0 [Hg [Hbuf [Hrf [Hind [Him [Hbrd Htot]]]]]]]].
    exists ((d, 0) :: l), s0. split; [constructor; exact Hg|].
    split; [rewrite Hbuf; unfold s3; proj_simpl; rewrite Hb; unfold gconcat; cbn [map fst concat]; rewrite <- app_assoc; reflexivity|].
    split.
    + unfold s3 in Hrf. rewrite recv_frames_rbuf_indep in Hrf.
      destruct (recv_frames s2 fs) as [s4 l4]. cbn [snd] in *. rewrite Hrf. reflexivity.
    + split; [exact Hind|]. unfold s3 in Him, Hbrd. proj_simpl. repeat split; congruence.
  - injection Hr as <- <-.
    exists [(d, fl)], s2. split; [constructor; apply N.eqb_neq; exact E0|].
    split; [unfold s3; proj_simpl; rewrite Hb; unfold gconcat; cbn [map fst concat]; rewrite app_nil_r; reflexivity|].
    split; [destruct (recv_frames s2 fs); reflexivity|].
    split; [intros b rd t i; rewrite recv_frames_rbuf_indep; unfold s3; apply recv_frames_rbuf_indep|].
    unfold s3; proj_simpl. repeat split; assumption.
Qed.

Lemma recv_sre_spec fs : forall B B1 b r,
  rclean B -> recv_sre B fs = (B1, SOk b, r) ->
  exists l s0, is_group l /\ b = gconcat l /\
             snd (recv_frames B fs) = l ++ snd (recv_frames s0 r) /\
             snd (recv_frames B1 r) = snd (recv_frames s0 r) /\ rclean B1.
Proof.
  intros B B1 b r [Hi [Hb Hbr]] Hr. unfold recv_sre, start_read in Hr. rewrite Hi in Hr.
  destruct (read_next B fs) as [[s1 [[]|e]] r1] eqn:En; [|discriminate].
  destruct (read_next_spec _ _ _ _ En) as [l [s0 [Hg [Hbuf [Hrf [Hind [Him [Hbrd Htot]]]]]]]].
  rewrite Hb in Hbuf. cbn [app] in Hbuf.
  proj_simpl.
  destruct (lenN (recv_buf s1) =? 0) eqn:E0.
  - unfold end_read in Hr. proj_simpl. cbn [negb] in Hr.
    apply N.eqb_eq in E0. rewrite Htot, E0 in Hr. cbn [N.ltb N.compare] in Hr.
    injection Hr as <- <- <-.
    exists l, s0. split; [exact Hg|]. split; [rewrite <- Hbuf; symmetry; apply lenN_zero_nil; exact E0|].
    split; [exact Hrf|]. split; [apply Hind|repeat split].
  - unfold read_bytes in Hr. proj_simpl. cbn [negb] in Hr.
    rewrite N.sub_0_r, E0 in Hr. rewrite N.min_id in Hr. cbn [skipn N.to_nat] in Hr.
    rewrite firstn_all_N in Hr.
    unfold end_read in Hr. proj_simpl. cbn [negb] in Hr. rewrite N.add_0_l, Htot, N.ltb_irrefl in Hr.
    injection Hr as <- <- <-.
    exists l, s0. split; [exact Hg|]. split; [exact Hbuf|].
    split; [exact Hrf|]. split; [|repeat split].
    rewrite recv_frames_rbuf_indep. apply Hind.
Qed.

Lemma recv_upto_groups_sre : forall n B fs, rclean B ->
  prefix (snd (fst (fst (recv_upto ApiStartReadEnd B n fs)))) (msgs_of_tr [] (snd (recv_frames B fs))).
Proof.
  induction n as [|n IH]; intros B fs C; cbn [recv_upto recv_one]; [constructor|].
  destruct (recv_sre B fs) as [[B1 [b|e]] r] eqn:Er; [|constructor].
  destruct (recv_sre_spec _ _ _ _ _ C Er) as [l [s0 [Hg [Hb [Hrf [Hsame C1]]]]]].
  specialize (IH B1 r C1).
  destruct (recv_upto ApiStartReadEnd B1 n r) as [[[B2 got] e2] r2] eqn:Eu. cbn [fst snd] in *.
  rewrite Hrf, (group_msgs _ Hg). cbn [app]. rewrite <- Hb. constructor. rewrite <- Hsame. exact IH.
Qed.

Theorem delivered_is_prefix_sre :
  forall (h : list msg) (A B A1 : stream) (fs fs' : list frame) (k : bytes) (o : other_dir) (K : ctext -> Prop) (n : nat),
    duplex A B -> rclean B -> key A = Some k -> encrypted A = true -> wf_send A -> reflect_safe A B o ->
    send_all A h = (A1, SOk fs) ->
    known_ok k (enc_iv A) (enc_ctr A) fs o K -> uses_only K fs' ->
    prefix (snd (fst (fst (recv_upto ApiStartReadEnd B n fs')))) (map payload_of h).
Proof.
  intros h A B A1 fs fs' k o K n D C Hk He Hwf Hsafe Hs HK Huse.
  destruct (send_all_sent _ _ _ _ Hs) as [tr [Hsent Hm]].
  assert (Dn : duplex (norm A) B) by (apply duplex_upd_sbuf; exact D).
  pose proof (prefix_frames fs' (norm A) B k o K tr fs (norm A1) Dn Hk He Hwf Hsafe Hsent HK Huse) as Hp.
  eapply prefix_trans; [apply recv_upto_groups_sre; exact C|].
  rewrite <- Hm. apply msgs_of_tr_prefix. exact Hp.
Qed.
