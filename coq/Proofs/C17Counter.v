(* Proofs/C17Counter.v — identifiers handed out by a shared counter are pairwise
   distinct in every interleaving iff each increment is ONE atomic read-modify-write. *)
From Coq Require Import List Bool PeanoNat.
From Cedar Require Import Model.Lockset.
Import ListNotations.

Definition cinv (s : cstate) : Prop :=
  (forall i, forallb is_add (snd (c_thr s i)) = true) /\
  Forall (fun v => v <= c_val s) (c_out s) /\ NoDup (c_out s).

Lemma cinv_init c0 ts : Forall (fun t => forallb is_add t = true) ts -> cinv (cinit c0 ts).
Proof.
  intro H. repeat split; cbn; try constructor.
  intro i. destruct (Nat.lt_ge_cases i (length ts)) as [Hi|Hi].
  - rewrite Forall_forall in H. apply H. apply nth_In. exact Hi.
  - rewrite nth_overflow by exact Hi. reflexivity.
Qed.

Lemma cinv_step s s' : cinv s -> cstep s s' -> cinv s'.
Proof.
  intros (HA & HL & HN) St.
  destruct St as [s i l r t' Hi Ht|s i l r t' Hi Ht|s i l r t' Hi Ht];
    pose proof (HA i) as Hai; rewrite Hi in Hai; cbn in Hai; try discriminate.
  repeat split; cbn.
  - intro j. rewrite Ht. unfold cupd. destruct (Nat.eqb j i); [exact Hai|apply HA].
  - constructor; [apply Nat.le_refl|].
    eapply Forall_impl; [|exact HL]. intros v Hv. cbn in Hv. apply Nat.le_le_succ_r. exact Hv.
  - constructor; [|exact HN]. intro Hin.
    rewrite Forall_forall in HL. specialize (HL _ Hin). cbn in HL.
    exact (Nat.nle_succ_diag_l _ HL).
Qed.

Theorem counter_distinct c0 ts s :
  Forall (fun t => forallb is_add t = true) ts -> creach (cinit c0 ts) s -> NoDup (c_out s).
Proof.
  intros H R. assert (I : cinv s).
  { remember (cinit c0 ts) as s0 eqn:E. induction R as [s|s s1 s2 R IH St].
    - subst. apply cinv_init. exact H.
    - eapply cinv_step; [apply IH; exact E|exact St]. }
  apply I.
Qed.

(* sharpness: two threads that Load and then Store hand out the same identifier *)
Example load_store_collides :
  exists s, creach (cinit 0 [[CLoad; CStore]; [CLoad; CStore]]) s /\ c_out s = [1; 1].
Proof.
  set (t0 := fun i : nat => (0, nth i [[CLoad; CStore]; [CLoad; CStore]] [])).
  set (t1 := cupd t0 0 (0, [CStore])).
  set (t2 := cupd t1 1 (0, [CStore])).
  set (t3 := cupd t2 0 (0, [])).
  set (t4 := cupd t3 1 (0, [])).
  exists (mk_cs_state 1 t4 [1; 1]). split; [|reflexivity].
  eapply creach_step. eapply creach_step. eapply creach_step. eapply creach_step. apply creach_refl.
  - apply (cstep_load (cinit 0 _) 0 0 [CStore] t1); [reflexivity|intro; reflexivity].
  - apply (cstep_load (mk_cs_state 0 t1 []) 1 0 [CStore] t2); [reflexivity|intro; reflexivity].
  - apply (cstep_store (mk_cs_state 0 t2 []) 0 0 [] t3); [reflexivity|intro; reflexivity].
  - apply (cstep_store (mk_cs_state 1 t3 [1]) 1 0 [] t4); [reflexivity|intro; reflexivity].
Qed.
