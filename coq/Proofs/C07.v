(* Proofs/C07.v — proofs for C07: key injectivity, refinement of the session
   cache to the reference map over all histories, soundness of the reference
   map, drop-on-failure, no-route-after-invalidation/expiry. *)
From Coq Require Import List ZArith Bool Lia.
From Cedar Require Import Lib.Bytes Model.Cache Proofs.C07Ref.
Import ListNotations.
Local Open Scope Z_scope.

(* ------------------------------------------------------------------------ *)
(* 1. the key encoding is injective on comma-free strings                    *)
(* ------------------------------------------------------------------------ *)
Lemma split_at_comma x y x' y' :
  no_comma x -> no_comma x' -> x ++ ch_comma :: y = x' ++ ch_comma :: y' -> x = x' /\ y = y'.
Proof.
  revert x'. induction x as [|b x IH]; intros [|b' x'] Hx Hx' E; simpl in E.
  - inversion E; auto.
  - inversion E; subst. exfalso. apply Hx'. left; reflexivity.
  - inversion E; subst. exfalso. apply Hx. left; reflexivity.
  - inversion E; subst.
    destruct (IH x') as [-> ->]; auto.
    + intro H; apply Hx; right; exact H.
    + intro H; apply Hx'; right; exact H.
Qed.

Lemma no_comma_tail c : no_comma c -> no_comma (ch_lt :: c ++ [ch_gt; ch_rbrace]).
Proof.
  intros Hc [H|H]; [discriminate H|].
  apply in_app_or in H as [H|H]; [exact (Hc H)|].
  destruct H as [H|[H|[]]]; discriminate H.
Qed.

Lemma cmd_key_nil a c : cmd_key [] a c = ch_lbrace :: a ++ ch_comma :: ch_lt :: c ++ [ch_gt; ch_rbrace].
Proof. reflexivity. Qed.
Lemma cmd_key_cons b t a c :
  cmd_key (b :: t) a c = ch_lbrace :: (b :: t) ++ ch_comma :: a ++ ch_comma :: ch_lt :: c ++ [ch_gt; ch_rbrace].
Proof. reflexivity. Qed.

Lemma tail_inj c c' : ch_lt :: c ++ [ch_gt; ch_rbrace] = ch_lt :: c' ++ [ch_gt; ch_rbrace] -> c = c'.
Proof. intro E. inversion E as [E']. apply app_inv_tail in E'. exact E'. Qed.

Lemma cmd_key_inj t a c t' a' c' :
  no_comma t -> no_comma a -> no_comma c -> no_comma t' -> no_comma a' -> no_comma c' ->
  cmd_key t a c = cmd_key t' a' c' -> t = t' /\ a = a' /\ c = c'.
Proof.
  intros Ht Ha Hc Ht' Ha' Hc' E.
  destruct t as [|b t], t' as [|b' t'].
  - rewrite !cmd_key_nil in E. inversion E as [E1].
    apply split_at_comma in E1 as [-> E2]; auto. apply tail_inj in E2. subst. auto.
  - rewrite cmd_key_nil, cmd_key_cons in E. inversion E as [E1].
    change (b' :: t' ++ ch_comma :: a' ++ ch_comma :: ch_lt :: c' ++ [ch_gt; ch_rbrace])
      with ((b' :: t') ++ ch_comma :: a' ++ ch_comma :: ch_lt :: c' ++ [ch_gt; ch_rbrace]) in E1.
    apply split_at_comma in E1 as [_ E2]; auto.
    exfalso. apply (no_comma_tail c Hc). rewrite E2. apply in_or_app. right. left. reflexivity.
  - rewrite cmd_key_nil, cmd_key_cons in E. inversion E as [E1].
    change (b :: t ++ ch_comma :: a ++ ch_comma :: ch_lt :: c ++ [ch_gt; ch_rbrace])
      with ((b :: t) ++ ch_comma :: a ++ ch_comma :: ch_lt :: c ++ [ch_gt; ch_rbrace]) in E1.
    apply split_at_comma in E1 as [_ E2]; auto.
    exfalso. apply (no_comma_tail c' Hc'). rewrite <- E2. apply in_or_app. right. left. reflexivity.
  - rewrite !cmd_key_cons in E. inversion E as [[Eb E1]].
    change (t ++ ch_comma :: a ++ ch_comma :: ch_lt :: c ++ [ch_gt; ch_rbrace] =
            t' ++ ch_comma :: a' ++ ch_comma :: ch_lt :: c' ++ [ch_gt; ch_rbrace]) in E1.
    apply split_at_comma in E1 as [-> E2].
    + apply split_at_comma in E2 as [-> E3]; auto. apply tail_inj in E3. subst. auto.
    + intro H; apply Ht; right; exact H.
    + intro H; apply Ht'; right; exact H.
Qed.

(* without the side condition the encoding is not injective: a tag-less lookup
   for address "t,a" uses the key of (tag "t", address "a") *)
Lemma cmd_key_collision :
  cmd_key [] [x74; ch_comma; x61] [x31] = cmd_key [x74] [x61] [x31].
Proof. reflexivity. Qed.

Lemma bytes_eqb_refl x : bytes_eqb x x = true.
Proof. apply bytes_eqb_eq. reflexivity. Qed.
Lemma bytes_eqb_neq x y : x <> y -> bytes_eqb x y = false.
Proof. intro H. destruct (bytes_eqb x y) eqn:E; [|reflexivity]. apply bytes_eqb_eq in E. contradiction. Qed.

Lemma triple_eqb_eq x y : triple_eqb x y = true <-> x = y.
Proof.
  destruct x as [[t a] c], y as [[t' a'] c']. unfold triple_eqb.
  rewrite !andb_true_iff, !bytes_eqb_eq. split.
  - intros [[-> ->] ->]. reflexivity.
  - intro E. inversion E. auto.
Qed.

Lemma enc_eqb x y : wf_triple x -> wf_triple y -> bytes_eqb (enc x) (enc y) = triple_eqb x y.
Proof.
  intros Hx Hy. destruct (triple_eqb x y) eqn:E.
  - apply triple_eqb_eq in E. subst. apply bytes_eqb_refl.
  - apply bytes_eqb_neq. intro K.
    destruct x as [[t a] c], y as [[t' a'] c']. simpl in K.
    destruct Hx as (?&?&?), Hy as (?&?&?).
    apply cmd_key_inj in K as (-> & -> & ->); auto.
    assert (triple_eqb (t', a', c') (t', a', c') = true) by (apply triple_eqb_eq; reflexivity).
    congruence.
Qed.

(* ------------------------------------------------------------------------ *)
(* 2. list plumbing                                                          *)
(* ------------------------------------------------------------------------ *)
Lemma find_map {A B} (f : B -> bool) (g : A -> B) l :
  find f (map g l) = option_map g (find (fun x => f (g x)) l).
Proof. induction l as [|x l IH]; simpl; [reflexivity|]. destruct (f (g x)); [reflexivity|exact IH]. Qed.
Lemma filter_map {A B} (f : B -> bool) (g : A -> B) l :
  filter f (map g l) = map g (filter (fun x => f (g x)) l).
Proof. induction l as [|x l IH]; simpl; [reflexivity|]. destruct (f (g x)); simpl; rewrite IH; reflexivity. Qed.

Definition encp (kv : triple * str) : str * str := (enc (fst kv), snd kv).
Definition wf_routes (r : rstate) : Prop := Forall wf_triple (map fst (r_routes r)).

Lemma find_sess_image id rs : find_sess id (map fst rs) = option_map fst (rfind id rs).
Proof. unfold find_sess, rfind. exact (find_map (id_is id) fst rs). Qed.
Lemma del_sess_image id rs : del_sess id (map fst rs) = map fst (rdel id rs).
Proof. unfold del_sess, rdel. exact (filter_map (fun e => negb (id_is id e)) fst rs). Qed.

Lemma map_get_enc tr rt :
  wf_triple tr -> Forall wf_triple (map fst rt) ->
  map_get (enc tr) (map encp rt) = route_get tr rt.
Proof.
  intros Htr. unfold map_get, route_get. induction rt as [|[k v] rt IH]; intro Hw; simpl; [reflexivity|].
  inversion Hw; subst. simpl in *. rewrite enc_eqb by assumption.
  destruct (triple_eqb k tr); [reflexivity|]. apply IH. assumption.
Qed.
Lemma map_del_enc tr rt :
  wf_triple tr -> Forall wf_triple (map fst rt) ->
  map_del (enc tr) (map encp rt) = map encp (route_del tr rt).
Proof.
  intros Htr. unfold map_del, route_del. induction rt as [|[k v] rt IH]; intro Hw; simpl; [reflexivity|].
  inversion Hw; subst. simpl in *. rewrite enc_eqb by assumption.
  destruct (triple_eqb k tr); simpl; rewrite IH by assumption; reflexivity.
Qed.

Lemma image_eq r : image r = {| c_sessions := map fst (r_sessions r); c_cmdmap := map encp (r_routes r) |}.
Proof. reflexivity. Qed.

Lemma Forall_filter {A} (P : A -> Prop) f l : Forall P l -> Forall P (filter f l).
Proof. induction 1; simpl; [constructor|]. destruct (f x); [constructor|]; assumption. Qed.
Lemma wf_routes_filter (f : triple * str -> bool) rt :
  Forall wf_triple (map fst rt) -> Forall wf_triple (map fst (filter f rt)).
Proof.
  induction rt as [|kv rt IH]; simpl; intro H; [constructor|]. inversion H; subst.
  destruct (f kv); simpl; [constructor|]; auto.
Qed.

(* ------------------------------------------------------------------------ *)
(* 3. every cache operation on an image is the image of the reference op     *)
(* ------------------------------------------------------------------------ *)
Lemma sim_lookup_by_command r now t a cm :
  wf_routes r -> wf_triple (t, a, cm) ->
  lookup_by_command (image r) now t a cm = option_map fst (ref_lookup r now (t, a, cm)).
Proof.
  intros Hw Ht. unfold lookup_by_command, ref_lookup. rewrite image_eq. cbn [c_cmdmap c_sessions].
  change (cmd_key t a cm) with (enc (t, a, cm)). rewrite map_get_enc by assumption.
  destruct (route_get (t, a, cm) (r_routes r)) as [sid|]; [|reflexivity].
  rewrite find_sess_image. destruct (rfind sid (r_sessions r)) as [x|]; [|reflexivity].
  simpl. destruct (is_expired (fst x) now); reflexivity.
Qed.

Lemma sim_invalidate r id : fst (invalidate (image r) id) = image (ref_drop r id).
Proof.
  unfold invalidate, ref_drop. rewrite image_eq. cbn [c_cmdmap c_sessions].
  rewrite find_sess_image. destruct (rfind id (r_sessions r)) as [x|]; simpl; [|reflexivity].
  rewrite image_eq. cbn [r_sessions r_routes]. rewrite del_sess_image. f_equal.
  rewrite filter_map. reflexivity.
Qed.

Lemma sim_sweep r now : fst (invalidate_expired (image r) now) = image (ref_sweep r now).
Proof.
  unfold invalidate_expired, ref_sweep. rewrite !image_eq. cbn [c_cmdmap c_sessions r_sessions r_routes fst].
  rewrite filter_map. f_equal. rewrite filter_map. f_equal.
  apply filter_ext. intros kv. cbn [snd encp]. rewrite find_sess_image.
  destruct (rfind (snd kv) _); reflexivity.
Qed.

Lemma sim_lne r now id : fst (lookup_nonexpired (image r) now id) = image (ref_lne r now id).
Proof.
  unfold lookup_nonexpired, ref_lne. rewrite image_eq. cbn [c_cmdmap c_sessions].
  rewrite find_sess_image. destruct (rfind id (r_sessions r)) as [x|]; simpl; [|reflexivity].
  destruct (is_expired (fst x) now); simpl; [|reflexivity].
  rewrite image_eq. cbn [r_sessions r_routes]. rewrite del_sess_image. f_equal.
  rewrite filter_map. reflexivity.
Qed.

Lemma sim_store r e cmds :
  store (image r) e = image {| r_sessions := (e, cmds) :: rdel (e_id e) (r_sessions r); r_routes := r_routes r |}.
Proof.
  unfold store. rewrite !image_eq. cbn [c_cmdmap c_sessions r_sessions r_routes map fst].
  rewrite del_sess_image. reflexivity.
Qed.

Lemma sim_store_new r e cmds :
  store_new (image r) e =
  image {| r_sessions := (e, cmds) :: rdel (e_id e) (r_sessions r);
           r_routes := filter (fun kv => negb (bytes_eqb (snd kv) (e_id e))) (r_routes r) |}.
Proof.
  unfold store_new, store. rewrite !image_eq. cbn [c_cmdmap c_sessions r_sessions r_routes map fst].
  rewrite del_sess_image. f_equal. rewrite filter_map. reflexivity.
Qed.

Lemma sim_map_command r t a cm sid :
  wf_routes r -> wf_triple (t, a, cm) ->
  map_command (image r) t a cm sid =
  image {| r_sessions := r_sessions r; r_routes := route_set (t, a, cm) sid (r_routes r) |}.
Proof.
  intros Hw Ht. unfold map_command, map_set, route_set. rewrite !image_eq.
  cbn [c_cmdmap c_sessions r_sessions r_routes map]. f_equal.
  change (cmd_key t a cm) with (enc (t, a, cm)). rewrite map_del_enc by assumption. reflexivity.
Qed.

(* comma-freeness of the commands taken from a ValidCommands string *)
Lemma split_commas_acc_no_comma cur s x :
  no_comma cur -> In x (split_commas_acc cur s) -> no_comma x.
Proof.
  revert cur. induction s as [|b s IH]; intros cur Hc Hin; simpl in Hin.
  - destruct Hin as [<-|[]]. intro H. apply in_rev in H. exact (Hc H).
  - destruct (byte_eqb b ch_comma) eqn:E.
    + destruct Hin as [<-|Hin].
      * intro H. apply in_rev in H. exact (Hc H).
      * apply (IH []); [intros []|exact Hin].
    + apply (IH (b :: cur)); [|exact Hin].
      intros [H|H]; [|exact (Hc H)]. subst b.
      assert (byte_eqb ch_comma ch_comma = true) by (apply byte_eqb_eq; reflexivity). congruence.
Qed.
Lemma raw_cmds_no_comma v x : In x (raw_cmds v) -> no_comma x.
Proof.
  unfold raw_cmds. destruct v as [|b v]; [intros []|].
  apply split_commas_acc_no_comma. intros [].
Qed.
Lemma trim_left_sub s b : In b (trim_left s) -> In b s.
Proof.
  induction s as [|c s IH]; simpl; [auto|]. destruct (is_space c); [intro H; right; auto|auto].
Qed.
Lemma trim_space_sub s b : In b (trim_space s) -> In b s.
Proof.
  unfold trim_space. intro H. apply in_rev in H. apply trim_left_sub in H.
  apply in_rev in H. apply trim_left_sub in H. exact H.
Qed.
Lemma trim_space_no_comma s : no_comma s -> no_comma (trim_space s).
Proof. intros H K. apply H. apply trim_space_sub. exact K. Qed.

Lemma sim_fold_cmds tag addr sid l r :
  no_comma tag -> no_comma addr -> (forall x, In x l -> no_comma x) -> wf_routes r ->
  let fr := fun r' cmd => let cmd' := trim_space cmd in
                match cmd' with
                | [] => r'
                | _ => {| r_sessions := r_sessions r'; r_routes := route_set (tag, addr, cmd') sid (r_routes r') |}
                end in
  fold_left (fun c' cmd => let cmd' := trim_space cmd in
                           match cmd' with [] => c' | _ => map_command c' tag addr cmd' sid end) l (image r)
  = image (fold_left fr l r) /\ wf_routes (fold_left fr l r).
Proof.
  intros Ht Ha. revert r. induction l as [|cmd l IH]; intros r Hl Hw; simpl.
  - split; [reflexivity|exact Hw].
  - assert (Hc : no_comma (trim_space cmd)) by (apply trim_space_no_comma, Hl; left; reflexivity).
    destruct (trim_space cmd) as [|b cm'] eqn:E.
    + apply IH; [intros x Hx; apply Hl; right; exact Hx|exact Hw].
    + rewrite sim_map_command; [|exact Hw|repeat split; assumption].
      apply IH; [intros x Hx; apply Hl; right; exact Hx|].
      unfold wf_routes, route_set. cbn [r_routes map fst]. constructor.
      * repeat split; assumption.
      * apply wf_routes_filter. exact Hw.
Qed.

(* every record of a cache that only client handshakes fill is a client-side record, so
   storeClientSession always stores (its two other branches need a record that is not) *)
Definition acs (r : rstate) : Prop := forall x, In x (r_sessions r) -> is_client_side (fst x) = true.

Lemma lookup_In c now id e : lookup c now id = Some e -> In e (c_sessions c).
Proof.
  unfold lookup. destruct (find_sess id (c_sessions c)) as [e0|] eqn:F; [|discriminate].
  destruct (is_expired e0 now); [discriminate|]. intro E. inversion E; subst.
  unfold find_sess in F. apply find_some in F. tauto.
Qed.
Lemma scs_client_only c now tag addr fo :
  (forall e, In e (c_sessions c) -> is_client_side e = true) ->
  store_client_session c now tag addr fo = map_cmds (store_new c (client_entry now tag addr fo)) tag addr fo.
Proof.
  intro H. unfold store_client_session. destruct (lookup c now (f_sid fo)) as [ex|] eqn:L; [|reflexivity].
  rewrite (H ex (lookup_In _ _ _ _ L)). reflexivity.
Qed.
Lemma acs_image r : acs r -> forall e, In e (c_sessions (image r)) -> is_client_side e = true.
Proof.
  intros A e H. cbn [image c_sessions] in H. apply in_map_iff in H as (x & <- & Hx). apply A. exact Hx.
Qed.

Lemma sim_store_client_session r now tag addr fo :
  no_comma tag -> no_comma addr -> wf_routes r -> acs r ->
  store_client_session (image r) now tag addr fo = image (ref_establish r now tag addr fo)
  /\ wf_routes (ref_establish r now tag addr fo).
Proof.
  intros Ht Ha Hw Ac. rewrite (scs_client_only _ _ _ _ _ (acs_image r Ac)). unfold map_cmds, ref_establish.
  rewrite (sim_store_new r (client_entry now tag addr fo) (cmds_of (f_valid fo))).
  change (e_id (client_entry now tag addr fo)) with (f_sid fo).
  apply sim_fold_cmds; auto.
  - intros x Hx. apply raw_cmds_no_comma in Hx. exact Hx.
  - unfold wf_routes. cbn [r_routes]. apply wf_routes_filter. exact Hw.
Qed.

Lemma e_id_renew e now : e_id (renew_lease e now) = e_id e.
Proof. unfold renew_lease. destruct (e_lease e =? 0); reflexivity. Qed.

Lemma wf_routes_drop r id : wf_routes r -> wf_routes (ref_drop r id).
Proof.
  unfold ref_drop, wf_routes. destruct (rfind id (r_sessions r)); [|auto].
  cbn [r_routes]. apply wf_routes_filter.
Qed.

Lemma sim_full r now tag addr p :
  no_comma tag -> no_comma addr -> wf_routes r -> acs r ->
  fst (full_auth (image r) now tag addr p) = image (ref_full r now tag addr p)
  /\ wf_routes (ref_full r now tag addr p).
Proof.
  intros Ht Ha Hw Ac. unfold full_auth, ref_full. destruct (on_full p) as [fo|]; [|auto].
  destruct (f_sid fo) as [|b s] eqn:Es; [auto|].
  destruct addr as [|b' a']; [auto|]. cbn [fst].
  apply sim_store_client_session; assumption.
Qed.

Lemma sim_handshake r now tag addr cmd p :
  no_comma tag -> no_comma addr -> (match cmd with Some cm => no_comma cm | None => True end) -> wf_routes r -> acs r ->
  fst (client_handshake (image r) now [] tag addr cmd p) = image (ref_handshake r now tag addr cmd p)
  /\ wf_routes (ref_handshake r now tag addr cmd p).
Proof.
  intros Ht Ha Hc Hw Ac. unfold client_handshake, ref_handshake.
  destruct addr as [|b a']; [apply sim_full; assumption|].
  destruct cmd as [cm|]; [|apply sim_full; assumption].
  rewrite sim_lookup_by_command; [|exact Hw|repeat split; assumption].
  match goal with |- context [ref_lookup ?u ?v ?w] => destruct (ref_lookup u v w) as [x|] end; cbn [option_map]; [|apply sim_full; assumption].
  destruct (has_usable_key (fst x)); [|apply sim_full; assumption].
  unfold resume_session.
  destruct (on_resume p (e_id (fst x))); cbn [fst].
  - split; [|exact Hw].
    rewrite (sim_store r (renew_lease (fst x) now) (snd x)), e_id_renew. reflexivity.
  - split; [apply sim_invalidate|apply wf_routes_drop; exact Hw].
  - auto.
  - split; [|exact Hw].
    rewrite (sim_store r (renew_lease (fst x) now) (snd x)), e_id_renew. reflexivity.
  - split; [apply sim_invalidate|apply wf_routes_drop; exact Hw].
Qed.

Lemma sim_step r now e :
  wf_event e -> wf_routes r -> acs r ->
  step (image r, now) e = (image (fst (ref_step (r, now) e)), snd (ref_step (r, now) e))
  /\ wf_routes (fst (ref_step (r, now) e)).
Proof.
  intros He Hw Ac. destruct e as [t a cmd p|dt|id| |id]; cbn [step ref_step fst snd].
  - destruct He as (Ht & Ha & Hc). destruct (sim_handshake r now t a cmd p Ht Ha Hc Hw Ac) as [E W].
    rewrite E. auto.
  - auto.
  - rewrite sim_invalidate. split; [reflexivity|apply wf_routes_drop; exact Hw].
  - rewrite sim_sweep. split; [reflexivity|]. unfold ref_sweep, wf_routes. cbn [r_routes].
    apply wf_routes_filter. exact Hw.
  - rewrite sim_lne. split; [reflexivity|]. unfold ref_lne.
    destruct (rfind id (r_sessions r)) as [x|]; [|exact Hw]. destruct (is_expired (fst x) now); [|exact Hw].
    unfold wf_routes. cbn [r_routes]. apply wf_routes_filter. exact Hw.
Qed.

(* ------------------------------------------------------------------------ *)
(* 4. the reference map is sound: a route leads only to a session established *)
(*    under that tag, to that address, with that command declared valid       *)
(* ------------------------------------------------------------------------ *)
Definition sound (r : rstate) : Prop :=
  forall tr id x, In (tr, id) (r_routes r) -> In x (r_sessions r) -> e_id (fst x) = id ->
    e_tag (fst x) = fst (fst tr) /\ e_addr (fst x) = snd (fst tr) /\ In (snd tr) (snd x).

Lemma sound_shrink r r' :
  incl (r_sessions r') (r_sessions r) -> incl (r_routes r') (r_routes r) -> sound r -> sound r'.
Proof. intros Hs Hr S tr id x H1 H2 H3. apply (S tr id x); auto. Qed.

Lemma incl_filter {A} (f : A -> bool) l : incl (filter f l) l.
Proof. intros x H. apply filter_In in H. tauto. Qed.

Lemma sound_drop r id : sound r -> sound (ref_drop r id).
Proof.
  unfold ref_drop. destruct (rfind id (r_sessions r)); [|auto].
  apply sound_shrink; cbn [r_sessions r_routes]; apply incl_filter.
Qed.
Lemma sound_sweep r now : sound r -> sound (ref_sweep r now).
Proof. apply sound_shrink; cbn [ref_sweep r_sessions r_routes]; apply incl_filter. Qed.
Lemma sound_lne r now id : sound r -> sound (ref_lne r now id).
Proof.
  unfold ref_lne. destruct (rfind id (r_sessions r)) as [x|]; [|auto].
  destruct (is_expired (fst x) now); [|auto].
  apply sound_shrink; cbn [r_sessions r_routes]; apply incl_filter.
Qed.

Lemma rfind_In id l x : rfind id l = Some x -> In x l /\ e_id (fst x) = id.
Proof.
  unfold rfind. intro H. apply find_some in H as [H1 H2]. split; [exact H1|].
  unfold id_is in H2. apply bytes_eqb_eq in H2. exact H2.
Qed.
Lemma ref_lookup_In r now tr x :
  ref_lookup r now tr = Some x -> In x (r_sessions r) /\ is_expired (fst x) now = false
                                 /\ In (tr, e_id (fst x)) (r_routes r).
Proof.
  unfold ref_lookup, route_get. destruct (find _ (r_routes r)) as [kv|] eqn:F; [|discriminate].
  apply find_some in F as [F1 F2]. apply triple_eqb_eq in F2.
  destruct (rfind (snd kv) (r_sessions r)) as [y|] eqn:R; [|discriminate].
  destruct (is_expired (fst y) now) eqn:X; [discriminate|]. intro E. inversion E; subst y.
  apply rfind_In in R as [R1 R2]. repeat split; auto.
  rewrite R2. destruct kv as [k v]. simpl in *. subst k. exact F1.
Qed.

Lemma renew_tag e now : e_tag (renew_lease e now) = e_tag e.
Proof. unfold renew_lease. destruct (e_lease e =? 0); reflexivity. Qed.
Lemma renew_addr e now : e_addr (renew_lease e now) = e_addr e.
Proof. unfold renew_lease. destruct (e_lease e =? 0); reflexivity. Qed.

Lemma sound_renew r now x : In x (r_sessions r) -> sound r -> sound (ref_renew r now x).
Proof.
  intros Hx S tr id y H1 H2 H3. unfold ref_renew in *. cbn [r_sessions r_routes] in *.
  destruct H2 as [<-|H2].
  - cbn [fst snd] in *. rewrite e_id_renew in H3. rewrite renew_tag, renew_addr.
    apply (S tr id x); auto.
  - apply (S tr id y); auto. apply filter_In in H2. tauto.
Qed.

Lemma sound_establish r now tag addr fo :
  sound r -> sound (ref_establish r now tag addr fo).
Proof.
  intros S.
  set (new := (client_entry now tag addr fo, cmds_of (f_valid fo))).
  set (P := fun r' : rstate =>
         r_sessions r' = new :: rdel (f_sid fo) (r_sessions r) /\
         forall tr id, In (tr, id) (r_routes r') ->
           (In (tr, id) (r_routes r) /\ id <> f_sid fo) \/
           (id = f_sid fo /\ fst (fst tr) = tag /\ snd (fst tr) = addr /\ In (snd tr) (cmds_of (f_valid fo)))).
  assert (HP : P (ref_establish r now tag addr fo)).
  { unfold ref_establish. fold new.
    assert (Hl : forall cmd, In cmd (raw_cmds (f_valid fo)) -> In cmd (raw_cmds (f_valid fo))) by auto.
    revert Hl. generalize (raw_cmds (f_valid fo)) at 1 3 as l.
    assert (P0 : P {| r_sessions := new :: rdel (f_sid fo) (r_sessions r);
                      r_routes := filter (fun kv => negb (bytes_eqb (snd kv) (f_sid fo))) (r_routes r) |}).
    { split; [reflexivity|]. intros tr id H. left. cbn [r_routes] in H. apply filter_In in H as [H1 H2].
      split; [exact H1|]. cbn [snd] in H2. intro K. subst id. rewrite bytes_eqb_refl in H2. discriminate. }
    revert P0. generalize {| r_sessions := new :: rdel (f_sid fo) (r_sessions r);
                             r_routes := filter (fun kv => negb (bytes_eqb (snd kv) (f_sid fo))) (r_routes r) |} as r0.
    intros r0 P0 l. revert r0 P0. induction l as [|cmd l IH]; intros r0 P0 Hl; simpl; [exact P0|].
    apply IH; [|intros c Hc; apply Hl; right; exact Hc].
    destruct (trim_space cmd) as [|b cm'] eqn:E; [exact P0|].
    destruct P0 as [Ps Pr]. split; [exact Ps|].
    cbn [r_routes]. intros tr id [H|H].
    - inversion H; subst. right. cbn [fst snd]. repeat split; auto.
      unfold cmds_of. apply filter_In. split.
      + rewrite <- E. apply in_map. apply Hl. left. reflexivity.
      + reflexivity.
    - apply Pr. unfold route_del in H. apply filter_In in H. tauto. }
  destruct HP as [Ps Pr]. intros tr id y H1 H2 H3. rewrite Ps in H2.
  destruct (Pr tr id H1) as [[Hold Hne]|(-> & Ht & Ha & Hc)].
  - destruct H2 as [<-|H2]; [exfalso; apply Hne; symmetry; exact H3|].
    apply (S tr id y); auto. apply filter_In in H2. tauto.
  - destruct H2 as [<-|H2].
    + cbn [fst snd new client_entry e_tag e_addr]. auto.
    + exfalso. apply filter_In in H2 as [_ H2]. unfold id_is in H2.
      rewrite H3, bytes_eqb_refl in H2. discriminate.
Qed.

Lemma sound_full r now tag addr p : sound r -> sound (ref_full r now tag addr p).
Proof.
  intros S. unfold ref_full. destruct (on_full p) as [fo|]; [|exact S].
  destruct (f_sid fo) as [|b s] eqn:Es; [exact S|]. destruct addr; [exact S|].
  apply sound_establish; assumption.
Qed.

Lemma sound_handshake r now t a cmd p :
  sound r -> sound (ref_handshake r now t a cmd p).
Proof.
  intros S. unfold ref_handshake. destruct a as [|b a']; [apply sound_full; exact S|].
  destruct cmd as [cm|]; [|apply sound_full; exact S].
  match goal with |- context [ref_lookup ?u ?v ?w] => destruct (ref_lookup u v w) as [x|] eqn:EL end.
  - apply ref_lookup_In in EL as (Hin & _ & _).
    destruct (has_usable_key (fst x)); [|apply sound_full; exact S].
    destruct (on_resume p (e_id (fst x))); auto using sound_drop, sound_renew.
  - apply sound_full; exact S.
Qed.

Lemma sound_step r now e : sound r -> sound (fst (ref_step (r, now) e)).
Proof.
  intros S. destruct e; cbn [ref_step fst].
  - apply sound_handshake; assumption.
  - exact S.
  - apply sound_drop; exact S.
  - apply sound_sweep; exact S.
  - apply sound_lne; exact S.
Qed.

(* ------------------------------------------------------------------------ *)
(* 5. refinement over all histories                                          *)
(* ------------------------------------------------------------------------ *)
Lemma is_client_side_renew e now : is_client_side (renew_lease e now) = is_client_side e.
Proof. unfold renew_lease. destruct (e_lease e =? 0); reflexivity. Qed.
Lemma acs_incl r r' : incl (r_sessions r') (r_sessions r) -> acs r -> acs r'.
Proof. intros I A x H. apply A, I, H. Qed.
Lemma establish_sessions_acs r now tag addr fo : acs r -> acs (ref_establish r now tag addr fo).
Proof.
  intros A x H. unfold ref_establish in H.
  assert (G : forall l r0, r_sessions (fold_left (fun r' cmd => let cmd' := trim_space cmd in
                 match cmd' with
                 | [] => r'
                 | _ => {| r_sessions := r_sessions r'; r_routes := route_set (tag, addr, cmd') (f_sid fo) (r_routes r') |}
                 end) l r0) = r_sessions r0).
  { induction l as [|c l IH]; intro r0; simpl; [reflexivity|]. rewrite IH. destruct (trim_space c); reflexivity. }
  rewrite G in H. cbn [r_sessions] in H. destruct H as [<-|H]; [reflexivity|].
  apply A. unfold rdel in H. apply filter_In in H. tauto.
Qed.
Lemma acs_step r now e : acs r -> acs (fst (ref_step (r, now) e)).
Proof.
  intro A. destruct e as [t a cmd p|dt|id| |id]; cbn [ref_step fst].
  - assert (Hfull : acs (ref_full r now t a p)).
    { unfold ref_full. destruct (on_full p) as [fo|]; [|exact A]. destruct (f_sid fo); [exact A|].
      destruct a; [exact A|]. apply establish_sessions_acs. exact A. }
    unfold ref_handshake. destruct a as [|b a']; [exact Hfull|]. destruct cmd as [cm|]; [|exact Hfull].
    match goal with |- context [ref_lookup ?u ?v ?w] => destruct (ref_lookup u v w) as [x|] eqn:EL end; [|exact Hfull].
    destruct (has_usable_key (fst x)); [|exact Hfull].
    apply ref_lookup_In in EL as (Hin & _ & _).
    assert (Hren : acs (ref_renew r now x)).
    { intros y [<-|H]; [cbn [fst]; rewrite is_client_side_renew; apply A; exact Hin|].
      apply A. unfold rdel in H. apply filter_In in H. tauto. }
    assert (Hdrop : acs (ref_drop r (e_id (fst x)))).
    { unfold ref_drop. destruct (rfind _ _); [|exact A]. apply (acs_incl r); [cbn [r_sessions]; apply incl_filter|exact A]. }
    destruct (on_resume p (e_id (fst x))); assumption.
  - exact A.
  - unfold ref_drop. destruct (rfind _ _); [|exact A]. apply (acs_incl r); [cbn [r_sessions]; apply incl_filter|exact A].
  - apply (acs_incl r); [cbn [ref_sweep r_sessions]; apply incl_filter|exact A].
  - unfold ref_lne. destruct (rfind _ _) as [x|]; [|exact A]. destruct (is_expired (fst x) now); [|exact A].
    apply (acs_incl r); [cbn [r_sessions]; apply incl_filter|exact A].
Qed.

Lemma refine_from h : forall r now,
  wf_routes r -> sound r -> acs r -> good_from (image r, now) h ->
  run_from (image r, now) h = (image (fst (ref_run_from (r, now) h)), snd (ref_run_from (r, now) h))
  /\ wf_routes (fst (ref_run_from (r, now) h)) /\ sound (fst (ref_run_from (r, now) h)).
Proof.
  induction h as [|e h IH]; intros r now Hw S Ac G.
  - cbn. auto.
  - destruct G as (He & G). destruct (sim_step r now e He Hw Ac) as [E W].
    pose proof (sound_step r now e S) as S'. pose proof (acs_step r now e Ac) as Ac'.
    change (run_from (image r, now) (e :: h)) with (run_from (step (image r, now) e) h).
    change (ref_run_from (r, now) (e :: h)) with (ref_run_from (ref_step (r, now) e) h).
    rewrite E in *.
    destruct (ref_step (r, now) e) as [r1 now1]. cbn [fst snd] in *.
    apply IH; assumption.
Qed.

Lemma refines h :
  good h ->
  let '(c, now) := run h in
  let '(r, now') := ref_run h in
  c = image r /\ now = now' /\ wf_routes r /\ sound r.
Proof.
  intro G. unfold run, ref_run, good in *.
  assert (E0 : (empty_cache, 0) = (image rempty, 0)) by reflexivity.
  rewrite E0 in *.
  destruct (refine_from h rempty 0) as (E & W & S); auto.
  - constructor.
  - intros tr id x [].
  - intros x [].
  - rewrite E. destruct (ref_run_from (rempty, 0) h) as [r now']. cbn [fst snd]. auto.
Qed.

(* the statement exported as C07_refines *)
Lemma refines_full h :
  good h ->
  let '(c, now) := run h in
  let '(r, _) := ref_run h in
  c = image r /\
  forall t a cm, wf_triple (t, a, cm) ->
    lookup_by_command c now t a cm = option_map fst (ref_lookup r now (t, a, cm)) /\
    (forall sid, client_action c now [] t a (Some cm) = AResume sid ->
       exists x, ref_lookup r now (t, a, cm) = Some x /\ e_id (fst x) = sid) /\
    (forall x, ref_lookup r now (t, a, cm) = Some x ->
       In x (r_sessions r) /\ e_tag (fst x) = t /\ e_addr (fst x) = a /\ In cm (snd x)
       /\ is_expired (fst x) now = false).
Proof.
  intro G. pose proof (refines h G) as R.
  destruct (run h) as [c now]. destruct (ref_run h) as [r now']. destruct R as (-> & <- & W & S).
  split; [reflexivity|]. intros t a cm Ht.
  pose proof (sim_lookup_by_command r now t a cm W Ht) as L. split; [exact L|]. split.
  - intros sid A. unfold client_action in A. destruct a as [|b a']; [discriminate|].
    rewrite L in A.
    match type of A with context [ref_lookup ?u ?v ?w] => destruct (ref_lookup u v w) as [x|] eqn:EL end;
      [|discriminate].
    simpl in A. destruct (has_usable_key (fst x)); [|discriminate]. inversion A. exists x. split; reflexivity.
  - intros x EL. apply ref_lookup_In in EL as (Hin & Hx & Hr).
    destruct (S (t, a, cm) (e_id (fst x)) x Hr Hin eq_refl) as (H1 & H2 & H3). auto.
Qed.

(* ------------------------------------------------------------------------ *)
(* 6. drop-on-failure and no-route                                           *)
(* ------------------------------------------------------------------------ *)
(* Go maps have unique keys; the association list represents one when its keys are unique *)
Definition cache_ok (c : cache) : Prop := NoDup (map fst (c_cmdmap c)).

Lemma find_sess_id id l e : find_sess id l = Some e -> e_id e = id /\ In e l.
Proof.
  unfold find_sess. intro H. apply find_some in H as [H1 H2]. unfold id_is in H2.
  apply bytes_eqb_eq in H2. auto.
Qed.
Lemma find_sess_none id l e : find_sess id l = None -> In e l -> e_id e <> id.
Proof.
  unfold find_sess. intros H Hin K. pose proof (find_none _ _ H e Hin) as F. unfold id_is in F.
  rewrite K, bytes_eqb_refl in F. discriminate.
Qed.
Lemma absent_filter id f l : find_sess id l = None -> find_sess id (filter f l) = None.
Proof.
  intro H. destruct (find_sess id (filter f l)) as [e|] eqn:E; [|reflexivity].
  apply find_sess_id in E as [E1 E2]. apply filter_In in E2 as [E2 _].
  exfalso. exact (find_sess_none id l e H E2 E1).
Qed.
Lemma find_del_same id l : find_sess id (del_sess id l) = None.
Proof.
  destruct (find_sess id (del_sess id l)) as [e|] eqn:E; [|reflexivity].
  apply find_sess_id in E as [E1 E2]. unfold del_sess in E2. apply filter_In in E2 as [_ E2].
  unfold id_is in E2. rewrite E1, bytes_eqb_refl in E2. discriminate.
Qed.

Lemma map_get_In k m v : map_get k m = Some v -> exists k', In (k', v) m /\ k' = k.
Proof.
  unfold map_get. destruct (find (fun kv => bytes_eqb (fst kv) k) m) as [kv|] eqn:F; [|discriminate]. intro E. inversion E; subst.
  apply find_some in F as [F1 F2]. apply bytes_eqb_eq in F2. exists (fst kv). split; [|exact F2].
  destruct kv; exact F1.
Qed.
Lemma map_get_absent k m : ~ In k (map fst m) -> map_get k m = None.
Proof.
  intro H. unfold map_get. destruct (find (fun kv => bytes_eqb (fst kv) k) m) as [kv|] eqn:F; [|reflexivity].
  apply find_some in F as [F1 F2]. apply bytes_eqb_eq in F2. exfalso. apply H. rewrite <- F2.
  apply in_map. exact F1.
Qed.
Lemma keys_filter (f : str * str -> bool) m k : In k (map fst (filter f m)) -> In k (map fst m).
Proof.
  intro H. apply in_map_iff in H as (kv & <- & H). apply filter_In in H as [H _]. apply in_map. exact H.
Qed.
Lemma NoDup_keys_filter (f : str * str -> bool) m : NoDup (map fst m) -> NoDup (map fst (filter f m)).
Proof.
  induction m as [|kv m IH]; simpl; intro H; [constructor|]. inversion H; subst.
  destruct (f kv); simpl; [constructor|]; auto. intro K. apply keys_filter in K. contradiction.
Qed.

Lemma map_get_filter_none k m id :
  NoDup (map fst m) -> map_get k m = Some id ->
  map_get k (filter (fun kv => negb (bytes_eqb (snd kv) id)) m) = None.
Proof.
  induction m as [|[k0 v0] m IH]; intros Hn Hg; [discriminate|].
  inversion Hn; subst. unfold map_get in Hg. cbn [find fst] in Hg.
  destruct (bytes_eqb k0 k) eqn:Ek.
  - cbn [snd] in Hg. inversion Hg; subst v0. cbn [filter snd]. rewrite bytes_eqb_refl. cbn [negb].
    apply bytes_eqb_eq in Ek. subst k0. apply map_get_absent. intro K. apply keys_filter in K. contradiction.
  - fold (map_get k m) in Hg. cbn [filter snd]. destruct (negb (bytes_eqb v0 id)).
    + unfold map_get. cbn [find fst]. rewrite Ek. apply IH; assumption.
    + apply IH; assumption.
Qed.

Lemma lookup_by_command_inv c now t a cm e :
  lookup_by_command c now t a cm = Some e ->
  map_get (cmd_key t a cm) (c_cmdmap c) = Some (e_id e) /\ find_sess (e_id e) (c_sessions c) = Some e
  /\ is_expired e now = false.
Proof.
  unfold lookup_by_command. destruct (map_get _ _) as [sid|]; [|discriminate].
  destruct (find_sess sid (c_sessions c)) as [e'|] eqn:F; [|discriminate].
  destruct (is_expired e' now) eqn:X; [discriminate|]. intro E. inversion E; subst e'.
  destruct (find_sess_id _ _ _ F) as [<- _]. auto.
Qed.

(* what "the session is gone" means for every lookup API, at every later time *)
Definition gone (c : cache) (id : str) : Prop :=
  forall now,
    lookup c now id = None /\ snd (lookup_nonexpired c now id) = None /\
    (forall t a cm e, lookup_by_command c now t a cm = Some e -> e_id e <> id) /\
    (forall sid t a cmd, client_action c now sid t a cmd <> AResume id).

Lemma absent_gone c id : find_sess id (c_sessions c) = None -> gone c id.
Proof.
  intros H now. repeat split.
  - unfold lookup. rewrite H. reflexivity.
  - unfold lookup_nonexpired. rewrite H. reflexivity.
  - intros t a cm e L. apply lookup_by_command_inv in L as (_ & F & _).
    apply find_sess_id in F as [_ F]. exact (find_sess_none id _ e H F).
  - intros sid t a cmd A. unfold client_action in A. destruct sid as [|b s].
    + destruct a as [|b a']; [discriminate|]. destruct cmd as [cm|]; [|discriminate].
      destruct (lookup_by_command c now t (b :: a') cm) as [e|] eqn:L; [|discriminate].
      destruct (has_usable_key e); [|discriminate].
      inversion A as [K]. apply lookup_by_command_inv in L as (_ & F & _).
      apply find_sess_id in F as [_ F]. exact (find_sess_none id _ e H F K).
    + unfold lookup in A. destruct (find_sess (b :: s) (c_sessions c)) as [e|] eqn:F; [|discriminate].
      destruct (is_expired e now); [discriminate|]. inversion A as [K].
      apply find_sess_id in F as [_ F]. exact (find_sess_none id _ e H F K).
Qed.

(* an expired session is not returned by any lookup API at that time *)
Lemma expired_no_route c now id e :
  find_sess id (c_sessions c) = Some e -> is_expired e now = true ->
  lookup c now id = None /\ snd (lookup_nonexpired c now id) = None /\
  (forall t a cm e', lookup_by_command c now t a cm = Some e' -> e_id e' <> id) /\
  (forall sid t a cmd, client_action c now sid t a cmd <> AResume id).
Proof.
  intros F X. repeat split.
  - unfold lookup. rewrite F, X. reflexivity.
  - unfold lookup_nonexpired. rewrite F, X. reflexivity.
  - intros t a cm e' L K. apply lookup_by_command_inv in L as (_ & F' & X').
    rewrite K in F'. rewrite F in F'. inversion F'; subst. congruence.
  - intros sid t a cmd A. unfold client_action in A. destruct sid as [|b s].
    + destruct a as [|b a']; [discriminate|]. destruct cmd as [cm|]; [|discriminate].
      destruct (lookup_by_command c now t (b :: a') cm) as [e'|] eqn:L; [|discriminate].
      destruct (has_usable_key e'); [|discriminate].
      inversion A as [K]. apply lookup_by_command_inv in L as (_ & F' & X').
      rewrite K in F'. rewrite F in F'. inversion F'; subst. congruence.
    + unfold lookup in A. destruct (find_sess (b :: s) (c_sessions c)) as [e'|] eqn:F'; [|discriminate].
      destruct (is_expired e' now) eqn:X'; [discriminate|]. inversion A as [K].
      destruct (find_sess_id _ _ _ F') as [K' _]. rewrite K in K'. rewrite <- K' in F'.
      rewrite F in F'. inversion F'; subst. congruence.
Qed.

Lemma invalidate_gone c id :
  gone (fst (invalidate c id)) id /\
  (snd (invalidate c id) = true -> forall kv, In kv (c_cmdmap (fst (invalidate c id))) -> snd kv <> id).
Proof.
  unfold invalidate. destruct (find_sess id (c_sessions c)) as [e|] eqn:F; cbn [fst snd]; split.
  - apply absent_gone. cbn [c_sessions]. apply find_del_same.
  - intros _ kv H K. cbn [c_cmdmap] in H. apply filter_In in H as [_ H]. cbv beta in H.
    subst id. rewrite bytes_eqb_refl in H. discriminate.
  - apply absent_gone. exact F.
  - discriminate.
Qed.

Lemma sweep_clean c now :
  let c' := fst (invalidate_expired c now) in
  (forall e, In e (c_sessions c') -> is_expired e now = false) /\
  (forall kv, In kv (c_cmdmap c') -> find_sess (snd kv) (c_sessions c') <> None).
Proof.
  unfold invalidate_expired. cbn [fst c_sessions c_cmdmap]. split.
  - intros e H. apply filter_In in H as [_ H]. destruct (is_expired e now); [discriminate|reflexivity].
  - intros kv H. apply filter_In in H as [_ H].
    destruct (find_sess (snd kv) _); [discriminate|discriminate].
Qed.

(* drop-on-failure: SID_NOT_FOUND or a broken exchange *)
Lemma drop_on_failure c now t a cm p e :
  cache_ok c -> a <> [] ->
  lookup_by_command c now t a cm = Some e -> has_usable_key e = true ->
  (on_resume p (e_id e) = RSidNotFound \/ on_resume p (e_id e) = RBroken) ->
  let c' := fst (client_handshake c now [] t a (Some cm) p) in
  client_action c now [] t a (Some cm) = AResume (e_id e) /\
  snd (client_handshake c now [] t a (Some cm) p) = OResumeErr (e_id e) /\
  gone c' (e_id e) /\
  (forall kv, In kv (c_cmdmap c') -> snd kv <> e_id e) /\
  (forall now', client_action c' now' [] t a (Some cm) = AFull) /\
  cache_ok c'.
Proof.
  intros Hok Ha L Hu Hr. pose proof (lookup_by_command_inv _ _ _ _ _ _ L) as (M & F & X).
  unfold client_handshake, client_action. destruct a as [|b a']; [contradiction|]. rewrite L, Hu.
  assert (E : resume_session c now e p = (fst (invalidate c (e_id e)), OResumeErr (e_id e))).
  { unfold resume_session. destruct Hr as [-> | ->]; reflexivity. }
  rewrite E. cbn [fst snd]. pose proof (invalidate_gone c (e_id e)) as [G1 G2].
  assert (Ht : snd (invalidate c (e_id e)) = true) by (unfold invalidate; rewrite F; reflexivity).
  split; [reflexivity|]. split; [reflexivity|]. split; [exact G1|]. split; [exact (G2 Ht)|]. split.
  - intro now'. unfold lookup_by_command, invalidate. rewrite F. cbn [fst c_cmdmap c_sessions].
    rewrite (map_get_filter_none _ _ _ Hok M). reflexivity.
  - unfold cache_ok, invalidate. rewrite F. cbn [fst c_cmdmap]. apply NoDup_keys_filter. exact Hok.
Qed.

(* every state reachable by the cache operations represents a map (unique keys) *)
Lemma cache_ok_map_command c t a cm sid : cache_ok c -> cache_ok (map_command c t a cm sid).
Proof.
  unfold cache_ok, map_command, map_set, map_del. cbn [c_cmdmap map fst]. intro H. constructor.
  - intro K. apply in_map_iff in K as (kv & K1 & K2). apply filter_In in K2 as [_ K2].
    destruct kv as [k v]. cbn [fst] in *. subst k. rewrite bytes_eqb_refl in K2. discriminate.
  - apply NoDup_keys_filter. exact H.
Qed.
Lemma cache_ok_fold tag addr sid l c :
  cache_ok c ->
  cache_ok (fold_left (fun c' cmd => let cmd' := trim_space cmd in
                         match cmd' with [] => c' | _ => map_command c' tag addr cmd' sid end) l c).
Proof.
  revert c. induction l as [|x l IH]; intros c H; simpl; [exact H|].
  apply IH. destruct (trim_space x); [exact H|]. apply cache_ok_map_command. exact H.
Qed.
Lemma cache_ok_invalidate c id : cache_ok c -> cache_ok (fst (invalidate c id)).
Proof.
  unfold invalidate. destruct (find_sess id (c_sessions c)); [|auto].
  unfold cache_ok. cbn [fst c_cmdmap]. apply NoDup_keys_filter.
Qed.
Lemma cache_ok_handshake c now sid t a cmd p :
  cache_ok c -> cache_ok (fst (client_handshake c now sid t a cmd p)).
Proof.
  intro H.
  assert (Hfull : cache_ok (fst (full_auth c now t a p))).
  { unfold full_auth. destruct (on_full p) as [fo|]; [|exact H].
    destruct (f_sid fo); [exact H|]. destruct a; [exact H|]. cbn [fst].
    assert (Hn : cache_ok (map_cmds (store_new c (client_entry now t (b0 :: a) fo)) t (b0 :: a) fo)).
    { unfold map_cmds. apply cache_ok_fold.
      unfold cache_ok, store_new, store. cbn [c_cmdmap]. apply NoDup_keys_filter. exact H. }
    unfold store_client_session. destruct (lookup c now (f_sid fo)) as [ex|]; [|exact Hn].
    destruct (is_client_side ex); [exact Hn|]. destruct (same_key (e_key ex) (f_key fo)); [|exact H].
    unfold map_cmds. apply cache_ok_fold. exact H. }
  assert (Hres : forall c1 e, cache_ok c1 -> cache_ok (fst (resume_session c1 now e p))).
  { intros c1 e H1. unfold resume_session.
    destruct (on_resume p (e_id e)); cbn [fst]; auto using cache_ok_invalidate. }
  unfold client_handshake. destruct sid as [|b s].
  - destruct a as [|b a']; [exact Hfull|]. destruct cmd as [cm|]; [|exact Hfull].
    destruct (lookup_by_command c now t (b :: a') cm) as [e|]; [|exact Hfull].
    destruct (has_usable_key e); [apply Hres; exact H|exact Hfull].
  - unfold lookup_nonexpired. destruct (find_sess (b :: s) (c_sessions c)) as [e|]; [|exact H].
    destruct (is_expired e now); [|apply Hres; exact H].
    unfold cache_ok. cbn [fst c_cmdmap]. apply NoDup_keys_filter. exact H.
Qed.
Lemma cache_ok_step st e : cache_ok (fst st) -> cache_ok (fst (step st e)).
Proof.
  destruct st as [c now]. cbn [fst]. intro H. destruct e; cbn [step fst].
  - apply cache_ok_handshake. exact H.
  - exact H.
  - apply cache_ok_invalidate. exact H.
  - unfold invalidate_expired, cache_ok. cbn [fst c_cmdmap]. apply NoDup_keys_filter. exact H.
  - unfold lookup_nonexpired. destruct (find_sess id (c_sessions c)) as [e|]; [|exact H].
    destruct (is_expired e now); [|exact H].
    unfold cache_ok. cbn [fst c_cmdmap]. apply NoDup_keys_filter. exact H.
Qed.
Lemma cache_ok_run h : cache_ok (fst (run h)).
Proof.
  unfold run, run_from. assert (H0 : cache_ok (fst (empty_cache, 0))) by constructor.
  revert H0. generalize (empty_cache, 0). induction h as [|e h IH]; intros st H; simpl; [exact H|].
  apply IH. apply cache_ok_step. exact H.
Qed.

(* ConnectAndAuthenticateWithConfig: after a failed resumption the second attempt is a full handshake *)
Lemma retry_is_full c now t a cm p1 p2 e :
  cache_ok c -> a <> [] ->
  lookup_by_command c now t a cm = Some e -> has_usable_key e = true ->
  (on_resume p1 (e_id e) = RSidNotFound \/ on_resume p1 (e_id e) = RBroken) ->
  exists c1,
    fst (client_handshake c now [] t a (Some cm) p1) = c1 /\
    client_action c1 now [] t a (Some cm) = AFull /\
    connect_and_authenticate c now [] t a (Some cm) p1 p2 =
      (fst (full_auth c1 now t a p2), [OResumeErr (e_id e); snd (full_auth c1 now t a p2)]).
Proof.
  intros Hok Ha L Hu Hr.
  pose proof (drop_on_failure c now t a cm p1 e Hok Ha L Hu Hr) as (_ & O & _ & _ & N & _).
  exists (fst (client_handshake c now [] t a (Some cm) p1)). split; [reflexivity|]. split; [apply N|].
  unfold connect_and_authenticate.
  destruct (client_handshake c now [] t a (Some cm) p1) as [c1 o1] eqn:E1. cbn [fst snd] in *. subst o1.
  cbn [is_resumption_error].
  specialize (N now). unfold client_action in N. unfold client_handshake at 1.
  destruct a as [|b a']; [contradiction|].
  destruct (lookup_by_command c1 now t (b :: a') cm) as [e1|].
  - destruct (has_usable_key e1); [discriminate|]. destruct (full_auth c1 now t (b :: a') p2). reflexivity.
  - destruct (full_auth c1 now t (b :: a') p2). reflexivity.
Qed.

(* a session that is gone stays gone unless a server announces the same id again *)
Definition never_announced (id : str) (h : list event) : Prop :=
  forall t a cmd p fo, In (EHandshake t a cmd p) h -> on_full p = FOk fo -> f_sid fo <> id.

Lemma fold_map_command_sessions tag addr sid l c :
  c_sessions (fold_left (fun c' cmd => let cmd' := trim_space cmd in
                match cmd' with [] => c' | _ => map_command c' tag addr cmd' sid end) l c) = c_sessions c.
Proof.
  revert c. induction l as [|x l IH]; intro c; simpl; [reflexivity|].
  rewrite IH. destruct (trim_space x); reflexivity.
Qed.
Lemma absent_store id c e : e_id e <> id -> find_sess id (c_sessions c) = None ->
  find_sess id (c_sessions (store c e)) = None.
Proof.
  intros Hne H. unfold store. cbn [c_sessions]. unfold find_sess. cbn [find].
  unfold id_is at 1. rewrite bytes_eqb_neq by exact Hne. apply absent_filter. exact H.
Qed.
Lemma absent_step id st e :
  find_sess id (c_sessions (fst st)) = None -> never_announced id [e] ->
  find_sess id (c_sessions (fst (step st e))) = None.
Proof.
  destruct st as [c now]. cbn [fst]. intros H Hn. destruct e as [t a cmd p|dt|id'| |id']; cbn [step fst].
  - assert (Hfull : find_sess id (c_sessions (fst (full_auth c now t a p))) = None).
    { unfold full_auth. destruct (on_full p) as [fo|] eqn:Ef; [|exact H].
      destruct (f_sid fo) eqn:Es; [exact H|]. destruct a; [exact H|]. cbn [fst].
      assert (Hnew : find_sess id (c_sessions (map_cmds (store_new c (client_entry now t (b0 :: a) fo)) t (b0 :: a) fo)) = None).
      { unfold map_cmds. rewrite fold_map_command_sessions.
        change (c_sessions (store_new c (client_entry now t (b0 :: a) fo)))
          with (c_sessions (store c (client_entry now t (b0 :: a) fo))).
        apply absent_store; [|exact H].
        cbn [client_entry e_id]. apply (Hn t (b0 :: a) cmd p fo); [left; reflexivity|exact Ef]. }
      unfold store_client_session. destruct (lookup c now (f_sid fo)) as [ex|]; [|exact Hnew].
      destruct (is_client_side ex); [exact Hnew|]. destruct (same_key (e_key ex) (f_key fo)); [|exact H].
      unfold map_cmds. rewrite fold_map_command_sessions. exact H. }
    unfold client_handshake. destruct a as [|b a']; [exact Hfull|]. destruct cmd as [cm|]; [|exact Hfull].
    destruct (lookup_by_command c now t (b :: a') cm) as [e|] eqn:L; [|exact Hfull].
    destruct (has_usable_key e); [|exact Hfull].
    apply lookup_by_command_inv in L as (_ & F & _). apply find_sess_id in F as [_ F].
    pose proof (find_sess_none id _ e H F) as Hne.
    unfold resume_session. destruct (on_resume p (e_id e)); cbn [fst].
    + apply absent_store; [rewrite e_id_renew; exact Hne|exact H].
    + unfold invalidate. destruct (find_sess (e_id e) (c_sessions c)); [|exact H].
      cbn [fst c_sessions]. apply absent_filter. exact H.
    + exact H.
    + apply absent_store; [rewrite e_id_renew; exact Hne|exact H].
    + unfold invalidate. destruct (find_sess (e_id e) (c_sessions c)); [|exact H].
      cbn [fst c_sessions]. apply absent_filter. exact H.
  - exact H.
  - unfold invalidate. destruct (find_sess id' (c_sessions c)); [|exact H].
    cbn [fst c_sessions]. apply absent_filter. exact H.
  - unfold invalidate_expired. cbn [fst c_sessions]. apply absent_filter. exact H.
  - unfold lookup_nonexpired. destruct (find_sess id' (c_sessions c)) as [e|]; [|exact H].
    destruct (is_expired e now); [|exact H]. cbn [fst c_sessions]. apply absent_filter. exact H.
Qed.
Lemma absent_stays h : forall st id,
  find_sess id (c_sessions (fst st)) = None -> never_announced id h ->
  gone (fst (run_from st h)) id.
Proof.
  induction h as [|e h IH]; intros st id H Hn.
  - apply absent_gone. exact H.
  - change (run_from st (e :: h)) with (run_from (step st e) h). apply IH.
    + apply absent_step; [exact H|]. intros t a cmd p fo [E|[]] Ef. apply (Hn t a cmd p fo); [left; exact E|exact Ef].
    + intros t a cmd p fo Hin Ef. apply (Hn t a cmd p fo); [right; exact Hin|exact Ef].
Qed.

(* ------------------------------------------------------------------------ *)
(* 7. no orphan mappings: in every reachable state each command mapping leads *)
(*    to a stored session (LookupNonExpired removes the mappings with the     *)
(*    entry, so nothing can be left pointing at a vanished id)                *)
(* ------------------------------------------------------------------------ *)
Definition no_orphans (c : cache) : Prop :=
  forall kv, In kv (c_cmdmap c) -> find_sess (snd kv) (c_sessions c) <> None.

Lemma find_del_other id id' l : id <> id' -> find_sess id (del_sess id' l) = find_sess id l.
Proof.
  intro Hne. unfold find_sess, del_sess. induction l as [|e l IH]; [reflexivity|]. cbn [filter find].
  destruct (id_is id' e) eqn:E'; cbn [negb].
  - destruct (id_is id e) eqn:E; [|exact IH]. exfalso. unfold id_is in *.
    apply bytes_eqb_eq in E, E'. apply Hne. congruence.
  - cbn [find]. destruct (id_is id e); [reflexivity|exact IH].
Qed.
Lemma find_store_same c e : find_sess (e_id e) (c_sessions (store c e)) = Some e.
Proof. unfold store, find_sess. cbn [c_sessions find]. unfold id_is. rewrite bytes_eqb_refl. reflexivity. Qed.
Lemma find_store_other c e id : id <> e_id e ->
  find_sess id (c_sessions (store c e)) = find_sess id (c_sessions c).
Proof.
  intro Hne. unfold store. cbn [c_sessions]. unfold find_sess at 1. cbn [find]. unfold id_is at 1.
  rewrite bytes_eqb_neq by (intro K; apply Hne; symmetry; exact K). apply find_del_other. exact Hne.
Qed.
Lemma bytes_dec (x y : bytes) : x = y \/ x <> y.
Proof. destruct (bytes_eqb x y) eqn:E; [left; apply bytes_eqb_eq; exact E|right; intro K; subst; rewrite bytes_eqb_refl in E; discriminate]. Qed.

Lemma no_orphans_store c e : no_orphans c -> no_orphans (store c e).
Proof.
  intros H kv Hin. change (c_cmdmap (store c e)) with (c_cmdmap c) in Hin.
  destruct (bytes_dec (snd kv) (e_id e)) as [->|Hne].
  - rewrite find_store_same. discriminate.
  - rewrite find_store_other by exact Hne. apply H. exact Hin.
Qed.
Lemma no_orphans_store_new c e : no_orphans c -> no_orphans (store_new c e).
Proof.
  intros H kv Hin. unfold store_new, store in *. cbn [c_cmdmap c_sessions] in *.
  apply filter_In in Hin as [Hin Hne]. cbv beta in Hne.
  assert (Hne' : snd kv <> e_id e).
  { intro K. destruct kv as [k v]. cbn [snd] in *. subst v. rewrite bytes_eqb_refl in Hne. discriminate. }
  unfold find_sess. cbn [find]. unfold id_is at 1. rewrite bytes_eqb_neq by (intro K; apply Hne'; symmetry; exact K).
  fold (find_sess (snd kv) (del_sess (e_id e) (c_sessions c))). rewrite find_del_other by exact Hne'.
  apply H. exact Hin.
Qed.
Lemma no_orphans_map_command c t a cm sid :
  find_sess sid (c_sessions c) <> None -> no_orphans c -> no_orphans (map_command c t a cm sid).
Proof.
  intros Hs H kv Hin. unfold map_command, map_set, map_del in Hin. cbn [c_cmdmap c_sessions] in *.
  destruct Hin as [<-|Hin]; [exact Hs|]. apply H. apply filter_In in Hin. tauto.
Qed.
Lemma no_orphans_fold tag addr sid l c :
  find_sess sid (c_sessions c) <> None -> no_orphans c ->
  no_orphans (fold_left (fun c' cmd => let cmd' := trim_space cmd in
                           match cmd' with [] => c' | _ => map_command c' tag addr cmd' sid end) l c).
Proof.
  revert c. induction l as [|x l IH]; intros c Hs H; simpl; [exact H|].
  destruct (trim_space x) as [|b r]; [apply IH; assumption|].
  apply IH; [exact Hs|apply no_orphans_map_command; assumption].
Qed.
Lemma no_orphans_remove c id :
  no_orphans c ->
  no_orphans {| c_sessions := del_sess id (c_sessions c);
                c_cmdmap := filter (fun kv => negb (bytes_eqb (snd kv) id)) (c_cmdmap c) |}.
Proof.
  intros H kv Hin. cbn [c_cmdmap c_sessions] in *. apply filter_In in Hin as [Hin Hne].
  rewrite find_del_other; [apply H; exact Hin|].
  intro K. cbv beta in Hne. destruct kv as [k v]. cbn [snd] in *. subst v.
  rewrite bytes_eqb_refl in Hne. discriminate.
Qed.
Lemma no_orphans_invalidate c id : no_orphans c -> no_orphans (fst (invalidate c id)).
Proof.
  unfold invalidate. destruct (find_sess id (c_sessions c)); [|auto]. cbn [fst]. apply no_orphans_remove.
Qed.
Lemma no_orphans_handshake c now sid t a cmd p :
  no_orphans c -> no_orphans (fst (client_handshake c now sid t a cmd p)).
Proof.
  intro H.
  assert (Hfull : no_orphans (fst (full_auth c now t a p))).
  { unfold full_auth. destruct (on_full p) as [fo|]; [|exact H].
    destruct (f_sid fo) eqn:Es; [exact H|]. destruct a; [exact H|]. cbn [fst].
    assert (Hn : no_orphans (map_cmds (store_new c (client_entry now t (b0 :: a) fo)) t (b0 :: a) fo)).
    { unfold map_cmds. apply no_orphans_fold.
      - change (f_sid fo) with (e_id (client_entry now t (b0 :: a) fo)). unfold store_new. rewrite find_store_same. discriminate.
      - apply no_orphans_store_new. exact H. }
    unfold store_client_session. destruct (lookup c now (f_sid fo)) as [ex|] eqn:L; [|exact Hn].
    destruct (is_client_side ex); [exact Hn|]. destruct (same_key (e_key ex) (f_key fo)); [|exact H].
    unfold map_cmds. apply no_orphans_fold; [|exact H].
    unfold lookup in L. destruct (find_sess (f_sid fo) (c_sessions c)); [discriminate|discriminate]. }
  assert (Hres : forall c1 e, no_orphans c1 -> no_orphans (fst (resume_session c1 now e p))).
  { intros c1 e H1. unfold resume_session.
    destruct (on_resume p (e_id e)); cbn [fst]; auto using no_orphans_invalidate, no_orphans_store. }
  unfold client_handshake. destruct sid as [|b s].
  - destruct a as [|b a']; [exact Hfull|]. destruct cmd as [cm|]; [|exact Hfull].
    destruct (lookup_by_command c now t (b :: a') cm) as [e|]; [|exact Hfull].
    destruct (has_usable_key e); [apply Hres; exact H|exact Hfull].
  - unfold lookup_nonexpired. destruct (find_sess (b :: s) (c_sessions c)) as [e|]; [|exact H].
    destruct (is_expired e now); [cbn [fst]; apply no_orphans_remove; exact H|apply Hres; exact H].
Qed.
Lemma no_orphans_step st e : no_orphans (fst st) -> no_orphans (fst (step st e)).
Proof.
  destruct st as [c now]. cbn [fst]. intro H. destruct e; cbn [step fst].
  - apply no_orphans_handshake. exact H.
  - exact H.
  - apply no_orphans_invalidate. exact H.
  - intros kv Hin. exact (proj2 (sweep_clean c now) kv Hin).
  - unfold lookup_nonexpired. destruct (find_sess id (c_sessions c)) as [e|]; [|exact H].
    destruct (is_expired e now); [cbn [fst]; apply no_orphans_remove; exact H|exact H].
Qed.
Lemma no_orphans_run h : no_orphans (fst (run h)).
Proof.
  unfold run, run_from. assert (H0 : no_orphans (fst (empty_cache, 0))) by (intros kv []).
  revert H0. generalize (empty_cache, 0). induction h as [|e h IH]; intros st H; simpl; [exact H|].
  apply IH. apply no_orphans_step. exact H.
Qed.
