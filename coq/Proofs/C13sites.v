(* Proofs/C13sites.v — the call-site obligation of C13: every reader of a peer-sized value
   in the handshake packages is a size-capped variant with a constant cap.  The list of
   sites (gen/FactsC13.v) is regenerated from /repo's source on every run, so a call site
   that drops its cap, or a new uncapped one, breaks this proof. *)
From Coq Require Import List NArith Bool String.
From Cedar Require Import gen.FactsC13.
Import ListNotations.
Local Open Scope string_scope.
Local Open Scope N_scope.

Definition site := (String.string * String.string * String.string * option N)%type.

(* uncapped reads that are justified (file, function, callee): none at present — every read
   of a ClassAd or string from a peer in security/, server/, client/, ccb/ happens before or
   during authentication, or on a control channel, and must be capped *)
Definition allow_list : list (String.string * String.string * String.string) := [].

Definition same3 (a b : String.string * String.string * String.string) : bool :=
  String.eqb (fst (fst a)) (fst (fst b)) && String.eqb (snd (fst a)) (snd (fst b)) && String.eqb (snd a) (snd b).

(* the largest cap a handshake reader may pass: one frame *)
Definition max_site_cap : N := 1048576.

Definition site_ok (s : site) : bool :=
  match snd s with
  | Some n => (0 <? n) && (n <=? max_site_cap)
  | None => existsb (same3 (fst s)) allow_list
  end.

(* the sites the property names must be present (the translator did not go blind) *)
Definition required_sites : list (String.string * String.string * String.string) :=
  [ ("security/auth.go", "performFullAuthentication", "GetClassAdWithMaxSize");
    ("security/auth.go", "ServerHandshakeWithMessage", "GetClassAdWithMaxSize");
    ("security/auth.go", "resumeSession", "GetClassAdWithMaxSize");
    ("security/token_auth.go", "getIDString", "GetStringWithMaxSize");
    ("ccb/ccb.go", "ReadControlAd", "GetClassAdWithMaxSize");
    ("ccb/ccb.go", "ReadReverseConnectAd", "GetClassAdWithMaxSize") ]%string.
Definition present (r : String.string * String.string * String.string) : bool :=
  existsb (fun s : site => same3 (fst s) r) call_sites.
(* both handshake ads of the full client handshake (negotiation reply and post-auth ad) *)
Definition count_in (r : String.string * String.string * String.string) : nat :=
  List.length (filter (fun s : site => same3 (fst s) r) call_sites).

Lemma sites_checked :
  forallb site_ok call_sites = true /\ forallb present required_sites = true /\
  (2 <= count_in ("security/auth.go", "performFullAuthentication", "GetClassAdWithMaxSize")%string)%nat.
Proof. split; [vm_compute; reflexivity|]. split; [vm_compute; reflexivity|]. vm_compute. repeat constructor. Qed.

Lemma handshake_readers_bounded :
  (forall s, In s call_sites -> exists n, snd s = Some n /\ 0 < n <= max_site_cap \/ existsb (same3 (fst s)) allow_list = true) /\
  (forall r, In r required_sites -> present r = true).
Proof.
  destruct sites_checked as (H1 & H2 & _). split.
  - intros s Hs. rewrite forallb_forall in H1. specialize (H1 s Hs). unfold site_ok in H1.
    destruct (snd s) as [n|].
    + exists n. left. split; [reflexivity|]. apply andb_true_iff in H1. destruct H1 as (A & B).
      apply N.ltb_lt in A. apply N.leb_le in B. split; assumption.
    + exists 0. right. exact H1.
  - intros r Hr. rewrite forallb_forall in H2. exact (H2 r Hr).
Qed.
