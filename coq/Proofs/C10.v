(* Proofs/C10.v — lemmas and proofs for property C10. *)
From Coq Require Import List NArith ZArith Bool Lia.
From Cedar Require Import Model.Negotiate.
Import ListNotations.
Local Open Scope Z_scope.

(* ---- equalities ----------------------------------------------------------- *)

Lemma meth_eqb_eq a b : meth_eqb a b = true <-> a = b.
Proof.
  destruct a, b; simpl; split; intro H; try reflexivity; try discriminate.
  - apply N.eqb_eq in H. congruence.
  - inversion H. apply N.eqb_refl.
Qed.
Lemma meth_eqb_refl a : meth_eqb a a = true.
Proof. apply meth_eqb_eq. reflexivity. Qed.
Lemma meth_eqb_neq a b : meth_eqb a b = false <-> a <> b.
Proof.
  split; intro H.
  - intro E. apply meth_eqb_eq in E. congruence.
  - destruct (meth_eqb a b) eqn:E; [apply meth_eqb_eq in E; contradiction | reflexivity].
Qed.
Lemma ciph_eqb_eq a b : ciph_eqb a b = true <-> a = b.
Proof.
  destruct a, b; simpl; split; intro H; try reflexivity; try discriminate.
  - apply N.eqb_eq in H. congruence.
  - inversion H. apply N.eqb_refl.
Qed.
Lemma mem_In m l : mem m l = true <-> In m l.
Proof.
  unfold mem. rewrite existsb_exists. split.
  - intros [x [Hx E]]. apply meth_eqb_eq in E. congruence.
  - intro H. exists m. split; [assumption | apply meth_eqb_refl].
Qed.
Lemma cmem_In c l : cmem c l = true <-> In c l.
Proof.
  unfold cmem. rewrite existsb_exists. split.
  - intros [x [Hx E]]. apply ciph_eqb_eq in E. congruence.
  - intro H. exists c. split; [assumption | apply ciph_eqb_eq; reflexivity].
Qed.
Lemma has_meth_true m : has_meth m = true <-> m <> mNONE.
Proof.
  unfold has_meth. rewrite negb_true_iff. apply meth_eqb_neq.
Qed.

(* ---- list intersection in server preference order ------------------------- *)

Lemma neg_meth_in sm cm :
  neg_meth sm cm <> mNONE ->
  In (neg_meth sm cm) sm /\ In (neg_meth sm cm) cm /\ implemented (neg_meth sm cm) = true.
Proof.
  induction sm as [|s r IH]; simpl; intro H; [congruence|].
  destruct (implemented s && mem s cm && negb (meth_eqb s mNONE)) eqn:E.
  - apply andb_true_iff in E as [E _]. apply andb_true_iff in E as [E1 E2].
    apply mem_In in E2. auto.
  - destruct (IH H) as (A & B & C). auto.
Qed.

Lemma neg_meth_some sm cm m :
  In m sm -> In m cm -> implemented m = true -> m <> mNONE -> neg_meth sm cm <> mNONE.
Proof.
  induction sm as [|s r IH]; simpl; intros Hs Hc Hi Hn; [contradiction|].
  destruct (implemented s && mem s cm && negb (meth_eqb s mNONE)) eqn:E.
  - apply andb_true_iff in E as [_ E]. apply negb_true_iff in E. apply meth_eqb_neq in E. exact E.
  - destruct Hs as [->|Hs].
    + apply mem_In in Hc. apply meth_eqb_neq in Hn. rewrite Hi, Hc, Hn in E. discriminate.
    + auto.
Qed.

Lemma neg_meth_seen sm cm : neg_meth (seen_meths sm (neg_meth sm cm)) cm = neg_meth sm cm.
Proof. destruct sm; [|reflexivity]. simpl. destruct (mem mNONE cm); reflexivity. Qed.

Lemma neg_ciph_has sc cc : has_ciph (neg_ciph sc cc) = true <-> In cAES sc /\ In cAES cc.
Proof.
  induction sc as [|s r IH]; simpl.
  - split; [discriminate | intros [[] _]].
  - destruct (ciph_eqb s cAES && cmem s cc) eqn:E.
    + apply andb_true_iff in E as [E1 E2]. apply ciph_eqb_eq in E1. subst s. apply cmem_In in E2.
      simpl. split; auto.
    + rewrite IH. split.
      * intros [A B]. auto.
      * intros [[A|A] B]; [|auto].
        subst s. apply cmem_In in B. simpl in E. rewrite B in E. discriminate.
Qed.

Lemma cl_methods_In m cm sm : In m (cl_methods cm sm) <-> In m cm /\ In m sm.
Proof.
  unfold cl_methods. rewrite filter_In, mem_In. reflexivity.
Qed.

(* ---- bitmasks --------------------------------------------------------------- *)

Definition sel (a : Z) (m : meth) : bool := negb (Z.land a (bit m) =? 0).

Lemma sel_lor a b m : sel (Z.lor a b) m = sel a m || sel b m.
Proof.
  unfold sel. rewrite Z.land_lor_distr_l.
  destruct (Z.land a (bit m) =? 0) eqn:A; destruct (Z.land b (bit m) =? 0) eqn:B; simpl;
    rewrite ?Z.eqb_eq, ?Z.eqb_neq in *.
  - rewrite A, B. reflexivity.
  - apply negb_true_iff, Z.eqb_neq. rewrite Z.lor_eq_0_iff. tauto.
  - apply negb_true_iff, Z.eqb_neq. rewrite Z.lor_eq_0_iff. tauto.
  - apply negb_true_iff, Z.eqb_neq. rewrite Z.lor_eq_0_iff. tauto.
Qed.

Lemma sel_0 m : sel 0 m = false.
Proof. unfold sel. rewrite Z.land_0_l. reflexivity. Qed.

Lemma sel_bit_same m x : sel (bit m) x = true -> bit m = bit x /\ bit x <> 0.
Proof. destruct m, x; vm_compute; intro H; try discriminate; split; congruence. Qed.

Lemma sel_bit_refl m : bit m <> 0 -> sel (bit m) m = true.
Proof. destruct m; vm_compute; congruence. Qed.

Lemma sel_fold ms : forall a x,
  sel (fold_left (fun a m => Z.lor a (bit m)) ms a) x = sel a x || existsb (fun m => sel (bit m) x) ms.
Proof.
  induction ms as [|m r IH]; intros a x; simpl.
  - rewrite orb_false_r. reflexivity.
  - rewrite IH, sel_lor, orb_assoc. reflexivity.
Qed.

Lemma sel_mask ms x : sel (mask ms) x = existsb (fun m => sel (bit m) x) ms.
Proof. unfold mask. rewrite sel_fold, sel_0. reflexivity. Qed.

Lemma sel_mask_in ms g : In g ms -> bit g <> 0 -> sel (mask ms) g = true.
Proof.
  intros H Hb. rewrite sel_mask. apply existsb_exists. exists g. split; [assumption|].
  apply sel_bit_refl. assumption.
Qed.

Lemma sel_mask_inv ms x : sel (mask ms) x = true -> exists m, In m ms /\ bit m = bit x /\ bit x <> 0.
Proof.
  rewrite sel_mask, existsb_exists. intros [m [Hm Hs]]. exists m.
  destruct (sel_bit_same _ _ Hs). auto.
Qed.

(* removing the PASSWORD bit leaves every other method's bit alone *)
Lemma sel_remove_pw a x : sel (Z.land a (Z.lnot (bit mPW))) x = sel a x && negb (bit x =? bit mPW).
Proof.
  unfold sel. rewrite <- Z.land_assoc.
  destruct x; try (change (Z.land (Z.lnot (bit mPW)) (bit _)) with 0; rewrite Z.land_0_r; simpl;
                   rewrite ?andb_false_r, ?Z.land_0_r; reflexivity);
    try (match goal with |- context [Z.land (Z.lnot (bit mPW)) (bit ?m)] =>
           let v := eval vm_compute in (Z.land (Z.lnot (bit mPW)) (bit m)) in
           change (Z.land (Z.lnot (bit mPW)) (bit m)) with v end;
         simpl; rewrite ?andb_true_r, ?andb_false_r, ?Z.land_0_r; reflexivity).
Qed.

Lemma srv_select_some sm a ms : srv_select sm a = Some ms -> In ms sm /\ sel a ms = true.
Proof.
  induction sm as [|m r IH]; simpl; [discriminate|].
  unfold sel. destruct (Z.land a (bit m) =? 0) eqn:E.
  - intro H. destruct (IH H). auto.
  - intro H. inversion H; subst. rewrite E. auto.
Qed.

Lemma srv_select_none sm a g : In g sm -> sel a g = true -> srv_select sm a <> None.
Proof.
  induction sm as [|m r IH]; simpl; [contradiction|].
  intros [->|H] Hs.
  - unfold sel in Hs. apply negb_true_iff in Hs. rewrite Hs. discriminate.
  - destruct (Z.land a (bit m) =? 0); [auto | discriminate].
Qed.

Lemma of_bit_bit m : bit m <> 0 -> exists x, of_bit (bit m) = Some x.
Proof. destruct m; simpl; intro H; try congruence; eauto. Qed.

(* TOKEN and IDTOKENS are two names of one bit (CAUTH_TOKEN); every other
   non-zero bit has one name *)
Definition alias (a b : meth) : Prop := (a = mTOK /\ b = mIDT) \/ (a = mIDT /\ b = mTOK).
Lemma bit_inj a b : bit a = bit b -> bit b <> 0 -> ~ alias a b -> a = b.
Proof.
  unfold alias. destruct a, b; simpl; intros E Hn Ha; try congruence; try lia; exfalso; apply Ha; auto.
Qed.

Lemma implemented_bit m : implemented m = true -> m <> mNONE -> bit m <> 0.
Proof. destruct m; simpl; congruence. Qed.

Lemma unimplemented_bit m : implemented m = false -> bit m <> 0 -> m = mPW.
Proof. destruct m; simpl; congruence. Qed.

Lemma auth_loop_S f aok sm cms avail :
  auth_loop (S f) aok sm cms avail =
  if avail =? 0 then ([(0, -1)], LExhausted)
  else match srv_select sm avail with
       | None => ([(avail, 0)], LExhausted)
       | Some ms =>
           let r := bit ms in
           match of_bit r with
           | None => cons_round (avail, r) (auth_loop f aok sm cms (Z.land avail (Z.lnot r)))
           | Some _ =>
               match offered_under cms r with
               | None => ([(avail, r)], LRejected)
               | Some mc =>
                   if aok ms && aok mc then ([(avail, r)], LOk ms)
                   else cons_round (avail, r) (auth_loop f aok sm cms (Z.land avail (Z.lnot (bit mc))))
               end
           end
       end.
Proof. reflexivity. Qed.

(* ---- the composed retry loop ------------------------------------------------ *)

Section Loop.
  Variable aok : meth -> bool.
  Variables sm cms : list meth.
  Hypothesis no_alias : ~ (In mTOK sm /\ In mIDT sm).
  Hypothesis cms_sub : forall m, In m cms -> In m sm.
  Hypothesis aok_impl : forall m, In m cms -> m <> mNONE -> aok m = implemented m.
  Variable g : meth.
  Hypothesis g_in : In g cms.
  Hypothesis g_impl : implemented g = true.
  Hypothesis g_not_none : g <> mNONE.

  Definition inv (a : Z) : Prop :=
    (forall x, sel a x = true -> exists m, In m cms /\ bit m = bit x /\ bit x <> 0) /\ sel a g = true.

  Lemma inv_nonzero a : inv a -> (a =? 0) = false.
  Proof.
    intros [_ H]. apply Z.eqb_neq. intro E. subst a. rewrite sel_0 in H. discriminate.
  Qed.

  Lemma same_bit_same_method x y : In x sm -> In y sm -> bit x = bit y -> bit y <> 0 -> x = y.
  Proof.
    intros Hx Hy Hb Hn. apply bit_inj; auto.
    intros [[-> ->]|[-> ->]]; apply no_alias; auto.
  Qed.

  (* what one iteration selects *)
  Lemma select_facts a : inv a ->
    exists ms, srv_select sm a = Some ms /\ In ms cms /\ (exists x, of_bit (bit ms) = Some x)
               /\ offered_under cms (bit ms) = Some ms /\ sel a ms = true
               /\ aok ms = implemented ms /\ bit ms <> 0.
  Proof.
    intros [I1 I2].
    destruct (srv_select sm a) as [ms|] eqn:E.
    2:{ exfalso. exact (srv_select_none sm a g (cms_sub g g_in) I2 E). }
    destruct (srv_select_some _ _ _ E) as [Hin Hsel].
    destruct (I1 _ Hsel) as [m' (Hm' & Hb & Hnz)].
    assert (m' = ms) by (apply same_bit_same_method; auto). subst m'.
    exists ms. repeat split; auto.
    - apply of_bit_bit; assumption.
    - unfold offered_under. destruct (find (fun m => bit m =? bit ms) cms) as [x|] eqn:F.
      + apply find_some in F as [Fx Fb]. apply Z.eqb_eq in Fb.
        f_equal. apply same_bit_same_method; auto.
      + exfalso. apply (find_none _ _ F) in Hm'. rewrite Z.eqb_refl in Hm'. discriminate.
    - apply aok_impl; [assumption|]. intro; subst. simpl in Hnz. congruence.
  Qed.

  Lemma inv_remove_pw a : inv a -> inv (Z.land a (Z.lnot (bit mPW))).
  Proof.
    intros [I1 I2]. split.
    - intros x Hx. rewrite sel_remove_pw in Hx. apply andb_true_iff in Hx as [Hx _]. auto.
    - rewrite sel_remove_pw, I2. simpl. destruct g; simpl in *; try reflexivity; congruence.
  Qed.

  Lemma loop_ok_nopw f a : inv a -> sel a mPW = false ->
    exists rs ms, auth_loop (S f) aok sm cms a = (rs, LOk ms) /\ In ms cms /\ aok ms = true
                  /\ offered_under cms (bit ms) = Some ms.
  Proof.
    intros I Hpw. destruct (select_facts a I) as [ms (E & Hin & [x0 Hob] & Hoff & Hsel & Hok & Hnz)].
    rewrite auth_loop_S. rewrite (inv_nonzero a I), E. cbn zeta. rewrite Hob, Hoff.
    rewrite andb_diag.
    rewrite Hok. destruct (implemented ms) eqn:A.
    - exists [(a, bit ms)], ms. auto.
    - exfalso. apply unimplemented_bit in A; [|assumption].
      subst ms. congruence.
  Qed.

  Lemma loop_ok f a : inv a ->
    exists rs ms, auth_loop (S (S f)) aok sm cms a = (rs, LOk ms) /\ In ms cms /\ aok ms = true
                  /\ offered_under cms (bit ms) = Some ms.
  Proof.
    intros I. destruct (select_facts a I) as [ms (E & Hin & [x0 Hob] & Hoff & Hsel & Hok & Hnz)].
    rewrite auth_loop_S. rewrite (inv_nonzero a I), E. cbn zeta. rewrite Hob, Hoff.
    rewrite andb_diag.
    rewrite Hok. destruct (implemented ms) eqn:A.
    - exists [(a, bit ms)], ms. auto.
    - apply unimplemented_bit in A; [|assumption]. subst ms.
      destruct (loop_ok_nopw f (Z.land a (Z.lnot (bit mPW))) (inv_remove_pw a I)) as [rs [ms' (L & Hin' & A' & O')]].
      { rewrite sel_remove_pw. simpl. apply andb_false_r. }
      exists ((a, bit mPW) :: rs), ms'.
      rewrite L. simpl. auto.
  Qed.

  Lemma inv_mask : bit g <> 0 -> inv (mask cms).
  Proof.
    intro Hb. split.
    - apply sel_mask_inv.
    - apply sel_mask_in; assumption.
  Qed.
End Loop.

(* ---- the decision table (same definitions as Props/C10.v, restated here so
   that the theorem there is closed by [exact]) --------------------------------- *)

Definition four_levels : list lvl := [Rq; Pf; Op; Nv].
Definition Req (a b : lvl) : Prop := a = Rq \/ b = Rq.
Definition Nev (a b : lvl) : Prop := a = Nv \/ b = Nv.
Definition Pref (a b : lvl) : Prop := a = Pf \/ b = Pf.
Definition MutualMethod (aok : meth -> bool) (cm sm : list meth) : Prop :=
  exists m, In m cm /\ In m sm /\ m <> mNONE /\ aok m = true.
Definition MutualCipher (cc sc : list ciph) : Prop := In cAES cc /\ In cAES sc.
Definition MustFail (aok : meth -> bool) (C S : policy) : Prop :=
  (Req (p_auth C) (p_auth S) /\ Nev (p_auth C) (p_auth S)) \/
  (Req (p_enc C) (p_enc S) /\ Nev (p_enc C) (p_enc S)) \/
  (Req (p_auth C) (p_auth S) /\ ~ MutualMethod aok (p_meths C) (p_meths S)) \/
  (Req (p_enc C) (p_enc S) /\ ~ MutualCipher (p_ciphs C) (p_ciphs S)).
Definition AuthRuns (aok : meth -> bool) (C S : policy) : Prop :=
  Req (p_auth C) (p_auth S) \/
  (Pref (p_auth C) (p_auth S) /\ ~ Nev (p_auth C) (p_auth S) /\ MutualMethod aok (p_meths C) (p_meths S)).
Definition Agreed (aok : meth -> bool) (C S : policy) (r : hok) : Prop :=
  (k_sauth r = true <-> AuthRuns aok C S) /\
  k_cauth r = k_sauth r /\
  (k_sauth r = true ->
     exists m, k_ran r = Some m /\ k_cmeth r = m /\ k_smeth r = m /\
               In m (p_meths C) /\ In m (p_meths S) /\ aok m = true) /\
  (k_sauth r = false -> k_ran r = None) /\
  (Req (p_enc C) (p_enc S) -> k_creal r = true) /\
  k_cenc r = k_creal r /\ k_senc r = k_sreal r /\ k_creal r = k_sreal r /\
  k_csid r = k_ssid r /\ k_ckey r = k_skey r /\
  (k_creal r = true -> k_ckey r <> None).

(* boolean form over the finite data *)
Definition tb_fail (cA sA cE sE : lvl) (hm hk : bool) : bool :=
  ((is_rq cA || is_rq sA) && (is_nv cA || is_nv sA))
  || ((is_rq cE || is_rq sE) && (is_nv cE || is_nv sE))
  || ((is_rq cA || is_rq sA) && negb hm)
  || ((is_rq cE || is_rq sE) && negb hk).
Definition tb_auth (cA sA : lvl) (hm : bool) : bool :=
  (is_rq cA || is_rq sA) || ((is_pf cA || is_pf sA) && negb (is_nv cA || is_nv sA) && hm).

Definition row_ok (cA sA cE sE : lvl) (hm hk cn lo : bool) : bool :=
  if hm && (cn || negb lo) then true
  else
    match flow cA sA cE sE (is_rq cE) (is_rq sE) hm hk hm hk cn lo with
    | ADenied => tb_fail cA sA cE sE hm hk
    | AFail _ _ => false
    | AOk ca sa ce se =>
        negb (tb_fail cA sA cE sE hm hk) && Bool.eqb sa (tb_auth cA sA hm) && Bool.eqb ca sa
        && Bool.eqb ce hk && Bool.eqb se hk && implb (is_rq cE || is_rq sE) hk
        && Bool.eqb (consulted cA sA cE sE hm hk hm hk cn) sa && implb sa (hm && lo)
    end.

Definition bools := [true; false].
Lemma row_ok_all :
  forallb (fun cA => forallb (fun sA => forallb (fun cE => forallb (fun sE =>
    forallb (fun hm => forallb (fun hk => forallb (fun cn => forallb (fun lo =>
      row_ok cA sA cE sE hm hk cn lo) bools) bools) bools) bools)
    four_levels) four_levels) four_levels) four_levels = true.
Proof. vm_compute. reflexivity. Qed.

Lemma in_bools b : In b bools. Proof. destruct b; simpl; auto. Qed.

Lemma row_ok_holds cA sA cE sE hm hk cn lo :
  In cA four_levels -> In sA four_levels -> In cE four_levels -> In sE four_levels ->
  row_ok cA sA cE sE hm hk cn lo = true.
Proof.
  intros H1 H2 H3 H4. pose proof row_ok_all as A.
  rewrite forallb_forall in A. specialize (A _ H1).
  rewrite forallb_forall in A. specialize (A _ H2).
  rewrite forallb_forall in A. specialize (A _ H3).
  rewrite forallb_forall in A. specialize (A _ H4).
  rewrite forallb_forall in A. specialize (A _ (in_bools hm)).
  rewrite forallb_forall in A. specialize (A _ (in_bools hk)).
  rewrite forallb_forall in A. specialize (A _ (in_bools cn)).
  rewrite forallb_forall in A. exact (A _ (in_bools lo)).
Qed.

Lemma is_rq_iff l : is_rq l = true <-> l = Rq. Proof. destruct l; simpl; split; congruence. Qed.
Lemma is_nv_iff l : is_nv l = true <-> l = Nv. Proof. destruct l; simpl; split; congruence. Qed.
Lemma is_pf_iff l : is_pf l = true <-> l = Pf. Proof. destruct l; simpl; split; congruence. Qed.
Lemma Req_b a b : Req a b <-> is_rq a || is_rq b = true.
Proof. unfold Req. rewrite orb_true_iff, !is_rq_iff. reflexivity. Qed.
Lemma Nev_b a b : Nev a b <-> is_nv a || is_nv b = true.
Proof. unfold Nev. rewrite orb_true_iff, !is_nv_iff. reflexivity. Qed.
Lemma Pref_b a b : Pref a b <-> is_pf a || is_pf b = true.
Proof. unfold Pref. rewrite orb_true_iff, !is_pf_iff. reflexivity. Qed.

Section Table.
  Variable aok : meth -> bool.
  Variables Cl Sv : policy.
  Variable sid : N.
  Hypothesis HcA : In (p_auth Cl) four_levels.
  Hypothesis HsA : In (p_auth Sv) four_levels.
  Hypothesis HcE : In (p_enc Cl) four_levels.
  Hypothesis HsE : In (p_enc Sv) four_levels.
  Hypothesis HcI : p_integ Cl <> Rq.
  Hypothesis HsI : p_integ Sv <> Rq.
  Hypothesis no_alias : ~ (In mTOK (p_meths Sv) /\ In mIDT (p_meths Sv)).
  Hypothesis aok_impl :
    forall m, In m (p_meths Cl) -> In m (p_meths Sv) -> m <> mNONE -> aok m = implemented m.

  Let m := neg_meth (p_meths Sv) (p_meths Cl).
  Let k := neg_ciph (p_ciphs Sv) (p_ciphs Cl).
  Let hm := has_meth m.
  Let hk := has_ciph k.

  Lemma mutual_method_iff : MutualMethod aok (p_meths Cl) (p_meths Sv) <-> hm = true.
  Proof.
    unfold hm. rewrite has_meth_true. split.
    - intros [x (Hc & Hs & Hn & Ha)]. apply (neg_meth_some _ _ x); auto.
      rewrite <- (aok_impl x); auto.
    - intro Hn. destruct (neg_meth_in _ _ Hn) as (Hs & Hc & Hi). fold m in Hs, Hc, Hi.
      exists m. repeat split; auto. rewrite aok_impl; auto.
  Qed.

  Lemma mutual_cipher_iff : MutualCipher (p_ciphs Cl) (p_ciphs Sv) <-> hk = true.
  Proof. unfold hk, k, MutualCipher. rewrite neg_ciph_has. tauto. Qed.

  Lemma must_fail_iff : MustFail aok Cl Sv <-> tb_fail (p_auth Cl) (p_auth Sv) (p_enc Cl) (p_enc Sv) hm hk = true.
  Proof.
    unfold MustFail, tb_fail, Req, Nev.
    rewrite !orb_true_iff, !andb_true_iff, !negb_true_iff, !orb_true_iff, !is_rq_iff, !is_nv_iff.
    rewrite mutual_method_iff, mutual_cipher_iff, !not_true_iff_false. tauto.
  Qed.

  Lemma auth_runs_iff : AuthRuns aok Cl Sv <-> tb_auth (p_auth Cl) (p_auth Sv) hm = true.
  Proof.
    unfold AuthRuns, tb_auth, Req, Nev, Pref.
    rewrite !orb_true_iff, !andb_true_iff, negb_true_iff, !orb_true_iff, !is_rq_iff, !is_pf_iff.
    rewrite mutual_method_iff, <- not_true_iff_false, orb_true_iff, !is_nv_iff. tauto.
  Qed.

  Lemma prot_C : requires_protection Cl = is_rq (p_enc Cl).
  Proof. unfold requires_protection. destruct (p_integ Cl); simpl; try apply orb_false_r. congruence. Qed.
  Lemma prot_S : requires_protection Sv = is_rq (p_enc Sv).
  Proof. unfold requires_protection. destruct (p_integ Sv); simpl; try apply orb_false_r. congruence. Qed.

  Let sm' := seen_meths (p_meths Sv) m.
  Let cms := cl_methods (p_meths Cl) sm'.

  (* when a mutual usable method exists the client's intersection is non-empty
     and the retry loop ends with a successful exchange of a mutual method *)
  Lemma loop_facts : hm = true ->
    cms <> [] /\
    exists rs ms, auth_loop (S (length cms)) aok (p_meths Sv) cms (mask cms) = (rs, LOk ms)
                  /\ In ms (p_meths Cl) /\ In ms (p_meths Sv) /\ aok ms = true
                  /\ offered_under cms (bit ms) = Some ms.
  Proof.
    intro H. unfold hm in H. apply has_meth_true in H.
    destruct (neg_meth_in _ _ H) as (Hs & Hc & Hi). fold m in Hs, Hc, Hi, H.
    assert (Esm : sm' = p_meths Sv).
    { unfold sm', seen_meths. destruct (p_meths Sv); [contradiction | reflexivity]. }
    assert (Hg : In m cms) by (unfold cms; rewrite Esm; apply cl_methods_In; auto).
    split. { intro E. rewrite E in Hg. contradiction. }
    destruct cms as [|c0 r0] eqn:Ecms; [contradiction|].
    assert (Hsub : forall x, In x (c0 :: r0) -> In x (p_meths Cl) /\ In x (p_meths Sv)).
    { intros x Hx. rewrite <- Ecms in Hx. unfold cms in Hx. rewrite Esm in Hx. apply cl_methods_In in Hx. exact Hx. }
    destruct (loop_ok aok (p_meths Sv) (c0 :: r0) no_alias
                (fun x Hx => proj2 (Hsub x Hx))
                (fun x Hx Hn => aok_impl x (proj1 (Hsub x Hx)) (proj2 (Hsub x Hx)) Hn)
                m Hg Hi H (length r0) (mask (c0 :: r0)))
      as [rs [ms (L & Hin & Ha & Ho)]].
    { apply inv_mask; auto. apply implemented_bit; assumption. }
    exists rs, ms. simpl length. rewrite L. destruct (Hsub ms Hin). auto 6.
  Qed.

  Theorem table_holds :
    (MustFail aok Cl Sv -> honest aok Cl Sv sid = HDenied) /\
    (~ MustFail aok Cl Sv -> exists r, honest aok Cl Sv sid = HOk r /\ Agreed aok Cl Sv r).
  Proof.
    set (cn := match cms with [] => true | _ => false end).
    set (lp := auth_loop (S (length cms)) aok (p_meths Sv) cms (mask cms)).
    set (lo := match snd lp with LOk _ => true | _ => false end).
    pose proof (row_ok_holds (p_auth Cl) (p_auth Sv) (p_enc Cl) (p_enc Sv) hm hk cn lo HcA HsA HcE HsE) as R.
    assert (Hprem : hm = true -> cn = false /\ lo = true /\
                    exists ms, snd lp = LOk ms /\ In ms (p_meths Cl) /\ In ms (p_meths Sv) /\ aok ms = true
                               /\ offered_under cms (bit ms) = Some ms).
    { intro H. destruct (loop_facts H) as [Hne [rs [ms (L & A & B & D & O)]]].
      unfold cn, lo, lp. rewrite L. simpl. destruct cms; [congruence|]. eauto 10. }
    unfold row_ok in R.
    destruct (hm && (cn || negb lo)) eqn:Eprem.
    { apply andb_true_iff in Eprem as [H1 H2]. destruct (Hprem H1) as (A & B & _).
      rewrite A, B in H2. discriminate. }
    assert (Hhonest : honest aok Cl Sv sid =
      match flow (p_auth Cl) (p_auth Sv) (p_enc Cl) (p_enc Sv) (is_rq (p_enc Cl)) (is_rq (p_enc Sv)) hm hk hm hk cn lo with
      | ADenied => HDenied
      | AFail ce se => HFail ce se (if consulted (p_auth Cl) (p_auth Sv) (p_enc Cl) (p_enc Sv) hm hk hm hk cn then fst lp else [])
      | AOk ca sa ce se =>
          let ran := if consulted (p_auth Cl) (p_auth Sv) (p_enc Cl) (p_enc Sv) hm hk hm hk cn
                     then match snd lp with LOk x => Some x | _ => None end else None in
          HOk (mkOk (if consulted (p_auth Cl) (p_auth Sv) (p_enc Cl) (p_enc Sv) hm hk hm hk cn then fst lp else [])
                 ran ca sa ce se
                 (match ran with
                  | Some x => match offered_under cms (bit x) with Some mc => mc | None => x end
                  | None => m end)
                 (match ran with Some x => x | None => m end)
                 ce se
                 (if ce then Some (KDH (p_pub Cl) (p_pub Sv)) else None)
                 (if se then Some (KDH (p_pub Cl) (p_pub Sv)) else None)
                 sid sid)
      end).
    { unfold honest. fold m. fold k. fold sm'. fold cms.
      replace (neg_meth sm' (p_meths Cl)) with m by (unfold sm', m; symmetry; apply neg_meth_seen).
      fold hm. fold hk. rewrite prot_C, prot_S. fold cn. fold lp. fold lo. reflexivity. }
    rewrite Hhonest. clear Hhonest.
    rewrite must_fail_iff.
    destruct (flow (p_auth Cl) (p_auth Sv) (p_enc Cl) (p_enc Sv) (is_rq (p_enc Cl)) (is_rq (p_enc Sv)) hm hk hm hk cn lo)
      as [|ce se|ca sa ce se] eqn:F.
    - (* denied *) split; [reflexivity|]. intro N. rewrite R in N. contradiction N. reflexivity.
    - discriminate R.
    - repeat (apply andb_true_iff in R as [R ?]).
      apply negb_true_iff in R.
      repeat match goal with H : Bool.eqb _ _ = true |- _ => apply eqb_prop in H end.
      split; [intro N; rewrite R in N; discriminate|]. intros _.
      eexists. split; [reflexivity|]. unfold Agreed. cbn [k_sauth k_cauth k_ran k_cmeth k_smeth k_creal k_sreal k_cenc k_senc k_csid k_ssid k_ckey k_skey].
      subst ca ce se.
      match goal with H : consulted _ _ _ _ _ _ _ _ _ = sa |- _ => rewrite H end.
      repeat split.
      + intro E. apply auth_runs_iff. congruence.
      + intro E. apply auth_runs_iff in E. congruence.
      + intro E. rewrite E in *. match goal with H : implb true _ = true |- _ => simpl in H; apply andb_true_iff in H as [Hh _] end.
        destruct (Hprem Hh) as (_ & _ & ms & Hl & A & B & D & O). rewrite Hl. exists ms.
        cbn beta iota. rewrite O. auto 8.
      + intro E. rewrite E. reflexivity.
      + intro E. apply Req_b in E. match goal with H : implb (is_rq (p_enc Cl) || is_rq (p_enc Sv)) hk = true |- _ => rewrite E in H; simpl in H; exact H end.
      + intro E. rewrite E. discriminate.
  Qed.
End Table.

(* ---- the retry loop never runs out of fuel, whatever the sub-protocols do ------- *)

(* one representative method per bit of the bitmask table *)
Definition allm : list meth := [mCTB; mFS; mKRB; mSSL; mPW; mTOK; mSCI].
Definition cnt (a : Z) : nat := length (filter (sel a) allm).

Lemma filter_or_len {A} (f g : A -> bool) l :
  (length (filter (fun x => f x || g x) l) <= length (filter f l) + length (filter g l))%nat.
Proof.
  induction l as [|x r IH]; simpl; [lia|].
  destruct (f x), (g x); simpl; lia.
Qed.

Lemma filter_ext_len {A} (f g : A -> bool) l :
  (forall x, f x = g x) -> length (filter f l) = length (filter g l).
Proof. intro H. induction l as [|x r IH]; simpl; [reflexivity|]. rewrite H. destruct (g x); simpl; lia. Qed.

Lemma filter_ext_len_in {A} (f g : A -> bool) l :
  (forall x, In x l -> f x = g x) -> length (filter f l) = length (filter g l).
Proof.
  induction l as [|x r IH]; intro H; simpl; [reflexivity|].
  rewrite (H x (or_introl eq_refl)).
  assert (E : length (filter f r) = length (filter g r)) by (apply IH; intros y Hy; apply H; right; exact Hy).
  destruct (g x); simpl; rewrite E; reflexivity.
Qed.

Lemma cnt_bit m : (cnt (bit m) <= 1)%nat.
Proof. destruct m; vm_compute; lia. Qed.

Lemma cnt_lor a m : (cnt (Z.lor a (bit m)) <= cnt a + 1)%nat.
Proof.
  unfold cnt. rewrite (filter_ext_len (sel (Z.lor a (bit m))) (fun x => sel a x || sel (bit m) x)).
  - pose proof (filter_or_len (sel a) (sel (bit m)) allm). pose proof (cnt_bit m). unfold cnt in *. lia.
  - intro x. apply sel_lor.
Qed.

Lemma cnt_fold ms : forall a, (cnt (fold_left (fun a m => Z.lor a (bit m)) ms a) <= cnt a + length ms)%nat.
Proof.
  induction ms as [|m r IH]; intro a; simpl; [lia|].
  pose proof (IH (Z.lor a (bit m))). pose proof (cnt_lor a m). lia.
Qed.

Lemma cnt_mask ms : (cnt (mask ms) <= length ms)%nat.
Proof. unfold mask. pose proof (cnt_fold ms 0). assert (cnt 0 = 0%nat) by (vm_compute; reflexivity). lia. Qed.

(* every method with a non-zero bit maps back to a method with the same bit *)
Lemma of_bit_some m : bit m <> 0 -> exists mc, of_bit (bit m) = Some mc /\ bit mc = bit m /\ In mc allm.
Proof.
  destruct m; simpl; intro H; try congruence;
    eexists; (split; [reflexivity|]); split; try reflexivity; simpl; tauto.
Qed.

Lemma sel_remove a mc x : In mc allm -> In x allm ->
  sel (Z.land a (Z.lnot (bit mc))) x = sel a x && negb (meth_eqb x mc).
Proof.
  intros Hm Hx. unfold sel. rewrite <- Z.land_assoc.
  simpl in Hm, Hx.
  repeat (destruct Hm as [<-|Hm]; [| ]); try contradiction;
    repeat (destruct Hx as [<-|Hx]; [| ]); try contradiction;
    match goal with |- context [Z.land (Z.lnot (bit ?p)) (bit ?q)] =>
      let v := eval vm_compute in (Z.land (Z.lnot (bit p)) (bit q)) in
      change (Z.land (Z.lnot (bit p)) (bit q)) with v end;
    simpl; rewrite ?andb_true_r, ?andb_false_r, ?Z.land_0_r; reflexivity.
Qed.

Lemma filter_drop_len (f : meth -> bool) (mc : meth) l :
  NoDup l -> In mc l -> f mc = true ->
  S (length (filter (fun x => f x && negb (meth_eqb x mc)) l)) = length (filter f l).
Proof.
  induction l as [|x r IH]; intros Hnd Hin Hf; [contradiction|].
  inversion Hnd as [|? ? Hnx Hndr]; subst. simpl.
  destruct Hin as [->|Hin].
  - rewrite Hf, meth_eqb_refl. simpl.
    f_equal. apply filter_ext_len_in. intros y Hy.
    assert (y <> mc) by (intro; subst; contradiction).
    apply meth_eqb_neq in H. rewrite H. simpl. apply andb_true_r.
  - assert (x <> mc) by (intro; subst; contradiction).
    apply meth_eqb_neq in H. rewrite H. simpl. rewrite andb_true_r.
    destruct (f x); simpl; rewrite <- (IH Hndr Hin Hf); reflexivity.
Qed.

Lemma NoDup_allm : NoDup allm.
Proof. unfold allm. repeat constructor; simpl; intuition discriminate. Qed.

Lemma cnt_remove a mc : In mc allm -> sel a mc = true -> S (cnt (Z.land a (Z.lnot (bit mc)))) = cnt a.
Proof.
  intros Hin Hs. unfold cnt.
  rewrite (filter_ext_len_in (sel (Z.land a (Z.lnot (bit mc)))) (fun x => sel a x && negb (meth_eqb x mc)))
    by (intros; apply sel_remove; assumption).
  apply filter_drop_len; [apply NoDup_allm | assumption | assumption].
Qed.

Lemma sel_same_bit a m mc : bit mc = bit m -> sel a mc = sel a m.
Proof. unfold sel. intros ->. reflexivity. Qed.

(* whatever the sub-protocols do ([aok] arbitrary) and whatever the two lists are,
   [cnt avail] rounds suffice: each failed round withdraws one bit *)
Lemma loop_total aok sm cms : forall fuel a, (cnt a < fuel)%nat -> snd (auth_loop fuel aok sm cms a) <> LFuel.
Proof.
  induction fuel as [|fuel IH]; intros a H; [lia|].
  rewrite auth_loop_S.
  destruct (a =? 0); [simpl; discriminate|].
  destruct (srv_select sm a) as [ms|] eqn:E; [|simpl; discriminate].
  apply srv_select_some in E as [_ Hs].
  assert (Hb : bit ms <> 0).
  { unfold sel in Hs. intro Z0. rewrite Z0, Z.land_0_r in Hs. discriminate. }
  destruct (of_bit_some ms Hb) as [mc (Eo & Eb & Hin)].
  cbv zeta. rewrite Eo.
  destruct (offered_under cms (bit ms)) as [mo|] eqn:Eoff; [|simpl; discriminate].
  destruct (aok ms && aok mo); [simpl; discriminate|].
  unfold cons_round. simpl snd. apply IH.
  unfold offered_under in Eoff. apply find_some in Eoff as [_ Ebo]. apply Z.eqb_eq in Ebo.
  assert (Hsel : sel a mc = true) by (rewrite (sel_same_bit a ms mc Eb); exact Hs).
  replace (bit mo) with (bit mc) by congruence.
  pose proof (cnt_remove a mc Hin Hsel). lia.
Qed.

Lemma loop_never_out_of_fuel aok sm cms :
  snd (auth_loop (S (length cms)) aok sm cms (mask cms)) <> LFuel.
Proof. apply loop_total. pose proof (cnt_mask cms). lia. Qed.

(* ---- REQUIRED protection (Encryption or Integrity) in the composed run ---------- *)

Lemma flow_protection cA sA cE sE c_prot s_prot hm hk hm' hk' cn lo ca sa ce se :
  flow cA sA cE sE c_prot s_prot hm hk hm' hk' cn lo = AOk ca sa ce se ->
  (c_prot = true -> ce = true) /\ (s_prot = true -> se = true) /\ ce = se.
Proof.
  unfold flow.
  destruct (decide sA cA sE cE hm hk) as [[e|] [[a b] c]]; [discriminate|].
  destruct (decide Ot cA Ot cE hm' hk') as [[e|] x]; [discriminate|].
  assert (F : forall ran,
    (if negb hk && s_prot then AFail true true
     else if negb hk' && c_prot then AFail true false
     else if negb (Bool.eqb hk hk') then AFail true false else AOk ran a hk' hk) = AOk ca sa ce se ->
    (c_prot = true -> ce = true) /\ (s_prot = true -> se = true) /\ ce = se).
  { intros ran H. destruct hk, hk', s_prot, c_prot; simpl in H; try discriminate; inversion H; subst; auto. }
  destruct a.
  - destruct cn; [discriminate|]. destruct lo; [|discriminate]. apply F.
  - destruct (is_rq cA); [discriminate|]. apply F.
Qed.

Lemma honest_protection aok Cl Sv sid r :
  honest aok Cl Sv sid = HOk r ->
  (requires_protection Cl = true -> k_creal r = true) /\
  (requires_protection Sv = true -> k_sreal r = true) /\
  k_creal r = k_sreal r /\ k_cenc r = k_creal r /\ k_senc r = k_sreal r.
Proof.
  unfold honest. cbv zeta.
  match goal with |- match ?F with _ => _ end = _ -> _ => destruct F as [|ce se|ca sa ce se] eqn:E end;
    try discriminate.
  intro H. inversion H; subst; simpl.
  apply flow_protection in E. destruct E as (A & B & C). auto.
Qed.
