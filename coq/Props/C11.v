(* Props/C11.v — property theorems only; proofs live in Proofs/. *)
From Coq Require Import List NArith ZArith.
From Cedar Require Import Lib.Bytes Lib.SymC11.
Theorem C11_ideal_mac_fixes_signature : forall sig tok m sig' tok' m',
  i_mac (i_kdf sig tok) m = i_mac (i_kdf sig' tok') m' -> sig = sig' /\ tok = tok' /\ m = m'.
Proof. exact ideal_mac_fixes_signature. Qed.
Print Assumptions C11_ideal_mac_fixes_signature.
