(* Props/C11.v — property theorems only; proofs live in Proofs/C11.v, the
   predicates (token_valid, client_proof, server_proof, times_valid,
   id_token_valid, mk_vstate) in Proofs/C11Spec.v, the model in Model/Token.v.

   Every theorem quantifies over ALL peer scripts (any list of frames), all
   crypto functions, all JSON decoders, all key stores, all clocks and nonces. *)
From Coq Require Import List NArith ZArith Bool.
From Cedar Require Import Lib.Bytes Lib.SymC11 gen.Consts gen.FactsC11 Model.Msg Model.Token
     Proofs.C11Spec Proofs.C11.
Import ListNotations.
Local Open Scope Z_scope.

(* Server success, exactly: message 1 parsed completely with status OK; the token is
   valid at [now] under a signing key the server holds ([token_valid]: kid -> key,
   exp > now, now - iat <= max age, subject a non-empty string); message 3 is
   complete, has status OK, echoes the server's own nonce [rb] and carries the MAC,
   under K = kdf(sign(key, token), token) — the signature the SERVER recomputed —
   of (subject, 0, rb); the recorded user is derived from the token's subject. *)
Theorem C11_server_accepts :
  forall (e : env) (now : Z) (rb : bytes) (frames : list mframe) (user sk : bytes) (sent : option (list mframe)),
    server_run e now rb frames = {| s_out := Accept user sk; s_sent := sent |} <->
    exists claimed tok ra r1 key sub,
      srv_step1 (reader_of frames) = S1Ok claimed tok ra r1 /\
      token_valid e now tok key sub /\
      client_proof (e_cr e) (c_kdf (e_cr e) (c_sign (e_cr e) key tok) tok) sub rb (reader_of (r_in r1)) /\
      user = user_of sub /\
      sk = c_skey (e_cr e) rb /\
      sent = Some (srv_msg2_ok (e_cr e) (mk_vstate e tok key sub) ra rb).
Proof. exact server_accepts_iff. Qed.
Print Assumptions C11_server_accepts.

(* The identity the server derives never depends on the id the client claims. *)
Theorem C11_server_identity_ignores_claim :
  forall (e : env) (now : Z) (claimed1 claimed2 tok : bytes),
    validate_token e now claimed1 tok = validate_token e now claimed2 tok.
Proof. exact validate_token_ignores_claim. Qed.
Print Assumptions C11_server_identity_ignores_claim.

(* validateTokenAndDeriveKeys succeeds exactly on valid tokens and yields the
   subject, the recomputed signature and the key derived from it. *)
Theorem C11_validate_exact :
  forall (e : env) (now : Z) (claimed tok : bytes) (v : vstate),
    validate_token e now claimed tok = Some v <->
    exists key sub, token_valid e now tok key sub /\ v = mk_vstate e tok key sub.
Proof. exact validate_token_spec. Qed.
Print Assumptions C11_validate_exact.

(* A token failure found after message 1 is deferred: the error form of message 2
   is still sent and the exchange is reported as failed. *)
Theorem C11_server_failure_is_deferred :
  forall (e : env) (now : Z) (rb : bytes) (frames : list mframe) claimed tok ra r1,
    srv_step1 (reader_of frames) = S1Ok claimed tok ra r1 ->
    validate_token e now claimed tok = None ->
    server_run e now rb frames = {| s_out := Fail; s_sent := Some srv_msg2_err |}.
Proof. exact server_deferred_failure. Qed.
Print Assumptions C11_server_failure_is_deferred.

(* Client success, exactly: a token was loaded; message 2 has status OK, echoes the
   client's id and its nonce [ra], and carries the MAC under
   K = kdf(client's token signature, token) of (id ' ' server-id 0 ra rb). *)
Theorem C11_client_accepts :
  forall (cr : crypto) (ld : loaded) (ra : bytes) (frames : list mframe) (sk : bytes) (sent : list (list mframe)),
    client_run cr ld ra frames = {| c_out := CAccept sk; c_sent := sent |} <->
    exists cid tok sig sid rb,
      ld = Some (cid, tok, sig) /\
      server_proof cr (c_kdf cr sig tok) cid ra sid rb (reader_of frames) /\
      sk = c_skey cr rb /\
      sent = [cli_msg1_ok cid tok ra; cli_msg3_ok cr (c_kdf cr sig tok) cid rb].
Proof. exact client_accepts_iff. Qed.
Print Assumptions C11_client_accepts.

(* Replay: whatever frames a server accepted under its nonce rb, it refuses under
   any other nonce; likewise the client for its nonce ra.  (That the nonces of two
   runs differ is a fact about crypto/rand, checked by the freshness oracle.) *)
Theorem C11_server_accept_binds_nonce :
  forall (e : env) (now : Z) (rb rb' : bytes) (frames : list mframe) user sk sent user' sk' sent',
    server_run e now rb frames = {| s_out := Accept user sk; s_sent := sent |} ->
    server_run e now rb' frames = {| s_out := Accept user' sk'; s_sent := sent' |} ->
    rb = rb'.
Proof. exact server_accept_binds_nonce. Qed.
Print Assumptions C11_server_accept_binds_nonce.

Theorem C11_client_accept_binds_nonce :
  forall (cr : crypto) (ld : loaded) (ra ra' : bytes) (frames : list mframe) sk sent sk' sent',
    client_run cr ld ra frames = {| c_out := CAccept sk; c_sent := sent |} ->
    client_run cr ld ra' frames = {| c_out := CAccept sk'; c_sent := sent' |} ->
    ra = ra'.
Proof. exact client_accept_binds_nonce. Qed.
Print Assumptions C11_client_accept_binds_nonce.

(* reflection: the server's proof can never serve as the client's proof or vice versa *)
Theorem C11_proofs_not_interchangeable :
  forall cid sid ra rb rb', mac_T cid sid ra rb <> mac_C cid rb'.
Proof. exact proofs_not_interchangeable. Qed.
Print Assumptions C11_proofs_not_interchangeable.

Theorem C11_client_without_token_fails :
  forall (cr : crypto) (ra : bytes) (frames : list mframe),
    c_out (client_run cr None ra frames) = CFail.
Proof. exact client_without_token_fails. Qed.
Print Assumptions C11_client_without_token_fails.

(* Standalone verification accepts exactly: three parts, signature part =
   sign(key(kid), header.payload), time claims valid, subject non-empty. *)
Theorem C11_verify_exact :
  forall (e : env) (now : Z) (t : bytes) (out : id_claims),
    verify_id_token e now t = Some out <-> id_token_valid e now t out.
Proof. exact verify_id_token_iff. Qed.
Print Assumptions C11_verify_exact.

(* validateTokenTiming, exactly *)
Theorem C11_times_valid_exact :
  forall (now ma : Z) (c : claims), timing_ok now ma c = true <-> times_valid now ma c.
Proof. exact timing_ok_spec. Qed.
Print Assumptions C11_times_valid_exact.

(* read with ordinary integers: for a clock in [0, 2^63) the age condition is
   now - iat <= ma, with NO wrap-around however old the token claims to be *)
Theorem C11_times_valid_plain :
  forall (now ma : Z) (c : claims),
    0 <= now < 2 ^ 63 -> ma < 2 ^ 63 ->
    (times_valid now ma c <->
     (j_exp c = JAbsent \/ exists z, j_exp c = JNum z /\ now < f2i z) /\
     (j_iat c = JAbsent \/ exists z, j_iat c = JNum z /\ (ma <= 0 \/ now - f2i z <= ma))).
Proof. exact times_valid_plain. Qed.
Print Assumptions C11_times_valid_plain.
Example C11_ex_ancient_token_refused :
  timing_ok 1700000000 3600 {| j_kid := JAbsent; j_exp := JAbsent; j_iat := JNum (- 2 ^ 63); j_sub := JAbsent; j_iss := JAbsent; j_scope := JAbsent |} = false.
Proof. vm_compute. reflexivity. Qed.

(* where the maximum age the time validation uses comes from: a positive
   TokenMaxAge wins; otherwise SEC_TOKEN_MAX_AGE, read as a number of seconds
   (ParseDuration of the value followed by "s"); otherwise the default *)
Theorem C11_max_age_source :
  forall (e : env),
    (0 < e_max_age e -> resolved_max_age e = e_max_age e) /\
    (e_max_age e <= 0 -> forall ns,
       e_env_max_age e <> [] -> e_parse_dur e (e_env_max_age e ++ [x73]) = Some ns ->
       resolved_max_age e = Z.quot ns 1000000000) /\
    (e_max_age e <= 0 ->
       (e_env_max_age e = [] \/ e_parse_dur e (e_env_max_age e ++ [x73]) = None) ->
       resolved_max_age e = DefaultTokenMaxAge).
Proof. exact max_age_source. Qed.
Print Assumptions C11_max_age_source.

(* Under the ideal (free-term) instance the accepted MAC determines the signing key
   and the token: the peer's proof could only be built from that very signature. *)
Theorem C11_ideal_possession :
  forall (e : env) (now : Z) (rb : bytes) (frames : list mframe) user sk sent,
    e_cr e = ideal ->
    server_run e now rb frames = {| s_out := Accept user sk; s_sent := sent |} ->
    exists claimed tok ra r1 key sub mac,
      srv_step1 (reader_of frames) = S1Ok claimed tok ra r1 /\
      token_valid e now tok key sub /\
      client_proof ideal (i_kdf (i_sign key tok) tok) sub rb (reader_of (r_in r1)) /\
      mac = i_mac (i_kdf (i_sign key tok) tok) (mac_C sub rb) /\
      forall key' tok' m', mac = i_mac (i_kdf (i_sign key' tok') tok') m' ->
                           key' = key /\ tok' = tok /\ m' = mac_C sub rb.
Proof. exact ideal_server_possession. Qed.
Print Assumptions C11_ideal_possession.

Theorem C11_ideal_client_possession :
  forall (ld : loaded) (ra : bytes) (frames : list mframe) sk sent,
    client_run ideal ld ra frames = {| c_out := CAccept sk; c_sent := sent |} ->
    exists cid tok sig sid rb mac,
      ld = Some (cid, tok, sig) /\
      server_proof ideal (i_kdf sig tok) cid ra sid rb (reader_of frames) /\
      mac = i_mac (i_kdf sig tok) (mac_T cid sid ra rb) /\
      forall sig' tok' m', mac = i_mac (i_kdf sig' tok') m' ->
                           sig' = sig /\ tok' = tok /\ m' = mac_T cid sid ra rb.
Proof. exact ideal_client_possession. Qed.
Print Assumptions C11_ideal_client_possession.

Theorem C11_ideal_mac_fixes_signature : forall sig tok m sig' tok' m',
  i_mac (i_kdf sig tok) m = i_mac (i_kdf sig' tok') m' -> sig = sig' /\ tok = tok' /\ m = m'.
Proof. exact ideal_mac_fixes_signature. Qed.
Print Assumptions C11_ideal_mac_fixes_signature.

(* ---------- non-vacuity: a concrete world in which both roles succeed ---------- *)
Module Ex.
  (* header segment "aGRy" (decodes to "hdr"), payload segment "cGF5" ("pay") *)
  Definition p0 : bytes := [x61; x47; x52; x79].
  Definition p1 : bytes := [x63; x47; x46; x35].
  Definition tok : bytes := p0 ++ dot :: p1.
  Definition sub : bytes := [x61; x6c; x40; x70].                 (* "al@p" *)
  Definition kid : bytes := [x6b; x31].                           (* "k1" *)
  Definition keyfile : bytes := [xde; xad; xbe; xef; x01; x02].   (* scrambled key file *)
  Definition none6 kid' exp iat sub' := {| j_kid := kid'; j_exp := exp; j_iat := iat; j_sub := sub'; j_iss := JAbsent; j_scope := JAbsent |}.
  Definition json (b : bytes) : option claims :=
    if bytes_eqb b [x68; x64; x72] then Some (none6 (JStr kid) JAbsent JAbsent JAbsent)
    else if bytes_eqb b [x70; x61; x79] then Some (none6 JAbsent (JNum 2000) (JNum 900) (JStr sub))
    else None.
  Definition e : env :=
    {| e_cr := ideal; e_json := json; e_pool := None;
       e_named := fun k => if bytes_eqb k kid then Some keyfile else None;
       e_max_age := 0; e_env_max_age := []; e_parse_dur := fun _ => None; e_trust := [] |}.
  Definition key : bytes := simple_scramble keyfile.
  Definition sig : bytes := i_sign key tok.
  Definition K : bytes := i_kdf sig tok.
  Definition ra : bytes := [x11; x12; x13].
  Definition rb : bytes := [x21; x22; x23; x24].
  Definition now : Z := 1000.
  Definition claimed : bytes := [x72; x6f; x6f; x74].             (* "root": a lie *)
  Definition m1 := cli_msg1_ok claimed tok ra.
  Definition m3 := cli_msg3_ok ideal K sub rb.
  Definition m2 := srv_msg2_ok ideal (mk_vstate e tok key sub) ra rb.
  Definition full_token : bytes := tok ++ dot :: b64url_encode sig.
End Ex.

(* the server accepts the honest exchange and records "al" although "root" was claimed *)
Example C11_ex_server_accepts :
  server_run Ex.e Ex.now Ex.rb (Ex.m1 ++ Ex.m3)
  = {| s_out := Accept [x61; x6c] (i_skey Ex.rb); s_sent := Some Ex.m2 |}.
Proof. vm_compute. reflexivity. Qed.
Example C11_ex_token_valid : token_valid Ex.e Ex.now Ex.tok Ex.key Ex.sub.
Proof.
  assert (V : validate_token Ex.e Ex.now [] Ex.tok = Some (mk_vstate Ex.e Ex.tok Ex.key Ex.sub))
    by (vm_compute; reflexivity).
  apply C11_validate_exact in V as (k & s & H & E).
  inversion E; subst. exact H.
Qed.
(* ... and the client accepts the message 2 that server produced *)
Example C11_ex_client_accepts :
  client_run ideal (Some (Ex.sub, Ex.tok, Ex.sig)) Ex.ra Ex.m2
  = {| c_out := CAccept (i_skey Ex.rb); c_sent := [cli_msg1_ok Ex.sub Ex.tok Ex.ra; Ex.m3] |}.
Proof. vm_compute. reflexivity. Qed.
(* one second after exp, one wrong MAC byte, a trailing byte, a non-OK status: rejected *)
Example C11_ex_server_rejects_expired :
  s_out (server_run Ex.e 2000 Ex.rb (Ex.m1 ++ Ex.m3)) = Fail.
Proof. vm_compute. reflexivity. Qed.
Example C11_ex_server_rejects_wrong_mac :
  s_out (server_run Ex.e Ex.now Ex.rb (Ex.m1 ++ cli_msg3_ok ideal (i_kdf (i_sign [x00] Ex.tok) Ex.tok) Ex.sub Ex.rb)) = Fail.
Proof. vm_compute. reflexivity. Qed.
Example C11_ex_server_rejects_stale_nonce :
  s_out (server_run Ex.e Ex.now [x99] (Ex.m1 ++ Ex.m3)) = Fail.
Proof. vm_compute. reflexivity. Qed.
Example C11_ex_client_rejects_other_key :
  c_out (client_run ideal (Some (Ex.sub, Ex.tok, i_sign [x00] Ex.tok)) Ex.ra Ex.m2) = CFail.
Proof. vm_compute. reflexivity. Qed.
Example C11_ex_verify_accepts :
  verify_id_token Ex.e Ex.now ([x20] ++ Ex.full_token ++ [x0a])
  = Some {| ic_sub := Ex.sub; ic_iss := []; ic_scope := []; ic_exp := 2000; ic_iat := 900 |}.
Proof. vm_compute. reflexivity. Qed.
Example C11_ex_verify_rejects_at_exp : verify_id_token Ex.e 2000 Ex.full_token = None.
Proof. vm_compute. reflexivity. Qed.
