(* Props/C14.v — property theorems only; proofs live in Proofs/. *)
From Coq Require Import List NArith ZArith.
From Cedar Require Import Lib.Bytes Model.Msg.
Local Open Scope Z_scope.
Theorem C14_placeholder : forall k n, be_dec (be_enc k n) = (n mod 2 ^ (8 * N.of_nat k))%N.
Proof. exact be_dec_enc. Qed.
Print Assumptions C14_placeholder.
