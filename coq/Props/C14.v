(* Props/C14.v — property theorems only; proofs live in Proofs/C14Reader.v (reader refines a
   flat decoder), Proofs/C14Writer.v (what the writer emits), Proofs/C14Layout.v,
   Proofs/C14Roundtrip.v and Proofs/C14Double.v; the model is Model/Msg.v (+ Model/Double.v). *)
From Coq Require Import List NArith ZArith Bool QArith Reals.
From Flocq Require Import Core IEEE754.BinarySingleNaN.
From Cedar Require Import Lib.Bytes gen.Consts Model.Msg Model.MsgLimit Model.Double
     Proofs.C14Reader Proofs.C14Writer Proofs.C14Layout Proofs.C14Roundtrip
     Proofs.C14DoubleExact Proofs.C14Double Proofs.C14DoubleReal Proofs.C14Api Proofs.C14Audit.
Import ListNotations.
Local Open Scope Z_scope.

(* ======================================================================== *)
(* The reference format, written from the protocol description (HTCondor's
   stream.cpp conventions), independently of the model's encoder.            *)
(* integer of any width: sign-extended to 64 bits, two's complement (a negative
   z travels as 2^64 + z), eight bytes, most significant first               *)
Definition fmt_u64 (z : Z) : Z := if z <? 0 then 2 ^ 64 + z else z.
Definition fmt_byte (u : Z) (k : Z) : byte := n2b (Z.to_N ((u / 256 ^ k) mod 256)).
Definition fmt_int (z : Z) : bytes :=
  let u := fmt_u64 z in
  [fmt_byte u 7; fmt_byte u 6; fmt_byte u 5; fmt_byte u 4;
   fmt_byte u 3; fmt_byte u 2; fmt_byte u 1; fmt_byte u 0].
(* string: the bytes before the first NUL, then the NUL terminator ... *)
Fixpoint fmt_cstr (s : bytes) : bytes :=
  match s with
  | [] => [x00]
  | b :: r => if byte_eqb b x00 then [x00] else b :: fmt_cstr r
  end.
(* ... preceded on an encrypted stream by its length, terminator included, as an integer *)
Definition fmt_string (encrypted : bool) (s : bytes) : bytes :=
  (if encrypted then fmt_int (Z.of_nat (length (fmt_cstr s))) else []) ++ fmt_cstr s.
(* one writer operation: char = one byte, raw bytes verbatim, a flush adds nothing *)
Definition fmt_op (encrypted : bool) (o : wop) : bytes :=
  match o with
  | WChar c => [c]
  | WInt z => fmt_int z
  | WStr s | WStrB s => fmt_string encrypted s
  | WBytes bs => bs
  | WFlush => []
  end.
(* values the Go types can hold: integers are int64 (int32/uint32 are widened by the
   caller); the encrypted length prefix is an int32, so strings stay below 2 GiB *)
Definition fmt_ok (encrypted : bool) (o : wop) : Prop :=
  match o with
  | WInt z => - 2 ^ 63 <= z < 2 ^ 63
  | WStr s | WStrB s => encrypted = true -> Z.of_nat (length (fmt_cstr s)) < 2 ^ 31
  | _ => True
  end.

(* ======================================================================== *)
(* C14_layout: for EVERY sequence of PutChar / PutInt* / PutString / PutStringBytes /
   PutBytes / FlushFrame calls (any values, any lengths, NULs inside strings included),
   on plaintext and encrypted streams, the payload bytes of the frames the writer
   hands to the stream, concatenated, are exactly the reference format's bytes of the
   values in order - wherever the writer decided to start a new frame.         *)
Theorem C14_layout :
  forall (encrypted : bool) (ops : list wop),
    Forall (fmt_ok encrypted) ops ->
    concat (map fst (w_out (write_ops encrypted ops))) = concat (map (fmt_op encrypted) ops).
Proof. exact message_layout. Qed.
Print Assumptions C14_layout.

(* the same per operation, from any writer state: it appends the value's bytes to
   (frames already emitted ++ pending buffer) and changes nothing before them *)
Theorem C14_layout_step :
  forall (encrypted : bool) (w : writer) (o : wop),
    fmt_ok encrypted o ->
    content (do_put encrypted w o) = content w ++ fmt_op encrypted o.
Proof. exact put_layout. Qed.
Print Assumptions C14_layout_step.

(* the integer encoder alone *)
Theorem C14_layout_int :
  forall z, - 2 ^ 63 <= z < 2 ^ 63 -> enc_int z = fmt_int z.
Proof. exact enc_int_layout. Qed.
Print Assumptions C14_layout_int.

(* the hypotheses are satisfiable by a realistic message; the format on concrete values *)
Example C14_layout_nonvacuous :
  Forall (fmt_ok true) [WInt (-2); WStr [x68; x69]; WChar x41; WInt (2 ^ 63 - 1); WStrB [x61; x00; x62]]
  /\ fmt_int (-2) = [xff; xff; xff; xff; xff; xff; xff; xfe]
  /\ fmt_string true [x68; x69] = [x00; x00; x00; x00; x00; x00; x00; x03; x68; x69; x00]
  /\ fmt_string false [x61; x00; x62] = [x61; x00].
Proof.
  split; [|repeat split; reflexivity].
  repeat constructor; cbn; try discriminate; intros; reflexivity.
Qed.

(* ======================================================================== *)
(* C14_cut_independent: decoding depends only on the concatenated payload bytes, never
   on where the frame boundaries fall.  For ANY two honest framings of one message
   (each frame's EOM flag is false exactly when more frames follow) with the same
   concatenated payload - i.e. for every set of cut positions, including cuts in the
   middle of a value, empty frames, and one frame per byte - and ANY list of Get
   operations (GetChar, GetInt/Int64, GetInt32, GetUint32, GetString, GetBytes n,
   GetRemainingBytes), in both modes, the reader returns the same result for every
   operation: values and errors alike, also after an error.                   *)
Theorem C14_cut_independent :
  forall (encrypted : bool) (ops : list getop) (fs1 fs2 : list mframe),
    frames_ok false fs1 -> frames_ok false fs2 ->
    concat (map fst fs1) = concat (map fst fs2) ->
    run_ops encrypted (reader_of fs1) ops = run_ops encrypted (reader_of fs2) ops.
Proof. exact cut_independent. Qed.
Print Assumptions C14_cut_independent.

(* the same for readers in ANY intermediate state (part of a frame already buffered) *)
Theorem C14_cut_independent_midway :
  forall (encrypted : bool) (ops : list getop) (r1 r2 : reader),
    wf r1 -> wf r2 -> remaining r1 = remaining r2 ->
    run_ops encrypted r1 ops = run_ops encrypted r2 ops.
Proof. exact cut_independent_readers. Qed.
Print Assumptions C14_cut_independent_midway.

(* explicit cut positions: cutting [data] into pieces of ANY lengths (too long = the
   rest, zero = an empty frame) gives the results of the flat decoder on [data] *)
Theorem C14_cut_positions :
  forall (encrypted : bool) (ops : list getop) (data : bytes) (lens : list nat),
    run_ops encrypted (reader_of (cut_at data lens)) ops = flat_ops encrypted data ops.
Proof. exact run_ops_cut_flat. Qed.
Print Assumptions C14_cut_positions.

(* each Get* is the corresponding flat decoder applied to the bytes still to come *)
Theorem C14_reader_refines_flat :
  forall (encrypted : bool) (r : reader) (o : getop),
    wf r ->
    wf (fst (do_get encrypted r o)) /\
    remaining (fst (do_get encrypted r o)) = fst (flat_get encrypted (remaining r) o) /\
    snd (do_get encrypted r o) = snd (flat_get encrypted (remaining r) o).
Proof. exact do_get_refines. Qed.
Print Assumptions C14_reader_refines_flat.

Example C14_cut_nonvacuous :
  let fs1 := [([x00; x00; x00], false); ([], false); ([x00; x00; x00; x00; x07; x68], false); ([x69; x00], true)] in
  let fs2 := [([x00; x00; x00; x00; x00; x00; x00; x07; x68; x69; x00], true)] in
  frames_ok false fs1 /\ frames_ok false fs2 /\ concat (map fst fs1) = concat (map fst fs2) /\
  run_ops false (reader_of fs1) [OInt; OStr; OChar] = [MOk (GvInt 7); MOk (GvBytes [x68; x69]); MErr MEof].
Proof. cbn. repeat split; reflexivity. Qed.

(* ======================================================================== *)
(* C14_roundtrip: for EVERY sequence of mixed typed values - chars, integers within
   the range of their Go type (int64 / int32 / uint32), NUL-free strings (on encrypted
   streams: not starting with the null-string marker 0xAD, which is never the first
   byte of valid UTF-8, and shorter than 2^31), raw byte strings - written by the
   writer (Put* in order, then FinishMessage) and for EVERY honest re-framing [fs] of
   the bytes it emitted (every set of cut positions), in both modes, the matching
   Get* calls return exactly the values, without error.                        *)
Theorem C14_roundtrip :
  forall (encrypted : bool) (vs : list tval) (fs : list mframe),
    Forall (valid encrypted) vs ->
    frames_ok false fs ->
    concat (map fst fs) = concat (map fst (w_out (write_vals encrypted vs))) ->
    run_ops encrypted (reader_of fs) (map op_of vs) = map (fun v => MOk (val_of v)) vs.
Proof. exact roundtrip_any_framing. Qed.
Print Assumptions C14_roundtrip.

(* instances: the writer's own framing, and explicit cut positions *)
Theorem C14_roundtrip_own_framing :
  forall (encrypted : bool) (vs : list tval),
    Forall (valid encrypted) vs ->
    run_ops encrypted (reader_of (w_out (write_vals encrypted vs))) (map op_of vs)
    = map (fun v => MOk (val_of v)) vs.
Proof. exact roundtrip_own_framing. Qed.
Print Assumptions C14_roundtrip_own_framing.

Theorem C14_roundtrip_every_cut :
  forall (encrypted : bool) (vs : list tval) (lens : list nat),
    Forall (valid encrypted) vs ->
    run_ops encrypted
      (reader_of (cut_at (concat (map fst (w_out (write_vals encrypted vs)))) lens)) (map op_of vs)
    = map (fun v => MOk (val_of v)) vs.
Proof. exact roundtrip_every_cut. Qed.
Print Assumptions C14_roundtrip_every_cut.

(* the writer's frames are an honest message: only the last frame carries EOM *)
Theorem C14_writer_frames_honest :
  forall (encrypted : bool) (ops : list wop), frames_ok false (w_out (write_ops encrypted ops)).
Proof. exact write_ops_frames_ok. Qed.
Print Assumptions C14_writer_frames_honest.

Example C14_roundtrip_nonvacuous :
  Forall (valid true)
    [TInt64 (- 2 ^ 63); TInt32 (-1); TUint32 (2 ^ 32 - 1); TChar xad; TStr [x68; xc3; xa9]; TStr []; TStrB [x7a]; TBytes [x00; xad]].
Proof.
  repeat constructor; cbn; try discriminate; intros; try discriminate;
    repeat constructor; try discriminate; reflexivity.
Qed.

(* ======================================================================== *)
(* Doubles (Model/Double.v: PutDouble / GetDouble on Flocq binary64, 64-bit patterns in
   and out).  The theorems below mention Flocq operations, whose definitions carry
   proofs over Coq's real numbers: their Print Assumptions lists the axioms of the
   Reals library.  Everything above this line is closed under the global context.   *)

(* C14_double_layout: for EVERY 64-bit pattern (finite, subnormal, zero, infinite, NaN) and
   from any writer state, PutDouble appends exactly sixteen bytes: the reference-format
   integer [fmt_int] of fracInt followed by that of exp, where (fracInt, exp) =
   double_ints = (int32(frexp-fraction * float64(2^31-1)), frexp-exponent), and both are
   int32 values.                                                               *)
Theorem C14_double_layout :
  forall (w : writer) (bits : Z),
    let fi := fst (double_ints (of_bits bits)) in
    let e := snd (double_ints (of_bits bits)) in
    content (put_double w bits) = content w ++ fmt_int fi ++ fmt_int e /\
    - 2 ^ 31 <= fi < 2 ^ 31 /\ - 2 ^ 31 <= e < 2 ^ 31.
Proof. exact double_layout. Qed.
Print Assumptions C14_double_layout.

(* what the two integers are, over the reals: for EVERY finite non-zero double d,
   d = fr * 2^exp with fr a binary64 value, 1/2 <= |fr| < 1, exp in [-1073, 1024] (so the
   int32 conversion of exp is exact), and fracInt = trunc (RN (fr * (2^31-1))), RN = IEEE
   round-to-nearest-even into binary64: "fraction scaled by 2^31-1, and binary exponent" *)
Theorem C14_double_ints_meaning :
  forall d : b64,
    is_finite_strict d = true ->
    exists fr : b64,
      (/ 2 <= Rabs (B2R fr) < 1)%R /\
      B2R d = (B2R fr * bpow radix2 (snd (double_ints d)))%R /\
      - 1073 <= snd (double_ints d) <= 1024 /\
      fst (double_ints d) =
        Ztrunc (round radix2 (FLT_exp (-1074) 53) ZnearestE (B2R fr * IZR (2 ^ 31 - 1))).
Proof. exact double_ints_real. Qed.
Print Assumptions C14_double_ints_meaning.

(* the scaling constant regenerated from the source is the format's 2^31 - 1 *)
Theorem C14_double_constant : Z.of_N FracConst = 2 ^ 31 - 1.
Proof. exact FracConst_value. Qed.
Print Assumptions C14_double_constant.

(* GetDouble is independent of the framing: two honest readers holding the same
   remaining bytes return the same result and leave the same bytes             *)
Theorem C14_double_cut_independent :
  forall (r1 r2 : reader),
    wf r1 -> wf r2 -> remaining r1 = remaining r2 ->
    snd (get_double r1) = snd (get_double r2) /\
    remaining (fst (get_double r1)) = remaining (fst (get_double r2)).
Proof. exact get_double_cut_independent. Qed.
Print Assumptions C14_double_cut_independent.

(* what PutDouble wrote, read back through ANY honest framing of the emitted bytes, is
   double_of_ints (= ldexp(float64(fracInt)/float64(2^31-1), exp)) of exactly the two
   integers double_ints produced: nothing is lost between writer and reader     *)
Theorem C14_double_roundtrip_ints :
  forall (bits : Z) (fs : list mframe),
    frames_ok false fs ->
    concat (map fst fs) = concat (map fst (w_out (finish (put_double writer_init bits)))) ->
    snd (get_double (reader_of fs)) =
    MOk (to_bits (double_of_ints (fst (double_ints (of_bits bits))) (snd (double_ints (of_bits bits))))).
Proof. exact double_roundtrip_ints. Qed.
Print Assumptions C14_double_roundtrip_ints.

(* C14_double_precision_partial: the format's precision on the EXACT-RATIONAL reading.
   A finite non-zero double is +-frac * 2^e with frac = m / 2^53, 2^52 <= m < 2^53.  If
   the product frac * (2^31-1), the quotient k / (2^31-1) and the final scaling by 2^e
   were computed exactly, the decoded fraction k/(2^31-1), k = trunc(frac * (2^31-1)),
   satisfies 0 <= frac - k/c <= frac * 2^-30, i.e. |d - d'| <= |d| * 2^-30 (multiply by
   +-2^e).  NOT proved: that the three floating-point roundings of the real computation
   (the multiplication, the division, ldexp's rounding into the subnormal range) keep the
   result within the same bound; the margin is about 2^-52 relative against roundings of
   2^-53, and for subnormal results the final rounding adds up to half a unit in the last
   place.  That part is covered by the bit-exact Flocq model in the correspondence run and
   by the direct oracle (exact rational arithmetic) on the real code.  No axioms.    *)
Theorem C14_double_precision_partial :
  forall m : Z,
    2 ^ 52 <= m < 2 ^ 53 ->
    let frac := (m # 9007199254740992)%Q in
    let k := (m * 2147483647) / 2 ^ 53 in
    let back := (k # 2147483647)%Q in
    (0 <= frac - back /\ frac - back <= frac * (1 # 1073741824))%Q.
Proof. exact double_precision_exact_Q. Qed.
Print Assumptions C14_double_precision_partial.

(* the same over the integers, with the range of the transmitted fraction *)
Theorem C14_double_precision_partial_Z :
  forall m : Z,
    2 ^ 52 <= m < 2 ^ 53 ->
    let k := (m * 2147483647) / 2 ^ 53 in
    2 ^ 30 - 1 <= k <= 2 ^ 31 - 2 /\
    0 <= m * 2147483647 - k * 2 ^ 53 < 2 ^ 53 /\
    (m * 2147483647 - k * 2 ^ 53) * 2 ^ 30 <= m * 2147483647.
Proof. exact double_precision_exact. Qed.
Print Assumptions C14_double_precision_partial_Z.

(* ======================================================================== *)
(* Coverage of the typed entry points.  gen/FactsC14.v lists every exported method of
   message.Message found in /repo's current source, the methods the C14 harness drives
   (Put*, Get*, Code* in both directions, PutClassAdRaw[Bytes], FinishMessage - the run
   fails if one of them is never called) and those covered elsewhere with the reason.
   No method is left over, the tables name only existing methods, and none is on both.  *)
Theorem C14_entry_points_covered :
  uncovered_methods = [] /\ stale_entries = [] /\ doubly_listed = [].
Proof. exact entry_points_covered. Qed.
Print Assumptions C14_entry_points_covered.

(* ======================================================================== *)
(* Complementary cases of the hypotheses above (hypothesis audit, notes/C14.md).      *)

(* Strings WITH NULs: the sender truncates at the first NUL (that is the format, see
   C14_layout / fmt_cstr) and the reader returns exactly the part before it, for every
   re-framing; the remaining conditions are on the truncated strings.            *)
Theorem C14_roundtrip_truncating :
  forall (encrypted : bool) (vs : list tval) (fs : list mframe),
    Forall (fun v => valid encrypted (as_sent v)) vs ->
    frames_ok false fs ->
    concat (map fst fs) = concat (map fst (w_out (write_vals encrypted vs))) ->
    run_ops encrypted (reader_of fs) (map op_of vs) = map (fun v => MOk (val_of (as_sent v))) vs.
Proof. exact roundtrip_truncating. Qed.
Print Assumptions C14_roundtrip_truncating.

(* A string whose first byte is 0xAD is, on an encrypted stream, HTCondor's NULL string:
   it is written like any other string and reads back as the empty string.  (0xAD is a
   UTF-8 continuation byte, never the first byte of valid UTF-8: this delimits the
   property's domain, it is not a defect.)                                        *)
Theorem C14_null_marker :
  forall (t rest : bytes),
    Z.of_N (lenN (upto_nul (xad :: t))) + 1 < 2 ^ 31 ->
    flat_string true (string_bytes true (xad :: t) ++ rest) = (rest, MOk []).
Proof. exact null_marker_reads_empty. Qed.
Print Assumptions C14_null_marker.

(* The length hypothesis of C14_layout (fmt_ok) is exactly the condition under which
   the writer accepts the string: since /repo 286e010 PutString / PutStringBytes refuse,
   before writing anything, an encrypted-stream string whose length with terminator does
   not fit the int32 prefix (Model/MsgLimit.v; checked on the real code at 2^31-2 / 2^31-1
   bytes by the harness oracle string-length-prefix-limit).                        *)
Theorem C14_string_accepted_iff :
  forall (encrypted : bool) (w : writer) (s : bytes),
    fmt_ok encrypted (WStr s) <-> put_string_go encrypted w s = Some (put_string encrypted w s).
Proof. exact string_accepted_iff. Qed.
Print Assumptions C14_string_accepted_iff.

Theorem C14_string_bytes_accepted_iff :
  forall (encrypted : bool) (w : writer) (s : bytes),
    fmt_ok encrypted (WStrB s) <-> put_string_bytes_go encrypted w s = Some (put_string_bytes encrypted w s).
Proof. exact string_bytes_accepted_iff. Qed.
Print Assumptions C14_string_bytes_accepted_iff.

Theorem C14_string_refused_iff :
  forall (encrypted : bool) (w : writer) (s : bytes),
    put_string_go encrypted w s = None <->
    encrypted = true /\ 2 ^ 31 <= Z.of_nat (length (fmt_cstr s)).
Proof. exact string_refused_iff. Qed.
Print Assumptions C14_string_refused_iff.

Example C14_truncating_nonvacuous :
  Forall (fun v => valid true (as_sent v)) [TStr [x61; x00; x62]; TStrB [x00]; TInt64 5]
  /\ map (fun v => val_of (as_sent v)) [TStr [x61; x00; x62]; TStrB [x00]] = [GvBytes [x61]; GvBytes []].
Proof.
  split; [|reflexivity].
  repeat constructor; cbn; try discriminate; intros; try discriminate;
    repeat constructor; try discriminate; try reflexivity.
Qed.
