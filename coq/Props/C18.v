(* Props/C18.v — property theorems only; proofs live in Proofs/C18.v.
   C18: filesystem authentication cannot be steered outside its directory. *)
From Coq Require Import List NArith ZArith.
From Cedar Require Import Lib.Bytes Model.FSPath gen.FactsC18 Proofs.C18.
Import ListNotations.
Import Coq.Strings.String.StringSyntax.

(* The recognisers of the model were written for exactly the regular expressions
   and base directory regenerated from the source (gen/FactsC18.v). *)
Theorem C18_sources_match :
  FactsC18.fsAuthLocalLeafRE = local_re_src /\
  FactsC18.fsAuthRemoteLeafRE = remote_re_src /\
  FactsC18.fsSuffixRE = suffix_re_src /\
  FactsC18.fsAuthBaseDir = base_dir_src.
Proof. exact facts_match. Qed.
Print Assumptions C18_sources_match.

(* The recognisers denote the regular expressions (stated as shapes). *)
Theorem C18_local_recogniser : forall leaf, local_leaf_ok leaf = true <-> local_shape leaf.
Proof. exact local_ok_spec. Qed.
Print Assumptions C18_local_recogniser.
Theorem C18_remote_recogniser : forall leaf, remote_leaf_ok leaf = true <-> remote_shape leaf.
Proof. exact remote_ok_spec. Qed.
Print Assumptions C18_remote_recogniser.

(* For EVERY path string, mode and peer: an accepted path is the base directory,
   one '/', and a leaf that has no '/', no NUL, is not empty, "." or "..", and
   is of a recognised shape -- naming the connection's endpoint when it is
   address-qualified. *)
Theorem C18_validate_shape : forall p remote pr leaf,
  validate p remote pr = VOk leaf ->
  p = fs_base ++ slash :: leaf /\
  (forall b, In b leaf -> b <> slash /\ b <> x00) /\
  leaf <> [] /\ leaf <> [dot] /\ leaf <> [dot; dot] /\
  ((exists ip port, addr_shape remote leaf ip port /\ names_endpoint ip port pr) \/
   (remote = false /\ local_shape leaf) \/
   (remote = true /\ remote_shape leaf)).
Proof. exact validate_shape. Qed.
Print Assumptions C18_validate_shape.

(* For EVERY server script and filesystem: the client's filesystem effects are
   none, or one Mkdir of base/leaf for the validated leaf of the path received,
   followed by its Remove when the Mkdir succeeded; the reply is 0 exactly in
   the latter case. *)
Theorem C18_effects : forall remote pr env sc,
  let x := client_exchange remote pr env sc in
  x_eff x = [] \/
  exists p leaf, sc_path sc = IoOk p /\ sc_eom1 sc = EomOk /\ validate p remote pr = VOk leaf /\
    open_root_ok env = true /\
    ((mkdir_ok env leaf = false /\ x_eff x = [EMkdir (under_base leaf) false] /\ x_reply x = Some (-1)%Z) \/
     (mkdir_ok env leaf = true /\ x_eff x = [EMkdir (under_base leaf) true; ERmdir (under_base leaf)] /\ x_reply x = Some 0%Z)).
Proof. exact exchange_effects. Qed.
Print Assumptions C18_effects.

(* A script that delivers no acceptable path causes no filesystem effect at all
   and, once the path message was complete, the clean failure reply -1. *)
Theorem C18_rejected_no_effect : forall remote pr env sc,
  (forall p leaf, sc_path sc = IoOk p -> validate p remote pr <> VOk leaf) ->
  let x := client_exchange remote pr env sc in
  x_eff x = [] /\ (x_reply x = None \/ x_reply x = Some (-1)%Z) /\
  (forall p, sc_path sc = IoOk p -> sc_eom1 sc = EomOk -> x_reply x = Some (-1)%Z).
Proof. exact exchange_rejected. Qed.
Print Assumptions C18_rejected_no_effect.

(* On EVERY way the exchange ends after a successful Mkdir, the last effect is
   the Remove of the same directory. *)
Theorem C18_cleanup : forall remote pr env sc q,
  In (EMkdir q true) (x_eff (client_exchange remote pr env sc)) ->
  exists before, x_eff (client_exchange remote pr env sc) = before ++ [ERmdir q].
Proof. exact exchange_cleanup. Qed.
Print Assumptions C18_cleanup.

(* What exists after the exchange because of it: nothing -- unless the Mkdir
   succeeded AND another party (necessarily running with the client's uid, or root:
   the directory is 0700) put an entry into the directory before the client's
   Remove ran; then exactly that one directory /tmp/<validated leaf> stays. *)
Theorem C18_left_behind : forall remote pr env sc,
  let x := client_exchange remote pr env sc in
  left_behind env (x_eff x) = [] \/
  exists p leaf, sc_path sc = IoOk p /\ validate p remote pr = VOk leaf /\
    mkdir_ok env leaf = true /\ at_cleanup env (under_base leaf) = CsNonEmptyDir /\
    left_behind env (x_eff x) = [under_base leaf].
Proof. exact exchange_left_behind. Qed.
Print Assumptions C18_left_behind.
(* "whatever the client created is removed again", under the modelling assumption
   about the environment that nobody else fills the directory before the cleanup (already removed by the server, or replaced by a file or
   symlink of that name, are fine) ... *)
Theorem C18_removed_again_partial : forall remote pr env sc,
  (forall q, at_cleanup env q <> CsNonEmptyDir) ->
  left_behind env (x_eff (client_exchange remote pr env sc)) = [].
Proof. exact exchange_nothing_left. Qed.
Print Assumptions C18_removed_again_partial.
(* ... and why the hypothesis is there (a fact about the model, not a refutation of
   the property): the client only rmdir's, so a directory that another party filled
   stays.  Such a party runs with the client's uid or as root -- interference from the
   environment, outside what the property ranges over (trusted base, notes/C18.md).
   The correspondence run checks that the real client behaves the same way. *)
Theorem C18_cleanup_needs_empty_directory :
  exists remote pr env sc,
    left_behind env (x_eff (client_exchange remote pr env sc)) <> [].
Proof. exact exchange_cleanup_needs_empty_directory. Qed.
Print Assumptions C18_cleanup_needs_empty_directory.

(* The server accepts only a real directory that is not a symlink, has mode 0700
   and link count 1 or 2, after a client result of 0; the identity is the owner. *)
Theorem C18_server_accepts : forall code st lookup who,
  server_verdict code st lookup = (0%Z, who) ->
  code = 0%Z /\
  exists s u, st = Some s /\ st_dir s = true /\ st_symlink s = false /\
    st_perm s = owner_only_perm /\ (st_nlink s = 1%N \/ st_nlink s = 2%N) /\
    lookup (st_uid s) = Some u /\ who = Some u.
Proof. exact server_accepts. Qed.
Print Assumptions C18_server_accepts.
Theorem C18_server_identity_only_on_accept : forall code st lookup res u,
  server_verdict code st lookup = (res, Some u) -> res = 0%Z.
Proof. exact server_identity_only_on_accept. Qed.
Print Assumptions C18_server_identity_only_on_accept.

(* ---------- non-vacuity -------------------------------------------------------- *)
Local Open Scope string_scope.
Example C18_ex_local : validate (bs "/tmp/FS_XXXjlv9Zj") false PNone = VOk (bs "FS_XXXjlv9Zj").
Proof. vm_compute. reflexivity. Qed.
Example C18_ex_remote : validate (bs "/tmp/FS_REMOTE_my_host.example_42_67890") true PBad = VOk (bs "FS_REMOTE_my_host.example_42_67890").
Proof. vm_compute. reflexivity. Qed.
Example C18_ex_addr :
  validate (bs "/tmp/FS_REMOTE_::ffff:127.0.0.1_19618_XXXQ8dEz7") true (PHP (bs "127.0.0.1") (bs "19618"))
  = VOk (bs "FS_REMOTE_::ffff:127.0.0.1_19618_XXXQ8dEz7").
Proof. vm_compute. reflexivity. Qed.
Example C18_ex_addr_wrong_port :
  validate (bs "/tmp/FS_REMOTE_127.0.0.1_19619_XXXQ8dEz7") true (PHP (bs "127.0.0.1") (bs "19618")) = VErr 6.
Proof. vm_compute. reflexivity. Qed.
Example C18_ex_nested : validate (bs "/tmp/sub/FS_12345") false PNone = VErr 4.
Proof. vm_compute. reflexivity. Qed.
Example C18_ex_traversal : validate (bs "/tmp/FS_12345/../FS_67890") false PNone = VErr 3.
Proof. vm_compute. reflexivity. Qed.
Example C18_ex_prefix_only : validate (bs "/tmp/FS_anything-I-want") false PNone = VErr 7.
Proof. vm_compute. reflexivity. Qed.
(* an exchange in which the directory is created, the send of the result fails,
   and the directory is removed all the same *)
Example C18_ex_cleanup_on_send_failure :
  x_eff (client_exchange false PNone {| open_root_ok := true; mkdir_ok := fun _ => true; at_cleanup := fun _ => CsEmptyDir |}
           {| sc_path := IoOk (bs "/tmp/FS_12345"); sc_eom1 := EomOk; sc_put := true; sc_fin := false;
              sc_res := IoFail; sc_eom2 := EomErr |})
  = [EMkdir (bs "/tmp/FS_12345") true; ERmdir (bs "/tmp/FS_12345")].
Proof. vm_compute. reflexivity. Qed.
Example C18_ex_server_accepts :
  server_verdict 0 (Some {| st_dir := true; st_symlink := false; st_perm := 448; st_nlink := 2; st_uid := 0 |})
                 (fun _ => Some (bs "root")) = (0%Z, Some (bs "root")).
Proof. vm_compute. reflexivity. Qed.
Example C18_ex_server_rejects_0755 :
  server_verdict 0 (Some {| st_dir := true; st_symlink := false; st_perm := 493; st_nlink := 2; st_uid := 0 |})
                 (fun _ => Some (bs "root")) = ((-1)%Z, None).
Proof. vm_compute. reflexivity. Qed.
