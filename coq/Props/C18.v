(* Props/C18.v — property theorems only; proofs live in Proofs/. *)
From Coq Require Import List NArith ZArith.
From Cedar Require Import Lib.Bytes Model.FSPath gen.FactsC18 Proofs.C18.
Theorem C18_sources_match :
  FactsC18.fsAuthLocalLeafRE = local_re_src /\
  FactsC18.fsAuthRemoteLeafRE = remote_re_src /\
  FactsC18.fsSuffixRE = suffix_re_src /\
  FactsC18.fsAuthBaseDir = base_dir_src.
Proof. exact facts_match. Qed.
Print Assumptions C18_sources_match.
