(* Props/C12.v — property theorems only (in progress). *)
From Coq Require Import List NArith.
From Cedar Require Import Lib.Bytes Lib.Sym Model.Frame.
Theorem C12_seal_inj : forall k n a p k' n' a' p', seal k n a p = seal k' n' a' p' -> k = k' /\ n = n' /\ a = a' /\ p = p'.
Proof. exact seal_inj. Qed.
Print Assumptions C12_seal_inj.
