(* Props/C12.v — property theorems only; proofs in Proofs/C12Nonce.v, Proofs/FrameBase.v. *)
From Coq Require Import List NArith.
From Cedar Require Import Lib.Bytes Lib.Sym gen.Consts Model.Frame Model.FrameSpec Proofs.FrameBase Proofs.C12Nonce Proofs.C12Rekey.
From Cedar Require Model.File.
Import ListNotations.
Local Open Scope N_scope.

(* No (key, nonce) pair is used twice in a direction: for EVERY sequence of sender operations
   (SendMessage, SendPartialMessage, WriteMessage, EndMessage, StartMessage, PutSecret,
   SetCryptoMode on/off; any sizes) from ANY starting state whose counter is within range
   (fresh after SetSymmetricKey, or imported with any counter), the protected frames emitted
   carry pairwise distinct (key, nonce) pairs. *)
Theorem C12_nonce_unique :
  forall (ops : list sop) (s s' : stream) (es : list N) (fs : list frame),
    enc_ctr s <= CounterGuard -> run_sops s ops = (s', es, fs) -> NoDup (key_nonces fs).
Proof. exact nonce_unique. Qed.
Print Assumptions C12_nonce_unique.

(* The counter never decreases and never passes the guard 2^32-1 ... *)
Theorem C12_no_wrap :
  forall (ops : list sop) (s s' : stream) (es : list N) (fs : list frame),
    enc_ctr s <= CounterGuard -> run_sops s ops = (s', es, fs) ->
    enc_ctr s <= enc_ctr s' /\ enc_ctr s' <= CounterGuard.
Proof. exact counter_never_wraps. Qed.
Print Assumptions C12_no_wrap.

(* ... because an encrypting stream whose counter has reached the guard refuses to send. *)
Theorem C12_refuses_at_guard :
  forall (s : stream) (d : bytes) (fl : N),
    enc_active s = true -> enc_ctr s = CounterGuard -> exists e, snd (send_frame s d fl) = SErr e.
Proof. exact send_frame_guard. Qed.
Print Assumptions C12_refuses_at_guard.

(* Wire format of protected frame number c = enc_ctr s: the base IV travels iff c = 0; the
   ciphertext is the AEAD sealing of the plaintext under the stream key with nonce
   "base IV with its leading 32-bit word advanced by c" and associated data
   [send digest || recv digest ||] 5-byte header (digests on the first frame only). *)
Theorem C12_format :
  forall (s : stream) (d : bytes) (fl : N) (s' : stream) (f : frame) (k : bytes),
    key s = Some k -> encrypted s = true -> enc_ctr s <= CounterGuard ->
    send_frame s d fl = (s', SOk f) ->
    enc_ctr s < CounterGuard /\ enc_ctr s' = enc_ctr s + 1 /\
    key s' = key s /\ enc_iv s' = enc_iv s /\ encrypted s' = encrypted s /\
    f_flag f = fl /\
    f_body f = Ct (if enc_ctr s =? 0 then Some (enc_iv s) else None)
                 (seal k (nonce_of (enc_iv s) (enc_ctr s))
                    (aad_send s (hdr_of fl (lenN d + GcmTagSize + (if enc_ctr s =? 0 then GcmTagSize else 0)))) d).
Proof. exact send_frame_enc. Qed.
Print Assumptions C12_format.

(* The nonce of frame c determines c (below 2^32), and at c = 0 it is the transmitted IV. *)
Theorem C12_nonce_injective :
  forall iv c1 c2, c1 < 4294967296 -> c2 < 4294967296 -> nonce_of iv c1 = nonce_of iv c2 -> c1 = c2.
Proof. exact nonce_of_inj. Qed.
Print Assumptions C12_nonce_injective.

(* The paired receiver expects exactly the sender's nonce and associated data. *)
Theorem C12_receiver_agrees :
  forall (A B : stream) (k hdr d : bytes),
    paired A B -> key A = Some k ->
    decrypt B k hdr (Ct (if enc_ctr A =? 0 then Some (enc_iv A) else None)
                        (seal k (nonce_of (enc_iv A) (enc_ctr A)) (aad_send A hdr) d)) =
      (upd_recv B (enc_iv A) (enc_ctr A + 1) true
         (fin_dg (fin_recv_aad B) (send_dg B)) (fin_dg (fin_recv_aad B) (recv_dg B)), SOk d).
Proof. exact decrypt_sealed. Qed.
Print Assumptions C12_receiver_agrees.

(* All-zero digest for a direction in which nothing was sent in the clear. *)
Theorem C12_zero_digest_unused_direction :
  forall s k iv s', set_key s k iv = SOk s' ->
    (dg_final (send_dg s) = None -> dg_written (send_dg s) = false -> dg_value (send_dg s') = DZero) /\
    (dg_final (recv_dg s) = None -> dg_written (recv_dg s) = false -> dg_value (recv_dg s') = DZero).
Proof.
  intros s k iv s' H. unfold set_key in H. destruct (negb (lenN k =? KeyLen)); [discriminate|].
  injection H as <-. cbn [send_dg recv_dg]. unfold dg_finalize, dg_value. cbn [dg_final dg_written].
  split; intros H1 H2; rewrite H1, H2; reflexivity.
Qed.
Print Assumptions C12_zero_digest_unused_direction.

(* non-vacuity: a concrete keyed stream sends three frames with distinct nonces *)
Example C12_example :
  let s := match set_key new_stream (repeat x01 32) (repeat x07 16) with SOk s => s | SErr _ => new_stream end in
  let '(_, es, fs) := run_sops s [OSend [x41]; OSecret [x42]; OWrite [x43]; OEnd] in
  es = [0; 0; 0; 0] /\ length (key_nonces fs) = 3%nat.
Proof. vm_compute. split; reflexivity. Qed.

(* A second key installation on the same stream (SetSymmetricKey again: the counters restart at
   0) keeps every key/nonce pair distinct from all earlier ones provided the new key differs or
   the new random base IV differs from the old one beyond its leading counter word ... *)
Theorem C12_rekey_nonce_unique :
  forall (ops1 ops2 : list sop) (s : stream) (k1 k2 iv1 iv2 : bytes)
         (s1 s1' : stream) (es1 : list N) (fs1 : list frame) (s2 s2' : stream) (es2 : list N) (fs2 : list frame),
    set_key s k1 iv1 = SOk s1 -> run_sops s1 ops1 = (s1', es1, fs1) ->
    set_key s1' k2 iv2 = SOk s2 -> run_sops s2 ops2 = (s2', es2, fs2) ->
    k1 <> k2 \/ skipn 4 iv1 <> skipn 4 iv2 ->
    NoDup (key_nonces (fs1 ++ fs2)).
Proof. exact rekey_unique. Qed.
Print Assumptions C12_rekey_nonce_unique.

(* ... and the freshness of the IV is necessary: the same key re-installed with the same base IV
   repeats frame 0's key/nonce pair.  (This is why SetSymmetricKey must draw a new IV each time;
   the correspondence run re-installs the key on real Streams and requires a new IV.) *)
Theorem C12_rekey_same_iv_repeats :
  forall (s : stream) (k iv : bytes) (s1 : stream) (d1 : bytes) (fl1 : N) (s1' : stream) (f1 : frame)
         (s2 : stream) (d2 : bytes) (fl2 : N) (s2' : stream) (f2 : frame),
    set_key s k iv = SOk s1 -> send_frame s1 d1 fl1 = (s1', SOk f1) ->
    set_key s1' k iv = SOk s2 -> send_frame s2 d2 fl2 = (s2', SOk f2) ->
    exists kn, key_nonces [f1] = [kn] /\ key_nonces [f2] = [kn].
Proof. exact rekey_same_iv_repeats. Qed.
Print Assumptions C12_rekey_same_iv_repeats.

(* File transfer (PutFile) is covered: its frames carry pairwise distinct key/nonce pairs and
   the counter neither decreases nor passes the guard. *)
Theorem C12_file_nonce_unique :
  forall (s : stream) (d : bytes) (s' : stream) (e : N) (fs : list frame),
    enc_ctr s <= CounterGuard -> Model.File.put_file s d = (s', e, fs) ->
    NoDup (key_nonces fs) /\ enc_ctr s <= enc_ctr s' /\ enc_ctr s' <= CounterGuard.
Proof. exact file_nonce_unique. Qed.
Print Assumptions C12_file_nonce_unique.
