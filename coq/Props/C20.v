(* Props/C20.v — property theorems for C20 (a CCB dial returns only the
   connection that presents its fresh connect id).  Proofs live in
   Proofs/C20.v; the model in Model/CCB.v.  Schedules are arbitrary event
   lists, so each statement covers every arrival order / interleaving. *)
From Coq Require Import List NArith ZArith Bool.
From Cedar Require Import Lib.Bytes gen.FactsC20 Model.CCB Proofs.C20.
Import ListNotations.

(* ---- fresh ids ------------------------------------------------------------ *)

(* different random draws give different connect ids; 20 random bytes give the
   documented 40 hex characters (so the id is never empty) *)
Theorem C20_id_fresh : forall r1 r2 : bytes,
  r1 <> r2 -> connect_id r1 <> connect_id r2.
Proof. exact connect_id_fresh. Qed.
Print Assumptions C20_id_fresh.

Theorem C20_id_length : forall r : bytes,
  N.of_nat (length r) = 20%N -> lenN (connect_id r) = connect_id_hex_len /\ connect_id r <> [].
Proof. exact connect_id_length_nonempty. Qed.
Print Assumptions C20_id_length.

(* ---- the matching rule ---------------------------------------------------- *)

(* a greeting matches a (non-empty) id only if it is a well-formed
   CCB_REVERSE_CONNECT hello whose ClaimId string is exactly that id; hence no
   greeting matches two different ids *)
Theorem C20_matching_presents_id : forall id g,
  id <> [] -> hello_matches id g = true -> g = GHello ccb_reverse_connect (Some id).
Proof. exact hello_matches_exact. Qed.
Print Assumptions C20_matching_presents_id.

Theorem C20_one_id_per_greeting : forall id1 id2 g,
  hello_matches id1 g = true -> hello_matches id2 g = true -> id1 = id2.
Proof. exact hello_matches_one_id. Qed.
Print Assumptions C20_one_id_per_greeting.

(* ---- acceptReversed, every arrival list ------------------------------------ *)

(* whatever arrives in whatever order (connections, cancellations, listener
   failure): if the loop returns a connection, its greeting matched, every
   connection before it did not match, and exactly those were closed *)
Theorem C20_accept_loop : forall id arr cancelled p closed,
  accept_reversed id cancelled arr = (AccConn p, closed) ->
  exists pre g post,
    arr = pre ++ AConn p g :: post /\
    hello_matches id g = true /\
    closed = conns_of pre /\
    (forall q g', In (AConn q g') pre -> hello_matches id g' = false).
Proof. intros id arr c p cl. apply accept_reversed_sound. Qed.
Print Assumptions C20_accept_loop.

(* the accept goroutine inside an attempt is that loop: feeding it connections
   one by one (no stalled greeting, context not done) leaves it holding the
   connection accept_reversed returns, having closed what accept_reversed closes *)
Theorem C20_accept_loop_in_attempt : forall id l s,
  no_stall l -> as_acc s = AsWaiting -> as_ctx_done s = false ->
  exists s', run_attempt_from id (Running s) (arrive_all l) = Running s' /\
    as_closed s' = as_closed s ++ snd (accept_reversed id false (as_conns l)) /\
    as_acc s' = match fst (accept_reversed id false (as_conns l)) with
                | AccConn p => AsDone (AccConn p)
                | _ => AsWaiting
                end.
Proof. exact acceptor_agrees. Qed.
Print Assumptions C20_accept_loop_in_attempt.

(* ---- C20_only_matching ----------------------------------------------------- *)

(* Standard mode, every interleaving of arrivals, listener failure, context
   expiry and select choices.  When the attempt is over:
   (1) a returned connection arrived with a greeting that matches this
       attempt's id;
   (2) every connection that reached the listener is closed, except the one
       returned;
   (3) with distinct connection labels, a connection whose greeting does not
       match (wrong / empty / absent / earlier id, prefix or extension of the
       id, wrong command, garbage, immediate close, stall) is closed and is
       not the one returned. *)
Theorem C20_only_matching : forall id sched o,
  run_attempt id sched = Finished o ->
  (forall p, o_res o = Returned p ->
     exists g, In (SArrive p g) sched /\ hello_matches id g = true) /\
  (forall q g, In (SArrive q g) sched -> In q (o_closed o) \/ o_res o = Returned q) /\
  (NoDup (map fst (arrivals sched)) ->
   forall q g, In (SArrive q g) sched -> hello_matches id g = false ->
     In q (o_closed o) /\ o_res o <> Returned q).
Proof. exact attempt_only_matching_full. Qed.
Print Assumptions C20_only_matching.

(* Proxied / nested mode: the broker connection is returned only after
   {Result:true} and a hello matching this request's id; otherwise it is closed. *)
Theorem C20_only_matching_proxied : forall id b rep hello,
  (forall p, o_res (proxy_attempt id b rep hello) = Returned p ->
     p = b /\ (exists echo, rep = PrOk echo) /\ hello_matches id hello = true) /\
  (forall e, o_res (proxy_attempt id b rep hello) = Failed e ->
     o_closed (proxy_attempt id b rep hello) = [b]).
Proof. exact proxy_only_matching_full. Qed.
Print Assumptions C20_only_matching_proxied.

(* The id the proxied hello must carry is the requester's own: attributes of the
   broker's success reply (e.g. a ClaimId "echo") never change the verdict, and a
   hello that merely repeats a different id found in the reply is refused. *)
Theorem C20_proxied_reply_extras_ignored : forall id b e1 e2 hello,
  proxy_attempt id b (PrOk e1) hello = proxy_attempt id b (PrOk e2) hello.
Proof. exact proxy_reply_extras_ignored. Qed.
Print Assumptions C20_proxied_reply_extras_ignored.

Theorem C20_proxied_echoed_id_rejected : forall id b echoed cmd,
  echoed <> id ->
  proxy_attempt id b (PrOk (Some echoed)) (GHello cmd (Some echoed)) =
  mkOut (Failed (if Z.eqb cmd ccb_reverse_connect then AeProxyMismatch else AeProxyHello)) [b].
Proof. exact proxy_echoed_id_rejected. Qed.
Print Assumptions C20_proxied_echoed_id_rejected.

(* Proxied mode has one connection and one opening greeting: the FIRST message
   after the success reply decides.  If it does not match this request's id the
   attempt fails and the broker connection is closed, whatever else (including a
   hello with the right id) is queued behind it on the same socket. *)
Theorem C20_proxied_first_hello_decides : forall id b rep g rest,
  proxy_attempt_stream id b rep (g :: rest) = proxy_attempt id b rep g.
Proof. exact proxy_first_hello_decides. Qed.
Print Assumptions C20_proxied_first_hello_decides.

Theorem C20_proxied_wrong_first_hello_refused : forall id b rep g rest,
  hello_matches id g = false ->
  exists e, proxy_attempt_stream id b rep (g :: rest) = mkOut (Failed e) [b].
Proof. exact proxy_wrong_first_hello_refused. Qed.
Print Assumptions C20_proxied_wrong_first_hello_refused.

(* ---- C20_broker_failure ---------------------------------------------------- *)

(* A failure reply taken while the attempt is still waiting (no reply consumed
   yet, context not done) ends the attempt with exactly that error, whatever
   was accepted-but-not-yet-taken before and whatever arrives afterwards. *)
Theorem C20_broker_failure : forall id s1 m s2 st,
  run_attempt id s1 = Running st ->
  as_reply_open st = true -> as_ctx_done st = false ->
  exists o, run_attempt id (s1 ++ SPickReply (RFail m) :: s2) = Finished o /\
            o_res o = Failed (AeBroker m).
Proof. exact attempt_broker_failure. Qed.
Print Assumptions C20_broker_failure.

(* In particular: a failure reply before any matching connection, after any
   number of non-matching ones in any order. *)
Theorem C20_broker_failure_before_match : forall id s1 m s2,
  forallb (quiet_ev id) s1 = true ->
  exists o, run_attempt id (s1 ++ SPickReply (RFail m) :: s2) = Finished o /\
            o_res o = Failed (AeBroker m).
Proof. exact attempt_broker_failure_before_match. Qed.
Print Assumptions C20_broker_failure_before_match.

Theorem C20_broker_failure_proxied : forall id b m hello,
  proxy_attempt id b (PrFail m) hello = mkOut (Failed (AeProxyRefused m)) [b].
Proof. exact proxy_broker_failure. Qed.
Print Assumptions C20_broker_failure_proxied.

(* ... and with a single broker Dial's caller gets exactly that error *)
Theorem C20_broker_failure_reaches_caller : forall sequential id s1 m s2 dsched,
  forallb (quiet_ev id) s1 = true ->
  dial_full sequential [(id, s1 ++ SPickReply (RFail m) :: s2)] (DResult 0 :: dsched)
  = DDone (DAllFailed [AeBroker m]) 1 [0%nat].
Proof. exact dial_reports_broker_failure. Qed.
Print Assumptions C20_broker_failure_reaches_caller.

(* ---- C20_single_winner ----------------------------------------------------- *)

(* Any number of brokers, each attempt with its own id on its own schedule, any
   schedule of results / stagger timer / cancellation.  If Dial returns p from
   attempt i then: attempt i was launched and p presented attempt i's id at
   attempt i's listener; at most one connection is handed to the caller; and
   every other launched attempt that had also accepted a connection has that
   connection closed (drained), never handed out. *)
Theorem C20_single_winner : forall sequential atts sched i p launched reported,
  dial_full sequential atts sched = DDone (DReturned i p) launched reported ->
  (exists id s g, nth_error atts i = Some (id, s) /\ i < launched /\
                  In (SArrive p g) s /\ hello_matches id g = true) /\
  length (dial_handed (dial_full sequential atts sched)) <= 1 /\
  (forall j idj sj oj q, j <> i -> j < launched ->
     nth_error atts j = Some (idj, sj) -> run_attempt idj sj = Finished oj -> o_res oj = Returned q ->
     In q (dial_drained (attempt_outcomes atts) (dial_full sequential atts sched))).
Proof. exact dial_single_winner_full. Qed.
Print Assumptions C20_single_winner.

(* ---- hypothesis audit: the complementary cases ------------------------------- *)

(* [id <> []] in C20_matching_presents_id is necessary: the empty id is matched by a
   hello without any ClaimId.  Real ids are never empty (C20_id_length); dialOne
   returns GenerateConnectID's error before the id is used. *)
Theorem C20_matching_empty_id_degenerate :
  hello_matches [] (GHello ccb_reverse_connect None) = true /\
  GHello ccb_reverse_connect None <> GHello ccb_reverse_connect (Some []).
Proof. exact empty_id_matches_absent_claim. Qed.
Print Assumptions C20_matching_empty_id_degenerate.

(* [echoed <> id] in C20_proxied_echoed_id_rejected, other side: a reply that echoes
   this request's own id changes nothing either; the right hello is accepted *)
Theorem C20_proxied_echo_of_own_id_accepted : forall id b e,
  proxy_attempt id b (PrOk e) (GHello ccb_reverse_connect (Some id)) = mkOut (Returned b) [].
Proof. exact proxy_echo_of_own_id_accepted. Qed.
Print Assumptions C20_proxied_echo_of_own_id_accepted.

(* [as_reply_open st = true] in C20_broker_failure, other side: a broker sends one
   reply per request; after a success reply no further reply is read at all, so a
   later failure message cannot end the attempt (it ends by the reverse connection
   or the timeout) *)
Theorem C20_reply_after_success_not_read : forall id st r,
  as_reply_open st = false -> att_step id (Running st) (SPickReply r) = Running st.
Proof. exact reply_after_success_not_read. Qed.
Print Assumptions C20_reply_after_success_not_read.

(* [as_ctx_done s = false] in C20_accept_loop_in_attempt, other side *)
Theorem C20_accept_loop_in_attempt_cancelled : forall id s p g r,
  as_acc s = AsWaiting -> as_ctx_done s = true ->
  att_step id (Running s) (SArrive p g) =
    Running (mkAtt (AsDone (AccErr ECtx)) (as_reply_open s) true (as_closed s ++ [p]) (as_backlog s)) /\
  accept_reversed id true (AConn p g :: r) = (AccErr ECtx, [p]).
Proof. exact acceptor_agrees_cancelled. Qed.
Print Assumptions C20_accept_loop_in_attempt_cancelled.

(* [no_stall l] in C20_accept_loop_in_attempt, other side: a stalled greeting after
   non-matching connections; both descriptions end with the context error and the
   same connections closed *)
Theorem C20_accept_loop_in_attempt_stall : forall id l s p,
  no_stall l -> as_acc s = AsWaiting -> as_ctx_done s = false ->
  fst (accept_reversed id false (as_conns l)) = AccPending ->
  exists s', run_attempt_from id (Running s) (arrive_all l ++ [SArrive p GStall; SCtxDone]) = Running s' /\
    as_acc s' = AsDone (AccErr ECtx) /\
    fst (accept_reversed id false (as_conns (l ++ [(p, GStall)]))) = AccErr ECtx /\
    as_closed s' = as_closed s ++ snd (accept_reversed id false (as_conns (l ++ [(p, GStall)]))).
Proof. exact acceptor_agrees_stall. Qed.
Print Assumptions C20_accept_loop_in_attempt_stall.

(* ---- non-vacuity ------------------------------------------------------------ *)

Local Open Scope N_scope.
Definition ex_id : bytes := connect_id (payload 7 20).
Definition ex_prefix : bytes := firstn 39 ex_id.
Definition ex_sched : list sev :=
  [ SArrive 1 (GHello ccb_reverse_connect (Some ex_prefix));   (* strict prefix of the id *)
    SArrive 2 GMalformed;
    SArrive 3 (GHello ccb_reverse_connect None);               (* no ClaimId *)
    SPickReply ROk;
    SArrive 4 (GHello ccb_request (Some ex_id));               (* right id, wrong command *)
    SArrive 5 (GHello ccb_reverse_connect (Some ex_id));       (* the legitimate one *)
    SArrive 6 GClosed;
    SPickAccept ].

Example C20_ex_returns_legit :
  exists o, run_attempt ex_id ex_sched = Finished o /\ o_res o = Returned 5 /\
            o_closed o = [1; 2; 3; 4; 6] /\ NoDup (map fst (arrivals ex_sched)).
Proof.
  eexists. split; [vm_compute; reflexivity|]. split; [reflexivity|]. split; [reflexivity|].
  vm_compute. repeat constructor; simpl; intuition discriminate.
Qed.

(* hypotheses of C20_broker_failure(_before_match) are satisfiable *)
Example C20_ex_failure_hyp :
  forallb (quiet_ev ex_id) (firstn 3 ex_sched) = true /\
  exists st, run_attempt ex_id (firstn 3 ex_sched) = Running st /\
             as_reply_open st = true /\ as_ctx_done st = false.
Proof. split; [vm_compute; reflexivity|]. eexists. vm_compute. auto. Qed.

(* two brokers succeed: one winner, the other connection is drained *)
Definition ex_id2 : bytes := connect_id (payload 99 20).
Definition ex_atts : list (bytes * list sev) :=
  [ (ex_id, [SArrive 10 (GHello ccb_reverse_connect (Some ex_id2));   (* the other attempt's id: rejected *)
             SArrive 11 (GHello ccb_reverse_connect (Some ex_id)); SPickAccept]);
    (ex_id2, [SArrive 20 (GHello ccb_reverse_connect (Some ex_id2)); SPickAccept]) ].

Example C20_ex_two_succeed :
  dial_full false ex_atts [DStagger; DResult 1%nat] = DDone (DReturned 1%nat 20) 2%nat [1%nat] /\
  dial_drained (attempt_outcomes ex_atts) (dial_full false ex_atts [DStagger; DResult 1%nat]) = [11] /\
  ex_id <> ex_id2.
Proof. split; [vm_compute; reflexivity|]. split; [vm_compute; reflexivity|]. vm_compute. discriminate. Qed.

(* ---- the greeting on the wire (added after seeded change C20-15) ---------- *)
From Cedar Require Import Proofs.C20Wire.
From Cedar Require Model.Msg.

(* The decoder (readReverseConnect + ReadReverseConnectAd + AdString over the
   typed-message layer of Model/Msg.v) yields a greeting matching id IFF the
   first 8 bytes of the message are EXACTLY the big-endian 64-bit 69
   (cmd_wire) - no truncation, no modular coincidence - and the ad read behind
   them carries ClaimId = id.  The expression parser and the evaluator are
   universally quantified. *)
Theorem C20_greeting_decoded_exactly :
  forall (parses : bytes -> bool) (claim_of : list bytes -> option bytes) cap tail w id,
  id <> [] ->
  (hello_matches id (decode_wire parses claim_of cap tail w) = true <->
   exists r1 r2 es,
     Msg.get_raw (Msg.reader_of (fst (frames_of w))) 8 = (r1, Msg.MOk cmd_wire) /\
     read_ad parses cap r1 = (r2, Msg.MOk es) /\ claim_of es = Some id).
Proof. exact greeting_decoded_exactly. Qed.
Print Assumptions C20_greeting_decoded_exactly.

(* the only 8 bytes GetInt reads as CCB_REVERSE_CONNECT *)
Theorem C20_command_bytes_exact : forall bs,
  length bs = 8%nat -> Msg.dec_int bs = ccb_reverse_connect -> bs = cmd_wire.
Proof. exact dec_int_exact. Qed.
Print Assumptions C20_command_bytes_exact.

(* any other 64-bit command integer (69 + k * 2^32 in particular) never matches, whatever the ad says *)
Theorem C20_wide_command_never_matches :
  forall (parses : bytes -> bool) (claim_of : list bytes -> option bytes) cap tail w id r1 cmd,
  Msg.get_int (Msg.reader_of (fst (frames_of w))) = (r1, Msg.MOk cmd) ->
  cmd <> ccb_reverse_connect ->
  hello_matches id (decode_wire parses claim_of cap tail w) = false.
Proof. exact wide_command_never_matches. Qed.
Print Assumptions C20_wide_command_never_matches.

(* C20_only_matching with every arrival given by its wire bytes *)
Theorem C20_only_matching_wire :
  forall (parses : bytes -> bool) (claim_of : list bytes -> option bytes) cap id (ws : list wev) o,
  id <> [] ->
  run_attempt id (map (lower_ev parses claim_of cap) ws) = Finished o ->
  (forall p, o_res o = Returned p ->
     exists t w r1 r2 es,
       In (WArrive p t w) ws /\
       Msg.get_raw (Msg.reader_of (fst (frames_of w))) 8 = (r1, Msg.MOk cmd_wire) /\
       read_ad parses cap r1 = (r2, Msg.MOk es) /\ claim_of es = Some id) /\
  (forall q t w, In (WArrive q t w) ws -> In q (o_closed o) \/ o_res o = Returned q).
Proof. exact only_matching_wire. Qed.
Print Assumptions C20_only_matching_wire.

(* non-vacuity: a real hello (command 69, ClaimId = "ab") decodes and matches; the same
   bytes with the command 69 + 2^32 do not *)
Example C20_ex_wire_hello :
  let ad := [x00;x00;x00;x00;x00;x00;x00;x01] ++
            [x43;x6c;x61;x69;x6d;x49;x64;x20;x3d;x20;x22;x61;x62;x22;x00] ++ [x00;x00] in
  let body k := [x00;x00;x00;k;x00;x00;x00;x45] ++ ad in
  let frame k := [x01;x00;x00;x00;x21] ++ body k in
  hello_matches [x61;x62] (decode_greeting simple_parses simple_claim_of 65536 (frame x00)) = true /\
  hello_matches [x61;x62] (decode_greeting simple_parses simple_claim_of 65536 (frame x01)) = false.
Proof. vm_compute. split; reflexivity. Qed.
