(* Props/C20.v — property theorems only; proofs live in Proofs/C20.v. *)
From Coq Require Import List NArith ZArith Bool.
From Cedar Require Import Lib.Bytes gen.FactsC20 Model.CCB Proofs.C20.
Import ListNotations.

Theorem C20_matching_presents_id : forall id g,
  hello_matches id g = true ->
  exists c, g = GHello ccb_reverse_connect c /\ ad_string c = id.
Proof. exact hello_matches_presents. Qed.
Print Assumptions C20_matching_presents_id.
