(* Props/C10.v — property C10: honest peers negotiate by the policy table and
   agree on the result.  Only the decision table (written from the property
   text, independently of Model/Negotiate.v) and the theorems; proofs are in
   Proofs/C10.v. *)
From Coq Require Import List NArith ZArith Bool.
From Cedar Require Import Model.Negotiate Proofs.C10 Proofs.C10Full.
Import ListNotations.

(* ---- the decision table, from the property text ---------------------------- *)

Definition four_levels : list lvl := [Rq; Pf; Op; Nv].        (* REQUIRED PREFERRED OPTIONAL NEVER *)
Definition Req (a b : lvl) : Prop := a = Rq \/ b = Rq.       (* either side requires *)
Definition Nev (a b : lvl) : Prop := a = Nv \/ b = Nv.       (* either side forbids *)
Definition Pref (a b : lvl) : Prop := a = Pf \/ b = Pf.      (* either side prefers *)

(* a mutually usable method: listed by both, a real method (not NONE), and its
   sub-protocol works between these two peers *)
Definition MutualMethod (aok : meth -> bool) (cm sm : list meth) : Prop :=
  exists m, In m cm /\ In m sm /\ m <> mNONE /\ aok m = true.
(* a mutually supported cipher: AES-256-GCM, the cipher cedar implements *)
Definition MutualCipher (cc sc : list ciph) : Prop := In cAES cc /\ In cAES sc.

(* "fails exactly when one side requires what the other forbids or a required
   feature has no mutually supported method" *)
Definition MustFail (aok : meth -> bool) (C S : policy) : Prop :=
  (Req (p_auth C) (p_auth S) /\ Nev (p_auth C) (p_auth S)) \/
  (Req (p_enc C) (p_enc S) /\ Nev (p_enc C) (p_enc S)) \/
  (Req (p_auth C) (p_auth S) /\ ~ MutualMethod aok (p_meths C) (p_meths S)) \/
  (Req (p_enc C) (p_enc S) /\ ~ MutualCipher (p_ciphs C) (p_ciphs S)).

(* "authentication runs whenever either side requires it, or either prefers it
   while neither forbids it and a mutually usable method exists" *)
Definition AuthRuns (aok : meth -> bool) (C S : policy) : Prop :=
  Req (p_auth C) (p_auth S) \/
  (Pref (p_auth C) (p_auth S) /\ ~ Nev (p_auth C) (p_auth S) /\ MutualMethod aok (p_meths C) (p_meths S)).

(* what a successful handshake must look like on both ends *)
Definition Agreed (aok : meth -> bool) (C S : policy) (r : hok) : Prop :=
  (k_sauth r = true <-> AuthRuns aok C S) /\          (* authentication ran iff the table says so *)
  k_cauth r = k_sauth r /\                             (* both report the same authentication outcome *)
  (k_sauth r = true ->                                 (* ... and the method that really ran, a mutual one *)
     exists m, k_ran r = Some m /\ k_cmeth r = m /\ k_smeth r = m /\
               In m (p_meths C) /\ In m (p_meths S) /\ aok m = true) /\
  (k_sauth r = false -> k_ran r = None) /\
  (Req (p_enc C) (p_enc S) -> k_creal r = true) /\    (* encryption is on whenever either side requires it *)
  k_cenc r = k_creal r /\ k_senc r = k_sreal r /\      (* reported encryption = real state, on both ends *)
  k_creal r = k_sreal r /\
  k_csid r = k_ssid r /\                               (* same session identifier *)
  k_ckey r = k_skey r /\                               (* same key: messages flow both ways at once *)
  (k_creal r = true -> k_ckey r <> None).

(* ---- the theorem --------------------------------------------------------------

   For all 4^4 combinations of the four level names (finite: the bound is the
   membership in [four_levels]; proved by complete enumeration of the control
   flow, Proofs.C10.row_ok_all) and ALL method lists, cipher lists (induction),
   public keys and session ids:  the composed handshake of the two honest
   endpoints ends in the server's explicit denial exactly when the table says
   it must fail, and otherwise succeeds with both ends agreeing.

   Hypotheses:
   - Integrity is not REQUIRED (the property's matrix is authentication x
     encryption; REQUIRED integrity is enforced only at the end of the handshake,
     see notes/C10.md);
   - the server does not list BOTH names of the token method, TOKEN and IDTOKENS
     (they share the bit CAUTH_TOKEN; with both listed the two ends may report the
     two different names of the one method that ran: C10_alias_names_witness below);
   - between these two peers, a method both list works iff this build implements
     it (honest, correctly credentialed endpoints; PASSWORD is a stub). *)
Theorem C10_table : forall (aok : meth -> bool) (C S : policy) (sid : N),
  In (p_auth C) four_levels -> In (p_auth S) four_levels ->
  In (p_enc C) four_levels -> In (p_enc S) four_levels ->
  p_integ C <> Rq -> p_integ S <> Rq ->
  ~ (In mTOK (p_meths S) /\ In mIDT (p_meths S)) ->
  (forall m, In m (p_meths C) -> In m (p_meths S) -> m <> mNONE -> aok m = implemented m) ->
  (MustFail aok C S -> honest aok C S sid = HDenied) /\
  (~ MustFail aok C S -> exists r, honest aok C S sid = HOk r /\ Agreed aok C S r).
Proof. exact table_holds. Qed.
Print Assumptions C10_table.

(* Without any hypothesis (any levels incl. Integrity, any lists, any sub-protocol
   behaviour): whenever the composed handshake succeeds, an endpoint whose own
   Encryption or Integrity is REQUIRED has a really encrypting stream, both ends
   are in the same state and report it. *)
Theorem C10_required_protection : forall (aok : meth -> bool) (C S : policy) (sid : N) (r : hok),
  honest aok C S sid = HOk r ->
  (requires_protection C = true -> k_creal r = true) /\
  (requires_protection S = true -> k_sreal r = true) /\
  k_creal r = k_sreal r /\ k_cenc r = k_creal r /\ k_senc r = k_sreal r.
Proof. exact honest_protection. Qed.
Print Assumptions C10_required_protection.

(* the retry loop of the bitmask exchange never needs more rounds than the
   client has methods, and ends with a method both sides list *)
Theorem C10_retry_loop : forall aok (sm cms : list meth) (g : meth),
  ~ (In mTOK sm /\ In mIDT sm) -> (forall m, In m cms -> In m sm) ->
  (forall m, In m cms -> m <> mNONE -> aok m = implemented m) ->
  In g cms -> implemented g = true -> g <> mNONE ->
  exists rounds ms, auth_loop (S (length cms)) aok sm cms (mask cms) = (rounds, LOk ms)
                    /\ In ms cms /\ aok ms = true /\ offered_under cms (bit ms) = Some ms.
Proof.
  intros aok sm cms g H1 H2 H3 H4 H5 H6.
  destruct cms as [|c0 r0]; [contradiction|].
  exact (loop_ok aok sm (c0 :: r0) H1 H2 H3 g H4 H5 H6 (length r0) (mask (c0 :: r0))
           (inv_mask (c0 :: r0) g H4 (implemented_bit g H5 H6))).
Qed.
Print Assumptions C10_retry_loop.

(* ... and, whatever the sub-protocols do (arbitrary [aok]) and whatever the two
   lists are, it terminates within that many rounds: the model's fuel is never
   exhausted (each failed round withdraws one bit of the client's bitmask) *)
Theorem C10_loop_total : forall (aok : meth -> bool) (sm cms : list meth),
  snd (auth_loop (S (length cms)) aok sm cms (mask cms)) <> LFuel.
Proof. exact loop_never_out_of_fuel. Qed.
Print Assumptions C10_loop_total.

(* ---- non-vacuity: realistic configurations satisfying the hypotheses -------- *)

Definition ex_aok := implemented.
(* client OPTIONAL/PREFERRED against server REQUIRED/OPTIONAL, server prefers the
   unimplemented PASSWORD: one failed round, then CLAIMTOBE; both report
   authentication (the cell the client used to misreport) and encryption. *)
Example C10_ex_retry :
  honest ex_aok (mkP Op Pf Op [mCTB; mPW] [cAES] 11) (mkP Rq Op Op [mPW; mCTB] [cAES] 22) 5 =
  HOk (mkOk [(514, 512); (2, 2)]%Z (Some mCTB) true true true true mCTB mCTB true true
         (Some (KDH 11 22)) (Some (KDH 11 22)) 5 5).
Proof. vm_compute. reflexivity. Qed.
(* REQUIRED against NEVER is denied explicitly *)
Example C10_ex_denied :
  honest ex_aok (mkP Rq Op Op [mCTB] [cAES] 11) (mkP Nv Op Op [mCTB] [cAES] 22) 5 = HDenied.
Proof. vm_compute. reflexivity. Qed.
(* only an unimplemented method in common, both PREFERRED: proceeds unauthenticated *)
Example C10_ex_fallback :
  exists r, honest ex_aok (mkP Pf Nv Op [mPW] [] 11) (mkP Pf Op Op [mPW] [cAES] 22) 5 = HOk r
            /\ k_cauth r = false /\ k_sauth r = false /\ k_creal r = false.
Proof. eexists. vm_compute. repeat split. Qed.

(* why the alias hypothesis is there: a server listing both names of the token
   method against a client listing IDTOKENS authenticates (the one token exchange
   runs), but the server reports TOKEN and the client IDTOKENS.  The same run on
   the real code is part of every check (shape "token-alias-names"). *)
Example C10_alias_names_witness :
  exists r, honest ex_aok (mkP Rq Op Op [mIDT] [cAES] 11) (mkP Op Op Op [mTOK; mIDT] [cAES] 22) 5 = HOk r
            /\ k_cauth r = true /\ k_sauth r = true /\ k_ran r = Some mTOK
            /\ k_smeth r = mTOK /\ k_cmeth r = mIDT.
Proof. eexists. vm_compute. repeat split. Qed.
(* IDTOKENS alone on both sides (the shape that could never succeed before the
   bit was corrected): one round, bit 2048 *)
Example C10_ex_idtokens :
  exists r, honest ex_aok (mkP Rq Op Op [mIDT] [cAES] 11) (mkP Rq Op Op [mIDT] [cAES] 22) 5 = HOk r
            /\ k_rounds r = [(2048, 2048)]%Z /\ k_cmeth r = mIDT /\ k_smeth r = mIDT.
Proof. eexists. vm_compute. repeat split. Qed.

(* ============================================================================
   Second part: ALL Integrity levels on both sides (4^6 level combinations) and
   the client's token pre-filter.

   The model is [honest_i aok tok C S sid] (Model/Negotiate.v): negotiateSecurity
   with the Integrity reconciliation ([decide_i]), the client's intersection with
   the pre-filter ([cl_methods_t tok]: a token method is offered only when
   hasCompatibleToken = [tok]), both retry loops, setupStreamEncryption /
   plaintextOutcome with Encryption and Integrity.

   The table, again written from the property text and not mentioning
   [negotiate_i] / [decide_i] / [flow_i]:
   - Integrity is a feature with a level like the other two; AES-256-GCM is the
     one cipher cedar implements and provides both encryption and integrity, so
     the "mutually supported method" of REQUIRED integrity is a mutual cipher;
   - a "mutually usable method" is one both list, that is a real method, whose
     sub-protocol works between the two peers, and -- for the token family --
     for which the client holds a token usable against this server.
   ============================================================================ *)


Definition Usable (aok : meth -> bool) (tok : bool) (m : meth) : Prop :=
  m <> mNONE /\ aok m = true /\ (is_token m = true -> tok = true).
Definition MutualUsable (aok : meth -> bool) (tok : bool) (cm sm : list meth) : Prop :=
  exists m, In m cm /\ In m sm /\ Usable aok tok m.

(* "fails exactly when one side requires what the other forbids or a required
   feature has no mutually supported method" -- three features *)
Definition MustFail_i (aok : meth -> bool) (tok : bool) (C S : policy) : Prop :=
  (Req (p_auth C) (p_auth S) /\ Nev (p_auth C) (p_auth S)) \/
  (Req (p_enc C) (p_enc S) /\ Nev (p_enc C) (p_enc S)) \/
  (Req (p_integ C) (p_integ S) /\ Nev (p_integ C) (p_integ S)) \/
  (Req (p_auth C) (p_auth S) /\ ~ MutualUsable aok tok (p_meths C) (p_meths S)) \/
  (Req (p_enc C) (p_enc S) /\ ~ MutualCipher (p_ciphs C) (p_ciphs S)) \/
  (Req (p_integ C) (p_integ S) /\ ~ MutualCipher (p_ciphs C) (p_ciphs S)).

Definition AuthRuns_i (aok : meth -> bool) (tok : bool) (C S : policy) : Prop :=
  Req (p_auth C) (p_auth S) \/
  (Pref (p_auth C) (p_auth S) /\ ~ Nev (p_auth C) (p_auth S) /\ MutualUsable aok tok (p_meths C) (p_meths S)).

Definition Agreed_i (aok : meth -> bool) (tok : bool) (C S : policy) (r : hok) : Prop :=
  (k_sauth r = true <-> AuthRuns_i aok tok C S) /\
  k_cauth r = k_sauth r /\
  (k_sauth r = true ->
     exists m, k_ran r = Some m /\ k_cmeth r = m /\ k_smeth r = m /\
               In m (p_meths C) /\ In m (p_meths S) /\ Usable aok tok m) /\
  (k_sauth r = false -> k_ran r = None) /\
  (* the AES-GCM channel is on whenever either side requires encryption or integrity *)
  (Req (p_enc C) (p_enc S) \/ Req (p_integ C) (p_integ S) -> k_creal r = true) /\
  k_cenc r = k_creal r /\ k_senc r = k_sreal r /\ k_creal r = k_sreal r /\
  k_csid r = k_ssid r /\ k_ckey r = k_skey r /\
  (k_creal r = true -> k_ckey r <> None).

(* The cells of finding c10-late-unusable-method, characterised from the two
   configurations alone: some commonly listed real method works in principle
   ([MutualMethod], all the server can see), none is usable by THIS client (its
   token pre-filter withdraws them), the levels make the server commit to
   authentication, and nothing else makes the handshake fail. *)
Definition StaleOffer (aok : meth -> bool) (tok : bool) (C S : policy) : Prop :=
  MutualMethod aok (p_meths C) (p_meths S) /\ ~ MutualUsable aok tok (p_meths C) (p_meths S) /\
  (Req (p_auth C) (p_auth S) \/ (Pref (p_auth C) (p_auth S) /\ ~ Nev (p_auth C) (p_auth S))) /\
  ~ (Req (p_auth C) (p_auth S) /\ Nev (p_auth C) (p_auth S)) /\
  ~ (Req (p_enc C) (p_enc S) /\ Nev (p_enc C) (p_enc S)) /\
  ~ (Req (p_integ C) (p_integ S) /\ Nev (p_integ C) (p_integ S)) /\
  ~ ((Req (p_enc C) (p_enc S) \/ Req (p_integ C) (p_integ S)) /\ ~ MutualCipher (p_ciphs C) (p_ciphs S)).

(* ---- the full table -----------------------------------------------------------
   All 4^6 combinations of the four level names for Authentication, Encryption and
   Integrity on both sides (finite: complete enumeration of the control flow,
   Proofs.C10Full.row_ok_i_all, 4^6 x 2^5 = 131 072 rows, lifted with
   forallb_forall; the bound is the six memberships in [four_levels]), ALL method
   and cipher lists (induction), both values of [tok], all keys and session ids.

   Outside the stale-offer cells the property holds in full: explicit denial
   exactly on the must-fail cells, success with agreement everywhere else.  In the
   stale-offer cells both ends fail WITHOUT a denial (the finding; the statement
   for them is exact, not an exclusion).  Remaining hypotheses: the alias one and
   "a commonly listed method works iff implemented", as for [C10_table]. *)
Theorem C10_table_full : forall (aok : meth -> bool) (tok : bool) (C S : policy) (sid : N),
  In (p_auth C) four_levels -> In (p_auth S) four_levels ->
  In (p_enc C) four_levels -> In (p_enc S) four_levels ->
  In (p_integ C) four_levels -> In (p_integ S) four_levels ->
  ~ (In mTOK (p_meths S) /\ In mIDT (p_meths S)) ->
  (forall m, In m (p_meths C) -> In m (p_meths S) -> m <> mNONE -> aok m = implemented m) ->
  (StaleOffer aok tok C S -> exists rs, honest_i aok tok C S sid = HFail true true rs) /\
  (~ StaleOffer aok tok C S ->
     (MustFail_i aok tok C S -> honest_i aok tok C S sid = HDenied) /\
     (~ MustFail_i aok tok C S -> exists r, honest_i aok tok C S sid = HOk r /\ Agreed_i aok tok C S r)).
Proof. exact table_full. Qed.
Print Assumptions C10_table_full.

(* The property at full strength for a client whose token methods are backed by a
   usable token: no stale cell, the unconditional statement over the 4^6 matrix. *)
Theorem C10_table_integrity : forall (aok : meth -> bool) (C S : policy) (sid : N),
  In (p_auth C) four_levels -> In (p_auth S) four_levels ->
  In (p_enc C) four_levels -> In (p_enc S) four_levels ->
  In (p_integ C) four_levels -> In (p_integ S) four_levels ->
  ~ (In mTOK (p_meths S) /\ In mIDT (p_meths S)) ->
  (forall m, In m (p_meths C) -> In m (p_meths S) -> m <> mNONE -> aok m = implemented m) ->
  (MustFail_i aok true C S -> honest_i aok true C S sid = HDenied) /\
  (~ MustFail_i aok true C S -> exists r, honest_i aok true C S sid = HOk r /\ Agreed_i aok true C S r).
Proof. exact table_tok. Qed.
Print Assumptions C10_table_integrity.

(* ... and for a client without one as long as no token method is common to the two lists *)
Theorem C10_no_stale_without_token_methods : forall aok tok (C S : policy),
  (forall m, In m (p_meths C) -> In m (p_meths S) -> is_token m = false) -> ~ StaleOffer aok tok C S.
Proof. exact no_stale_when_no_token. Qed.
Print Assumptions C10_no_stale_without_token_methods.

(* The unconditional statement is FALSE for a client without a usable token
   (finding c10-late-unusable-method; the two witnesses are replayed on the real
   code on every run, corpus/C10/stale-*.json): (1) both PREFERRED, TOKEN the only
   common method, no token: the table says "succeeds unauthenticated", the
   handshake fails on both ends; (2) server REQUIRED: the table says "explicit
   denial", both ends fail without one. *)
Definition ex_tokC (a : lvl) := mkP a Op Op [mTOK] [cAES] 11.
Definition ex_tokS (a : lvl) := mkP a Op Op [mTOK] [cAES] 22.
Theorem C10_token_refuted :
  (~ MustFail_i ex_aok false (ex_tokC Pf) (ex_tokS Pf) /\
   honest_i ex_aok false (ex_tokC Pf) (ex_tokS Pf) 5 = HFail true true []) /\
  (MustFail_i ex_aok false (ex_tokC Op) (ex_tokS Rq) /\
   honest_i ex_aok false (ex_tokC Op) (ex_tokS Rq) 5 = HFail true true []).
Proof. exact token_refuted. Qed.
Print Assumptions C10_token_refuted.

(* Whatever the levels (any strings), lists, [tok] and sub-protocol behaviour: a
   successful handshake leaves every endpoint whose own Encryption or Integrity is
   REQUIRED with a really encrypting stream, both ends in the same reported state. *)
Theorem C10_required_protection_i : forall (aok : meth -> bool) (tok : bool) (C S : policy) (sid : N) (r : hok),
  honest_i aok tok C S sid = HOk r ->
  (requires_protection C = true -> k_creal r = true) /\
  (requires_protection S = true -> k_sreal r = true) /\
  k_creal r = k_sreal r /\ k_cenc r = k_creal r /\ k_senc r = k_sreal r.
Proof. exact honest_i_protection. Qed.
Print Assumptions C10_required_protection_i.

(* ---- non-vacuity ---------------------------------------------------------------- *)

(* server Integrity REQUIRED, no common cipher, nobody requires Encryption: explicit
   denial (before the fix the server failed at the end and the client saw a bare close) *)
Example C10_ex_integ_denied :
  honest_i ex_aok true (mkP Op Op Op [mCTB] [] 11) (mkP Op Op Rq [mCTB] [cAES] 22) 5 = HDenied
  /\ MustFail_i ex_aok true (mkP Op Op Op [mCTB] [] 11) (mkP Op Op Rq [mCTB] [cAES] 22).
Proof. split; [vm_compute; reflexivity|]. unfold MustFail_i. do 5 right. split; [right; reflexivity|].
  intros [[] _]. Qed.
(* client Integrity REQUIRED against NEVER: denied although a cipher is common *)
Example C10_ex_integ_never :
  honest_i ex_aok true (mkP Op Op Rq [mCTB] [cAES] 11) (mkP Op Op Nv [mCTB] [cAES] 22) 5 = HDenied.
Proof. vm_compute. reflexivity. Qed.
(* Integrity REQUIRED with a common cipher and Encryption NEVER/OPTIONAL: succeeds, AES-GCM on *)
Example C10_ex_integ_on :
  exists r, honest_i ex_aok true (mkP Pf Nv Rq [mCTB] [cAES] 11) (mkP Op Op Pf [mCTB] [cAES] 22) 5 = HOk r
            /\ k_creal r = true /\ k_sreal r = true /\ k_cauth r = true /\ k_ckey r = Some (KDH 11 22).
Proof. eexists. vm_compute. repeat split. Qed.
(* a client without a token that also lists FS: the pre-filter withdraws IDTOKENS, FS runs *)
Example C10_ex_prefilter_fallback :
  exists r, honest_i ex_aok false (mkP Rq Op Op [mIDT; mFS] [cAES] 11) (mkP Rq Op Op [mIDT; mFS] [cAES] 22) 5 = HOk r
            /\ k_rounds r = [(4, 4)]%Z /\ k_cmeth r = mFS /\ k_smeth r = mFS
            /\ ~ StaleOffer ex_aok false (mkP Rq Op Op [mIDT; mFS] [cAES] 11) (mkP Rq Op Op [mIDT; mFS] [cAES] 22).
Proof.
  eexists. split; [vm_compute; reflexivity|]. repeat split.
  intros [_ [N _]]. apply N. exists mFS. simpl. unfold Usable. repeat split; auto; discriminate.
Qed.
(* the stale cell with something to exhaust: TOKEN withdrawn, only the PASSWORD stub left *)
Example C10_ex_stale_exhausted :
  honest_i ex_aok false (mkP Rq Op Op [mTOK; mPW] [cAES] 11) (mkP Op Op Op [mPW; mTOK] [cAES] 22) 5
  = HFail true true [(512, 512); (0, -1)]%Z.
Proof. vm_compute. reflexivity. Qed.
