(* Props/C10.v — property theorems only; proofs live in Proofs/. *)
From Coq Require Import List NArith ZArith Bool.
From Cedar Require Import Model.Negotiate.
Theorem C10_bit_roundtrip_ctb : of_bit (bit mCTB) = Some mCTB.
Proof. reflexivity. Qed.
Print Assumptions C10_bit_roundtrip_ctb.
