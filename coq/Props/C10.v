(* Props/C10.v — property C10: honest peers negotiate by the policy table and
   agree on the result.  Only the decision table (written from the property
   text, independently of Model/Negotiate.v) and the theorems; proofs are in
   Proofs/C10.v. *)
From Coq Require Import List NArith ZArith Bool.
From Cedar Require Import Model.Negotiate Proofs.C10.
Import ListNotations.

(* ---- the decision table, from the property text ---------------------------- *)

Definition four_levels : list lvl := [Rq; Pf; Op; Nv].        (* REQUIRED PREFERRED OPTIONAL NEVER *)
Definition Req (a b : lvl) : Prop := a = Rq \/ b = Rq.       (* either side requires *)
Definition Nev (a b : lvl) : Prop := a = Nv \/ b = Nv.       (* either side forbids *)
Definition Pref (a b : lvl) : Prop := a = Pf \/ b = Pf.      (* either side prefers *)

(* a mutually usable method: listed by both, a real method (not NONE), and its
   sub-protocol works between these two peers *)
Definition MutualMethod (aok : meth -> bool) (cm sm : list meth) : Prop :=
  exists m, In m cm /\ In m sm /\ m <> mNONE /\ aok m = true.
(* a mutually supported cipher: AES-256-GCM, the cipher cedar implements *)
Definition MutualCipher (cc sc : list ciph) : Prop := In cAES cc /\ In cAES sc.

(* "fails exactly when one side requires what the other forbids or a required
   feature has no mutually supported method" *)
Definition MustFail (aok : meth -> bool) (C S : policy) : Prop :=
  (Req (p_auth C) (p_auth S) /\ Nev (p_auth C) (p_auth S)) \/
  (Req (p_enc C) (p_enc S) /\ Nev (p_enc C) (p_enc S)) \/
  (Req (p_auth C) (p_auth S) /\ ~ MutualMethod aok (p_meths C) (p_meths S)) \/
  (Req (p_enc C) (p_enc S) /\ ~ MutualCipher (p_ciphs C) (p_ciphs S)).

(* "authentication runs whenever either side requires it, or either prefers it
   while neither forbids it and a mutually usable method exists" *)
Definition AuthRuns (aok : meth -> bool) (C S : policy) : Prop :=
  Req (p_auth C) (p_auth S) \/
  (Pref (p_auth C) (p_auth S) /\ ~ Nev (p_auth C) (p_auth S) /\ MutualMethod aok (p_meths C) (p_meths S)).

(* what a successful handshake must look like on both ends *)
Definition Agreed (aok : meth -> bool) (C S : policy) (r : hok) : Prop :=
  (k_sauth r = true <-> AuthRuns aok C S) /\          (* authentication ran iff the table says so *)
  k_cauth r = k_sauth r /\                             (* both report the same authentication outcome *)
  (k_sauth r = true ->                                 (* ... and the method that really ran, a mutual one *)
     exists m, k_ran r = Some m /\ k_cmeth r = m /\ k_smeth r = m /\
               In m (p_meths C) /\ In m (p_meths S) /\ aok m = true) /\
  (k_sauth r = false -> k_ran r = None) /\
  (Req (p_enc C) (p_enc S) -> k_creal r = true) /\    (* encryption is on whenever either side requires it *)
  k_cenc r = k_creal r /\ k_senc r = k_sreal r /\      (* reported encryption = real state, on both ends *)
  k_creal r = k_sreal r /\
  k_csid r = k_ssid r /\                               (* same session identifier *)
  k_ckey r = k_skey r /\                               (* same key: messages flow both ways at once *)
  (k_creal r = true -> k_ckey r <> None).

(* ---- the theorem --------------------------------------------------------------

   For all 4^4 combinations of the four level names (finite: the bound is the
   membership in [four_levels]; proved by complete enumeration of the control
   flow, Proofs.C10.row_ok_all) and ALL method lists, cipher lists (induction),
   public keys and session ids:  the composed handshake of the two honest
   endpoints ends in the server's explicit denial exactly when the table says
   it must fail, and otherwise succeeds with both ends agreeing.

   Hypotheses:
   - Integrity is not REQUIRED (the property's matrix is authentication x
     encryption; REQUIRED integrity is enforced only at the end of the handshake,
     see notes/C10.md);
   - the server does not list BOTH names of the token method, TOKEN and IDTOKENS
     (they share the bit CAUTH_TOKEN; with both listed the two ends may report the
     two different names of the one method that ran: C10_alias_names_witness below);
   - between these two peers, a method both list works iff this build implements
     it (honest, correctly credentialed endpoints; PASSWORD is a stub). *)
Theorem C10_table : forall (aok : meth -> bool) (C S : policy) (sid : N),
  In (p_auth C) four_levels -> In (p_auth S) four_levels ->
  In (p_enc C) four_levels -> In (p_enc S) four_levels ->
  p_integ C <> Rq -> p_integ S <> Rq ->
  ~ (In mTOK (p_meths S) /\ In mIDT (p_meths S)) ->
  (forall m, In m (p_meths C) -> In m (p_meths S) -> m <> mNONE -> aok m = implemented m) ->
  (MustFail aok C S -> honest aok C S sid = HDenied) /\
  (~ MustFail aok C S -> exists r, honest aok C S sid = HOk r /\ Agreed aok C S r).
Proof. exact table_holds. Qed.
Print Assumptions C10_table.

(* Without any hypothesis (any levels incl. Integrity, any lists, any sub-protocol
   behaviour): whenever the composed handshake succeeds, an endpoint whose own
   Encryption or Integrity is REQUIRED has a really encrypting stream, both ends
   are in the same state and report it. *)
Theorem C10_required_protection : forall (aok : meth -> bool) (C S : policy) (sid : N) (r : hok),
  honest aok C S sid = HOk r ->
  (requires_protection C = true -> k_creal r = true) /\
  (requires_protection S = true -> k_sreal r = true) /\
  k_creal r = k_sreal r /\ k_cenc r = k_creal r /\ k_senc r = k_sreal r.
Proof. exact honest_protection. Qed.
Print Assumptions C10_required_protection.

(* the retry loop of the bitmask exchange never needs more rounds than the
   client has methods, and ends with a method both sides list *)
Theorem C10_retry_loop : forall aok (sm cms : list meth) (g : meth),
  ~ (In mTOK sm /\ In mIDT sm) -> (forall m, In m cms -> In m sm) ->
  (forall m, In m cms -> m <> mNONE -> aok m = implemented m) ->
  In g cms -> implemented g = true -> g <> mNONE ->
  exists rounds ms, auth_loop (S (length cms)) aok sm cms (mask cms) = (rounds, LOk ms)
                    /\ In ms cms /\ aok ms = true /\ offered_under cms (bit ms) = Some ms.
Proof.
  intros aok sm cms g H1 H2 H3 H4 H5 H6.
  destruct cms as [|c0 r0]; [contradiction|].
  exact (loop_ok aok sm (c0 :: r0) H1 H2 H3 g H4 H5 H6 (length r0) (mask (c0 :: r0))
           (inv_mask (c0 :: r0) g H4 (implemented_bit g H5 H6))).
Qed.
Print Assumptions C10_retry_loop.

(* ... and, whatever the sub-protocols do (arbitrary [aok]) and whatever the two
   lists are, it terminates within that many rounds: the model's fuel is never
   exhausted (each failed round withdraws one bit of the client's bitmask) *)
Theorem C10_loop_total : forall (aok : meth -> bool) (sm cms : list meth),
  snd (auth_loop (S (length cms)) aok sm cms (mask cms)) <> LFuel.
Proof. exact loop_never_out_of_fuel. Qed.
Print Assumptions C10_loop_total.

(* ---- non-vacuity: realistic configurations satisfying the hypotheses -------- *)

Definition ex_aok := implemented.
(* client OPTIONAL/PREFERRED against server REQUIRED/OPTIONAL, server prefers the
   unimplemented PASSWORD: one failed round, then CLAIMTOBE; both report
   authentication (the cell the client used to misreport) and encryption. *)
Example C10_ex_retry :
  honest ex_aok (mkP Op Pf Op [mCTB; mPW] [cAES] 11) (mkP Rq Op Op [mPW; mCTB] [cAES] 22) 5 =
  HOk (mkOk [(514, 512); (2, 2)]%Z (Some mCTB) true true true true mCTB mCTB true true
         (Some (KDH 11 22)) (Some (KDH 11 22)) 5 5).
Proof. vm_compute. reflexivity. Qed.
(* REQUIRED against NEVER is denied explicitly *)
Example C10_ex_denied :
  honest ex_aok (mkP Rq Op Op [mCTB] [cAES] 11) (mkP Nv Op Op [mCTB] [cAES] 22) 5 = HDenied.
Proof. vm_compute. reflexivity. Qed.
(* only an unimplemented method in common, both PREFERRED: proceeds unauthenticated *)
Example C10_ex_fallback :
  exists r, honest ex_aok (mkP Pf Nv Op [mPW] [] 11) (mkP Pf Op Op [mPW] [cAES] 22) 5 = HOk r
            /\ k_cauth r = false /\ k_sauth r = false /\ k_creal r = false.
Proof. eexists. vm_compute. repeat split. Qed.

(* why the alias hypothesis is there: a server listing both names of the token
   method against a client listing IDTOKENS authenticates (the one token exchange
   runs), but the server reports TOKEN and the client IDTOKENS.  The same run on
   the real code is part of every check (shape "token-alias-names"). *)
Example C10_alias_names_witness :
  exists r, honest ex_aok (mkP Rq Op Op [mIDT] [cAES] 11) (mkP Op Op Op [mTOK; mIDT] [cAES] 22) 5 = HOk r
            /\ k_cauth r = true /\ k_sauth r = true /\ k_ran r = Some mTOK
            /\ k_smeth r = mTOK /\ k_cmeth r = mIDT.
Proof. eexists. vm_compute. repeat split. Qed.
(* IDTOKENS alone on both sides (the shape that could never succeed before the
   bit was corrected): one round, bit 2048 *)
Example C10_ex_idtokens :
  exists r, honest ex_aok (mkP Rq Op Op [mIDT] [cAES] 11) (mkP Rq Op Op [mIDT] [cAES] 22) 5 = HOk r
            /\ k_rounds r = [(2048, 2048)]%Z /\ k_cmeth r = mIDT /\ k_smeth r = mIDT.
Proof. eexists. vm_compute. repeat split. Qed.
