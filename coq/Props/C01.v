(* Props/C01.v — property theorems only; proofs in Proofs/FrameBase.v, Proofs/C01Stream.v. *)
From Coq Require Import List NArith.
From Cedar Require Import Lib.Bytes Lib.Sym gen.Consts Model.Frame Model.FrameSpec Proofs.FrameBase Proofs.C01Stream.
Import ListNotations.
Local Open Scope N_scope.

(* Whatever well-formed history h the sender runs (any messages, any chunking into buffered
   writes or direct partial frames, plaintext or AES-GCM), if every send is accepted then the
   paired receiver returns exactly those messages, same bytes, same boundaries, no error,
   nothing left over - through ReceiveCompleteMessage and through the Message-layer reader. *)
Theorem C01_roundtrip_stream :
  forall api, api = ApiComplete \/ api = ApiMessage ->
  forall (h : list msg) (A B A1 : stream) (fs rest : list frame),
    duplex A B -> send_all A h = (A1, SOk fs) ->
    exists B1, recv_upto api B (length h) (fs ++ rest) = (B1, map payload_of h, None, rest) /\ duplex A1 B1.
Proof. exact roundtrip_simple. Qed.
Print Assumptions C01_roundtrip_stream.

(* A frame the sending side accepts is never rejected by the paired receiver. *)
Theorem C01_accept_implies_accept :
  forall (A B : stream) (d : bytes) (fl : N) (A1 : stream) (f : frame),
    duplex A B -> fl = EndFlagPartial \/ fl = EndFlagComplete ->
    send_frame A d fl = (A1, SOk f) ->
    exists B1, recv_frame_we B f = (B1, SOk (d, fl)).
Proof. exact accept_implies_accept. Qed.
Print Assumptions C01_accept_implies_accept.
