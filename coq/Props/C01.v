(* Props/C01.v — property theorems only; proofs in Proofs/C01*.v (in progress). *)
From Coq Require Import List NArith.
From Cedar Require Import Lib.Bytes Lib.Sym Model.Frame.
Theorem C01_open_seal : forall k n a p, open k n a (seal k n a p) = Some p.
Proof. exact open_seal. Qed.
Print Assumptions C01_open_seal.
