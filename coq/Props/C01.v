(* Props/C01.v — property theorems only; proofs in Proofs/FrameBase.v, Proofs/C01Stream.v. *)
From Coq Require Import List NArith.
From Cedar Require Import Lib.Bytes Lib.Sym gen.Consts Model.Frame Model.FrameSpec Proofs.FrameBase Proofs.C01Stream Proofs.C01Sre.
From Cedar Require Import Model.Msg Model.TypedStream Proofs.C14Writer Proofs.C01Typed Proofs.C01TypedStream.
From Cedar Require Import Model.File Proofs.C01File.
Import ListNotations.
Local Open Scope N_scope.

(* Whatever well-formed history h the sender runs (any messages, any chunking into buffered
   writes or direct partial frames, plaintext or AES-GCM), if every send is accepted then the
   paired receiver returns exactly those messages, same bytes, same boundaries, no error,
   nothing left over - through ReceiveCompleteMessage and through the Message-layer reader. *)
Theorem C01_roundtrip_stream :
  forall api, api = ApiComplete \/ api = ApiMessage ->
  forall (h : list msg) (A B A1 : stream) (fs rest : list frame),
    duplex A B -> send_all A h = (A1, SOk fs) ->
    exists B1, recv_upto api B (length h) (fs ++ rest) = (B1, map payload_of h, None, rest) /\ duplex A1 B1.
Proof. exact roundtrip_simple. Qed.
Print Assumptions C01_roundtrip_stream.

(* A frame the sending side accepts is never rejected by the paired receiver. *)
Theorem C01_accept_implies_accept :
  forall (A B : stream) (d : bytes) (fl : N) (A1 : stream) (f : frame),
    duplex A B -> fl = EndFlagPartial \/ fl = EndFlagComplete ->
    send_frame A d fl = (A1, SOk f) ->
    exists B1, recv_frame_we B f = (B1, SOk (d, fl)).
Proof. exact accept_implies_accept. Qed.
Print Assumptions C01_accept_implies_accept.

(* The same through StartMessageRead / ReadMessageBytes / EndMessageRead, for a receiver that
   is not in the middle of a message. *)
Theorem C01_roundtrip_start_read_end :
  forall (h : list msg) (A B A1 : stream) (fs rest : list frame),
    duplex A B -> rclean B -> send_all A h = (A1, SOk fs) ->
    exists B1, recv_upto ApiStartReadEnd B (length h) (fs ++ rest) = (B1, map payload_of h, None, rest) /\
               duplex A1 B1 /\ rclean B1.
Proof. exact roundtrip_sre. Qed.
Print Assumptions C01_roundtrip_start_read_end.

(* Both directions, any interleaving of whole histories: the receiver never raises an error,
   and unless a SEND is refused every phase delivers exactly what was sent. *)
Theorem C01_roundtrip_bidirectional :
  forall api, api = ApiComplete \/ api = ApiMessage ->
  forall (phases : list (bool * list msg)) (A B : stream), duplex A B ->
    match session api A B phases with
    | SessDone A' B' out => out = map (fun p => map payload_of (snd p)) phases /\ duplex A' B'
    | SessSendRefused => True
    | SessRecvFailed => False
    end.
Proof. exact session_roundtrip. Qed.
Print Assumptions C01_roundtrip_bidirectional.

(* ---- the typed-message layer ------------------------------------------------------------ *)
(* The typed layer accepts values of ANY length: for every sequence of PutChar / PutInt /
   PutString / PutStringBytes / PutBytes / FlushFrame calls (the model writer has no failure
   outcome) every frame it hands to the stream carries at most MaxMessageSize bytes ... *)
Theorem C01_typed_frames_within_limit :
  forall enc (ops : list wop),
    Forall (fun f : mframe => lenN (fst f) <= MaxMessageSize) (w_out (write_ops enc ops)).
Proof. exact typed_frames_within_limit. Qed.
Print Assumptions C01_typed_frames_within_limit.

(* ... the frames carry exactly the encodings, only the last one with EOM ... *)
Theorem C01_typed_frames_carry_everything :
  forall enc (ops : list wop),
    concat (map fst (w_out (write_ops enc ops))) = concat (map (wop_bytes enc) ops) /\
    exists fs last, w_out (write_ops enc ops) = fs ++ [(last, true)] /\
                    Forall (fun f : mframe => snd f = false) fs.
Proof. exact typed_frames_carry_everything. Qed.
Print Assumptions C01_typed_frames_carry_everything.

(* ... so the stream never refuses one for its size (the only possible refusal is the nonce
   counter guard), and the peer's Message reader is handed exactly those frames, plaintext and
   AES-GCM alike; C14_roundtrip then gives the values back. *)
Theorem C01_typed_over_stream :
  forall enc (ops : list wop) (A B : stream),
    duplex A B ->
    match send_mframes A (w_out (write_ops enc ops)) with
    | (A1, SOk wire) =>
        exists B1, recv_mframes B (length (w_out (write_ops enc ops))) wire = (B1, Some (w_out (write_ops enc ops))) /\
                   duplex A1 B1
    | (_, SErr e) => e = ECounterMax
    end.
Proof. intros enc ops A B D. apply typed_over_stream; [exact D|apply typed_frames_within_limit]. Qed.
Print Assumptions C01_typed_over_stream.

(* non-vacuity: two fresh plaintext streams, and two freshly keyed streams, are paired *)
Example C01_new_streams_paired : duplex new_stream new_stream /\ rclean new_stream.
Proof.
  split; [split; constructor; try reflexivity; try apply dsim_refl; intro H; inversion H|repeat split].
Qed.
Example C01_example_history :
  let h := [Buffered [[x41; x42]; [x43]]; Direct [[x44]] [x45; x46]; Buffered []] in
  match send_all new_stream h with
  | (_, SOk fs) => snd (fst (fst (recv_upto ApiComplete new_stream 3 fs))) = map payload_of h
  | _ => False
  end.
Proof. vm_compute. reflexivity. Qed.

(* File transfer (Stream.PutFile / Stream.GetFile): the size, the content in pieces of the read
   buffer's size and the end marker travel as messages; whatever the content (below 2^63
   bytes), the file GetFile writes is the file PutFile read, on plaintext and AES-GCM streams
   alike, nothing is left unread, and the two ends stay paired for further traffic. *)
Theorem C01_file_roundtrip :
  forall (A B : stream) (d : bytes) (A' : stream) (fs : list frame),
    duplex A B -> lenN d < 9223372036854775808 -> put_file A d = (A', 0, fs) ->
    exists B', get_file B fs = (B', SOk d, []) /\ duplex A' B'.
Proof. exact file_roundtrip. Qed.
Print Assumptions C01_file_roundtrip.
