(* Props/C19.v — property theorems only; proofs live in Proofs/C19.v.
   C19: cancellation and deadlines always unblock stream operations (partial:
   scheduling, wall-clock promptness and "Close unblocks a blocked Read/Write"
   are outside the model; see notes/C19.md). *)
From Coq Require Import List Bool Arith.
From Cedar Require Import Model.Cancel gen.FactsC19 Proofs.C19.
Import ListNotations.

(* Every ordering of {cancel, complete, stall}: the primitive returns, unless the
   peer stalls and no cancellation ever fires. *)
Theorem C19_primitive_returns : forall sh cancellable ct p race,
  shape_good sh = true ->
  (p = Stalls -> cancellable = true /\ ct <> None) ->
  exists r c io, prim sh cancellable ct p race = Returned r c io.
Proof. exact prim_returns. Qed.
Print Assumptions C19_primitive_returns.

(* Cancellation before the blocking call's completion was acknowledged (points
   0..3), or at any time while the peer stalls: the context's own error; the
   connection is closed unless the call was never started (point 0).
   Assumption built into [prim]: closing a net.Conn unblocks a blocked call. *)
Theorem C19_primitive_cancel : forall sh t p race,
  shape_good sh = true ->
  (t <= 3 \/ p = Stalls) ->
  prim sh true (Some t) p race =
    if Nat.eqb t 0 then Returned RCtxErr false false else Returned RCtxErr true true.
Proof. exact prim_cancel. Qed.
Print Assumptions C19_primitive_cancel.

(* A never-cancellable context returns exactly what the blocking call returns. *)
Theorem C19_primitive_background : forall sh ct p race,
  shape_good sh = true ->
  prim sh false ct p race =
    match p with Completes b => Returned (of_bres b) false true | Stalls => Hangs end.
Proof. exact prim_background. Qed.
Print Assumptions C19_primitive_background.

(* No cancellation, or one that arrives after the operation finished: the call's
   own result, connection left open. *)
Theorem C19_primitive_no_cancel : forall sh cancellable ct b race,
  shape_good sh = true ->
  (ct = None \/ exists t, ct = Some t /\ 4 <= t) ->
  prim sh cancellable ct (Completes b) race = Returned (of_bres b) false true.
Proof. exact prim_no_cancel. Qed.
Print Assumptions C19_primitive_no_cancel.

(* The structural features are necessary, not just sufficient. *)
Theorem C19_shape_needed : forall sh,
  (forall t p race, (t <= 3 \/ p = Stalls) ->
     exists c io, prim sh true (Some t) p race = Returned RCtxErr c io /\ (c = true \/ io = false)) ->
  (forall p race, exists c, prim sh true (Some 0) p race = Returned RCtxErr c false) ->
  shape_good sh = true.
Proof. exact shape_needed. Qed.
Print Assumptions C19_shape_needed.

(* For ALL step lists and every position of the stall: healthy steps, then a
   step where the peer stalls and the cancellation fires, then arbitrary steps:
   no hang, no I/O after the stalled step, connection closed, and an error
   result whenever some step from the stalled one on propagates its error. *)
Theorem C19_handshake : forall sh fin pre s post tc,
  shape_good sh = true ->
  forallb healthy pre = true ->
  st_peer s = Stalls -> st_cancel s = Some tc -> 1 <= tc ->
  let t := run sh true false false fin false (pre ++ s :: post) in
  t_res t <> HHang /\
  (exists n, t_io t = repeat true (List.length pre) ++ true :: repeat false n) /\
  t_closed t = true /\
  (guarded (s :: post) fin = true -> t_res t = HErr).
Proof. exact run_stall_cancel. Qed.
Print Assumptions C19_handshake.

(* Cancellation before the operation starts: it fails without touching the connection. *)
Theorem C19_precancelled : forall sh fin ps,
  shape_good sh = true ->
  let t := run sh true true false fin false ps in
  t_res t <> HHang /\ forallb negb (t_io t) = true /\
  (guarded ps fin = true -> ps <> [] -> t_res t = HErr).
Proof. exact run_precancelled. Qed.
Print Assumptions C19_precancelled.

(* A context that can never be cancelled adds no failure mode. *)
Theorem C19_background_sequence : forall sh cancelled sw fin closed ps,
  shape_good sh = true ->
  run sh false cancelled sw fin closed ps = run_plain sw fin closed ps.
Proof. exact run_background. Qed.
Print Assumptions C19_background_sequence.

(* Obligation over the facts regenerated from /repo on this run: both
   primitives have the modelled structure; raw connection I/O occurs only inside
   them (or on the TLS layer that carries the caller's context); every call
   that reaches them passes the caller's context and does not lose the error. *)
Theorem C19_facts : facts_ok fn_names shape_read shape_write raw_io io_sites ctx_inits = true.
Proof. exact facts_hold. Qed.
Print Assumptions C19_facts.

(* ... and in the caller packages server/, client/, ccb/ every call that reaches
   stream I/O hands down the caller's context (a context.WithoutCancel / Background
   substitution anywhere between an exported entry point and the stream fails here). *)
Theorem C19_facts_callers : callers_ok fn_names ctx_inits caller_sites = true.
Proof. exact facts_callers. Qed.
Print Assumptions C19_facts_callers.

(* No function of stream/, message/, security/, server/, client/, ccb/ that has a context
   in scope calls context.Background / TODO / WithoutCancel (empty allow-list): the
   caller's cancellation cannot be stripped on the way to stream I/O, not even by
   reassigning the context variable. *)
Theorem C19_facts_no_ctx_substitution : substs_ok fn_names ctx_substs = true.
Proof. exact facts_no_ctx_substitution. Qed.
Print Assumptions C19_facts_no_ctx_substitution.

Theorem C19_facts_sites : forall s, In s io_sites ->
  ctx_ok ctx_inits (s_ctx s) = true /\ err_ok (s_err s) = true.
Proof. exact facts_sites. Qed.
Print Assumptions C19_facts_sites.

Theorem C19_facts_raw : forall r, In r raw_io -> r_class r = RConn -> is_prim fn_names (r_fn r) = true.
Proof. exact facts_raw. Qed.
Print Assumptions C19_facts_raw.

(* Non-vacuity: a realistic schedule satisfying the hypotheses of C19_handshake
   (three healthy steps, a stall with cancellation during the blocking call, a
   swallowed and then a propagated step), evaluated. *)
Example C19_handshake_example :
  let h := mk_step Propagate (Completes BOk) None false in
  let s := mk_step Swallow Stalls (Some 2) false in
  let post := [mk_step Swallow (Completes BOk) None true; mk_step Propagate Stalls None false] in
  run good_shape true false false false false ([h; h; h] ++ s :: post) =
    mk_trace HErr [true; true; true; true; false; false] true.
Proof. vm_compute. reflexivity. Qed.

(* and the shape translated from the source is the one the theorems need *)
Example C19_shapes_from_source : shape_good shape_read = true /\ shape_good shape_write = true.
Proof. exact facts_shapes. Qed.
