(* Props/C13.v — property theorems only; proofs live in Proofs/. *)
From Coq Require Import List NArith ZArith.
From Cedar Require Import Lib.Bytes Model.Msg Model.Decode.
Theorem C13_go_make_negative_panics : forall n, (n < 0)%Z -> go_make n = None.
Proof. intros n H. unfold go_make. destruct (Z.ltb_spec n 0); [reflexivity|contradiction (Z.lt_irrefl n); eapply Z.lt_le_trans; eauto]. Qed.
Print Assumptions C13_go_make_negative_panics.
