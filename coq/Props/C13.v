(* Props/C13.v — property theorems only; proofs live in Proofs/C13.v.

   Reading guide.  [reader] is a Message in decode mode: the bytes already
   buffered, the frames still to come, and [r_alloc], the bytes requested from
   make()/append so far.  [avail r] = buffered + still-to-come bytes, so
   [avail r - avail r'] is what a call consumed.  A Go run-time failure is the
   explicit outcome MPanic / FPanic / None; errors are MErr / FErr / Some None.
   Termination needs no theorem: every model function is a structural
   recursion whose fuel is derived from the input still available (bytes or
   frames), so no decoder can run longer than the input it is given; the only
   unbounded recursion of the code (frame reassembly) recurses on the input. *)
From Coq Require Import List NArith ZArith.
From Cedar Require Import Lib.Bytes gen.Consts Model.Msg Model.Decode Model.Sinful Model.Version gen.FactsC13 Proofs.C13 Proofs.C13ad Proofs.C13raw Proofs.C13sinful Proofs.C13version Proofs.C13sites.
From Cedar Require Import Model.Addr Proofs.C13addr Model.PassSock Proofs.C13passsock Model.Watch Proofs.C13watch Proofs.C13watchrt.
Import ListNotations.
Local Open Scope N_scope.

(* No sequence of decoder calls (typed strings, capped strings, skip, raw bytes, the
   bounded / unbounded ClassAd reader, SkipClassAdRaw, exchangeKey, SSL receiveMessage,
   getIDString), on ANY frame list, in either encryption mode, for ANY behaviour of the
   external expression parser, panics. *)
Theorem C13_no_panic :
  forall (parse : N -> bytes -> bool) (enc : bool) (ds : list decoder) (r : reader),
    snd (run_decoders parse enc ds r) <> MPanic.
Proof. exact no_panic_seq. Qed.
Print Assumptions C13_no_panic.

Theorem C13_no_panic_classad_raw :
  forall (enc : bool) (r : reader), snd (get_classad_raw enc r) <> MPanic.
Proof. exact get_classad_raw_np. Qed.
Print Assumptions C13_no_panic_classad_raw.

(* Allocation is bounded by the bytes consumed: c1 = 1, c2 = 0 at the message level. *)
Theorem C13_alloc_bounded :
  forall (parse : N -> bytes -> bool) (enc : bool) (ds : list decoder) (r : reader),
    let r' := fst (run_decoders parse enc ds r) in
    r_alloc r <= r_alloc r' /\ avail r' <= avail r /\
    r_alloc r' + avail r' <= r_alloc r + avail r.
Proof. exact alloc_bounded_seq. Qed.
Print Assumptions C13_alloc_bounded.

(* GetClassAdRaw also builds the ad's text: one more byte per byte consumed, one byte per
   expression (at most avail r + 3 of them) and 16 per type line. *)
Theorem C13_alloc_bounded_classad_raw :
  forall (enc : bool) (r : reader),
    let r' := fst (get_classad_raw enc r) in
    r_alloc r <= r_alloc r' /\ avail r' <= avail r /\
    r_alloc r' + 2 * avail r' <= r_alloc r + 3 * avail r + 35.
Proof. exact get_classad_raw_alloc. Qed.
Print Assumptions C13_alloc_bounded_classad_raw.

(* A capped string reader consumes at most cap (+8 for the length prefix) bytes, never
   returns more than cap bytes without an error, and does not ask the stream for another
   frame while that many bytes are already buffered. *)
Theorem C13_cap :
  forall (enc : bool) (cap : Z) (r : reader), (0 < cap)%Z ->
    let x := get_string_max enc cap r in
    avail r <= avail (fst x) + Z.to_N cap + (if enc then 8 else 0) /\
    (forall s, snd x = MOk s -> lenN s <= Z.to_N cap) /\
    (Z.to_N cap + (if enc then 8 else 0) <= lenN (r_buf r) -> r_in (fst x) = r_in r).
Proof. exact cap_string. Qed.
Print Assumptions C13_cap.

(* Complement of the hypothesis cap > 0 (hypothesis audit): a non-positive cap reads nothing and
   returns "", and for the ClassAd reader a non-positive cap is exactly "no limit" (GetClassAd). *)
Theorem C13_cap_nonpositive :
  (forall (enc : bool) (cap : Z) (r : reader), (cap <= 0)%Z -> get_string_max enc cap r = (r, MOk [])) /\
  (forall parse (enc : bool) (cap : Z) (r : reader), (cap <= 0)%Z ->
     get_classad parse enc cap r = get_classad parse enc 0 r).
Proof. split; [exact string_cap_nonpositive|exact classad_cap_nonpositive]. Qed.
Print Assumptions C13_cap_nonpositive.

(* Every string of a bounded ClassAd (expressions, the ZKM secret field, MyType,
   TargetType) is read under the remaining budget, and nothing is read once it is spent. *)
Theorem C13_cap_classad_read :
  forall (enc : bool) (cap total : Z) (r : reader), (0 < cap)%Z ->
    let x := budget_read enc cap total r in
    ((cap - total <= 0)%Z -> x = (r, MErr MOther)) /\
    ((0 < cap - total)%Z ->
       avail r <= avail (fst x) + Z.to_N (cap - total) + (if enc then 8 else 0) /\
       (forall s, snd x = MOk s -> lenN s <= Z.to_N (cap - total)) /\
       (Z.to_N (cap - total) + (if enc then 8 else 0) <= lenN (r_buf r) -> r_in (fst x) = r_in r)).
Proof. exact cap_classad_read. Qed.
Print Assumptions C13_cap_classad_read.

(* The whole bounded ClassAd on a cleartext stream (count, every expression, secret
   fields, MyType, TargetType, for ANY parser behaviour): at most cap + 8 bytes are
   consumed, whatever the outcome. *)
Theorem C13_cap_classad_clear :
  forall (parse : N -> bytes -> bool) (cap : Z), (0 < cap)%Z -> forall r : reader,
    avail r <= avail (fst (get_classad parse false cap r)) + Z.to_N cap + 8.
Proof. exact get_classad_clear_cap. Qed.
Print Assumptions C13_cap_classad_clear.

(* The same on an encrypted stream, where every string carries an 8-byte length prefix
   that is not charged to the budget: at most 6*cap + 32 bytes. *)
Theorem C13_cap_classad_enc :
  forall (parse : N -> bytes -> bool) (cap : Z) (r : reader), (0 < cap)%Z ->
    avail r <= avail (fst (get_classad parse true cap r)) + 6 * Z.to_N cap + 32.
Proof. exact get_classad_enc_cap. Qed.
Print Assumptions C13_cap_classad_enc.

(* Frames on a raw connection, cleartext or AES-GCM (any [open_] that does not lengthen
   its input): one frame, readNextFrame and ReceiveCompleteMessage never panic, never
   consume more than is there, and allocate at most 16 bytes per byte consumed plus one
   frame buffer (5 + MaxMessageSize + 32 + 69). *)
Theorem C13_frames_total_bounded :
  forall (encrypted : bool) (open_ : N -> bytes -> bytes -> option bytes),
    (forall k h b p, open_ k h b = Some p -> lenN p <= lenN b) ->
    forall (k : N) (c : conn),
    let post := fun (y : conn * fres (bytes * N)) =>
      snd y <> FPanic /\ lenN (c_in (fst y)) <= lenN (c_in c) /\
      c_alloc (fst y) + 16 * lenN (c_in (fst y)) <= c_alloc c + 16 * lenN (c_in c) + frame_const in
    post (recv_frame encrypted open_ k c) /\
    post (read_next_frame encrypted open_ k c) /\
    post (receive_complete_message encrypted open_ k c).
Proof. exact frames_total_bounded. Qed.
Print Assumptions C13_frames_total_bounded.
(* Reassembly terminates because it consumes its input: the model's loops are run with
   |connection| + 1 steps of fuel, and ANY larger fuel gives the same result, so the
   fuel-exhausted branch is unreachable and the model is the (fuel-free) Go loop. *)
Theorem C13_reassembly_fuel_sufficient :
  forall (encrypted : bool) (open_ : N -> bytes -> bytes -> option bytes),
    (forall k h b p, open_ k h b = Some p -> lenN p <= lenN b) ->
    forall (k : N) (c : conn) (m : nat),
      read_next_loop encrypted open_ (frames_fuel c + m) k c [] = read_next_frame encrypted open_ k c /\
      recv_complete_loop encrypted open_ (frames_fuel c + m) k c [] = receive_complete_message encrypted open_ k c.
Proof. exact reassembly_fuel_sufficient. Qed.
Print Assumptions C13_reassembly_fuel_sufficient.
(* The byte-at-a-time cleartext string loops (GetString, GetStringWithMaxSize, SkipString)
   are run with more than [avail r] steps of fuel (the definitions use avail r + 2); with
   that much fuel any additional fuel gives the same result: every iteration that
   continues has consumed one byte, so the fuel-exhausted branch is unreachable. *)
Theorem C13_string_fuel_sufficient :
  forall (r : reader) (fuel m : nat), (N.to_nat (avail r) < fuel)%nat ->
    (forall acc left, get_cstr_max_loop (fuel + m) r acc left = get_cstr_max_loop fuel r acc left) /\
    skip_cstr_loop (fuel + m) r = skip_cstr_loop fuel r /\
    (forall acc, get_cstr_loop (fuel + m) r acc = get_cstr_loop fuel r acc).
Proof. exact string_fuel_sufficient. Qed.
Print Assumptions C13_string_fuel_sufficient.
(* ... and the fuel Msg.get_cstr is defined with satisfies that hypothesis. *)
Theorem C13_get_cstr_fuel_independent :
  forall (r : reader) (m : nat), get_cstr_loop (S (S (N.to_nat (total_bytes r))) + m) r [] = get_cstr r.
Proof. exact get_cstr_fuel_independent. Qed.
Print Assumptions C13_get_cstr_fuel_independent.
(* the hypothesis is satisfiable by a decryption that accepts everything *)
Example C13_frames_hypothesis_satisfiable :
  exists open_ : N -> bytes -> bytes -> option bytes,
    (forall k h b p, open_ k h b = Some p -> lenN p <= lenN b) /\
    snd (receive_complete_message true open_ 0
           {| c_in := [x00; x00; x00; x00; x02; x61; x62; x01; x00; x00; x00; x01; x63]; c_alloc := 0 |})
    = FOk ([x61; x62; x63], 2).
Proof.
  exists (fun _ _ b => Some b). split.
  - intros k h b p H. inversion H; subst. apply N.le_refl.
  - vm_compute. reflexivity.
Qed.

(* NewStreamWithCryptoState's blob parser: no slice expression can go out of range, and an
   accepted blob costs at most 32 + |blob| bytes. *)
Theorem C13_crypto_state_total :
  forall blob : bytes,
    parse_crypto_state blob <> None /\
    (forall s a, parse_crypto_state blob = Some (Some (s, a)) -> a <= 32 + lenN blob).
Proof. exact crypto_state_total. Qed.
Print Assumptions C13_crypto_state_total.

Theorem C13_claim_id_total : forall c : bytes, parse_claim_id_strict c <> None.
Proof. exact parse_claim_id_strict_total. Qed.
Print Assumptions C13_claim_id_total.

Theorem C13_session_info_total : forall info : bytes, import_session_info_attributes info <> None.
Proof. exact import_session_info_attributes_total. Qed.
Print Assumptions C13_session_info_total.

(* The Panic outcome is not vacuous: the model of GetString before the fix panics. *)
Theorem C13_unfixed_get_lstr_refuted : exists fs, snd (get_lstr_unfixed (reader_of fs)) = MPanic.
Proof. exact unfixed_get_lstr_panics. Qed.
Print Assumptions C13_unfixed_get_lstr_refuted.

(* ---- addresses.ParseSinful (Model/Sinful.v) -------------------------------------------- *)
(* No slice expression of ParseSinful, splitHostPort, parseSinfulParams or SplitCCBContact
   can go out of range, for ANY byte string (valid UTF-8 or not). *)
Theorem C13_sinful_total : forall addr : bytes, parse_sinful addr <> None.
Proof. exact parse_sinful_total. Qed.
Print Assumptions C13_sinful_total.

(* Everything ParseSinful returns is cut out of its input: the primary address and the query
   are disjoint pieces of it, host and port are the two sides of one colon of the primary (or
   both empty), there are at most (separators + 1) parameters, every decoded key/value pair is
   no longer than the query, and every CCB contact has a non-empty broker and id.  The model
   functions are single structural passes (fuel = length where a rune can be 2-3 bytes), so
   the work is linear in the input. *)
Theorem C13_sinful_bounded :
  forall (addr : bytes) (r : sinful), parse_sinful addr = Some r ->
  exists q,
    cut_query (sinful_input addr) = Some (sf_primary r, q) /\
    lenN (sf_primary r) + lenN q <= lenN addr /\
    ((sf_host r = [] /\ sf_port r = []) \/ lenN (sf_host r) + lenN (sf_port r) + 1 = lenN (sf_primary r)) /\
    (length (sf_params r) <= count_sep is_param_sep q + 1)%nat /\
    Forall (fun kv => lenN (fst kv) + lenN (snd kv) <= lenN q) (sf_params r) /\
    Forall (fun t => fst (fst t) <> [] /\ snd (fst t) <> []) (sf_ccb r).
Proof. exact parse_sinful_bounded. Qed.
Print Assumptions C13_sinful_bounded.

(* The only error ParseSinful can return is a malformed %XX escape: a query without '%'
   always parses.  (The code validates nothing else: host and port are not checked.) *)
Theorem C13_sinful_error_needs_percent :
  forall (addr : bytes) (r : sinful) (q : bytes),
    parse_sinful addr = Some r -> cut_query (sinful_input addr) = Some (sf_primary r, q) ->
    no_percent q -> sf_err r = false.
Proof. exact parse_sinful_error_needs_percent. Qed.
Print Assumptions C13_sinful_error_needs_percent.

(* non-vacuity: a full sinful string, and an error that still reports the primary address *)
Example C13_sinful_example :
  (* "<h:1?sock=a%41&ccbid=b:2%23x&noUDP>" *)
  option_map (fun r => (sf_err r, sf_host r, sf_port r, sf_sock r, sf_noudp r, sf_ccb r))
    (parse_sinful [x3c; x68; x3a; x31; x3f; x73; x6f; x63; x6b; x3d; x61; x25; x34; x31; x26; x63; x63; x62; x69; x64; x3d;
                   x62; x3a; x32; x25; x32; x33; x78; x26; x6e; x6f; x55; x44; x50; x3e])
  = Some (false, [x68], [x31], [x61; x41], true, [([x62; x3a; x32], [x78], [x62; x3a; x32; x23; x78])])
  /\ (* "<h:1?a=%zz>" *)
  option_map (fun r => (sf_err r, sf_primary r, sf_params r))
    (parse_sinful [x3c; x68; x3a; x31; x3f; x61; x3d; x25; x7a; x7a; x3e])
  = Some (true, [x68; x3a; x31], []).
Proof. split; vm_compute; reflexivity. Qed.

(* ---- version.Parse / AtLeast / message BuiltSinceVersion (Model/Version.v) --------------- *)
(* The model has no partial operation (Atoi guards its own s[0]), so totality is by
   construction.  An accepted version has all three components inside int64 (a major or
   minor that overflows is refused; an overflowing third component is clamped, a malformed
   one reads as 0), and comes from one token of the input. *)
Theorem C13_version_parse_sound :
  forall (s : bytes) (a b c : Z), version_parse s = Some (a, b, c) ->
    in_int64 a /\ in_int64 b /\ in_int64 c /\
    exists f, In f (fields_by is_version_sep s []) /\ version_of_field f = Some (a, b, c) /\ lenN f <= lenN s.
Proof. exact version_parse_sound. Qed.
Print Assumptions C13_version_parse_sound.

Theorem C13_version_parse_work :
  forall s : bytes, (length (fields_by is_version_sep s []) <= count_sep is_version_sep s + 1)%nat.
Proof. exact version_parse_work. Qed.
Print Assumptions C13_version_parse_work.

(* AtLeast is a total preorder (the lexicographic order) and the ClassAd writer's
   BuiltSinceVersion gate is the same relation. *)
Theorem C13_version_order :
  (forall v, at_least v v = true) /\
  (forall u v w, at_least u v = true -> at_least v w = true -> at_least u w = true) /\
  (forall u v, at_least u v = true \/ at_least v u = true) /\
  (forall u v, built_since u v = at_least u v).
Proof. exact at_least_order. Qed.
Print Assumptions C13_version_order.

Example C13_version_example :
  (* "$CondorVersion: 25.4.0 2025-11-01 $" and "1.2.99999999999999999999" *)
  version_parse [x24; x43; x6f; x6e; x64; x6f; x72; x56; x65; x72; x73; x69; x6f; x6e; x3a; x20; x32; x35; x2e; x34; x2e; x30;
                 x20; x32; x30; x32; x35; x2d; x31; x31; x2d; x30; x31; x20; x24] = Some (25, 4, 0)%Z
  /\ version_parse [x31; x2e; x32; x2e; x39; x39; x39; x39; x39; x39; x39; x39; x39; x39; x39; x39; x39; x39; x39; x39; x39; x39; x39; x39]
      = Some (1, 2, int64_max)%Z.
Proof. split; vm_compute; reflexivity. Qed.

(* ---- call sites (gen/FactsC13.v, regenerated from /repo's source on every run) ------------ *)
(* Every call, in security/, server/, client/ and ccb/, of a Message reader that pulls a
   peer-sized value (the GetClassAd and GetString families) is a size-capped variant whose cap is a positive
   constant of at most one frame (or is on the justified allow-list, which is empty); and the
   handshake ads the property names (client negotiation reply and post-auth ad, server's read
   of the client ad, the resumption reply, the CCB control ads) are among them. *)
Theorem C13_handshake_readers_bounded :
  (forall s, In s call_sites ->
     exists n, snd s = Some n /\ 0 < n <= max_site_cap \/ existsb (same3 (fst s)) allow_list = true) /\
  (forall r, In r required_sites -> present r = true).
Proof. exact handshake_readers_bounded. Qed.
Print Assumptions C13_handshake_readers_bounded.

(* ---- addresses.ParseHTCondorAddress / IsValidSharedPortID, ccb.SplitBrokerList,
        ccb.splitFlatEntryAndRoute, ccb.ContactString (Model/Addr.v) ------------------------- *)
(* For ANY byte string: no slice expression of ParseHTCondorAddress goes out of range (the
   result is never None); the server address and the shared-port id are disjoint pieces of
   the input; an id is reported only together with IsSharedPort; and the id contains neither
   '&' nor '?' (so re-rendering "<server?sock=id>" cannot inject a parameter).  The function
   has no error result: IsSharedPort may be true with an EMPTY id ("sock=?x",
   Addr.addr_empty_id_example) -- callers validate with IsValidSharedPortID. *)
Theorem C13_htcondor_address_total_bounded :
  forall a : bytes, exists i, parse_htcondor_address a = Some i /\
    lenN (sp_server i) + lenN (sp_id i) <= lenN a /\
    (sp_is i = false -> sp_id i = []) /\
    (forall x, In x (sp_id i) -> byte_eqb x x26 = false /\ byte_eqb x x3f = false).
Proof. exact parse_htcondor_address_spec. Qed.
Print Assumptions C13_htcondor_address_total_bounded.

(* An id accepted by IsValidSharedPortID is non-empty and every BYTE of it lies in '-'..'z'
   and is not '/': no NUL, no path separator, no white space, no byte >= 0x80. *)
Theorem C13_shared_port_id_sound :
  forall id : bytes, is_valid_shared_port_id id = true ->
    id <> [] /\ forall x, In x id -> 45 <= b2n x <= 122 /\ b2n x <> 47.
Proof. exact is_valid_shared_port_id_sound. Qed.
Print Assumptions C13_shared_port_id_sound.

(* SplitBrokerList: at most (separators + 1) brokers, each non-empty and cut out of the input. *)
Theorem C13_broker_list_bounded :
  forall s : bytes,
    (length (split_broker_list s) <= count_sep is_broker_sep s + 1)%nat /\
    Forall (fun f => f <> [] /\ lenN f <= lenN s) (split_broker_list s).
Proof. exact split_broker_list_spec. Qed.
Print Assumptions C13_broker_list_bounded.

(* splitFlatEntryAndRoute never panics; an accepted contact has a non-empty entry broker, and
   entry, first id and the re-joined route together are shorter than the input (the '#' that
   separated entry and id is gone; each further '#' became at most one space). *)
Theorem C13_flat_contact_total_bounded :
  forall c : bytes, exists o, split_flat_entry_and_route c = Some o /\
    forall e i r, o = Some (e, i, r) -> e <> [] /\ lenN e + lenN i + lenN r + 1 <= lenN c.
Proof. exact split_flat_spec. Qed.
Print Assumptions C13_flat_contact_total_bounded.

(* Round trip: SplitCCBContact inverts ContactString for every broker address that begins and
   ends with an ASCII non-space byte and is not itself wrapped in <> (a nested broker
   "h:1#42" included: the split is on the LAST '#'), and every 64-bit id. *)
Theorem C13_ccb_contact_round_trip :
  forall (b : bytes) (n : N),
    plain_ends b = true -> strip_angle_pair b = Some b ->
    split_ccb_contact (contact_string b n) = Some (Some (b, dec n)).
Proof. exact contact_string_round_trip. Qed.
Print Assumptions C13_ccb_contact_round_trip.

Example C13_addr_example :
  (* "<10.0.0.1:9618?addrs=x&sock=startd_1&alias=h>" *)
  option_map (fun i => (sp_server i, sp_id i, sp_is i, is_valid_shared_port_id (sp_id i)))
    (parse_htcondor_address [x3c; x31; x30; x2e; x30; x2e; x30; x2e; x31; x3a; x39; x36; x31; x38; x3f; x61; x64; x64; x72; x73;
                             x3d; x78; x26; x73; x6f; x63; x6b; x3d; x73; x74; x61; x72; x74; x64; x5f; x31; x26; x61; x6c;
                             x69; x61; x73; x3d; x68; x3e])
  = Some ([x31; x30; x2e; x30; x2e; x30; x2e; x31; x3a; x39; x36; x31; x38], [x73; x74; x61; x72; x74; x64; x5f; x31], true, true)
  /\ (* " <h:1> #7# 8 ##9 " : entry h:1, id 7, route "8 9" *)
  split_flat_entry_and_route [x20; x3c; x68; x3a; x31; x3e; x20; x23; x37; x23; x20; x38; x20; x23; x23; x39; x20]
  = Some (Some ([x68; x3a; x31], [x37], [x38; x20; x39]))
  /\ (* ContactString("h:1#42", 17) = "h:1#42#17" and back *)
  contact_string [x68; x3a; x31; x23; x34; x32] 17 = [x68; x3a; x31; x23; x34; x32; x23; x31; x37]
  /\ plain_ends [x68; x3a; x31; x23; x34; x32] = true
  /\ split_broker_list [x61; x2c; x20; x62; x0a; x2c; x63] = [[x61]; [x62]; [x63]].
Proof. repeat split; vm_compute; reflexivity. Qed.

(* ---- shared-port pass-socket header (client/sharedport/endpoint_protocol.go, Model/PassSock.v) ---- *)
(* For ANY byte stream: readPassSockHeader never panics (the slice hdr[1:5] and make([]byte,
   length) are explicit partial operations of the model); it consumes a prefix of at most
   5 + 64 bytes; it allocates at most 64 bytes, and nothing before a complete 5-byte header has
   arrived; and it accepts ONLY the 13-byte header that writePassSockHeader produces (with any
   end-flag byte) -- every other input is an error, never a default. *)
Theorem C13_pass_sock_total_bounded :
  forall inp : bytes,
    let '(res, st) := read_pass_sock_header inp in
    res <> PsPanic /\
    exists pre, inp = pre ++ ps_in st /\
      lenN pre <= PsHeaderSize + PsMaxHeaderPayload /\
      ps_alloc st <= PsMaxHeaderPayload /\
      (0 < ps_alloc st -> PsHeaderSize <= lenN pre) /\
      (res = PsOk -> ps_alloc st = PsIntPayloadLen /\
                     exists flag, pre = flag :: be_enc 4 PsIntPayloadLen ++ be_enc 8 PassSockCmd).
Proof. exact read_pass_sock_header_spec. Qed.
Print Assumptions C13_pass_sock_total_bounded.

(* reader . writer = identity: the written header followed by ANY bytes is accepted, exactly
   its 13 bytes are consumed. *)
Theorem C13_pass_sock_round_trip :
  forall rest : bytes,
    read_pass_sock_header (write_pass_sock_header ++ rest) = (PsOk, {| ps_in := rest; ps_alloc := 8 |}).
Proof. exact pass_sock_round_trip. Qed.
Print Assumptions C13_pass_sock_round_trip.

Example C13_pass_sock_example :
  (* declared length 65: refused after the 5 header bytes, nothing allocated; declared 64 with
     3 bytes supplied: 64 allocated, short read *)
  read_pass_sock_header [x01; x00; x00; x00; x41; x00; x00] = (PsErr PsBadLen, {| ps_in := [x00; x00]; ps_alloc := 0 |})
  /\ read_pass_sock_header [x01; x00; x00; x00; x40; x00; x00; x00] = (PsErr PsShort, {| ps_in := []; ps_alloc := 64 |})
  /\ write_pass_sock_header = [x01; x00; x00; x00; x08; x00; x00; x00; x00; x00; x00; x00; x4c].
Proof. repeat split; vm_compute; reflexivity. Qed.

(* ---- watch.DecodeRequest / DecodeHeader / decodeBytes (watch/watch.go, Model/Watch.v) -------- *)
(* base64.StdEncoding.DecodeString as decodeBytes uses it, for ANY byte string: the writes
   dst[k] of decodeQuantum never leave the buffer make([]byte, len(s)/4*3) that DecodeString
   allocated (B64Panic is that explicit bound check); the buffer is no larger than the text;
   and a decoded value fits the buffer. *)
Theorem C13_watch_base64_total_bounded :
  forall s : bytes,
    b64_decode s <> B64Panic /\
    b64_cap s <= lenN s /\
    forall out, b64_decode s = B64Ok out -> lenN out <= b64_cap s.
Proof. exact b64_decode_spec. Qed.
Print Assumptions C13_watch_base64_total_bounded.

(* DecodeRequest on ANY ad (given by its three string lookups): no panic; an accepted request
   has a non-empty WatchAdType (a missing or empty one is an error, not a default), and the
   cursor is no longer than its base64 text. *)
Theorem C13_watch_request_total_bounded :
  forall ad : wreq_ad,
    decode_request ad <> WPanic /\
    forall t c cur, decode_request ad = WOk (t, c, cur) ->
      wa_type ad = Some t /\ t <> [] /\ c = opt_str (wa_constraint ad) /\
      lenN cur <= lenN (opt_str (wa_cursor ad)).
Proof. exact decode_request_spec. Qed.
Print Assumptions C13_watch_request_total_bounded.

(* DecodeHeader: no panic; a header without an integer WatchKind is an error; key and cursor
   are no longer than their texts. *)
Theorem C13_watch_header_total_bounded :
  forall ad : whdr_ad,
    decode_header ad <> WPanic /\
    forall k key cur, decode_header ad = WOk (k, key, cur) ->
      wh_kind ad = Some k /\ lenN key <= lenN (opt_str (wh_key ad)) /\
      lenN cur <= lenN (opt_str (wh_cursor ad)).
Proof. exact decode_header_spec. Qed.
Print Assumptions C13_watch_header_total_bounded.

Example C13_watch_example :
  (* "aGVs\nbG8h" = "hello!"; "aGVsbG8" (padding missing) and "AA==A" (trailing garbage) are errors;
     "AB==" decodes (StdEncoding is not strict about the unused bits) *)
  b64_decode [x61; x47; x56; x73; x0a; x62; x47; x38; x68] = B64Ok [x68; x65; x6c; x6c; x6f; x21]
  /\ b64_decode [x61; x47; x56; x73; x62; x47; x38] = B64Err
  /\ b64_decode [x41; x41; x3d; x3d; x41] = B64Err
  /\ b64_decode [x41; x42; x3d; x3d] = B64Ok [x00]
  /\ b64_encode [x68; x65; x6c; x6c; x6f] = [x61; x47; x56; x73; x62; x47; x38; x3d]
  /\ decode_request {| wa_type := Some []; wa_constraint := None; wa_cursor := None |} = WErr
  /\ decode_header (encode_header 3 (Some [x00; xff]) None) = WOk (3%Z, [x00; xff], []).
Proof. repeat split; vm_compute; reflexivity. Qed.

(* Round trips (Proofs/C13watchrt.v).  base64 decoding inverts encoding for EVERY byte string
   (all 256 byte values, every length mod 3), so decodeBytes . encodeBytes is the identity; hence
   DecodeRequest . EncodeRequest returns the three fields for every non-empty ad type (an empty
   one is refused by the decoder), and DecodeHeader . EncodeHeader returns kind, key and cursor
   (nil and empty both read back as empty). *)
Theorem C13_watch_base64_round_trip :
  forall b : bytes, b64_decode (b64_encode b) = B64Ok b /\ decode_bytes (encode_bytes b) = B64Ok b.
Proof. exact (fun b => conj (b64_round_trip b) (decode_encode_bytes b)). Qed.
Print Assumptions C13_watch_base64_round_trip.

Theorem C13_watch_request_round_trip :
  forall t c cur : bytes, t <> [] -> decode_request (encode_request t c cur) = WOk (t, c, cur).
Proof. exact watch_request_round_trip. Qed.
Print Assumptions C13_watch_request_round_trip.

Theorem C13_watch_header_round_trip :
  forall (k : Z) (key cur : option bytes),
    decode_header (encode_header k key cur) = WOk (k, opt_str key, opt_str cur).
Proof. exact watch_header_round_trip. Qed.
Print Assumptions C13_watch_header_round_trip.
