(* Props/C05.v — property theorems only; proofs live in Proofs/C05.v, the
   predicates in Proofs/C05Spec.v, the model in Model/Server.v.

   Quantification: every theorem is over ALL servers (handler tables,
   per-command policy functions, authorizers — arbitrary functions), ALL initial
   session caches and ALL multi-connection histories: any list of connections,
   session expiries and application-installed sessions; each connection with an
   arbitrary leading integer, an arbitrary handshake outcome (failed, full with
   any reported and real properties, resumption of any session id), an arbitrary
   list of follow-on commands and handler behaviours, and server tables that may
   change before every single dispatch. *)
From Coq Require Import List ZArith NArith Bool.
From Cedar Require Import gen.FactsC05 Model.Server Proofs.C05Spec Proofs.C05 Proofs.C05Fail.
Import ListNotations.

(* commandLevelSatisfied, over its whole domain (every policy incl. nil, both flags) *)
Theorem C05_level_check : forall req a e,
  level_ok req a e = true <->
  ((requires_authn req = true -> a = true) /\ (requires_enc req = true -> e = true)).
Proof. exact level_ok_spec. Qed.
Print Assumptions C05_level_check.

(* Every invoked authenticated handler, at the moment of the call: is the
   function currently registered, non-raw, for that command; its session
   reports authentication / encryption if the command's CURRENT policy requires
   them; and if an authorizer is set NOW the identity is authorized NOW, from
   this peer, at one of the command's currently registered levels. *)
Theorem C05_dispatch : forall k evs i,
  In i (history_invocations k evs) -> i_rawpath i = false ->
  registered_authenticated i /\ meets_policy_reported i /\ authorized_now i.
Proof. exact history_dispatch. Qed.
Print Assumptions C05_dispatch.

(* End-to-end composition with C03 ("reported = real" for every full handshake
   in the history, and for sessions the application installs): every invoked
   authenticated handler runs on a session that is REALLY authenticated and a
   stream that is REALLY encrypting whenever the command's current policy
   requires it — fresh, kept alive, or resumed after any number of connections. *)
Theorem C05_dispatch_real : forall k evs i,
  cache_faithful k ->
  Forall full_faithful (history_fulls evs) ->
  Forall entry_faithful (history_imports evs) ->
  In i (history_invocations k evs) -> i_rawpath i = false -> meets_policy_real i.
Proof. exact history_dispatch_real. Qed.
Print Assumptions C05_dispatch_real.

(* Raw handlers run only through the raw path (no Negotiation, plaintext
   stream) and authenticated handlers only through the DC_AUTHENTICATE path. *)
Theorem C05_separation : forall k evs i,
  In i (history_invocations k evs) ->
  (i_rawpath i = false /\ registered_authenticated i /\ i_neg i <> None) \/
  (i_rawpath i = true /\ registered_raw i /\ i_neg i = None /\ i_enc_real i = false).
Proof. exact history_separation. Qed.
Print Assumptions C05_separation.

(* which path a connection takes is decided by its leading integer alone *)
Theorem C05_separation_by_first_int : forall k cn k' ds e i,
  serve_conn k cn = (k', (ds, e)) -> In i (invocations ds) ->
  exists c, c_first cn = Some c /\
    if Z.eqb c DC_AUTHENTICATE
    then i_rawpath i = false /\ registered_authenticated i /\ i_neg i <> None
    else i_rawpath i = true /\ registered_raw i /\ i_neg i = None /\ i_cmd i = c /\ i_enc_real i = false.
Proof. exact serve_conn_separation. Qed.
Print Assumptions C05_separation_by_first_int.

(* A refused or unknown command is the last event of its connection: no handler
   runs for it or after it, the connection is closed and an error returned. *)
Theorem C05_refusal_closes : forall k evs ds e pre c why post,
  In (ds, e) (run_history k evs) -> ds = pre ++ DRefuse c why :: post ->
  post = [] /\ e = EClosedErr /\ invocations ds = invocations pre.
Proof. exact history_refusal. Qed.
Print Assumptions C05_refusal_closes.

(* ... and so is a handler that FAILS: if the handler of the n-th command of a connection
   returns an error or panics, that invocation is the last dispatch attempt of the connection
   (exactly n+1 attempts, all of them invocations: no further command is run, refused or even
   looked up), ServeConn ends with an error and Close() -- or, for a panic, is unwound by it
   (EPanic: ServeConn itself has no recover) -- and in both cases the connection is closed once
   Server.Serve's per-connection goroutine is done with it. One connection from any cache: *)
Theorem C05_handler_failure_closes : forall k cn k' ds e n st,
  serve_conn k cn = (k', (ds, e)) ->
  nth_error (c_steps cn) n = Some st -> handler_failed (st_ret st) ->
  n < length (invocations ds) ->
  length ds = S n /\ length (invocations ds) = S n /\
  e = fail_end (st_ret st) /\ closed_under_serve e = true.
Proof. exact serve_conn_handler_failure. Qed.
Print Assumptions C05_handler_failure_closes.

(* every connection of every history *)
Theorem C05_handler_failure_closes_history : forall k evs ds e,
  In (ds, e) (run_history k evs) ->
  exists cn, In (EConn cn) evs /\
    forall n st, nth_error (c_steps cn) n = Some st -> handler_failed (st_ret st) ->
      n < length (invocations ds) ->
      length ds = S n /\ length (invocations ds) = S n /\
      e = fail_end (st_ret st) /\ closed_under_serve e = true.
Proof. exact history_handler_failure. Qed.
Print Assumptions C05_handler_failure_closes_history.

(* The dispatched commands are exactly a prefix of the commands the client
   asked for, in order: nothing runs that was not requested, nothing is skipped
   (so nothing runs after a refusal either). *)
Theorem C05_commands_as_sent : forall k cn k' ds e,
  serve_conn k cn = (k', (ds, e)) ->
  ds = [] \/
  exists c, c_first cn = Some c /\
    if Z.eqb c DC_AUTHENTICATE
    then exists c0, requested (c_hs cn) = Some c0 /\ is_prefix (map dispatch_cmd ds) (c0 :: follow_ons (c_steps cn))
    else map dispatch_cmd ds = [c].
Proof. exact serve_conn_commands_as_sent. Qed.
Print Assumptions C05_commands_as_sent.

(* Session properties restored on resumption: only an entry with a usable AES
   key is resumed at all; the resumed session carries exactly the stored
   Authenticated, User and the ghost "really authenticated", reports Encryption
   and the stream really is encrypting. *)
Theorem C05_resumption_restores : forall en s c cs,
  resume en s c = Some cs ->
  e_client en = false /\ e_key en = KAes /\
  n_cmd (cs_neg cs) = c /\ n_sid (cs_neg cs) = s /\
  n_authn (cs_neg cs) = e_authn en /\ n_user (cs_neg cs) = e_user en /\
  n_valid (cs_neg cs) = e_valid en /\
  cs_auth_real cs = e_auth_real en /\
  n_enc (cs_neg cs) = true /\ cs_enc_real cs = true /\ n_resumed (cs_neg cs) = true.
Proof. exact resume_restores. Qed.
Print Assumptions C05_resumption_restores.

Theorem C05_resumption_needs_key : forall en s c, e_key en <> KAes -> resume en s c = None.
Proof. exact resume_needs_key. Qed.
Print Assumptions C05_resumption_needs_key.

(* Role separation in a cache shared by the client and the server half of one process
   (defect found by the hypothesis audit, fixed in /repo e854428): the record the client
   half stores for a session negotiated with ANOTHER server is never resumed for an inbound
   connection, and never replaces a server-side record -- so C05_dispatch_real needs no
   hypothesis about what other servers told this process (EClientRecord events are free). *)
Theorem C05_client_record_not_resumed : forall en s c, e_client en = true -> resume en s c = None.
Proof. exact resume_refuses_client_record. Qed.
Print Assumptions C05_client_record_not_resumed.

Theorem C05_client_store_inert : forall k s e s' en,
  cache_lookup (client_store k s e) s' = Some en ->
  e_client en = true \/ cache_lookup k s' = Some en.
Proof. exact client_store_inert. Qed.
Print Assumptions C05_client_store_inert.

(* ValidCommands is limited to authenticated commands this very session could
   run right now. *)
Theorem C05_valid_commands_sound : forall s u peer a e c,
  In c (post_auth_policy s u peer a e) ->
  (exists h, lookup (s_handlers s) c = Some h /\ h_raw h = false /\ h_perms h <> []) /\
  (forall n, n_authn n = a -> n_enc n = e -> n_user n = u -> session_satisfies s c peer (Some n) = true).
Proof. exact post_auth_policy_sound. Qed.
Print Assumptions C05_valid_commands_sound.

(* ---- non-vacuity and necessity of the hypotheses ---------------------------------- *)

Definition ex_pol_open := {| p_authn := LOptional; p_enc := LOptional; p_integ := LOptional |}.
Definition ex_pol_strict := {| p_authn := LRequired; p_enc := LRequired; p_integ := LRequired |}.
Definition ex_srv (az : option (perm -> addr -> user -> bool)) : server :=
  {| s_default := Some ex_pol_open;
     s_percmd := Some (fun c => if Z.eqb c 1005 then Some ex_pol_strict else None);
     s_authorizer := az;
     s_handlers := handle (handle (handle_raw [] 1006%Z 6%N) 1005%Z 5%N [3%N]) 1001%Z 1%N [1%N] |}.
Definition ex_full : full :=
  {| f_cmd := 1001%Z; f_authn := true; f_enc := true; f_user := 2%N; f_sid := 1%N; f_haskey := true;
     f_auth_real := true; f_enc_real := true |}.
(* connection 1: full handshake for the permissive command, kept alive, then the
   strict command; connection 2 (authorizer now set): the session is resumed for
   the strict command; connection 3: raw command *)
Definition ex_history : list event :=
  [ EConn {| c_srv := ex_srv None; c_peer := 1%N; c_first := Some DC_AUTHENTICATE; c_hs := HsFull ex_full;
             c_steps := [ {| st_ret := HKeepAlive; st_next := Some 1005%Z; st_srv := ex_srv None |};
                          {| st_ret := HDone; st_next := None; st_srv := ex_srv None |} ] |};
    EConn {| c_srv := ex_srv (Some (fun p a u => N.eqb u 2)); c_peer := 1%N; c_first := Some DC_AUTHENTICATE;
             c_hs := HsResume 1%N (Some 1005%Z) true;
             c_steps := [ {| st_ret := HDone; st_next := None; st_srv := ex_srv None |} ] |};
    EConn {| c_srv := ex_srv None; c_peer := 1%N; c_first := Some 1006%Z; c_hs := HsErr None; c_steps := [] |} ].

(* the hypotheses of C05_dispatch_real hold of this history and four handlers run in it *)
Example C05_example_hypotheses_satisfiable :
  cache_faithful [] /\ Forall full_faithful (history_fulls ex_history) /\
  Forall entry_faithful (history_imports ex_history) /\
  map i_handler (history_invocations [] ex_history) = [1%N; 5%N; 5%N; 6%N].
Proof.
  split; [constructor|]. split; [repeat constructor|]. split; [constructor|]. vm_compute. reflexivity.
Qed.

(* C05_handler_failure_closes is not vacuous: the second handler of a kept-alive connection
   panics although the client had a third command on the wire; two handlers ran, the third
   command was never dispatched, the panic left ServeConn and Serve closes the connection.
   With an error return instead, ServeConn itself closes it and reports the error. *)
Definition ex_fail_conn (r : hret) : conn :=
  {| c_srv := ex_srv None; c_peer := 1%N; c_first := Some DC_AUTHENTICATE; c_hs := HsFull ex_full;
     c_steps := [ {| st_ret := HKeepAlive; st_next := Some 1005%Z; st_srv := ex_srv None |};
                  {| st_ret := r; st_next := Some 1001%Z; st_srv := ex_srv None |};
                  {| st_ret := HDone; st_next := None; st_srv := ex_srv None |} ] |}.
Example C05_handler_panic_example :
  let '(ds, e) := snd (serve_conn [] (ex_fail_conn HPanic)) in
  map dispatch_cmd ds = [1001%Z; 1005%Z] /\ length (invocations ds) = 2 /\ e = EPanic /\
  closed_under_serve e = true /\
  snd (snd (serve_conn [] (ex_fail_conn HErr))) = EClosedErr /\
  (* the same script with a handler that keeps the connection alive does run the third command *)
  map dispatch_cmd (fst (snd (serve_conn [] (ex_fail_conn HKeepAlive)))) = [1001%Z; 1005%Z; 1001%Z].
Proof. vm_compute. repeat split; reflexivity. Qed.

(* The hypothesis "reported = real" of C05_dispatch_real is necessary: with a
   handshake that reports Encryption on a plaintext stream (the behaviour of
   setupStreamEncryption before the C03 fix for a client that omits its ECDH
   key), an encryption-mandating command runs on a plaintext stream. *)
Example C05_real_needs_faithful_handshake :
  exists evs i, In i (history_invocations [] evs) /\ i_rawpath i = false /\
                requires_enc (policy_now i) = true /\ i_enc_real i = false.
Proof.
  exists [ EConn {| c_srv := ex_srv None; c_peer := 1%N; c_first := Some DC_AUTHENTICATE;
                    c_hs := HsFull {| f_cmd := 1005%Z; f_authn := true; f_enc := true; f_user := 2%N; f_sid := 1%N;
                                      f_haskey := false; f_auth_real := true; f_enc_real := false |};
                    c_steps := [] |} ].
  eexists. split; [vm_compute; left; reflexivity|]. vm_compute. auto.
Qed.

(* ... and so is the one on application-installed sessions: an entry marked
   Authenticated although nothing ever authenticated it is resumed as authenticated. *)
Example C05_real_needs_faithful_entries :
  exists evs i, In i (history_invocations [] evs) /\ i_rawpath i = false /\
                requires_authn (policy_now i) = true /\ i_auth_real i = false.
Proof.
  exists [ EImport 1%N {| e_key := KAes; e_authn := true; e_user := 2%N; e_valid := [1005%Z]; e_client := false; e_auth_real := false |};
           EConn {| c_srv := ex_srv None; c_peer := 1%N; c_first := Some DC_AUTHENTICATE;
                    c_hs := HsResume 1%N (Some 1005%Z) true; c_steps := [] |} ].
  eexists. split; [vm_compute; left; reflexivity|]. vm_compute. auto.
Qed.

(* The ValidCommands a resumed (claim) session carries are restored but grant nothing:
   C05_dispatch holds for every stored list. Witness: the entry names the command, the
   current authorizer denies the identity, nothing runs and the connection is refused. *)
Example C05_stored_valid_commands_do_not_authorize :
  run_history []
    [ EImport 1%N {| e_key := KAes; e_authn := true; e_user := 2%N; e_valid := [1005%Z]; e_client := false; e_auth_real := true |};
      EConn {| c_srv := ex_srv (Some (fun _ _ _ => false)); c_peer := 1%N; c_first := Some DC_AUTHENTICATE;
               c_hs := HsResume 1%N (Some 1005%Z) true; c_steps := [] |} ]
  = [([DRefuse 1005%Z RNotSatisfied], EClosedErr)].
Proof. vm_compute. reflexivity. Qed.

(* A command integer that is congruent to a registered one modulo 2^32 is a different
   command: handler and policy are looked up under the same (unbounded) key. *)
Example C05_wide_command_is_unknown :
  snd (serve_conn [] {| c_srv := ex_srv None; c_peer := 1%N; c_first := Some DC_AUTHENTICATE;
                        c_hs := HsFull {| f_cmd := (1005 + 2 ^ 32)%Z; f_authn := false; f_enc := false; f_user := 0%N;
                                          f_sid := 1%N; f_haskey := false; f_auth_real := false; f_enc_real := false |};
                        c_steps := [] |})
  = ([DRefuse (1005 + 2 ^ 32)%Z RUnknown], EClosedErr).
Proof. vm_compute. reflexivity. Qed.

(* ---- composition with C03 (lead) ---------------------------------------------------------------
   The hypothesis [full_faithful] of C05_dispatch_real is exactly what C03 proves about every
   handshake: if the records of the full handshakes in a history are the images of C03
   handshake runs (any configuration, any peer script), every invoked authenticated handler
   runs on a session that is REALLY authenticated / REALLY encrypting to the degree its
   command's current policy demands. *)
From Cedar Require Import Model.Handshake Proofs.C03 Proofs.C05C03.

Theorem C05_dispatch_real_with_C03 : forall k evs i,
  cache_faithful k ->
  Forall from_c03 (history_fulls evs) ->
  Forall entry_faithful (history_imports evs) ->
  In i (history_invocations k evs) -> i_rawpath i = false -> meets_policy_real i.
Proof. exact dispatch_real_composed. Qed.
Print Assumptions C05_dispatch_real_with_C03.
