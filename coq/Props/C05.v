(* Props/C05.v — property theorems only; proofs live in Proofs/C05.v. *)
From Coq Require Import List ZArith NArith Bool.
From Cedar Require Import gen.FactsC05 Model.Server Proofs.C05.
Import ListNotations.

Theorem C05_level_check : forall req a e,
  level_ok req a e = true <->
  ((requires_authn req = true -> a = true) /\ (requires_enc req = true -> e = true)).
Proof. exact level_ok_spec. Qed.
Print Assumptions C05_level_check.
