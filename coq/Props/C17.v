(* Props/C17.v — property theorems only; proofs live in Proofs/C17Lockset.v and Proofs/C17.v.
   C17: shared state is safe under concurrency (partial: the race detector's
   happens-before over real memory and goroutine scheduling are outside the model;
   see notes/C17.md). *)
From Coq Require Import List Bool String.
From Cedar Require Import Model.Lockset Model.LocksetFacts Proofs.C17Lockset Proofs.C17Counter Proofs.C17Cache Proofs.C17 gen.FactsC17.
Import ListNotations.
Local Open Scope string_scope.
Local Open Scope list_scope.

(* The unbounded part: for every list of threads and every interleaving, if every
   access is made while holding (in a sufficient mode) the lock assigned to its
   location, no reachable state has two threads about to make conflicting accesses. *)
Theorem C17_lockset_drf : forall (g : nat -> nat) (ts : list thread) (s : state),
  Forall (well_locked g) ts -> reach (init ts) s -> ~ race s.
Proof. exact lockset_drf. Qed.
Print Assumptions C17_lockset_drf.

(* The discipline is sharp: the schedule "writer holds the entry lock, reader holds
   only the cache lock" (RenewLease against InvalidateExpired/DebugDump before the
   fix) reaches a race. *)
Theorem C17_unguarded_races :
  exists s, reach (init [[Acq 0 MW; Wr 7; Rel 0]; [Acq 1 MW; Rd 7; Rel 1]]) s /\ race s.
Proof. exact unguarded_races. Qed.
Print Assumptions C17_unguarded_races.

(* Obligation over the facts regenerated from the source: every access to a field of
   SessionCache / SessionEntry anywhere in package security, and of ccb.brokerReg,
   is guarded as the guard map says. *)
Theorem C17_cache_guarded : forallb access_ok lock_facts = true.
Proof. exact cache_guarded. Qed.
Print Assumptions C17_cache_guarded.

(* ... where the locks held inside an unexported helper are those taken locally plus its
   ENTRY lockset, the intersection of the locksets at all of its static call sites in the
   package (exported functions, function values, goroutine entry points, interface-called
   methods: empty). Obligation over the regenerated helper facts: every claimed entry lock is
   held (same object, sufficient mode) at every recorded call site. *)
Theorem C17_helper_entry_locksets_sound : forallb helper_ok helper_facts = true.
Proof. exact helper_entry_locksets_sound. Qed.
Print Assumptions C17_helper_entry_locksets_sound.

(* No lost updates: every function of package security that writes a SessionCache
   field acquires the cache lock exactly once, so its read-decide-write (scan for
   expired entries then delete; look up then delete) is one critical section and no
   Store / RenewLease+Store can land between the decision and the deletion. *)
Theorem C17_cache_atomic_sections :
  forallb cs_ok cs_facts = true /\
  atomic_writer "security.SessionCache.InvalidateExpired" = true /\
  atomic_writer "security.SessionCache.LookupNonExpired" = true /\
  atomic_writer "security.SessionCache.Invalidate" = true /\
  atomic_writer "security.SessionCache.Store" = true.
Proof. exact cache_atomic_sections. Qed.
Print Assumptions C17_cache_atomic_sections.

(* ... and therefore any number of threads, each any sequence of the translated
   lock-guarded accesses, is race-free in every interleaving. *)
Theorem C17_cache_threads_drf : forall (prog : list (list lock_fact)) s,
  (forall xs, In xs prog -> forall x, In x xs -> In x lock_facts /\ lock_guarded x = true) ->
  reach (init (map thread_of prog)) s -> ~ race s.
Proof. exact cache_threads_drf. Qed.
Print Assumptions C17_cache_threads_drf.

(* the package-level variables of session_manager.go are only touched through
   sync.Once / sync/atomic *)
Theorem C17_vars_safe : forallb var_ok var_facts = true /\ var_facts <> [].
Proof. exact vars_safe. Qed.
Print Assumptions C17_vars_safe.

(* Command routing: a client-session registration is Store followed by MapCommand and
   is not atomic w.r.t. other goroutines. For EVERY sequence of the (individually atomic)
   cache operations - hence every interleaving - a lookup by command yields only the
   entry that was stored under the id when the mapping was made: no orphan mapping
   survives a later Store of the same id. *)
Theorem C17_route_consistent : forall ops k e g,
  lookup_by_command (cache_run false ops) k = Some (e, g) -> g = Some e.
Proof. exact route_consistent. Qed.
Print Assumptions C17_route_consistent.

(* ... whereas purging only on REPLACEMENT misroutes: Store A; Invalidate; MapCommand; Store B *)
Theorem C17_lazy_purge_misroutes :
  lookup_by_command (cache_run true [OStore 7 1; OInvalidate 7; OMap 3 7; OStore 7 2]) 3 = Some (2, None).
Proof. exact lazy_purge_misroutes. Qed.
Print Assumptions C17_lazy_purge_misroutes.

(* Obligation over the translated source: SessionCache.Store has the purge, guarded by
   the identity test against the stored entry and by nothing that asks whether an old
   entry was present - it is the Store of the model. *)
Theorem C17_store_purges_unconditionally : store_purge_ok store_purge = true.
Proof. exact store_purges_unconditionally. Qed.
Print Assumptions C17_store_purges_unconditionally.

(* Identifiers handed out by a shared counter: for all thread lists of atomic-add
   increments and all interleavings the values handed out are pairwise distinct ... *)
Theorem C17_counter_distinct : forall c0 ts s,
  Forall (fun t => forallb is_add t = true) ts -> creach (cinit c0 ts) s -> NoDup (c_out s).
Proof. exact counter_distinct. Qed.
Print Assumptions C17_counter_distinct.

(* ... whereas Load followed by Store (two events) lets two threads hand out the same value *)
Theorem C17_load_store_collides :
  exists s, creach (cinit 0 [[CLoad; CStore]; [CLoad; CStore]]) s /\ c_out s = [1; 1].
Proof. exact load_store_collides. Qed.
Print Assumptions C17_load_store_collides.

(* Obligation over the translated source: every function touching a package-level
   counter does so by atomic adds only (or only loads); GetNextSessionCounter is
   present and is atomic adds. *)
Theorem C17_counter_atomic :
  forallb counter_prog_ok counter_progs = true /\
  forallb is_add session_counter_ops = true /\ session_counter_ops <> [].
Proof. exact counter_atomic. Qed.
Print Assumptions C17_counter_atomic.

(* Hence: any number of goroutines calling the translated GetNextSessionCounter any
   number of times get pairwise distinct counters (no two sessions share an id). *)
Theorem C17_session_counters_distinct : forall (c0 : nat) (ncalls : list nat) s,
  creach (cinit c0 (map calls ncalls)) s -> NoDup (c_out s).
Proof. exact session_counters_distinct. Qed.
Print Assumptions C17_session_counters_distinct.

(* No function of security/, client/, server/, ccb/ mutates in place a slice owned by
   a SecurityConfig (append into a prefix, element assignment, copy/sort into it):
   per-connection configurations are SHALLOW copies that share those arrays. *)
Theorem C17_config_slices_immutable : slice_muts = [].
Proof. exact config_slices_immutable. Qed.
Print Assumptions C17_config_slices_immutable.

(* The key bytes of a cached SessionEntry (KeyInfo.Data) are shared, without a lock, by every
   connection resuming the session (setSharedSecret(entry.KeyInfo().Data) aliases them). No
   function of security/, client/, server/, ccb/ writes in place (element or sub-slice
   assignment, clear, copy destination, read-into) to a byte slice that may alias them
   (may-alias: taint from KeyInfo.Data through assignments, re-slicing, fields, arguments and
   results; a fresh copy ends it): one connection cannot disturb the key another one installs. *)
Theorem C17_cached_key_never_written : cached_key_writers key_writes = [].
Proof. exact cached_key_never_written. Qed.
Print Assumptions C17_cached_key_never_written.

(* Every call site of security.NewAuthenticator in security/, client/, server/,
   ccb/ passes the address of a per-connection copy (never a shared pointer);
   the client, server and both SecurityManager sites are present and private. *)
Theorem C17_config_private :
  forallb private auth_sites = true /\
  site_private "client.ConnectAndAuthenticateWithConfig" = true /\
  site_private "server.Server.ServeConn" = true /\
  site_private "security.SecurityManager.ClientHandshake" = true /\
  site_private "security.SecurityManager.ServerHandshake" = true.
Proof. exact config_private. Qed.
Print Assumptions C17_config_private.

(* ... and every config-returning hook installed on an Authenticator
   (ServerConfigForCommand: the handshake stores the connection's ECDH key in what
   it returns and adopts it as its config) returns nil or the address of a copy it
   made itself; the server's per-command hook is present and of that kind. *)
Theorem C17_config_hooks_private :
  forallb hook_private hook_sites = true /\
  existsb (fun h => String.eqb (hs_fn h) "server.Server.ServeConn" &&
                    String.eqb (hs_field h) "Authenticator.ServerConfigForCommand" &&
                    match hs_kind h with HookCopy => true | _ => false end) hook_sites = true.
Proof. exact config_hooks_private. Qed.
Print Assumptions C17_config_hooks_private.

(* writes to the published broker stream hold writeMu; serve is its only reader *)
Theorem C17_broker_serialised : forallb broker_ok broker_io = true /\
  existsb (fun b => match bf_origin b with SField => String.eqb (bf_callee b) "WriteControlAd" | _ => false end) broker_io = true.
Proof. exact broker_serialised. Qed.
Print Assumptions C17_broker_serialised.

(* every function that installs a cipher on a Stream (SetSymmetricKey,
   NewStreamWithCryptoState) freezes BOTH handshake digests itself, so the lazily
   finalising code on the two paths (SWOnce / SPre accesses) can no longer write by the
   time a writer and a reader goroutine share the stream - the premise of C17_stream_split *)
Theorem C17_digests_frozen_at_key_install :
  forallb installer_ok key_installers = true /\
  existsb (fun k => String.eqb (ki_fn k) "stream.Stream.SetSymmetricKey") key_installers = true.
Proof. exact digests_frozen_at_key_install. Qed.
Print Assumptions C17_digests_frozen_at_key_install.

(* after the handshake digests are finalised, no Stream field written on the send
   path is touched on the receive path and vice versa *)
Theorem C17_stream_split : stream_split_ok stream_send stream_recv = true.
Proof. exact stream_split. Qed.
Print Assumptions C17_stream_split.
