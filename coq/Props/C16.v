(* Props/C16.v — property theorems only; proofs live in Proofs/C16*.v. *)
From Coq Require Import List NArith ZArith Bool.
From Cedar Require Import Lib.Bytes Lib.SymC16 Model.ClaimId Proofs.C16Str Proofs.C16Dec Proofs.C16Info Proofs.C16Main Proofs.C16Mint Proofs.C16Corrupt Proofs.C16Facts Proofs.C16Cache.
Import ListNotations.

(* The facts regenerated from /repo's source on every run (HKDF salt/info, key
   length at every derivation site of the claim files and absence of any second
   derivation there, the strings functions locating '#' / '[' / ']' in
   ParseClaimIDStrict, the cipher-list delimiter rewrites, the file-transfer prefix,
   the match-session identities, the secret length) are the ones the model was
   written for. *)
Theorem C16_sources_match : sources_match.
Proof. exact sources_match_holds. Qed.
Print Assumptions C16_sources_match.

(* For ALL minting options, every secret free of '#' and ']' (every lowercase-hex
   secret is) and every clock: if MintClaimSession succeeds, ParseClaimIDStrict on
   the minted text returns exactly the minted session id, session_info and secret. *)
Theorem C16_parse_mint : forall o secret now m,
  secret_ok secret -> mint o secret now = Ok m ->
  exists info, export_info (mint_wire o now) = Ok info
    /\ m_sid m = mint_sid o
    /\ m_claim m = m_sid m ++ ch_hash :: info ++ secret
    /\ parse_strict (m_claim m) = {| c_sid := m_sid m; c_info := info; c_key := secret |}.
Proof. exact parse_mint. Qed.
Print Assumptions C16_parse_mint.

Theorem C16_hex_secret_ok : forall s, forallb is_lower_hex s = true -> secret_ok s.
Proof. exact hex_secret_ok. Qed.
Print Assumptions C16_hex_secret_ok.

(* Minter and importer (any import options) register the same session: same id,
   same key = HKDF(secret), same protocol, the same policy on every attribute but
   the peer identity "User", and the same expiry (an absolute expiry carried by the
   text always; a relative fallback when both sides were given the same one). *)
Theorem C16_same_session : forall o secret now m io,
  secret_ok secret -> mint o secret now = Ok m ->
  exists e cmds,
    import_claim (m_claim m) io = Ok (m_sid m, e, cmds)
    /\ e_id e = e_id (m_entry m) /\ e_id e = m_sid m
    /\ e_key e = e_key (m_entry m) /\ e_key e = Kdf S_htcondor S_keygen 32 secret
    /\ e_proto e = e_proto (m_entry m)
    /\ (forall n, n <> A_User -> plookup n (e_policy e) = plookup n (e_policy (m_entry m)))
    /\ (io_duration_ns io = mo_lifetime_ns o -> e_expiry e = e_expiry (m_entry m))
    /\ (forall s, e_expiry (m_entry m) = ExpAbs s -> e_expiry e = ExpAbs s)
    /\ (forall s, e_expiry e = ExpAbs s -> e_expiry (m_entry m) = ExpAbs s).
Proof. exact same_session. Qed.
Print Assumptions C16_same_session.

(* Caches with a history.  SessionCache.Store replaces the entry filed under the id, so an
   import (claim or file-transfer) into ANY cache - one that already holds a stale, re-issued
   or corrupted-secret entry under the same session id included - leaves exactly the freshly
   derived entry there ... *)
Theorem C16_import_overwrites : forall (ft : bool) (c : cstate) claim io sid e cmds,
  (if ft then import_ft claim io else import_claim claim io) = Ok (sid, e, cmds) ->
  import_into ft c claim io = (cstate_file e cmds c, Ok (sid, e, cmds))
  /\ cache_lookup sid (cs_entries (fst (import_into ft c claim io))) = Some e.
Proof. exact import_overwrites. Qed.
Print Assumptions C16_import_overwrites.

(* ... its command mappings are exactly the new import's (Store drops the ones of the entry
   it replaces, fix dcd50bb), those of other ids survive unless the same key is claimed ... *)
Theorem C16_cmds_after_file : forall e cmds s k,
  In (k, e_id e) (cs_cmds (cstate_file e cmds s)) <-> In k cmds.
Proof. exact cmds_after_file. Qed.
Print Assumptions C16_cmds_after_file.

Theorem C16_other_cmds_survive : forall e cmds s k id,
  id <> e_id e -> existsb (bytes_eqb k) cmds = false ->
  (In (k, id) (cs_cmds (cstate_file e cmds s)) <-> In (k, id) (cs_cmds s)).
Proof. exact other_cmds_survive. Qed.
Print Assumptions C16_other_cmds_survive.

(* ... and so does a mint ... *)
Theorem C16_mint_overwrites : forall c o secret now m,
  mint o secret now = Ok m ->
  cache_lookup (m_sid m) (cs_entries (fst (mint_into c o secret now))) = Some (m_entry m).
Proof. exact mint_overwrites. Qed.
Print Assumptions C16_mint_overwrites.

(* ... hence C16_same_session holds whatever the importing cache held before. *)
Theorem C16_same_session_any_cache : forall o secret now m io c,
  secret_ok secret -> mint o secret now = Ok m ->
  exists e, cache_lookup (m_sid m) (cs_entries (fst (import_into false c (m_claim m) io))) = Some e
    /\ e_key e = e_key (m_entry m) /\ e_proto e = e_proto (m_entry m)
    /\ (forall n, n <> A_User -> plookup n (e_policy e) = plookup n (e_policy (m_entry m)))
    /\ (io_duration_ns io = mo_lifetime_ns o -> e_expiry e = e_expiry (m_entry m))
    /\ (forall s, e_expiry (m_entry m) = ExpAbs s -> e_expiry e = ExpAbs s).
Proof. exact same_session_any_cache. Qed.
Print Assumptions C16_same_session_any_cache.

(* An importer whose text yields any other key string holds a different session key. *)
Theorem C16_other_secret_other_key : forall o secret now m claim' io sid' e' cmds',
  mint o secret now = Ok m ->
  import_claim claim' io = Ok (sid', e', cmds') ->
  c_key (parse_strict claim') <> secret ->
  e_key e' <> e_key (m_entry m).
Proof. exact other_secret_other_key. Qed.
Print Assumptions C16_other_secret_other_key.

(* Single-character (indeed any same-length) corruption of the secret, arbitrary
   bytes allowed (a corruption may introduce '#' or ']'): importing the corrupted
   text either fails or registers a different key. *)
Theorem C16_corrupted_secret : forall o secret now m secret' io,
  mint o secret now = Ok m ->
  length secret' = length secret -> secret' <> secret ->
  exists info, export_info (mint_wire o now) = Ok info
    /\ m_claim m = (m_sid m ++ ch_hash :: info) ++ secret
    /\ match import_claim ((m_sid m ++ ch_hash :: info) ++ secret') io with
       | Ok (_, e', _) => e_key e' <> e_key (m_entry m)
       | _ => True
       end.
Proof. exact corrupted_secret. Qed.
Print Assumptions C16_corrupted_secret.

Theorem C16_filetransfer_same_key : forall o secret now m io,
  secret_ok secret -> mint o secret now = Ok m ->
  exists e cmds,
    import_ft (m_claim m) io = Ok (S_filetrans ++ m_sid m, e, cmds)
    /\ e_id e = S_filetrans ++ m_sid m
    /\ e_key e = e_key (m_entry m) /\ e_proto e = e_proto (m_entry m).
Proof. exact ft_same_key. Qed.
Print Assumptions C16_filetransfer_same_key.

(* The public form is a function of the options alone: two mints with different
   secrets (and clocks) have the same public claim id, sid ++ "#...". *)
Theorem C16_public_no_secret : forall o s1 s2 now1 now2 m1 m2,
  mint o s1 now1 = Ok m1 -> mint o s2 now2 = Ok m2 ->
  m_public m1 = m_public m2 /\ m_public m1 = mint_sid o ++ S_public_tail.
Proof. exact public_no_secret. Qed.
Print Assumptions C16_public_no_secret.

Theorem C16_public_of_parsed : forall o secret now m,
  secret_ok secret -> mint o secret now = Ok m ->
  public_of_parsed (parse_strict (m_claim m)) = m_public m.
Proof. exact public_of_parsed_mint. Qed.
Print Assumptions C16_public_of_parsed.

(* Render / parse round trip of the policy text, for EVERY policy: whenever
   ExportSecSessionInfo produces a text, ImportSecSessionInfo of that text carries
   the exported attributes back (no side condition: since the export-validation fix the
   code itself refuses the policies whose values contain ';' or whose cipher list
   contains '.', see C16_export_refuses_unsafe), with the documented rewrites: empty strings are not
   exported (ne), the integer expiry comes back as its decimal text, a multi-cipher
   list travels '.'-delimited and comes back ','-delimited, RemoteVersion comes back
   as its short form. *)
Theorem C16_policy_roundtrip : forall p info,
  export_info p = Ok info ->
  exists q, import_info info = Ok q
    /\ get_str q A_Integrity = ne (get_str p A_Integrity)
    /\ get_str q A_Encryption = ne (get_str p A_Encryption)
    /\ get_str q A_ValidCommands = ne (get_str p A_ValidCommands)
    /\ get_str q A_CryptoMethods = ne (get_str p A_CryptoMethods)
    /\ get_str q A_SessionExpires = option_map dec_of_Z (exported_expires p)
    /\ get_str q A_RemoteVersion = option_map short_version (ne (get_str p A_RemoteVersion)).
Proof. exact policy_roundtrip. Qed.
Print Assumptions C16_policy_roundtrip.

(* the complementary case: such a policy is refused, never rendered into a text that would
   read back differently *)
Theorem C16_export_refuses_unsafe : forall p, policy_safe p = false -> export_info p = Err.
Proof. exact export_unsafe_refused. Qed.
Print Assumptions C16_export_refuses_unsafe.

(* integer versus string expiry: the decimal text ExportSecSessionInfo writes is read
   back by strconv.ParseInt as the same int64 *)
Theorem C16_expiry_text_roundtrip : forall z,
  (- 9223372036854775808 <= z < 9223372036854775808)%Z -> parse_int64 (trim_space (dec_of_Z z)) = Some z.
Proof. exact expiry_text_roundtrip. Qed.
Print Assumptions C16_expiry_text_roundtrip.

(* The registered session reflects the minting options (and by C16_same_session so does
   the importer's), for EVERY option set that mints (no side condition; option sets with a
   ';' or '.' in the cipher list or a ';' in the short version are refused:
   C16_unsafe_options_refused): toggles, cipher, command list, short
   version; a positive lifetime becomes the absolute expiry floor((now+lifetime)/1s)
   in the text, the policy and the cache entry; no lifetime, no expiry. *)
Theorem C16_mint_reflects_options : forall o secret now m,
  mint o secret now = Ok m ->
  let pol := e_policy (m_entry m) in
  get_str pol A_Encryption = Some (yes_no (mo_enc o))
  /\ get_str pol A_Integrity = Some (yes_no (mo_integ o))
  /\ get_str pol A_CryptoMethods = Some S_AESGCM
  /\ get_str pol A_ValidCommands = wire_valid o
  /\ get_str pol A_RemoteVersion = option_map short_version (wire_version o)
  /\ ((0 < mo_lifetime_ns o)%Z -> int64_pos (expires_at now (mo_lifetime_ns o)) ->
      get_str pol A_SessionExpires = Some (dec_of_Z (expires_at now (mo_lifetime_ns o)))
      /\ e_expiry (m_entry m) = ExpAbs (expires_at now (mo_lifetime_ns o)))
  /\ ((mo_lifetime_ns o <= 0)%Z ->
      get_str pol A_SessionExpires = None /\ e_expiry (m_entry m) = ExpNone).
Proof. exact mint_reflects. Qed.
Print Assumptions C16_mint_reflects_options.

Theorem C16_unsafe_options_refused : forall o secret now,
  claim_safe o = false -> mint o secret now = Err.
Proof. exact unsafe_options_refused. Qed.
Print Assumptions C16_unsafe_options_refused.

(* claim_safe constrains only the cipher list and the version: it holds for every
   sinful (with '#', brackets, parameters), identity, tag, toggle, command list,
   lifetime, birthdate and sequence number, as soon as the cipher list is written
   over [A-Za-z0-9_-], ',' and blanks and the version string contains no ';'. *)
Theorem C16_claim_safe_realistic : forall o,
  forallb cipher_char (mo_crypto o) = true ->
  contains ch_semi (mo_version o) = false ->
  claim_safe o = true.
Proof. exact claim_safe_realistic. Qed.
Print Assumptions C16_claim_safe_realistic.

(* ---- non-vacuity: the hypotheses are satisfiable by realistic options ---------- *)
Import String.StringSyntax.
Local Open Scope string_scope.
Definition ex_opts : mint_opts :=
  {| mo_sinful := lit "<10.0.0.5:9618?addrs=10.0.0.5-9618+[2001--1]-9618&alias=n1.example.org&noUDP&sock=startd_1_a#b#c>";
     mo_birth := 1700000000%Z; mo_seq := 7%Z; mo_peer_fqu := []; mo_peer_addr := lit "<10.0.0.9:9618>";
     mo_enc := Some false; mo_integ := None; mo_crypto := lit "AES, 3DES, BLOWFISH";
     mo_version := lit "$CondorVersion: 25.4.0 2025-10-31 BuildID: 847437 PackageID: 25.4.0-0.847437 GitSHA: a6507f91 RC $";
     mo_lifetime_ns := 3600000000000%Z; mo_extra := [60021%Z]; mo_valid := [443%Z; 444%Z]; mo_tag := [] |}.
Definition ex_secret : bytes := lit "0123456789abcdef0123456789abcdef0123456789abcdef0123456789abcdef".
Definition ex_now : Z := 1790133636123456789%Z.
Local Close Scope string_scope.

Example C16_ex_hypotheses :
  (exists m, mint ex_opts ex_secret ex_now = Ok m)
  /\ claim_safe ex_opts = true
  /\ forallb is_lower_hex ex_secret = true
  /\ forallb cipher_char (mo_crypto ex_opts) = true
  /\ contains ch_semi (mo_version ex_opts) = false
  /\ int64_pos (expires_at ex_now (mo_lifetime_ns ex_opts))
  /\ policy_safe (mint_wire ex_opts ex_now) = true.
Proof.
  split; [eexists; vm_compute; reflexivity|].
  repeat split; vm_compute; reflexivity.
Qed.
