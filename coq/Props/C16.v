(* Props/C16.v — property theorems only; proofs live in Proofs/. (placeholder while the pipeline is brought up) *)
From Coq Require Import List NArith ZArith.
From Cedar Require Import Lib.Bytes Lib.SymC16 Model.ClaimId.
Theorem C16_kdf_secret : forall s i l k k', k <> k' -> Kdf s i l k <> Kdf s i l k'.
Proof. exact kdf_secret_neq. Qed.
Print Assumptions C16_kdf_secret.
