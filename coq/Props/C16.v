(* Props/C16.v — property theorems only; proofs live in Proofs/C16*.v. *)
From Coq Require Import List NArith ZArith Bool.
From Cedar Require Import Lib.Bytes Lib.SymC16 Model.ClaimId Proofs.C16Str Proofs.C16Main.
Import ListNotations.

(* For ALL minting options, every secret free of '#' and ']' (every lowercase-hex
   secret is) and every clock: if MintClaimSession succeeds, ParseClaimIDStrict on
   the minted text returns exactly the minted session id, session_info and secret. *)
Theorem C16_parse_mint : forall o secret now m,
  secret_ok secret -> mint o secret now = Ok m ->
  exists info, export_info (mint_wire o now) = Ok info
    /\ m_sid m = mint_sid o
    /\ m_claim m = m_sid m ++ ch_hash :: info ++ secret
    /\ parse_strict (m_claim m) = {| c_sid := m_sid m; c_info := info; c_key := secret |}.
Proof. exact parse_mint. Qed.
Print Assumptions C16_parse_mint.

Theorem C16_hex_secret_ok : forall s, forallb is_lower_hex s = true -> secret_ok s.
Proof. exact hex_secret_ok. Qed.
Print Assumptions C16_hex_secret_ok.

(* Minter and importer (any import options) register the same session: same id,
   same key = HKDF(secret), same protocol, the same policy on every attribute but
   the peer identity "User", and the same expiry (an absolute expiry carried by the
   text always; a relative fallback when both sides were given the same one). *)
Theorem C16_same_session : forall o secret now m io,
  secret_ok secret -> mint o secret now = Ok m ->
  exists e cmds,
    import_claim (m_claim m) io = Ok (m_sid m, e, cmds)
    /\ e_id e = e_id (m_entry m) /\ e_id e = m_sid m
    /\ e_key e = e_key (m_entry m) /\ e_key e = Kdf S_htcondor S_keygen 32 secret
    /\ e_proto e = e_proto (m_entry m)
    /\ (forall n, n <> A_User -> plookup n (e_policy e) = plookup n (e_policy (m_entry m)))
    /\ (io_duration_ns io = mo_lifetime_ns o -> e_expiry e = e_expiry (m_entry m))
    /\ (forall s, e_expiry (m_entry m) = ExpAbs s -> e_expiry e = ExpAbs s)
    /\ (forall s, e_expiry e = ExpAbs s -> e_expiry (m_entry m) = ExpAbs s).
Proof. exact same_session. Qed.
Print Assumptions C16_same_session.

(* An importer whose text yields any other key string holds a different session key. *)
Theorem C16_other_secret_other_key : forall o secret now m claim' io sid' e' cmds',
  mint o secret now = Ok m ->
  import_claim claim' io = Ok (sid', e', cmds') ->
  c_key (parse_strict claim') <> secret ->
  e_key e' <> e_key (m_entry m).
Proof. exact other_secret_other_key. Qed.
Print Assumptions C16_other_secret_other_key.

Theorem C16_filetransfer_same_key : forall o secret now m io,
  secret_ok secret -> mint o secret now = Ok m ->
  exists e cmds,
    import_ft (m_claim m) io = Ok (S_filetrans ++ m_sid m, e, cmds)
    /\ e_id e = S_filetrans ++ m_sid m
    /\ e_key e = e_key (m_entry m) /\ e_proto e = e_proto (m_entry m).
Proof. exact ft_same_key. Qed.
Print Assumptions C16_filetransfer_same_key.

(* The public form is a function of the options alone: two mints with different
   secrets (and clocks) have the same public claim id, sid ++ "#...". *)
Theorem C16_public_no_secret : forall o s1 s2 now1 now2 m1 m2,
  mint o s1 now1 = Ok m1 -> mint o s2 now2 = Ok m2 ->
  m_public m1 = m_public m2 /\ m_public m1 = mint_sid o ++ S_public_tail.
Proof. exact public_no_secret. Qed.
Print Assumptions C16_public_no_secret.

Theorem C16_public_of_parsed : forall o secret now m,
  secret_ok secret -> mint o secret now = Ok m ->
  public_of_parsed (parse_strict (m_claim m)) = m_public m.
Proof. exact public_of_parsed_mint. Qed.
Print Assumptions C16_public_of_parsed.
