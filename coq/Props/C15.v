(* Props/C15.v — property theorems only (in progress). *)
From Coq Require Import List NArith.
From Cedar Require Import Lib.Bytes Lib.Sym Model.Frame.
Theorem C15_export_needs_encrypted : forall s, encrypted s = false -> export_state s = SErr EExport.
Proof. intros s H. unfold export_state. rewrite H. reflexivity. Qed.
Print Assumptions C15_export_needs_encrypted.
