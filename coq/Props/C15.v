(* Props/C15.v — property theorems only; proofs in Proofs/C15Export.v (+ C01/C02/C12). *)
From Coq Require Import List NArith.
From Cedar Require Import Lib.Bytes Lib.Sym gen.Consts Model.Frame Model.FrameSpec
     Proofs.FrameBase Proofs.C12Nonce Proofs.C15Export.
Import ListNotations.
Local Open Scope N_scope.

(* Export succeeds exactly at a clean message boundary of an established encrypted session:
   it is refused whenever the stream is not encrypting, has no AES-256 key, has not yet sent AND
   received a protected frame, or holds a partially sent / partially consumed message. *)
Theorem C15_export_only_when_clean :
  forall s, (exists b, export_state s = SOk b) <-> clean s.
Proof. intro s. split; [intros [b H]; eapply export_ok_clean; exact H|apply clean_export_ok]. Qed.
Print Assumptions C15_export_only_when_clean.

(* Importing what was exported restores every field that later operations read. *)
Theorem C15_restore :
  forall s b peer, export_state s = SOk b ->
    exists s', import_state b peer = SOk s' /\ same_session s s'.
Proof. exact import_export. Qed.
Print Assumptions C15_restore.

(* The peer, unaware of the hand-off, stays paired with the rebuilt stream in both directions:
   every theorem about a paired duplex (round trip C01, authentic prefix C02, nonce discipline
   C12) therefore applies unchanged to all further traffic. *)
Theorem C15_continue :
  forall s P b peer, duplex s P -> digests_final s -> export_state s = SOk b ->
    exists s', import_state b peer = SOk s' /\ duplex s' P /\ digests_final s' /\ same_session s s'.
Proof. exact handoff_continues. Qed.
Print Assumptions C15_continue.

(* digests_final is what SetSymmetricKey establishes *)
Theorem C15_set_key_freezes_digests :
  forall s k iv s', set_key s k iv = SOk s' -> digests_final s'.
Proof. exact set_key_final. Qed.
Print Assumptions C15_set_key_freezes_digests.

(* Chains: the rebuilt stream is again at a clean boundary, so it can be handed off again. *)
Theorem C15_chain :
  forall s s', same_session s s' -> clean s -> clean s'.
Proof. exact handoff_clean. Qed.
Print Assumptions C15_chain.

(* No (key, nonce) pair is reused across a hand-off, whatever is sent before and after. *)
Theorem C15_no_nonce_reuse :
  forall s ops1 s1 es1 fs1 b peer s1' ops2 s2 es2 fs2,
    enc_ctr s <= CounterGuard ->
    run_sops s ops1 = (s1, es1, fs1) ->
    export_state s1 = SOk b -> import_state b peer = SOk s1' ->
    run_sops s1' ops2 = (s2, es2, fs2) ->
    NoDup (key_nonces (fs1 ++ fs2)).
Proof. exact no_nonce_reuse_across. Qed.
Print Assumptions C15_no_nonce_reuse.

(* Import rejects a mis-tagged or wrong-version blob (symbolic blob level; the byte-level
   parser incl. truncation is Model/Blob.v). *)
Theorem C15_import_rejects_magic_version :
  forall b peer,
    (b_magic b <> [n2b CsMagic0; n2b CsMagic1; n2b CsMagic2; n2b CsMagic3] \/ b_version b <> CsVersion) ->
    import_state b peer = SErr EImport.
Proof.
  intros b peer [Hm|Hv]; unfold import_state.
  - destruct (bytes_eqb (b_magic b) [n2b CsMagic0; n2b CsMagic1; n2b CsMagic2; n2b CsMagic3]) eqn:E; [|reflexivity].
    apply bytes_eqb_eq in E. contradiction.
  - destruct (bytes_eqb (b_magic b) [n2b CsMagic0; n2b CsMagic1; n2b CsMagic2; n2b CsMagic3]); [|reflexivity].
    cbn [negb]. destruct (b_version b =? CsVersion) eqn:E; [apply N.eqb_eq in E; contradiction|reflexivity].
Qed.
Print Assumptions C15_import_rejects_magic_version.

(* ---- byte level: the blob layout and the parser of NewStreamWithCryptoState ---- *)
From Cedar Require Import Model.Blob Proofs.C15Blob.

(* The parser reads back exactly what the exporter wrote ... *)
Theorem C15_blob_roundtrip : forall b, rb_wf b -> parse (ser b) = Some b.
Proof. exact parse_ser. Qed.
Print Assumptions C15_blob_roundtrip.

(* ... and rejects EVERY strict prefix of a valid blob, *)
Theorem C15_import_rejects_truncated :
  forall b (n : nat), rb_wf b -> (n < length (ser b))%nat -> parse (firstn n (ser b)) = None.
Proof. exact parse_truncated. Qed.
Print Assumptions C15_import_rejects_truncated.

(* a wrong magic and a wrong version. *)
Theorem C15_import_rejects_magic : forall bs, firstn 4 bs <> magic -> parse bs = None.
Proof. exact parse_bad_magic. Qed.
Theorem C15_import_rejects_version : forall bs, be_dec (firstn 2 (skipn 4 bs)) <> CsVersion -> parse bs = None.
Proof. exact parse_bad_version. Qed.
Print Assumptions C15_import_rejects_version.

Example C15_rb_wf_satisfiable :
  rb_wf {| rb_flags := 13; rb_key := repeat x01 32; rb_eiv := repeat x02 16; rb_div := repeat x03 16;
           rb_ectr := 5; rb_dctr := 7; rb_sdg := repeat x00 32; rb_rdg := repeat x00 32; rb_peer := [x3c; x3e] |}.
Proof. unfold rb_wf. cbn. repeat split; try reflexivity; vm_compute; reflexivity. Qed.
