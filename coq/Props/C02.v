(* Props/C02.v — property theorems only (in progress). *)
From Coq Require Import List NArith.
From Cedar Require Import Lib.Bytes Lib.Sym Model.Frame.
Theorem C02_open_only_seal : forall k n a c p, open k n a c = Some p -> c = seal k n a p.
Proof. exact open_only_seal. Qed.
Print Assumptions C02_open_only_seal.
