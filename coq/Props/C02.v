(* Props/C02.v — property theorems only; proofs in Proofs/C02Prefix.v, Proofs/C02Messages.v. *)
From Coq Require Import List NArith.
From Cedar Require Import Lib.Bytes Lib.Sym gen.Consts Model.Frame Model.FrameSpec
     Proofs.FrameBase Proofs.C12Nonce Proofs.C01Sre Proofs.C02Prefix Proofs.C02Messages Proofs.C02Sre.
Import ListNotations.
Local Open Scope N_scope.

(* On an AES-GCM protected stream, whatever frame sequence fs' an on-path party hands to the
   receiver (edited, injected incl. empty frames, dropped, duplicated, reordered, replayed,
   truncated: fs' is ARBITRARY, built from raw bytes, from ciphertexts the sender produced in
   this direction, and from ciphertexts of ANOTHER direction under the same key - typically
   what the receiver itself sent, i.e. reflection - [known_ok]), the messages delivered
   before the first error, through
   ReceiveCompleteMessage or the Message-layer reader, are an in-order, byte-identical prefix
   of the messages of the sender's history h, with the boundaries intact; an incomplete
   trailing message is never delivered. [reflect_safe] is what defuses the foreign
   ciphertexts: the two directions' base IVs differ beyond the counter word (96 random bits),
   and while the receiver still waits for its first frame the foreign first frame is bound to
   other handshake digests than the receiver expects (after every real handshake the two
   directions carried different cleartext). With no foreign traffic take [no_other]. *)
Theorem C02_prefix :
  forall api, api = ApiComplete \/ api = ApiMessage ->
  forall (h : list msg) (A B A1 : stream) (fs fs' : list frame) (k : bytes) (o : other_dir) (K : ctext -> Prop) (n : nat),
    duplex A B -> key A = Some k -> encrypted A = true -> wf_send A -> reflect_safe A B o ->
    send_all A h = (A1, SOk fs) ->
    known_ok k (enc_iv A) (enc_ctr A) fs o K -> uses_only K fs' ->
    prefix (snd (fst (fst (recv_upto api B n fs')))) (map payload_of h).
Proof. exact delivered_is_prefix. Qed.
Print Assumptions C02_prefix.

(* The same through StartMessageRead / ReadMessageBytes / EndMessageRead. *)
Theorem C02_prefix_start_read_end :
  forall (h : list msg) (A B A1 : stream) (fs fs' : list frame) (k : bytes) (o : other_dir) (K : ctext -> Prop) (n : nat),
    duplex A B -> rclean B -> key A = Some k -> encrypted A = true -> wf_send A -> reflect_safe A B o ->
    send_all A h = (A1, SOk fs) ->
    known_ok k (enc_iv A) (enc_ctr A) fs o K -> uses_only K fs' ->
    prefix (snd (fst (fst (recv_upto ApiStartReadEnd B n fs')))) (map payload_of h).
Proof. exact delivered_is_prefix_sre. Qed.
Print Assumptions C02_prefix_start_read_end.

(* Frame level: the (payload, end flag) pairs accepted before the first rejection are a
   prefix of what the sender sent. *)
Theorem C02_frames_prefix :
  forall (fs' : list frame) (A B : stream) (k : bytes) (o : other_dir) (K : ctext -> Prop)
         (tr : list (bytes * N)) (fs : list frame) (A' : stream),
    duplex A B -> key A = Some k -> encrypted A = true -> wf_send A -> reflect_safe A B o ->
    sent A tr fs A' -> known_ok k (enc_iv A) (enc_ctr A) fs o K -> uses_only K fs' ->
    prefix (snd (recv_frames B fs')) tr.
Proof. exact prefix_frames. Qed.
Print Assumptions C02_frames_prefix.

(* ... and the same holds when the application READS ON after errors, once the receiver has
   accepted its first protected frame of the direction: a rejected frame leaves the receiver
   exactly as it was (the frame counter in particular), so whatever is accepted later is still
   the sender's next frame - nothing is skipped, repeated or taken from elsewhere, however many
   errors lie in between.  (Before the first accepted frame a rejected frame of 32 bytes or more
   freezes the first-frame flag and the digests - modelled exactly in Model/Frame.v
   [fail_decrypt], compared with the real receiver by the correspondence run - after which the
   receiver accepts nothing at all any more: C02_frames_prefix_reading_on below covers that
   state too.) *)
Theorem C02_frames_prefix_across_errors :
  forall (fs' : list frame) (A B : stream) (k : bytes) (o : other_dir) (K : ctext -> Prop)
         (tr : list (bytes * N)) (fs : list frame) (A' : stream),
    duplex A B -> key A = Some k -> encrypted A = true -> wf_send A -> reflect_safe A B o ->
    fin_recv_aad B = true ->
    sent A tr fs A' -> known_ok k (enc_iv A) (enc_ctr A) fs o K -> uses_only K fs' ->
    prefix (snd (recv_frames_all B fs')) tr.
Proof. exact prefix_frames_across_errors. Qed.
Print Assumptions C02_frames_prefix_across_errors.

(* The unconditional form: from ANY point of a session - the receiver still waiting for its first
   protected frame, or established - and however long the application reads on after errors,
   what is accepted is a prefix of what the sender sent.  It needs one more fact about the
   ciphertexts in the attacker's hands, true of every frame a cedar sender emits
   (C02_sender_frames_shaped): a ciphertext sealed under header-only associated data is the
   body of a frame whose header announces exactly plaintext + tag bytes.  That is what makes a
   "poisoned" receiver (a rejected would-be first frame of 32 bytes or more froze its
   first-frame flag while its counter is still 0) reject everything for ever
   (C02_poisoned_accepts_nothing): it takes the IV from each frame it is shown, so the body
   it authenticates is 16 bytes longer than any header-only ciphertext's own frame. *)
Theorem C02_frames_prefix_reading_on :
  forall (fs' : list frame) (A B : stream) (k : bytes) (o : other_dir) (K : ctext -> Prop)
         (tr : list (bytes * N)) (fs : list frame) (A' : stream),
    duplex A B -> key A = Some k -> encrypted A = true -> wf_send A -> reflect_safe A B o ->
    sent A tr fs A' -> known_ok k (enc_iv A) (enc_ctr A) fs o K -> uses_only K fs' ->
    (forall f' ivo ct, In f' fs' -> f_body f' = Ct ivo ct -> hdr_shaped ct) ->
    prefix (snd (recv_frames_all B fs')) tr.
Proof. exact prefix_frames_all. Qed.
Print Assumptions C02_frames_prefix_reading_on.

Theorem C02_poisoned_accepts_nothing :
  forall (fs' : list frame) (B : stream) (k : bytes),
    enc_active B = true -> key B = Some k -> poisoned B ->
    (forall f' ivo ct, In f' fs' -> f_body f' = Ct ivo ct -> hdr_shaped ct) ->
    snd (recv_frames_all B fs') = [].
Proof. exact poisoned_accepts_nothing. Qed.
Print Assumptions C02_poisoned_accepts_nothing.

Theorem C02_sender_frames_shaped :
  forall (s : stream) (d : bytes) (fl : N) (s' : stream) (f : frame) (ivo : option bytes) (ct : ctext),
    send_frame s d fl = (s', SOk f) -> wf_send s -> f_body f = Ct ivo ct -> hdr_shaped ct.
Proof. exact send_frame_shaped. Qed.
Print Assumptions C02_sender_frames_shaped.

(* A rejected frame does not change an established receiver at all. *)
Theorem C02_rejected_frame_changes_nothing :
  forall (B : stream) (f : frame) (B1 : stream) (e : serr),
    fin_recv_aad B = true -> recv_frame_we B f = (B1, SErr e) -> B1 = B.
Proof. exact recv_we_fail_established. Qed.
Print Assumptions C02_rejected_frame_changes_nothing.

(* Detection: the frames accepted are a prefix of the genuine wire itself; the first frame
   that is not the genuine frame of its position is rejected (error at or before the first
   affected message). *)
Theorem C02_detect :
  forall (fs' : list frame) (A B : stream) (k : bytes) (o : other_dir) (K : ctext -> Prop)
         (tr : list (bytes * N)) (fs : list frame) (A' : stream),
    duplex A B -> key A = Some k -> encrypted A = true -> wf_send A -> reflect_safe A B o ->
    sent A tr fs A' -> known_ok k (enc_iv A) (enc_ctr A) fs o K -> uses_only K fs' ->
    prefix (accepted B fs') fs.
Proof. exact accepted_prefix_of_wire. Qed.
Print Assumptions C02_detect.

(* In particular a zero-length frame is never accepted on an encrypting stream. *)
Theorem C02_no_empty_frame :
  forall (B : stream) (fl : N), enc_active B = true ->
    exists e, snd (recv_frame_we B {| f_flag := fl; f_body := Raw [] |}) = SErr e.
Proof.
  intros B fl H. unfold recv_frame_we, recv_frame_gen. cbn [f_flag f_body body_len].
  destruct (max_wire B <? lenN []); [eexists; reflexivity|].
  destruct (FlagMaxRecvWE <? fl); [eexists; reflexivity|].
  change (lenN [] =? 0) with true. cbv iota. rewrite H. eexists; reflexivity.
Qed.
Print Assumptions C02_no_empty_frame.

(* Reflection: a frame the stream itself sealed is rejected when handed back to it, provided
   the base IVs of the two directions differ beyond the counter word (random 96 bits), or -
   for the first frame - provided its send and receive handshake digests differ. *)
Theorem C02_reflection_rejected :
  forall B k c a p f' ivo,
    enc_active B = true -> key B = Some k ->
    f_body f' = Ct ivo (seal k (nonce_of (enc_iv B) c) a p) ->
    (4 <= length (enc_iv B))%nat -> (4 <= length (dec_iv B))%nat ->
    ((dec_ctr B <> 0 /\ skipn 4 (dec_iv B) <> skipn 4 (enc_iv B)) \/
     (dec_ctr B = 0 /\ fin_recv_aad B = false /\
      forall h, a <> AadFirst (dg_value (recv_dg B)) (dg_value (send_dg B)) h)) ->
    exists e, snd (recv_frame_we B f') = SErr e.
Proof. exact reflection_rejected. Qed.
Print Assumptions C02_reflection_rejected.

(* non-vacuity: two freshly keyed ends satisfy every hypothesis *)
Example C02_hypotheses_satisfiable :
  exists A B k, duplex A B /\ key A = Some k /\ encrypted A = true /\ wf_send A /\
                reflect_safe A B {| o_iv := enc_iv B; o_ds := DHash [x01]; o_dr := DZero |}.
Proof.
  set (k := repeat x01 32).
  destruct (set_key new_stream k (repeat x07 16)) as [A|] eqn:EA; [|discriminate].
  destruct (set_key new_stream k (repeat x09 16)) as [B|] eqn:EB; [|discriminate].
  exists A, B, k. vm_compute in EA, EB. injection EA as <-. injection EB as <-.
  split; [split; constructor; try reflexivity; try apply dsim_refl; intro H; inversion H|].
  split; [reflexivity|]. split; [reflexivity|].
  split; [split; [split; intro; reflexivity|vm_compute; discriminate]|].
  unfold reflect_safe. cbn [o_iv o_ds o_dr enc_iv dec_ctr recv_dg send_dg].
  split; [vm_compute; repeat constructor|]. split; [vm_compute; repeat constructor|].
  split; [vm_compute; discriminate|]. intros _. left. vm_compute. discriminate.
Qed.

(* The hypothesis [reflect_safe] cannot be dropped (known finding
   reflection-without-handshake-digests): on a pair keyed with NO cleartext in either
   direction both handshake digests are the zero block, and a stream still waiting for its
   peer's first frame accepts its OWN first frame when it is handed back to it. *)
Theorem C02_reflection_bare_refuted :
  exists (B B' : stream) (f : frame) (d : bytes),
    (exists B0, set_key new_stream (repeat x01 32) (repeat x09 16) = SOk B0 /\
                send_frame B0 d EndFlagComplete = (B, SOk f)) /\
    recv_frame_we B f = (B', SOk (d, EndFlagComplete)).
Proof.
  destruct (set_key new_stream (repeat x01 32) (repeat x09 16)) as [B0|] eqn:E0; [|discriminate].
  destruct (send_frame B0 [x41; x42] EndFlagComplete) as [B [f|e]] eqn:E1.
  2:{ vm_compute in E0. injection E0 as <-. vm_compute in E1. discriminate. }
  destruct (recv_frame_we B f) as [B' r] eqn:E2.
  exists B, B', f, [x41; x42]. split; [exists B0; split; [reflexivity|exact E1]|].
  vm_compute in E0. injection E0 as <-. vm_compute in E1. injection E1 as <- <-.
  vm_compute in E2. injection E2 as <- <-. vm_compute. reflexivity.
Qed.
Print Assumptions C02_reflection_bare_refuted.
