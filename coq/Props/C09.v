(* Props/C09.v — property theorems only; proofs live in Proofs/C09.v.

   C09: private attributes are never serialised unless asked for, nor sent in the clear. *)
From Coq Require Import List NArith ZArith Bool.
From Cedar Require Import Lib.Bytes gen.Consts Model.Msg Model.Privacy Model.AdWire Proofs.C09 Proofs.C14Writer Proofs.C09Layout.
From Cedar Require Import Proofs.C14Roundtrip Proofs.C08Bridge Proofs.C09Round.
From Cedar Require Import Model.PrivacySeq Proofs.C09Seq.
Import ListNotations.
Local Open Scope N_scope.

(* Unless IncludePrivate is set and NoPrivate is not, no attribute that is
   serialised is private (fixed names or reserved prefix, as Go matches them)
   nor listed in EncryptedAttrs: for every ad, option set, whitelist, peer. *)
Theorem C09_default_deny : forall (c : config) (attrs : list attr) (a : attr),
  include_private c = false ->
  In a (attrs_to_send c attrs) ->
  is_private_any (fst a) = false /\ in_list (fst a) (c_enc_attrs c) = false.
Proof. exact default_deny. Qed.
Print Assumptions C09_default_deny.

(* Reserved-prefix attributes are withheld from a peer older than 9.9.0 even with the opt-in. *)
Theorem C09_old_peer_no_v2 : forall (c : config) (attrs : list attr) (a : attr) (v : Z * Z * Z),
  c_peer c = Some v -> built_since v 9 9 0 = false ->
  In a (attrs_to_send c attrs) -> is_private_v2 (fst a) = false.
Proof. exact old_peer_no_v2. Qed.
Print Assumptions C09_old_peer_no_v2.

(* Go's matching (strings.ToLower / EqualFold, Unicode aware) is at least as wide as
   ASCII case-insensitive matching of the fixed names and of the prefix. *)
Theorem C09_case_insensitive : forall name : bytes,
  spec_private name = true -> is_private_any name = true.
Proof. exact spec_private_covered. Qed.
Print Assumptions C09_case_insensitive.

(* Nothing is invented: what is sent is an attribute of the ad, and on the whitelist if there is one. *)
Theorem C09_sent_subset : forall (c : config) (attrs : list attr) (a : attr),
  In a (attrs_to_send c attrs) ->
  In a attrs /\ (c_whitelist c <> [] -> in_list (fst a) (c_whitelist c) = true).
Proof. exact sent_subset. Qed.
Print Assumptions C09_sent_subset.

(* Without the opt-in the whole sender state after serialising — every frame
   already written, in whatever stream state, and the bytes still buffered — is
   the same for two ads that differ only in private attributes (names, values,
   presence, position): no byte on the wire depends on them. *)
Theorem C09_noninterference : forall (c : config) (st : sstate) (a1 a2 : ad),
  include_private c = false ->
  filter public_attr (ad_attrs a1) = filter public_attr (ad_attrs a2) ->
  ad_mytype a1 = ad_mytype a2 -> ad_targettype a1 = ad_targettype a2 ->
  put_ad c st a1 = put_ad c st a2.
Proof. exact noninterference. Qed.
Print Assumptions C09_noninterference.

(* On a stream that holds a key but is not encrypting, with any options: two
   ads that differ only in the VALUES of secret attributes (private names or
   EncryptedAttrs; same rendered length) are indistinguishable on the
   connection, where a sealed frame shows only its length and end flag. *)
Theorem C09_secret_sealed : forall (c : config) (st : sstate) (a1 a2 : ad),
  s_key st = true -> s_enc st = false ->
  same_but_secrets c (ad_attrs a1) (ad_attrs a2) ->
  ad_mytype a1 = ad_mytype a2 -> ad_targettype a1 = ad_targettype a2 ->
  view (s_frames (s_finish (put_ad c st a1))) = view (s_frames (s_finish (put_ad c st a2))).
Proof. exact secret_sealed. Qed.
Print Assumptions C09_secret_sealed.

(* ... and the secret is really sent: marker in clear frames, then at least one sealed frame, buffer left empty. *)
Theorem C09_secret_frames : forall (st : sstate) (e : bytes),
  s_key st = true -> s_enc st = false ->
  exists clear sealed,
    s_out (put_secret_expr st e) =
      s_out st ++ map (fun fr => (false, fr)) clear ++ map (fun fr => (true, fr)) sealed
    /\ sealed <> [] /\ s_buf (put_secret_expr st e) = [].
Proof. exact put_secret_frames. Qed.
Print Assumptions C09_secret_frames.

(* The explicit layout on a stream that holds a key but is not encrypting, for EVERY ad, option
   set, whitelist and peer version: the bytes written in clear frames are the count, ServerTime if
   requested, then per serialised attribute either its "name = value" string (public attributes)
   or just the marker string "ZKM" (private names and EncryptedAttrs), then the type names; the
   "name = value" of every secret attribute is written under the seal, as a length-prefixed
   string, and nowhere else.  (cbytes / sbytes = payload bytes of the clear / sealed frames.) *)
Theorem C09_marker_layout : forall (c : config) (a : ad),
  let st := s_finish (put_ad c (sstate_init true false) a) in
  let send := attrs_to_send c (ad_attrs a) in
  cbytes st =
    enc_int (Z.of_nat (length send) + (if opt_server_time (c_opts c) then 1 else 0)) ++
    (if opt_server_time (c_opts c) then string_bytes false server_time_expr else []) ++
    concat (map (clear_item c) send) ++
    (if opt_no_types (c_opts c) then [] else string_bytes false (ad_mytype a) ++ string_bytes false (ad_targettype a))
  /\ sbytes st = concat (map (fun x => string_bytes true (expr_text x)) (filter (secret_attr' c) send)).
Proof. exact marker_layout. Qed.
Print Assumptions C09_marker_layout.

(* "... and the receiver still reassembles the ad": on a stream that holds a key but is not
   encrypting, for EVERY ad, option set (types not suppressed), whitelist and peer version,
   GetClassAdRaw applied to the frames the sender produced - clear frames carrying the public
   attributes and the markers, sealed frames carrying the secrets, the crypto mode switched at
   exactly the frame boundaries the sender flushed at - returns every serialised attribute's
   "name = value" text (ServerTime first if requested), in order and unchanged, private ones
   included, and the two type names.  Hypotheses: the rendered strings are NUL-free, do not start
   with 0xAD and are shorter than 2^31 (true of rendered ClassAd expressions; secrets of any size
   below that, also spanning several sealed frames); type names are type names or empty. *)
Theorem C09_receiver_reassembles : forall (c : config) (a : ad),
  opt_no_types (c_opts c) = false ->
  Forall (valid_str true) (ad_exprs c a) ->
  nul_free (ad_mytype a) -> nul_free (ad_targettype a) -> type_ok (ad_mytype a) -> type_ok (ad_targettype a) ->
  (Z.of_nat (length (ad_attrs a)) < 2 ^ 62)%Z ->
  exists t1,
    get_ad_raw (treader_of true false (s_frames (s_finish (put_ad c (sstate_init true false) a)))) =
      (t1, MOk (ad_exprs c a, ad_mytype a, ad_targettype a)).
Proof. exact marker_roundtrip. Qed.
Print Assumptions C09_receiver_reassembles.

(* REFUTED strict reading: "without the opt-in the NAME of a private attribute occurs nowhere in the
   emitted bytes".  A public attribute is serialised as written; if its expression refers to a
   private attribute (MyType = ClaimId) that name is in the bytes.  Witness: [ClaimId = "s";
   MyType = ClaimId], options 0, plaintext stream; replayed on the real code by vh-c09 (known
   finding name-in-public-expression).  What does hold is C09_noninterference: nothing emitted
   depends on the private attributes themselves (their names as attributes, values, presence). *)
Theorem C09_names_refuted :
  exists (c : config) (a : ad) (n : bytes),
    include_private c = false /\ In n (map fst (ad_attrs a)) /\ is_private_any n = true /\
    infixb n (emitted (s_finish (put_ad c (sstate_init false false) a))) = true.
Proof. exact names_refuted. Qed.
Print Assumptions C09_names_refuted.

(* With the opt-in (and no whitelist, current or unknown peer) every attribute is sent: the filter is not vacuous. *)
Theorem C09_opt_in_sends_all : forall (c : config) (attrs : list attr) (a : attr),
  include_private c = true -> c_whitelist c = [] ->
  (forall v, c_peer c = Some v -> built_since v 9 9 0 = true) ->
  In a attrs -> In a (attrs_to_send c attrs).
Proof. exact opt_in_sends_all. Qed.
Print Assumptions C09_opt_in_sends_all.

(* The whitelist path, for EVERY ad, whitelist, option set (NoExpandWhitelist or not), EncryptedAttrs
   and peer, and for all expressions WHATEVER THEY REFER TO (the attribute's expression text is the
   unconstrained second component): every serialised attribute is an attribute of the ad, is named
   by the whitelist when one is given, and passes the privacy filter - so without the opt-in it is
   not private, and a reserved-prefix name never reaches an old peer.  A projection is never widened
   by what a projected expression mentions. *)
Theorem C09_whitelist_never_adds_private : forall (c : config) (attrs : list attr) (a : attr),
  In a (attrs_to_send c attrs) ->
  In a attrs /\
  (c_whitelist c <> [] -> in_list (fst a) (c_whitelist c) = true) /\
  dropped (exclude_private c) (exclude_private_v2 c) (c_enc_attrs c) (fst a) = false /\
  (include_private c = false -> is_private_any (fst a) = false /\ in_list (fst a) (c_enc_attrs c) = false) /\
  (forall v, c_peer c = Some v -> built_since v 9 9 0 = false -> is_private_v2 (fst a) = false).
Proof. exact whitelist_never_adds_private. Qed.
Print Assumptions C09_whitelist_never_adds_private.

(* ... and the set of names serialised is a function of the ad's attribute NAMES only: two ads with
   the same names and arbitrary, different expressions are projected to the same names. *)
Theorem C09_projection_ignores_expressions : forall (c : config) (l1 l2 : list attr),
  map fst l1 = map fst l2 -> map fst (attrs_to_send c l1) = map fst (attrs_to_send c l2).
Proof. exact projection_ignores_expressions. Qed.
Print Assumptions C09_projection_ignores_expressions.

(* Histories through ONE Message: arbitrary interleavings of SetSymmetricKey, SetCryptoMode(on/off),
   allocation of a fresh Message, and PutClassAdWithOptions + FinishMessage, from any sender state
   with an empty buffer.  The frames written are, ad by ad, exactly the frames a brand-new Message on
   a brand-new stream IN THE MODE IN FORCE WHEN THAT AD IS SERIALISED would write (fresh_frames):
   the Message carries no crypto decision from its construction or from earlier ads; and the ad
   writes leave the stream's mode as the state changes set it. *)
Theorem C09_decision_at_serialisation_time : forall (ops : list sop) (st : sstate),
  s_buf st = [] ->
  s_out (run_seq st ops) = s_out st ++ fresh_frames (s_key st, s_enc st) ops /\
  (s_key (run_seq st ops), s_enc (run_seq st ops)) = mode_after (s_key st, s_enc st) ops.
Proof. exact decision_at_serialisation_time. Qed.
Print Assumptions C09_decision_at_serialisation_time.

(* Hence, in any history: an ad written at a moment when the stream holds a key and is not
   encrypting (whenever the Message was created, whatever was sent through it before and after)
   shows nothing of its secrets' values to an observer of the connection ... *)
Theorem C09_seq_secret_sealed : forall (pre post : list sop) (c : config) (a1 a2 : ad) (st : sstate),
  s_buf st = [] ->
  mode_after (s_key st, s_enc st) pre = (true, false) ->
  same_but_secrets c (ad_attrs a1) (ad_attrs a2) ->
  ad_mytype a1 = ad_mytype a2 -> ad_targettype a1 = ad_targettype a2 ->
  view (s_out (run_seq st (pre ++ OPutAd c a1 :: post))) = view (s_out (run_seq st (pre ++ OPutAd c a2 :: post))).
Proof. exact seq_secret_sealed. Qed.
Print Assumptions C09_seq_secret_sealed.

(* ... and without the opt-in the whole history is identical for ads differing only in private attributes. *)
Theorem C09_seq_noninterference : forall (pre post : list sop) (c : config) (a1 a2 : ad) (st : sstate),
  include_private c = false ->
  filter public_attr (ad_attrs a1) = filter public_attr (ad_attrs a2) ->
  ad_mytype a1 = ad_mytype a2 -> ad_targettype a1 = ad_targettype a2 ->
  run_seq st (pre ++ OPutAd c a1 :: post) = run_seq st (pre ++ OPutAd c a2 :: post).
Proof. exact seq_noninterference. Qed.
Print Assumptions C09_seq_noninterference.

(* non-vacuity: a keyed, non-encrypting stream and an ad with a claim id *)
Import Coq.Strings.String.StringSyntax.
Local Open Scope string_scope.
Example C09_example_hyps :
  let c := {| c_opts := 32; c_whitelist := []; c_enc_attrs := []; c_peer := None |} in
  let a v := {| ad_attrs := [(s2b "Name", s2b """slot1"""); (s2b "ClaimId", v)]; ad_mytype := s2b "Machine"; ad_targettype := [] |} in
  include_private c = true /\
  same_but_secrets c (ad_attrs (a (s2b """secretA"""))) (ad_attrs (a (s2b """secretB"""))) /\
  view (s_frames (s_finish (put_ad c (sstate_init true false) (a (s2b """secretA"""))))) =
  view (s_frames (s_finish (put_ad c (sstate_init true false) (a (s2b """secretB"""))))) /\
  s_frames (s_finish (put_ad c (sstate_init true false) (a (s2b """secretA""")))) <>
  s_frames (s_finish (put_ad c (sstate_init true false) (a (s2b """secretB""")))).
Proof.
  cbv zeta. split; [vm_compute; reflexivity|]. split.
  - constructor; [split; [reflexivity|vm_compute; reflexivity]|].
    constructor; [split; [reflexivity|vm_compute; reflexivity]|]. constructor.
  - split; [vm_compute; reflexivity|]. vm_compute. discriminate.
Qed.


(* non-vacuity of the whitelist theorem: the projection {Name, ClaimRef} of an ad in which
   ClaimRef = ClaimId is [Name; ClaimRef] - ClaimId is not drawn in by the reference, with or
   without NoExpandWhitelist (bit 4), with or without the opt-in *)
Example C09_example_whitelist_reference :
  let attrs := [(s2b "Name", s2b """slot1"""); (s2b "ClaimId", s2b """secret"""); (s2b "ClaimRef", s2b "ClaimId")] in
  let c o := {| c_opts := o; c_whitelist := [s2b "Name"; s2b "ClaimRef"]; c_enc_attrs := []; c_peer := None |} in
  map fst (attrs_to_send (c 0) attrs) = [s2b "Name"; s2b "ClaimRef"] /\
  map fst (attrs_to_send (c 16) attrs) = [s2b "Name"; s2b "ClaimRef"] /\
  map fst (attrs_to_send (c 32) attrs) = [s2b "Name"; s2b "ClaimRef"] /\
  map fst (attrs_to_send (c 34) attrs) = [s2b "Name"; s2b "ClaimRef"].
Proof. cbv zeta. repeat split; vm_compute; reflexivity. Qed.

(* non-vacuity of the history theorems: the Message exists before the key is installed; the key is
   installed, encryption switched off, and only then the ad with a claim id is written *)
Example C09_example_history :
  let c := {| c_opts := 32; c_whitelist := []; c_enc_attrs := []; c_peer := None |} in
  let a v := {| ad_attrs := [(s2b "Name", s2b """slot1"""); (s2b "ClaimId", v)]; ad_mytype := s2b "Machine"; ad_targettype := [] |} in
  let st := sstate_init false false in
  mode_after (s_key st, s_enc st) [ONewMsg; OSetKey; OCryptoOff] = (true, false) /\
  s_out (run_seq st ([ONewMsg; OSetKey; OCryptoOff] ++ [OPutAd c (a (s2b """secretA"""))])) <>
  s_out (run_seq st ([ONewMsg; OSetKey; OCryptoOff] ++ [OPutAd c (a (s2b """secretB"""))])) /\
  existsb (fun f : tframe => fst f) (s_out (run_seq st ([ONewMsg; OSetKey; OCryptoOff] ++ [OPutAd c (a (s2b """secretA"""))]))) = true.
Proof.
  cbv zeta. split; [reflexivity|]. split; [vm_compute; discriminate|vm_compute; reflexivity].
Qed.


(* ---- stream half (lead): the secret travels inside a ciphertext term ---------------------- *)
From Cedar Require Import Lib.Bytes Lib.Sym gen.Consts Model.Frame Model.FrameSpec Proofs.C09Stream.
Local Open Scope N_scope.

(* PutSecret on a stream that holds a key: whatever the current crypto mode, the emitted frame
   is the AEAD sealing of the secret under the stream key at the current counter, and the
   mode in force before the call is restored (also when the send is refused). *)
Theorem C09_stream_secret_is_sealed :
  forall (s : stream) (d : bytes) (s' : stream) (e : N) (fs : list frame) (k : bytes),
    key s = Some k -> enc_ctr s <= CounterGuard ->
    before_secret s = false ->     (* not inside another secret section: prepare/restore calls are paired *)
    run_sop s (OSecret d) = (s', e, fs) ->
    encrypted s' = encrypted s /\
    (e = 0 -> exists f ivo a, fs = [f] /\ f_body f = Ct ivo (seal k (nonce_of (enc_iv s) (enc_ctr s)) a (d ++ [x00]))) /\
    (e <> 0 -> fs = []).
Proof. exact secret_is_sealed. Qed.
Print Assumptions C09_stream_secret_is_sealed.

(* CryptoForSecretIsNoop is true exactly when wrapping would change nothing: no key, or
   already encrypting; with a key and encryption off the marker + sealed frame is needed. *)
Theorem C09_stream_noop_exact :
  forall s, secret_is_noop s = true <-> (key s = None \/ encrypted s = true).
Proof.
  intro s. unfold secret_is_noop. destruct (key s) as [k|]; split; intro H; auto.
  - destruct H as [H|H]; [discriminate|exact H].
Qed.
Print Assumptions C09_stream_noop_exact.

(* The send counter exhausted (enc_ctr = CounterGuard = 2^32-1) on a stream that holds a key but
   is not encrypting: CryptoForSecretIsNoop is still false (the marker path is still required) and
   PutSecret is refused - no frame is written, so the secret does not go out inline or in the
   clear - and the stream stays non-encrypting with its counter unchanged. *)
From Cedar Require Import Proofs.C09Counter.
Theorem C09_stream_counter_max_refuses :
  forall (s : stream) (d : bytes) (k : bytes) (s' : stream) (e : N) (fs : list frame),
    key s = Some k -> encrypted s = false -> enc_ctr s = CounterGuard ->
    run_sop s (OSecret d) = (s', e, fs) ->
    secret_is_noop s = false /\ e <> 0 /\ fs = [] /\ encrypted s' = false /\ enc_ctr s' = CounterGuard.
Proof. exact secret_refused_at_counter_max. Qed.
Print Assumptions C09_stream_counter_max_refuses.
