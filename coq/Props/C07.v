(* Props/C07.v — property theorems only; proofs live in Proofs/C07.v, the
   history/reference-map definitions in Proofs/C07Ref.v, the cache model in
   Model/Cache.v. *)
From Coq Require Import List ZArith Bool.
From Cedar Require Import Lib.Bytes Model.Cache Proofs.C07Ref Proofs.C07 Proofs.C07Est.
Import ListNotations.
Local Open Scope Z_scope.

(* The key strings "{tag,addr,<cmd>}" / "{addr,<cmd>}" determine (tag, addr, cmd)
   when none of the three contains a comma. *)
Theorem C07_key_inj : forall t a c t' a' c',
  no_comma t -> no_comma a -> no_comma c -> no_comma t' -> no_comma a' -> no_comma c' ->
  cmd_key t a c = cmd_key t' a' c' -> t = t' /\ a = a' /\ c = c'.
Proof. exact cmd_key_inj. Qed.
Print Assumptions C07_key_inj.

(* ... and the side condition is needed: a tag-less handshake to address "t,a"
   uses the key of (tag "t", address "a").  Reported in notes/C07.md. *)
Theorem C07_key_inj_needs_side_condition :
  cmd_key [] [x74; ch_comma; x61] [x31] = cmd_key [x74] [x61] [x31].
Proof. exact cmd_key_collision. Qed.
Print Assumptions C07_key_inj_needs_side_condition.

(* Refinement.  For every history of client handshakes against arbitrary peers
   (restarted servers, broken connections, any reply), clock ticks, Invalidate,
   InvalidateExpired and LookupNonExpired in which tags/addresses/commands are
   comma-free (the ONLY side condition: since fix dcd50bb a session registered under
   an id that is still cached takes the id over without inheriting the earlier
   entry's routes, so servers may announce any id, fresh or not):
   the cache is exactly the image of the reference map under the key encoding;
   LookupByCommand answers what the reference map answers; the session a
   handshake rides (client_action = AResume sid) is the reference map's; and the
   reference map only ever offers a stored session that was established under
   the same tag, to the same address, with the command among the ValidCommands
   its server declared, and that is not expired. *)
Theorem C07_refines : forall h,
  good h ->
  let '(c, now) := run h in
  let '(r, _) := ref_run h in
  c = image r /\
  forall t a cm, wf_triple (t, a, cm) ->
    lookup_by_command c now t a cm = option_map fst (ref_lookup r now (t, a, cm)) /\
    (forall sid, client_action c now [] t a (Some cm) = AResume sid ->
       exists x, ref_lookup r now (t, a, cm) = Some x /\ e_id (fst x) = sid) /\
    (forall x, ref_lookup r now (t, a, cm) = Some x ->
       In x (r_sessions r) /\ e_tag (fst x) = t /\ e_addr (fst x) = a /\ In cm (snd x)
       /\ is_expired (fst x) now = false).
Proof. exact refines_full. Qed.
Print Assumptions C07_refines.

(* ... and every session the reference map holds (hence every session C07_refines
   lets a handshake ride) was established by a full handshake of this very history:
   its id is the one that handshake's server announced, its tag and address are
   that handshake's, its commands are the ValidCommands that server declared
   (lease renewals change none of this).  No hypothesis. *)
Theorem C07_established : forall h x,
  In x (r_sessions (fst (ref_run h))) ->
  exists t a cmd p fo,
    In (EHandshake t a cmd p) h /\ on_full p = FOk fo /\
    e_id (fst x) = f_sid fo /\ e_tag (fst x) = t /\ e_addr (fst x) = a /\
    snd x = cmds_of (f_valid fo).
Proof. exact established. Qed.
Print Assumptions C07_established.

(* Drop-on-failure, for ANY cache state representing a map: when the server
   answers SID_NOT_FOUND or the exchange breaks, the handshake (which was a
   resumption of e) returns a SessionResumptionError, afterwards no lookup API
   returns the session at any time, no command mapping points to it, and the
   next handshake for the same triple sends a full-handshake request. *)
Theorem C07_drop_on_failure : forall c now t a cm p e,
  cache_ok c -> a <> [] ->
  lookup_by_command c now t a cm = Some e -> has_usable_key e = true ->
  (on_resume p (e_id e) = RSidNotFound \/ on_resume p (e_id e) = RBroken) ->
  let c' := fst (client_handshake c now [] t a (Some cm) p) in
  client_action c now [] t a (Some cm) = AResume (e_id e) /\
  snd (client_handshake c now [] t a (Some cm) p) = OResumeErr (e_id e) /\
  gone c' (e_id e) /\
  (forall kv, In kv (c_cmdmap c') -> snd kv <> e_id e) /\
  (forall now', client_action c' now' [] t a (Some cm) = AFull) /\
  cache_ok c'.
Proof. exact drop_on_failure. Qed.
Print Assumptions C07_drop_on_failure.

(* the hypothesis cache_ok holds in every reachable state *)
Theorem C07_cache_is_a_map : forall h, cache_ok (fst (run h)).
Proof. exact cache_ok_run. Qed.
Print Assumptions C07_cache_is_a_map.

(* No orphan mappings: in every reachable state each command mapping leads to a
   stored session (Invalidate, InvalidateExpired and -- since fix c4d0e8b --
   LookupNonExpired all remove a session's mappings with it). *)
Theorem C07_no_orphans : forall h kv,
  In kv (c_cmdmap (fst (run h))) -> find_sess (snd kv) (c_sessions (fst (run h))) <> None.
Proof. exact no_orphans_run. Qed.
Print Assumptions C07_no_orphans.
(* storeClientSession and records that are not client-side ones (imported claim / inherited
   sessions, or the server half of the same process sharing the cache).  In the histories
   of C07_refines every record is a client-side one, so it always stores.  When the cache
   holds, live under the announced id, a record that is NOT client-side and carries a
   DIFFERENT key, it is an unrelated session: nothing is stored and no command is filed --
   the cache is unchanged, whatever the server announced. *)
Theorem C07_unrelated_record_untouched : forall c now tag addr fo ex,
  lookup c now (f_sid fo) = Some ex -> is_client_side ex = false ->
  same_key (e_key ex) (f_key fo) = false ->
  store_client_session c now tag addr fo = c.
Proof. intros c now tag addr fo ex L C K. unfold store_client_session. rewrite L, C, K. reflexivity. Qed.
Print Assumptions C07_unrelated_record_untouched.

(* ConnectAndAuthenticateWithConfig: after such a failure the retry is a full handshake *)
Theorem C07_retry_is_full : forall c now t a cm p1 p2 e,
  cache_ok c -> a <> [] ->
  lookup_by_command c now t a cm = Some e -> has_usable_key e = true ->
  (on_resume p1 (e_id e) = RSidNotFound \/ on_resume p1 (e_id e) = RBroken) ->
  exists c1,
    fst (client_handshake c now [] t a (Some cm) p1) = c1 /\
    client_action c1 now [] t a (Some cm) = AFull /\
    connect_and_authenticate c now [] t a (Some cm) p1 p2 =
      (fst (full_auth c1 now t a p2), [OResumeErr (e_id e); snd (full_auth c1 now t a p2)]).
Proof. exact retry_is_full. Qed.
Print Assumptions C07_retry_is_full.

(* Invalidate removes every route: afterwards Lookup, LookupNonExpired,
   LookupByCommand (any triple) and ClientHandshake (any configuration, explicit
   SessionID included) never yield the session, at any time; and when it was
   present, no command mapping to it is left. *)
Theorem C07_no_route_invalidate : forall c id,
  gone (fst (invalidate c id)) id /\
  (snd (invalidate c id) = true -> forall kv, In kv (c_cmdmap (fst (invalidate c id))) -> snd kv <> id).
Proof. exact invalidate_gone. Qed.
Print Assumptions C07_no_route_invalidate.

(* Expiry removes every route *)
Theorem C07_no_route_expired : forall c now id e,
  find_sess id (c_sessions c) = Some e -> is_expired e now = true ->
  lookup c now id = None /\ snd (lookup_nonexpired c now id) = None /\
  (forall t a cm e', lookup_by_command c now t a cm = Some e' -> e_id e' <> id) /\
  (forall sid t a cmd, client_action c now sid t a cmd <> AResume id).
Proof. exact expired_no_route. Qed.
Print Assumptions C07_no_route_expired.

(* InvalidateExpired leaves no expired session and no mapping without a session *)
Theorem C07_sweep_clean : forall c now,
  let c' := fst (invalidate_expired c now) in
  (forall e, In e (c_sessions c') -> is_expired e now = false) /\
  (forall kv, In kv (c_cmdmap c') -> find_sess (snd kv) (c_sessions c') <> None).
Proof. exact sweep_clean. Qed.
Print Assumptions C07_sweep_clean.

(* a removed session stays unreachable through every continuation of the
   history in which no server announces the same id again *)
Theorem C07_no_route_stays : forall h st id,
  find_sess id (c_sessions (fst st)) = None -> never_announced id h ->
  gone (fst (run_from st h)) id.
Proof. exact absent_stays. Qed.
Print Assumptions C07_no_route_stays.

(* ---- non-vacuity: a realistic history satisfying the hypotheses ------------ *)
Definition ex_tagA : str := [x74; x61; x67; x41].                               (* tagA *)
Definition ex_addr : str := [x3c; x31; x30; x2e; x30; x2e; x30; x2e; x31; x3a; x39; x36; x31; x38; x3e]. (* <10.0.0.1:9618> *)
Definition ex_421 : str := [x34; x32; x31].
Definition ex_60007 : str := [x36; x30; x30; x30; x37].
Definition ex_valid : str := ex_421 ++ [ch_comma] ++ ex_60007.                  (* "421,60007" *)
Definition ex_peer (sid : str) (rr : resume_reply) : peer :=
  {| on_full := FOk {| f_sid := sid; f_user := None; f_valid := ex_valid; f_dur := 2100; f_lease := 950;
                       f_key := Some {| k_data := repeat x2a 32; k_proto := s_AES |}; f_authmethods := []; f_crypto := [] |};
     on_resume := fun _ => rr |}.
Definition ex_history : list event :=
  [ EHandshake ex_tagA ex_addr (Some ex_421) (ex_peer [x53; x31] RAuthorized);   (* full: S1 under tagA *)
    EHandshake [] ex_addr (Some ex_421) (ex_peer [x53; x32] RAuthorized);        (* no tag: full again: S2 *)
    ETick 500;
    EHandshake ex_tagA ex_addr (Some ex_60007) (ex_peer [x53; x33] RAuthorized); (* rides S1 *)
    EHandshake [] ex_addr (Some ex_421) (ex_peer [x53; x34] RSidNotFound);       (* S2 forgotten: dropped *)
    EInvalidateExpired ].

Example C07_example_good : good ex_history.
Proof.
  unfold good, ex_history. cbn [good_from].
  repeat split; try (intro H; vm_compute in H; intuition discriminate);
    try (intros _; intro H; vm_compute in H; intuition discriminate).
Qed.
Example C07_example_rides :
  let '(c, now) := run ex_history in
  client_action c now [] ex_tagA ex_addr (Some ex_60007) = AResume [x53; x31] /\
  client_action c now [] [] ex_addr (Some ex_60007) = AFull /\
  client_action c now [] [] ex_addr (Some ex_421) = AFull.
Proof. vm_compute. repeat split. Qed.

(* a server announcing an id that is still cached (here: S1 again, for a tag-less
   handshake) takes the id over; the earlier routes are gone, the new one is live *)
Definition ex_history2 : list event :=
  [ EHandshake ex_tagA ex_addr (Some ex_421) (ex_peer [x53; x31] RAuthorized);
    EHandshake [] ex_addr (Some ex_421) (ex_peer [x53; x31] RAuthorized) ].
Example C07_example_reannounced :
  good ex_history2 /\
  let '(c, now) := run ex_history2 in
  client_action c now [] ex_tagA ex_addr (Some ex_421) = AFull /\
  client_action c now [] ex_tagA ex_addr (Some ex_60007) = AFull /\
  client_action c now [] [] ex_addr (Some ex_60007) = AResume [x53; x31].
Proof.
  split.
  - unfold good, ex_history2. cbn [good_from].
    repeat split; try (intro H; vm_compute in H; intuition discriminate).
  - vm_compute. repeat split.
Qed.

(* ---- hypothesis audit --------------------------------------------------------- *)
(* The unrestricted statement "the key string determines (tag, addr, cmd)" is false
   (known finding key-separator-collision, reproduced on the real cache on every run): *)
Theorem C07_key_inj_unrestricted_refuted :
  exists t a c t' a' c', cmd_key t a c = cmd_key t' a' c' /\ (t, a, c) <> (t', a', c').
Proof.
  exists [], [x74; ch_comma; x61], [x31], [x74], [x61], [x31]. split; [reflexivity|discriminate].
Qed.
Print Assumptions C07_key_inj_unrestricted_refuted.
(* durations: Go's int64 nanoseconds.  In range the model's seconds are exact; a server
   announcing 2^40 s makes the entry expire in the past (fails safe), as the real code does *)
Example C07_duration_in_range : go_secs 2100 = 2100 /\ go_secs 9223372036 = 9223372036 /\ go_secs (-5) = -5.
Proof. vm_compute. repeat split. Qed.
Example C07_duration_wraps : go_secs 1099511627776 < 0 /\ go_secs 9223372037 < 0.
Proof. vm_compute. split; reflexivity. Qed.
