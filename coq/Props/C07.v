(* Props/C07.v — property theorems only; proofs live in Proofs/. (placeholder, filled below) *)
From Coq Require Import List NArith ZArith.
From Cedar Require Import Lib.Bytes Model.Cache.
Theorem C07_placeholder : forall c, size c = Z.of_nat (length (c_sessions c)).
Proof. reflexivity. Qed.
Print Assumptions C07_placeholder.
