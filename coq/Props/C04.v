(* Props/C04.v — property theorems only; proofs in Proofs/C04Binding.v. *)
From Coq Require Import List NArith.
From Cedar Require Import Lib.Bytes Lib.Sym gen.Consts Model.Frame Model.FrameSpec
     Proofs.FrameBase Proofs.C02Prefix Proofs.C04Binding Proofs.C04ReadOn Proofs.C04sitesModel.
Import ListNotations.
Local Open Scope N_scope.

(* Two endpoints each run an ARBITRARY sequence of cleartext sends and receives (what each
   receives is whatever an on-path relay chose to hand it: frames modified, inserted, removed,
   split, merged, reordered ...), then install the same key. If the first protected frame one
   of them sends is accepted by the other - even with its header or IV rewritten - then each
   direction's cleartext byte stream, headers included, was seen identically by both:
   what A sent is what B received and what B sent is what A received. Contrapositive: any
   alteration of the cleartext negotiation makes the first protected frame fail, so no
   application data is accepted over the tampered channel (together with C02: nothing is
   delivered after a rejected frame). By symmetry the same holds for B's first frame. *)
Theorem C04_binding :
  forall (opsA opsB : list cop) (A B : stream) (k ivA ivB : bytes) (A1 B1 : stream)
         (d : bytes) (fl : N) (A2 : stream) (f f' : frame) (ivo : option bytes) (B2 : stream) (x : bytes * N),
    clear_run new_stream opsA = Some A -> clear_run new_stream opsB = Some B ->
    set_key A k ivA = SOk A1 -> set_key B k ivB = SOk B1 ->
    send_frame A1 d fl = (A2, SOk f) ->
    (exists ivo0 ct, f_body f = Ct ivo0 ct /\ f_body f' = Ct ivo ct) ->
    recv_frame_we B1 f' = (B2, SOk x) ->
    sent_bytes opsA = recvd_bytes opsB /\ recvd_bytes opsA = sent_bytes opsB.
Proof. exact binding_e2e. Qed.
Print Assumptions C04_binding.

(* Every cleartext frame handled before the key is installed changes the digest input by
   exactly its 5+n wire bytes - zero-length frames included. *)
Theorem C04_digest_covers_all :
  forall (ops : list cop) (s s' : stream) (sb rb : bytes) (sw rw : bool),
    clear_phase s sb rb sw rw -> clear_run s ops = Some s' ->
    clear_phase s' (sb ++ sent_bytes ops) (rb ++ recvd_bytes ops) (sw || any_sent ops) (rw || any_recvd ops).
Proof. exact digest_covers_all. Qed.
Print Assumptions C04_digest_covers_all.

(* The binding step in isolation, for any keyed pair before its first protected frame
   (covers the resumed-session shape, where the key comes from the cache). *)
Theorem C04_first_frame_binds :
  forall A B k d fl A' f f' ivo B' x,
    key A = Some k -> encrypted A = true -> fin_send_aad A = false -> enc_ctr A <= CounterGuard ->
    send_frame A d fl = (A', SOk f) ->
    key B = Some k -> encrypted B = true -> fin_recv_aad B = false ->
    (exists ivo0 ct, f_body f = Ct ivo0 ct /\ f_body f' = Ct ivo ct) ->
    recv_frame_we B f' = (B', SOk x) ->
    dg_value (send_dg A) = dg_value (recv_dg B) /\ dg_value (recv_dg A) = dg_value (send_dg B).
Proof. exact first_frame_binds. Qed.
Print Assumptions C04_first_frame_binds.

(* non-vacuity: an untampered exchange satisfies the hypotheses and the conclusion *)
Example C04_example :
  let opsA := [CSend [x41; x42] 1; CRecv 1 [x43]] in
  let opsB := [CRecv 1 [x41; x42]; CSend [x43] 1] in
  match clear_run new_stream opsA, clear_run new_stream opsB with
  | Some A, Some B =>
      match set_key A (repeat x01 32) (repeat x07 16), set_key B (repeat x01 32) (repeat x09 16) with
      | SOk A1, SOk B1 =>
          match send_frame A1 [x44] 1 with
          | (_, SOk f) => match recv_frame_we B1 f with (_, SOk (d, fl)) => d = [x44] /\ fl = 1 | _ => False end
          | _ => False
          end
      | _, _ => False
      end
  | _, _ => False
  end.
Proof. vm_compute. split; reflexivity. Qed.

(* Contrapositive, as the property words it: if anything exchanged in the clear was modified,
   inserted or removed in transit (either direction), the first protected frame - whatever the
   relay does to its header and IV - fails to authenticate. *)
Theorem C04_tamper_rejected :
  forall (opsA opsB : list cop) (A B : stream) (k ivA ivB : bytes) (A1 B1 : stream)
         (d : bytes) (fl : N) (A2 : stream) (f f' : frame) (ivo : option bytes),
    clear_run new_stream opsA = Some A -> clear_run new_stream opsB = Some B ->
    set_key A k ivA = SOk A1 -> set_key B k ivB = SOk B1 ->
    send_frame A1 d fl = (A2, SOk f) ->
    (exists ivo0 ct, f_body f = Ct ivo0 ct /\ f_body f' = Ct ivo ct) ->
    (sent_bytes opsA <> recvd_bytes opsB \/ recvd_bytes opsA <> sent_bytes opsB) ->
    exists e, snd (recv_frame_we B1 f') = SErr e.
Proof.
  intros opsA opsB A B k ivA ivB A1 B1 d fl A2 f f' ivo RA RB KA KB Hs Hct Hdiff.
  destruct (recv_frame_we B1 f') as [B2 [x|e]] eqn:Er; [|eexists; reflexivity].
  exfalso. destruct (binding_e2e _ _ _ _ _ _ _ _ _ _ _ _ _ _ _ _ _ RA RB KA KB Hs Hct Er) as [H1 H2].
  destruct Hdiff as [Hd|Hd]; contradiction.
Qed.
Print Assumptions C04_tamper_rejected.

(* ... so no application message is delivered over the tampered channel, whatever follows the
   first protected frame and whichever whole-message API reads it. *)
Theorem C04_no_data_after_tamper :
  forall (api : rapi)
         (opsA opsB : list cop) (A B : stream) (k ivA ivB : bytes) (A1 B1 : stream)
         (d : bytes) (fl : N) (A2 : stream) (f f' : frame) (ivo : option bytes) (rest : list frame) (n : nat),
    clear_run new_stream opsA = Some A -> clear_run new_stream opsB = Some B ->
    set_key A k ivA = SOk A1 -> set_key B k ivB = SOk B1 ->
    send_frame A1 d fl = (A2, SOk f) ->
    (exists ivo0 ct, f_body f = Ct ivo0 ct /\ f_body f' = Ct ivo ct) ->
    (sent_bytes opsA <> recvd_bytes opsB \/ recvd_bytes opsA <> sent_bytes opsB) ->
    snd (fst (fst (recv_upto api B1 n (f' :: rest)))) = [].
Proof.
  intros api opsA opsB A B k ivA ivB A1 B1 d fl A2 f f' ivo rest n RA RB KA KB Hs Hct Hdiff.
  destruct (C04_tamper_rejected _ _ _ _ _ _ _ _ _ _ _ _ _ _ _ RA RB KA KB Hs Hct Hdiff) as [e He].
  destruct n as [|n]; [reflexivity|].
  cbn [recv_upto]. destruct (recv_frame_we B1 f') as [B2 [x|e']] eqn:Er; cbn [snd] in He; [discriminate|].
  destruct api; cbn [recv_one recv_complete recv_msg_frames].
  - rewrite Er. reflexivity.
  - unfold recv_sre, start_read. destruct (in_msg B1); [reflexivity|].
    cbn [read_next]. rewrite Er. reflexivity.
  - rewrite Er. reflexivity.
Qed.
Print Assumptions C04_no_data_after_tamper.

(* Freezing the digests early (FinalizeDigests, the plaintext-session path) and installing a key
   afterwards binds exactly the same digests as installing the key directly; and the cleartext
   operations of C04_binding include SetConnection at any point (CSetConn): the transcript
   digests run on across a change of connection. *)
Theorem C04_finalize_before_key_is_neutral :
  forall (s : stream) (k iv : bytes), set_key (finalize_digests s) k iv = set_key s k iv.
Proof. exact set_key_after_finalize. Qed.
Print Assumptions C04_finalize_before_key_is_neutral.

(* ... and not only the first: a receiver that KEEPS READING after the refusal (a receive loop
   that skips a bad frame, a follow-on command reader) accepts none of the frames of the
   sender's whole protected history, in any order, with any repetition, with headers and IVs
   rewritten at will.  The refused first frame leaves the receiver either untouched or
   "poisoned" (first-frame flag frozen, counter still 0: Model/Frame.v fail_decrypt, which is
   what decryptDataWithAAD leaves behind), and neither state opens a header-only frame. *)
Theorem C04_no_data_after_tamper_reading_on :
  forall (opsA opsB : list cop) (A B : stream) (k ivA ivB : bytes) (A1 B1 : stream)
         (tr : list (bytes * N)) (fs : list frame) (A2 : stream) (fs' : list frame),
    clear_run new_stream opsA = Some A -> clear_run new_stream opsB = Some B ->
    set_key A k ivA = SOk A1 -> set_key B k ivB = SOk B1 ->
    (sent_bytes opsA <> recvd_bytes opsB \/ recvd_bytes opsA <> sent_bytes opsB) ->
    sent A1 tr fs A2 ->
    (forall g ivo ct, In g fs' -> f_body g = Ct ivo ct -> In ct (cts_of fs)) ->
    snd (recv_frames_all B1 fs') = [].
Proof. exact no_data_after_tamper_reading_on. Qed.
Print Assumptions C04_no_data_after_tamper_reading_on.

(* non-vacuity: one cleartext byte altered in transit, the sender then sends three protected
   frames and the receiver reads all three: nothing is delivered (and the same three frames ARE
   delivered when the byte is left alone) *)
Example C04_reading_on_example :
  let opsA := [CSend [x41; x42] 1] in
  let run opsB :=
    match clear_run new_stream opsA, clear_run new_stream opsB with
    | Some A, Some B =>
        match set_key A (repeat x01 32) (repeat x07 16), set_key B (repeat x01 32) (repeat x09 16) with
        | SOk A1, SOk B1 =>
            match send_frame A1 [x44] 1 with
            | (A2, SOk f1) => match send_frame A2 [x45] 1 with
              | (A3, SOk f2) => match send_frame A3 [x46] 1 with
                | (_, SOk f3) => Some (snd (recv_frames_all B1 [f1; f2; f3]))
                | _ => None end
              | _ => None end
            | _ => None end
        | _, _ => None
        end
    | _, _ => None
    end in
  run [CRecv 1 [x41; x43]] = Some [] /\ run [CRecv 1 [x41; x42]] = Some [([x44], 1); ([x45], 1); ([x46], 1)].
Proof. vm_compute. split; reflexivity. Qed.

(* ------------------------------------------------------------------------------------------
   The premise that makes the theorems above be about cedar's handshakes, as obligations over
   facts regenerated from /repo's source on every run (gen/FactsC04.v, harness/cmd/vh-c04 facts;
   checkers and allow-lists with their reasons in Proofs/C04sites.v).
   ------------------------------------------------------------------------------------------ *)

(* Every call, anywhere in security/, server/, client/, client/sharedport/, ccb/ (and in message/
   for the StreamInterface a Message wraps), of a method of a Stream is in the method table, and
   what the table says it stands for is an operation of the model: a constructor of `cop` - the
   type C04_binding quantifies over -, the key installation, or FinalizeDigests with nothing
   after it. *)
Theorem C04_every_handshake_call_is_modelled :
  forall c, In c (FactsC04.stream_calls ++ FactsC04.iface_calls) ->
    exists k, C04sites.lookup (snd c) = Some k /\ stands_for k.
Proof. exact every_handshake_call_stands_for_a_model_operation. Qed.
Print Assumptions C04_every_handshake_call_is_modelled.

(* Package stream: a method the table models as a send reaches the transport only through
   sendMessageWithEnd, one modelled as a receive only through ReceiveFrameWithEnd (never
   ReceiveFrame), every other one reaches no transport I/O at all; every function that reads or
   writes the transport feeds the digest of that direction before every success return (the one
   tolerated exception, ReceiveFrame's zero-length branch, is unreachable from the table); only
   readWithContext / writeWithContext touch the connection itself; the digest is updated only
   under "this direction's digest is still running"; the hash states are never reset or replaced. *)
Theorem C04_handshake_io_is_hashed :
  (forall e, In e C04sites.method_table -> C04sites.reach_ok e = true) /\
  (forall e, In e FactsC04.transport_io -> C04sites.tio_ok e = true) /\
  (forall e, In e FactsC04.digest_guards -> C04sites.guards_ok e = true) /\
  (forall e, In e FactsC04.digest_touch -> C04sites.touch_ok e = true) /\
  (C04sites.required_stream_facts && C04sites.required_call_facts && C04sites.reasons_given)%bool = true.
Proof. exact C04sites.handshake_io_is_hashed. Qed.
Print Assumptions C04_handshake_io_is_hashed.

(* The result of GetConnection() is used only to close, to ask addresses, or in the three
   justified ways of C04sites.conn_use_allowed; direct I/O on a connection-like value occurs in
   the handshake packages only where C04sites.raw_io_allowed says why it is not the peer
   connection of a handshake; every Message is built over a *stream.Stream; no Stream is handed
   to code outside the scanned packages. *)
Theorem C04_raw_connection_unused_for_io :
  (forall e, In e FactsC04.conn_uses -> C04sites.conn_use_ok e = true) /\
  (forall e, In e FactsC04.raw_io -> C04sites.raw_io_ok e = true) /\
  (forall e, In e FactsC04.iface_values -> C04sites.iface_value_ok e = true) /\
  FactsC04.stream_escapes = [].
Proof. exact C04sites.raw_connection_unused_for_io. Qed.
Print Assumptions C04_raw_connection_unused_for_io.

(* The digest state a handshake ends with is the one it started with: nothing outside package
   stream builds a Stream except through NewStream, package security never creates one, a Stream
   is stored only by the constructors listed, and FinalizeDigests is called only where no
   stream-affecting call can follow it. *)
Theorem C04_digest_state_not_replaced :
  FactsC04.digest_ctor = [] /\
  (forall e, In e FactsC04.new_streams -> C04sites.new_stream_ok e = true) /\
  (forall e, In e FactsC04.stream_stores -> C04sites.stream_store_ok e = true) /\
  (forall e, In e FactsC04.finalize_sites -> snd e = []).
Proof. exact C04sites.digest_state_not_replaced. Qed.
Print Assumptions C04_digest_state_not_replaced.

(* non-vacuity: the lists are not empty and contain what the property is anchored in *)
Example C04_facts_example :
  (List.length FactsC04.stream_calls >= 20)%nat /\ (List.length FactsC04.iface_values >= 25)%nat /\
  match FactsC04.stream_calls with c :: _ => C04sites.lookup (snd c) <> None | [] => False end.
Proof. vm_compute. repeat split; try discriminate; repeat constructor. Qed.
