(* Props/C08.v — property theorems only; proofs live in Proofs/C08*.v. *)
From Coq Require Import List NArith ZArith Bool.
From Cedar Require Import Lib.Bytes Model.Literal Proofs.C08.
Import ListNotations.
Theorem C08_placeholder : decode_old_string [] = Some [].
Proof. exact decode_old_nil. Qed.
Print Assumptions C08_placeholder.
