(* Props/C08.v — property theorems only; proofs live in Proofs/C08*.v.

   C08: ClassAds survive the wire; the decoder's literal shortcuts agree with the full parser;
   the four receivers (parsing, raw-text, skipping, size-capped parsing) consume the same bytes. *)
From Coq Require Import List NArith ZArith Bool.
From Cedar Require Import Lib.Bytes Model.Msg Model.Privacy Model.AdWire Model.Literal Proofs.C08 Proofs.C08Wire.
From Cedar Require Import Proofs.C14Reader Proofs.C14Writer Proofs.C14Roundtrip Proofs.C08Round Proofs.C08Bridge Proofs.C09Round Proofs.C08Cap Proofs.C08CapFit.
Import ListNotations.

(* For EVERY value text (any bytes), whatever strconv says about the range of a real:
   if the literal fast path of the decoder (tryInsertLiteral) stores a literal, the
   ClassAd lexer/grammar reads that same text as that same literal (boolean, integer,
   real = same sign and same text handed to ParseFloat, string = same bytes).
   lex_literal is the specification of the classad v0.4.0 parser on single literals;
   the correspondence run compares it with the real parser on every text of length <= 4
   over the literal alphabet and on directed texts. *)
Theorem C08_shortcut_sound : forall (ovf : bool) (v : bytes) (l : lit),
  try_literal ovf v = Some l -> lex_literal v = Some l.
Proof. exact shortcut_sound. Qed.
Print Assumptions C08_shortcut_sound.

(* the shortcut is not vacuous, and the texts that used to be mis-read are left to the parser *)
Example C08_shortcut_examples :
  try_literal false [x20; x2d; x34; x32; x20] = Some (LInt (-42)) /\
  try_literal false [x54; x72; x55; x65] = Some (LBool true) /\
  try_literal false [x22; x61; x20; x62; x22] = Some (LStr [x61; x20; x62]) /\
  try_literal false [x31; x2e; x35; x65; x33] = Some (LReal false [x31; x2e; x35; x65; x33]) /\
  (* "a" + "b"   007   1.   0x1.8p1   "\xff" *)
  try_literal false [x22; x61; x22; x20; x2b; x20; x22; x62; x22] = None /\
  try_literal false [x30; x30; x37] = None /\
  try_literal false [x31; x2e] = None /\
  try_literal false [x30; x78; x31; x2e; x38; x70; x31] = None /\
  try_literal false [x22; xff; x22] = None /\
  lex_literal [x22; x61; x22; x20; x22; x62; x22] = Some (LStr [x61; x62]).
Proof. vm_compute. repeat split; reflexivity. Qed.

(* The three receivers over one wire layout.

   Plaintext stream (no key, not encrypting), ANY bytes in ANY framing (honest or not):
   whenever GetClassAdRaw succeeds, SkipClassAdRaw succeeds too and leaves the reader
   in exactly the same state - same buffer, same frames still unread, same flags: it
   consumed exactly the same bytes.  (Secret markers included: with no key the field
   that follows a marker is read in the clear by both.) *)
Theorem C08_same_bytes_plain : forall (t : treader) (x : received) (t1 : treader),
  t_key t = false /\ t_enc t = false ->
  get_ad_raw t = (t1, MOk x) -> skip_ad t = (t1, MOk tt).
Proof. exact plain_same_bytes. Qed.
Print Assumptions C08_same_bytes_plain.

(* ANY stream state (no key / encrypting / keyed but not encrypting, secret markers
   and sealed frames included), any bytes, any framing, any parser: if the parsing
   receiver (GetClassAd) and the raw-text receiver (GetClassAdRaw) both succeed, they
   end in the same reader state and saw the same expression strings and type names. *)
Theorem C08_same_bytes_get_raw : forall (parses : bytes -> bool) (t t1 : treader) (x1 : received) (t2 : treader) (x2 : received),
  get_ad parses t = (t1, MOk x1) -> get_ad_raw t = (t2, MOk x2) -> t1 = t2 /\ x1 = x2.
Proof. exact get_raw_agree. Qed.
Print Assumptions C08_same_bytes_get_raw.

(* one plaintext string, the core of the statement: GetString, SkipString and the
   marker-aware skip leave identical readers, and the latter reports exactly whether
   the string GetString would have returned is the secret marker *)
Theorem C08_same_bytes_string : forall r : reader,
  fst (get_string false r) = fst (skip_string_marker false r) /\
  fst (get_string false r) = fst (skip_string false r) /\
  (forall s, snd (get_string false r) = MOk s ->
             snd (skip_string_marker false r) = MOk (bytes_eqb s secret_marker)).
Proof. exact plain_string_three. Qed.
Print Assumptions C08_same_bytes_string.

(* the old-ClassAd fallback never invents a string out of an expression: it refuses any
   text with an unescaped interior quote, and is the identity on escape-free text *)
Theorem C08_oldstring_plain : forall s : bytes,
  forallb plain_byte s = true -> decode_old_string s = Some s.
Proof. exact old_string_plain. Qed.
Print Assumptions C08_oldstring_plain.

(* one string in encrypted string mode (length-prefixed), ANY reader state, bytes and framing:
   whenever GetString succeeds, SkipString and the marker-aware skip succeed and leave the same
   bytes unread - same buffer, same frames still to be pulled, same end-of-message and finished
   flags (only the allocation counter differs: skipping allocates nothing) - and the marker-aware
   skip reports exactly whether GetString's result is the secret marker.  GetString makes the
   stream hold `length` bytes and reads them; SkipString discards buffer by buffer: both pull
   exactly the frames needed. *)
Theorem C08_same_bytes_string_enc : forall (r r1 : reader) (s : bytes),
  get_string true r = (r1, MOk s) ->
  (exists r1', skip_string_marker true r = (r1', MOk (bytes_eqb s secret_marker)) /\ same_rest r1 r1') /\
  (exists r1'', skip_string true r = (r1'', MOk tt) /\ same_rest r1 r1'').
Proof. exact lstr_same. Qed.
Print Assumptions C08_same_bytes_string_enc.

(* C08_same_bytes: the raw-text and the skipping receiver, in EVERY stream state (no key,
   encrypting, keyed but not encrypting - secret markers followed by sealed frames, frames
   in any mixture of modes), for ANY bytes in ANY framing, honest or not: whenever
   GetClassAdRaw succeeds, SkipClassAdRaw succeeds too and ends with the same bytes unread
   (same buffer, same frames and frame modes still to come, same end-of-message/finished
   flags, same stream crypto flags).  Together with C08_same_bytes_get_raw (parsing vs raw)
   the three receivers consume exactly the same bytes. *)
Theorem C08_same_bytes : forall (t : treader) (x : received) (t1 : treader),
  get_ad_raw t = (t1, MOk x) -> exists t1', skip_ad t = (t1', MOk tt) /\ tsame t1 t1'.
Proof. exact all_same_bytes. Qed.
Print Assumptions C08_same_bytes.

(* C08_capped_receiver_agrees: the FOURTH receiver, GetClassAdWithMaxSize(cap) (get_ad_capped: every wire
   string - expression, SecretMarker, put_secret field, MyType, TargetType - read with
   GetStringWithMaxSize(cap - charged so far), C13's model get_string_max, under the same crypto toggle).
   In EVERY stream state, for ANY bytes in ANY framing, EVERY parser and EVERY cap (cap <= 0 = unlimited):
   the capped receiver EITHER does not succeed OR returns exactly what the uncapped parsing receiver
   GetClassAd returns on the same input AND ends with the same bytes unread (same buffer, same frames and
   frame modes to come, same flags): never a successful short read, never an ad that lost a string. *)
Theorem C08_capped_receiver_agrees : forall (parses : bytes -> bool) (cap : Z) (t t1 : treader) (x : received),
  get_ad_capped parses cap t = (t1, MOk x) ->
  exists t1', get_ad parses t = (t1', MOk x) /\ tsame t1 t1'.
Proof. exact capped_agrees. Qed.
Print Assumptions C08_capped_receiver_agrees.

(* C08_capped_receiver_accepts_when_it_fits: on a plaintext or an encrypting stream, for EVERY ad, option set
   (types not suppressed), whitelist and peer version: applied to the very frames the sender produced (single-
   or multi-frame), the capped receiver SUCCEEDS as soon as the cap is at least what it charges for the ad -
   len + 1 for every item (charged) - and returns exactly the sender's rendered items and type names.  With
   C08_capped_receiver_agrees: below that it may only refuse.  (Keyed, non-encrypting streams: the example
   below and the exhaustive cap sweep of the run.) *)
Theorem C08_capped_receiver_accepts_when_it_fits : forall (c : config) (key enc : bool) (a : ad) (cap : Z),
  secret_is_noop key enc = true ->
  opt_no_types (c_opts c) = false ->
  Forall (valid_str enc) (ad_items c a) ->
  (Z.of_nat (length (ad_attrs a)) < 2 ^ 62)%Z ->
  (charged (ad_items c a) <= cap)%Z ->
  exists t1,
    get_ad_capped (fun _ => true) cap (treader_of key enc (s_frames (s_finish (put_ad c (sstate_init key enc) a)))) =
      (t1, MOk ((if opt_server_time (c_opts c) then [server_time_expr] else []) ++
                map expr_text (attrs_to_send c (ad_attrs a)), ad_mytype a, ad_targettype a)).
Proof. exact capped_fits. Qed.
Print Assumptions C08_capped_receiver_accepts_when_it_fits.

(* non-vacuous: on the sender's own frames (keyed, non-encrypting stream: marker + sealed frame) the capped
   receiver succeeds with cap = the charged total (len + 1 of every wire string, the marker included) and
   refuses one byte below it *)
Example C08_capped_receiver_nonvacuous :
  let c := {| Privacy.c_opts := 32; Privacy.c_whitelist := []; Privacy.c_enc_attrs := []; Privacy.c_peer := None |} in
  let a := {| ad_attrs := [([x4e], [x31]); ([x43; x6c; x61; x69; x6d; x49; x64], [x22; x73; x22])];
              ad_mytype := [x4d]; ad_targettype := [x4a] |} in
  let t := treader_of true false (s_frames (s_finish (put_ad c (sstate_init true false) a))) in
  let total := charged [[x4e; x20; x3d; x20; x31]; secret_marker; [x43; x6c; x61; x69; x6d; x49; x64; x20; x3d; x20; x22; x73; x22]; [x4d]; [x4a]] in
  (exists t1, get_ad_capped (fun _ => true) total t = (t1, MOk ([[x4e; x20; x3d; x20; x31]; [x43; x6c; x61; x69; x6d; x49; x64; x20; x3d; x20; x22; x73; x22]], [x4d], [x4a]))) /\
  (exists t1 e, get_ad_capped (fun _ => true) (total - 1) t = (t1, MErr e)).
Proof. cbv zeta. split; [eexists|eexists; eexists]; vm_compute; reflexivity. Qed.

(* the hypothesis is satisfiable on a realistic ad: a keyed, non-encrypting stream carrying a
   secret marker and a sealed frame, produced by the model sender *)
Example C08_same_bytes_nonvacuous :
  let c := {| Privacy.c_opts := 32; Privacy.c_whitelist := []; Privacy.c_enc_attrs := []; Privacy.c_peer := None |} in
  let a := {| ad_attrs := [([x4e], [x31]); ([x43; x6c; x61; x69; x6d; x49; x64], [x22; x73; x22])];
              ad_mytype := [x4d]; ad_targettype := [] |} in
  let t := treader_of true false (s_frames (s_finish (put_ad c (sstate_init true false) a))) in
  exists x t1, get_ad_raw t = (t1, MOk x) /\ fst (fst x) = [[x4e; x20; x3d; x20; x31]; [x43; x6c; x61; x69; x6d; x49; x64; x20; x3d; x20; x22; x73; x22]]
               /\ existsb fst (s_frames (s_finish (put_ad c (sstate_init true false) a))) = true.
Proof. cbv zeta. eexists. eexists. vm_compute. repeat split. Qed.

(* C08_wire_layout: on a plaintext or an encrypting stream, for EVERY ad, option set, whitelist
   and peer version, the payload bytes the sender hands to the stream (all frames, in order) are:
   the count, then one CEDAR string per item - ServerTime if requested, "name = expr" for each
   attribute that passes the privacy/whitelist filter, in GetAttributes order, then MyType and
   TargetType unless NoTypes - wherever the frame boundaries fall. *)
Theorem C08_wire_layout : forall (c : config) (key enc : bool) (a : ad),
  secret_is_noop key enc = true ->
  s_bytes (s_finish (put_ad c (sstate_init key enc) a)) =
    enc_int (Z.of_nat (length (attrs_to_send c (ad_attrs a))) + (if opt_server_time (c_opts c) then 1 else 0)) ++
    concat (map (string_bytes enc) (ad_items c a)).
Proof. exact wire_layout. Qed.
Print Assumptions C08_wire_layout.

(* C08_attrs_roundtrip: through ANY honest framing [fs] of those bytes (single frame, the sender's
   own multi-frame cut, one frame per byte, ...), in both string modes, reading a count and then one
   string per item returns the count and EXACTLY the sender's items: the rendered text of every
   non-filtered attribute, unchanged, and the two type names.  Strings must be NUL-free (and on an
   encrypted stream not start with 0xAD and be shorter than 2^31): rendered ClassAd expressions are.
   (The value each text denotes is then the parser's business: C08_shortcut_sound.) *)
Theorem C08_attrs_roundtrip : forall (c : config) (key enc : bool) (a : ad) (fs : list mframe),
  secret_is_noop key enc = true ->
  Forall (valid_str enc) (ad_items c a) ->
  (Z.of_nat (length (ad_attrs a)) < 2 ^ 62)%Z ->
  frames_ok false fs ->
  concat (map fst fs) = s_bytes (s_finish (put_ad c (sstate_init key enc) a)) ->
  run_ops enc (reader_of fs) (map op_of (ad_vals c a)) = map (fun v => MOk (val_of v)) (ad_vals c a).
Proof. exact attrs_roundtrip. Qed.
Print Assumptions C08_attrs_roundtrip.

(* ... in particular through the frames the model sender itself produced *)
Theorem C08_attrs_roundtrip_own : forall (c : config) (key enc : bool) (a : ad),
  secret_is_noop key enc = true ->
  Forall (valid_str enc) (ad_items c a) ->
  (Z.of_nat (length (ad_attrs a)) < 2 ^ 62)%Z ->
  run_ops enc (reader_of (map snd (s_frames (s_finish (put_ad c (sstate_init key enc) a))))) (map op_of (ad_vals c a))
  = map (fun v => MOk (val_of v)) (ad_vals c a).
Proof. exact attrs_roundtrip_own. Qed.
Print Assumptions C08_attrs_roundtrip_own.

(* C08_receiver_reconstructs: on a plaintext or an encrypting stream, for EVERY ad, option set
   (types not suppressed), whitelist and peer version: GetClassAdRaw applied to the very frames
   the sender produced (single- or multi-frame, whatever the sizes) returns exactly the rendered
   text of every attribute that passes the privacy/whitelist filter (ServerTime first if
   requested), in order and unchanged, and the sender's two type names.  By
   C08_same_bytes_get_raw GetClassAd sees the same strings, and C08_shortcut_sound says what value
   its decoder gives each of them.  Hypotheses: items are NUL-free (on an encrypted stream also
   not starting with 0xAD and shorter than 2^31) and the type names are type names (isTypeName) or
   empty: true of rendered ClassAd expressions and of real type names. *)
Theorem C08_receiver_reconstructs : forall (c : config) (key enc : bool) (a : ad),
  secret_is_noop key enc = true ->
  opt_no_types (c_opts c) = false ->
  Forall (valid_str enc) (ad_items c a) ->
  type_ok (ad_mytype a) -> type_ok (ad_targettype a) ->
  (Z.of_nat (length (ad_attrs a)) < 2 ^ 62)%Z ->
  exists t1,
    get_ad_raw (treader_of key enc (s_frames (s_finish (put_ad c (sstate_init key enc) a)))) =
      (t1, MOk ((if opt_server_time (c_opts c) then [server_time_expr] else []) ++
                map expr_text (attrs_to_send c (ad_attrs a)), ad_mytype a, ad_targettype a)).
Proof. exact raw_roundtrip. Qed.
Print Assumptions C08_receiver_reconstructs.

(* the hypotheses hold for a realistic ad on an encrypting stream *)
Example C08_reconstructs_nonvacuous :
  let c := {| c_opts := 4; c_whitelist := []; c_enc_attrs := []; c_peer := None |} in
  let a := {| ad_attrs := [([x4e], [x22; x61; x22]); ([x43; x6c; x61; x69; x6d; x49; x64], [x22; x73; x22]); ([x43], [x34])];
              ad_mytype := [x4d]; ad_targettype := [] |} in
  secret_is_noop true true = true /\ opt_no_types (c_opts c) = false /\
  type_ok (ad_mytype a) /\ type_ok (ad_targettype a) /\
  length (ad_items c a) = 5%nat /\
  forallb (fun s => negb (existsb (fun b => byte_eqb b x00) s) &&
                    negb (match s with b :: _ => byte_eqb b xad | [] => false end)) (ad_items c a) = true.
Proof.
  cbv zeta. split; [reflexivity|]. split; [reflexivity|].
  split; [right; reflexivity|]. split; [left; reflexivity|]. split; vm_compute; reflexivity.
Qed.

(* the complementary stream state of C08_receiver_reconstructs: keyed but not encrypting (secret
   markers and sealed frames in the message).  Same conclusion, for every ad / option set / whitelist /
   peer version; proved in Proofs/C09Round.v (also exported as C09_receiver_reassembles). *)
Theorem C08_receiver_reconstructs_marker : forall (c : config) (a : ad),
  opt_no_types (c_opts c) = false ->
  Forall (valid_str true) (ad_exprs c a) ->
  nul_free (ad_mytype a) -> nul_free (ad_targettype a) -> type_ok (ad_mytype a) -> type_ok (ad_targettype a) ->
  (Z.of_nat (length (ad_attrs a)) < 2 ^ 62)%Z ->
  exists t1,
    get_ad_raw (treader_of true false (s_frames (s_finish (put_ad c (sstate_init true false) a)))) =
      (t1, MOk (ad_exprs c a, ad_mytype a, ad_targettype a)).
Proof. exact marker_roundtrip. Qed.
Print Assumptions C08_receiver_reconstructs_marker.

(* REFUTED without its hypothesis "the name contains no '='": the parsing receiver splits an expression
   string at the first '='.  Witness: the (quoted) attribute name a=b, rendered unquoted as `a=b = 5`;
   replayed on the real code by vh-c08 (known finding attr-name-with-equals). *)
Theorem C08_split_name_refuted :
  exists name text : bytes, name <> [] /\ trim_space name = name /\
    split_expr (name ++ [x20; x3d; x20] ++ text) <> Some (name, text).
Proof. exact split_name_refuted. Qed.
Print Assumptions C08_split_name_refuted.

(* Model-level fact documenting a side condition (NOT a finding): the round-trip theorems require that
   no string starts with byte 0xAD on a length-prefixed stream, because 0xAD is the wire format's
   reserved NULL-string marker: such a string is read back as the empty string.  0xAD is a UTF-8
   continuation byte, so no valid UTF-8 text - the strings the property quantifies over - starts with
   it; the harness compares values for UTF-8 text only and feeds non-text bytes to the
   "all receivers consume the same bytes" checks. *)
Theorem C08_null_marker_side_condition :
  exists (c : config) (a : ad),
    opt_no_types (c_opts c) = false /\ nul_free (ad_mytype a) /\ ad_mytype a <> [] /\
    exists t1 es my tg,
      get_ad_raw (treader_of true true (s_frames (s_finish (put_ad c (sstate_init true true) a)))) = (t1, MOk (es, my, tg))
      /\ my <> ad_mytype a.
Proof. exact null_marker_fact. Qed.
Print Assumptions C08_null_marker_side_condition.
