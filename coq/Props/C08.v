(* Props/C08.v — property theorems only; proofs live in Proofs/C08*.v.

   C08: ClassAds survive the wire; the decoder's literal shortcuts agree with the full parser;
   the three receivers consume the same bytes. *)
From Coq Require Import List NArith ZArith Bool.
From Cedar Require Import Lib.Bytes Model.Literal Proofs.C08.
Import ListNotations.

(* For EVERY value text (any bytes), whatever strconv says about the range of a real:
   if the literal fast path of the decoder (tryInsertLiteral) stores a literal, the
   ClassAd lexer/grammar reads that same text as that same literal (boolean, integer,
   real = same sign and same text handed to ParseFloat, string = same bytes).
   lex_literal is the specification of the classad v0.4.0 parser on single literals;
   the correspondence run compares it with the real parser on every text of length <= 4
   over the literal alphabet and on directed texts. *)
Theorem C08_shortcut_sound : forall (ovf : bool) (v : bytes) (l : lit),
  try_literal ovf v = Some l -> lex_literal v = Some l.
Proof. exact shortcut_sound. Qed.
Print Assumptions C08_shortcut_sound.

(* the shortcut is not vacuous, and the texts that used to be mis-read are left to the parser *)
Example C08_shortcut_examples :
  try_literal false [x20; x2d; x34; x32; x20] = Some (LInt (-42)) /\
  try_literal false [x54; x72; x55; x65] = Some (LBool true) /\
  try_literal false [x22; x61; x20; x62; x22] = Some (LStr [x61; x20; x62]) /\
  try_literal false [x31; x2e; x35; x65; x33] = Some (LReal false [x31; x2e; x35; x65; x33]) /\
  (* "a" + "b"   007   1.   0x1.8p1   "\xff" *)
  try_literal false [x22; x61; x22; x20; x2b; x20; x22; x62; x22] = None /\
  try_literal false [x30; x30; x37] = None /\
  try_literal false [x31; x2e] = None /\
  try_literal false [x30; x78; x31; x2e; x38; x70; x31] = None /\
  try_literal false [x22; xff; x22] = None /\
  lex_literal [x22; x61; x22; x20; x22; x62; x22] = Some (LStr [x61; x62]).
Proof. vm_compute. repeat split; reflexivity. Qed.
