(* Props/C06.v — property theorems only; proofs live in Proofs/C06.v, the
   history definitions in Proofs/C06Defs.v, the models in Model/Resume.v and
   Model/Cache.v. *)
From Coq Require Import List NArith ZArith Bool.
From Cedar Require Import Lib.Bytes Lib.Sym Model.Cache Model.Resume Proofs.C06Defs Proofs.C06
  Proofs.C06KeyDefs Proofs.C06Key.
Import ListNotations.
Local Open Scope Z_scope.

(* A server resumes only a session that is present, unexpired and carries an
   AES-GCM key of 32 bytes; when ServerHandshake returns, the stream is
   encrypting with exactly that key; every application frame it then accepts
   was sealed under that key with this connection's transcript digests, and
   whatever it sends opens under no other key.  For EVERY server state, clock
   value and request. *)
Theorem C06_needs_key : forall s now q wc s' rep n st,
  handle_resumption s now q wc = (s', rep, SOk n st) ->
  exists e w k ki,
    find_sess (q_sid q) (c_sessions (cache_at s w)) = Some e /\ is_expired e now = false /\
    is_client_side e = false /\
    e_key e = Some ki /\ k_data ki = k /\ is_aesgcm (k_proto ki) = true /\ lenN k = 32%N /\
    st_key st = Some k /\ n_encryption n = true /\ n_resumed n = true /\
    (forall f p, srv_accept st f = Some p ->
       exists hdr iv, f = WSealed hdr iv (seal k iv (AadFirst (st_recv_dg st) (st_send_dg st) hdr) p)) /\
    (forall hdr iv p, exists c, srv_send st hdr iv p = WSealed hdr iv c /\
       forall k' n' a' p', open k' n' a' c = Some p' -> k' = k).
Proof. exact needs_key. Qed.
Print Assumptions C06_needs_key.

(* a session without a usable key is never resumed, whatever the request *)
Theorem C06_keyless_never : forall s now q wc e w,
  snd (srv_lookup s now (q_sid q)) = Some (e, w) -> usable_key e = None ->
  handle_resumption s now q wc =
    (fst (srv_lookup s now (q_sid q)), (if q_want_reply q then ReplySidNotFound else NoReply), SErr).
Proof. exact keyless_never. Qed.
Print Assumptions C06_keyless_never.

(* nor is the client-side record of a session this process negotiated as a client of
   another server (it records OUR identity there, the requester was never authenticated
   by us): treated exactly like an unknown session *)
Theorem C06_client_side_never : forall s now q wc e w,
  snd (srv_lookup s now (q_sid q)) = Some (e, w) -> is_client_side e = true ->
  handle_resumption s now q wc =
    (fst (srv_lookup s now (q_sid q)), (if q_want_reply q then ReplySidNotFound else NoReply), SErr).
Proof. exact client_side_never. Qed.
Print Assumptions C06_client_side_never.

(* Dead stays dead: once every stored entry under an id is expired (in
   particular when there is none), then through EVERY continuation of the history
   (stores of other sessions, arbitrary resumption requests -- also with Invalidate calls
   landing while the reply is being written --, renewals, clock ticks, Invalidate,
   InvalidateExpired, on either cache) that does not store a session
   under that id again, every resumption request naming it is refused -- an error,
   and SID_NOT_FOUND exactly when a reply was requested -- and the id is still dead
   afterwards (so no renewal was applied to it). *)
Theorem C06_dead_stays_dead : forall h st sid,
  dead (fst st) (snd st) sid -> no_establish sid h ->
  dead (fst (fst (srun st h))) (snd (fst (srun st h))) sid /\
  forall o, In o (snd (srun st h)) -> q_sid (fst (fst o)) = sid -> refused o.
Proof. exact dead_run. Qed.
Print Assumptions C06_dead_stays_dead.

(* Invalidation races with a resumption in flight.  Every cache effect of a
   resumption (lookup, RenewLease, Store) precedes the reply, whose write can block
   on the peer for as long as the peer likes; Invalidate calls landing during that
   write (history event SResumeInv, covered by C06_dead_stays_dead like every other
   event) therefore act on the state the resumption left, and a session invalidated
   in that window is dead: nothing re-inserts it, and by C06_dead_stays_dead every
   later resumption request naming it is refused. *)
Theorem C06_invalidate_during_reply : forall s now q wc,
  dead (inv_all (fst (fst (handle_resumption s now q wc))) [(q_sid q, InGlobal); (q_sid q, InCustom)])
       now (q_sid q).
Proof. exact invalidate_during_reply. Qed.
Print Assumptions C06_invalidate_during_reply.

(* the three ways to be dead: unknown, invalidated, expired *)
Theorem C06_unknown_is_dead : forall c now sid,
  find_sess sid (c_sessions c) = None -> dead_in c now sid.
Proof. exact absent_dead_in. Qed.
Print Assumptions C06_unknown_is_dead.
Theorem C06_invalidated_is_dead : forall c now sid, dead_in (fst (invalidate c sid)) now sid.
Proof. exact invalidate_dead_in. Qed.
Print Assumptions C06_invalidated_is_dead.
Theorem C06_expired_is_dead : forall s now sid,
  srv_ok s ->
  (forall w e, find_sess sid (c_sessions (cache_at s w)) = Some e -> is_expired e now = true) ->
  dead s now sid.
Proof. exact expired_dead. Qed.
Print Assumptions C06_expired_is_dead.
(* srv_ok (both caches represent maps) holds in every reachable state *)
Theorem C06_caches_are_maps : forall h st, srv_ok (fst st) -> srv_ok (fst (fst (srun st h))).
Proof. exact srv_ok_run. Qed.
Print Assumptions C06_caches_are_maps.

(* Same session: the server reports the id, user, authentication status and
   valid commands stored at establishment and installs the stored key; a client
   whose cached copy carries the same key installs that very key. *)
Theorem C06_same_session : forall s now q wc s' rep n st c ce p,
  handle_resumption s now q wc = (s', rep, SOk n st) ->
  exists e w k,
    find_sess (q_sid q) (c_sessions (cache_at s w)) = Some e /\ usable_key e = Some k /\
    st_key st = Some k /\
    n_sid n = q_sid q /\
    n_user n = pol_get e p_user /\
    n_authentication n = (match pol_get e p_authenticated with Some b => b | None => false end) /\
    n_valid n = pol_get e p_valid /\
    n_command n = (match q_command q with Some cm => cm | None => wc end) /\
    (e_key ce = e_key e -> on_resume p (e_id ce) = RAuthorized ->
       snd (resume_session c now ce p) = OResumed (e_id ce) (e_key ce) (pol_get ce p_user)
       /\ usable_key ce = Some k).
Proof. exact same_session. Qed.
Print Assumptions C06_same_session.

(* Replay.  The full statement ("a requester that only holds bytes recorded from
   an earlier connection of the session gets no application byte accepted") is
   FALSE for the model, as it is for the code (known finding
   replay-of-recorded-resumed-connection): *)
Theorem C06_no_replay_refuted :
  exists s1 s2 rep1 rep2 n1 n2 st1 st2,
    handle_resumption rp_srv 10 rp_req 60010 = (s1, rep1, SOk n1 st1) /\
    srv_accept st1 rp_frame = Some [x68; x69] /\
    handle_resumption s1 20 rp_req 60010 = (s2, rep2, SOk n2 st2) /\
    srv_accept st2 rp_frame = Some [x68; x69].
Proof. exact replay_accepted. Qed.
Print Assumptions C06_no_replay_refuted.

(* The strongest true statement.  (a) A recorded frame is accepted on a resumed
   connection only if it was produced with the session key for a connection whose
   request and reply bytes were identical (same session id, command and reply
   flag), and it delivers exactly the recorded payload: nothing new can be forged.
   (b) Cleartext and anything sealed under another key are never accepted. *)
Theorem C06_no_replay_partial :
  (forall k q k' q' rep' hdr iv p' p,
     srv_accept (ok_stream k q) (client_frame k' q' rep' hdr iv p') = Some p ->
     k' = k /\ req_bytes q' = req_bytes q /\
     dg_of (reply_bytes rep') = dg_of (reply_bytes (ok_reply q)) /\ p' = p) /\
  (forall k q f,
     (forall hdr iv c, f = WSealed hdr iv c -> forall k' n a p, c = Seal k' n a p -> k' <> k) ->
     srv_accept (ok_stream k q) f = None).
Proof. exact (conj replay_only_same_transcript no_key_no_accept). Qed.
Print Assumptions C06_no_replay_partial.

(* ---- the key of a session is immutable ------------------------------------------------
   Histories (Proofs/C06KeyDefs.v) now also contain connections accepted by a dispatching
   server (server.ServeConn) with ANY command table, per-command policy and Authorizer:
   the resumption succeeds or fails, and the command is then served or refused (no
   handler, raw-only, security level, Authorizer) -- in any order with stores, bare
   resumptions, failed resumptions, renewals, ticks, Invalidate, InvalidateExpired and
   invalidations in flight.

   Key immutability: if every entry stored under sid in cache w carries key k0, then after
   EVERY such history every entry stored under sid in that cache carries the key of the LAST
   Store under sid into that cache (k0 if the history has none).  No refused command, failed
   or successful resumption, renewal or sweep changes a stored key. *)
Theorem C06_key_immutable : forall h st w sid k0,
  key_is (fst st) w sid k0 ->
  key_is (fst (fst (krun st h))) w sid (last_key (has_custom (fst st)) w sid k0 h).
Proof. exact key_immutable. Qed.
Print Assumptions C06_key_immutable.

(* the refusal paths of the dispatcher have no effect on a cache, a reply or the handshake result *)
Theorem C06_refused_command_leaves_cache : forall d s now q wc,
  fst (fst (fst (serve_conn d s now q wc))) = fst (fst (handle_resumption s now q wc)) /\
  snd (fst (fst (serve_conn d s now q wc))) = snd (fst (handle_resumption s now q wc)) /\
  snd (fst (serve_conn d s now q wc)) = snd (handle_resumption s now q wc).
Proof. exact dispatch_no_cache_effect. Qed.
Print Assumptions C06_refused_command_leaves_cache.

(* C06_needs_key over histories: after ANY history (refused commands between the attempts
   included) a resumption that succeeds -- whether its command is then served or refused --
   installs exactly the key of the last Store under that id: a 32-byte AES-GCM key; every
   frame the server accepts was sealed under it, whatever it sends opens under no other. *)
Theorem C06_needs_stored_key : forall h st d q wc s' rep n stt dr,
  serve_conn d (fst (fst (krun st h))) (snd (fst (krun st h))) q wc = (s', rep, SOk n stt, dr) ->
  exists w ki,
    (forall k0, key_is (fst st) w (q_sid q) k0 ->
       last_key (has_custom (fst st)) w (q_sid q) k0 h = Some ki) /\
    st_key stt = Some (k_data ki) /\ is_aesgcm (k_proto ki) = true /\ lenN (k_data ki) = 32%N /\
    dr = Some (dispatch d n) /\
    (forall f p, srv_accept stt f = Some p ->
       exists hdr iv, f = WSealed hdr iv (seal (k_data ki) iv (AadFirst (st_recv_dg stt) (st_send_dg stt) hdr) p)) /\
    (forall hdr iv p, exists c, srv_send stt hdr iv p = WSealed hdr iv c /\
       forall k' n' a' p', open k' n' a' c = Some p' -> k' = k_data ki).
Proof. exact needs_stored_key. Qed.
Print Assumptions C06_needs_stored_key.

(* ---- non-vacuity ---------------------------------------------------------------- *)
(* a resumption for an unregistered command (AUTHORIZED, then refused), a bare resumption, a tick, the
   refused command again: the next resumption still installs rp_key -- and a key-less session
   (C06_keyless_never holds in every state, hence after every history) is still refused *)
Example C06_example_refused_commands_between :
  key_is rp_srv InGlobal rp_sid (Some {| k_data := rp_key; k_proto := s_AES |}) /\
  (exists o1 o2 o3, snd (krun (rp_srv, 10) kx_hist) =
     [(kx_refused, ReplyAuthorized rp_sid, o1, Some DNoHandler); o2; (kx_refused, ReplyAuthorized rp_sid, o3, Some DNoHandler)]) /\
  (exists s' n st, serve_conn kx_dsrv (fst (fst (krun (rp_srv, 10) kx_hist))) (snd (fst (krun (rp_srv, 10) kx_hist)))
                     rp_req 60010 = (s', ReplyAuthorized rp_sid, SOk n st, Some DServed) /\ st_key st = Some rp_key).
Proof.
  split; [|split].
  - intros e [<-|[]] _. reflexivity.
  - do 3 eexists. vm_compute. reflexivity.
  - do 3 eexists. vm_compute. split; reflexivity.
Qed.
Example C06_example_keyless_after_refused_commands :
  let e := server_entry 0 rp_sid [x63] [] None true (Some [x75]) None 2100 950 in
  let st := krun ({| s_custom := None; s_global := store empty_cache e |}, 10) kx_hist in
  snd (handle_resumption (fst (fst st)) (snd (fst st)) rp_req 60010) = SErr.
Proof. vm_compute. reflexivity. Qed.
Example C06_example_resumes :
  exists s' n st, handle_resumption rp_srv 10 rp_req 60010 = (s', ReplyAuthorized rp_sid, SOk n st)
                  /\ st_key st = Some rp_key /\ n_user n = Some [x75] /\ n_authentication n = true.
Proof. do 3 eexists. vm_compute. repeat split. Qed.
Example C06_example_expired_refused :
  snd (handle_resumption rp_srv 5000 rp_req 60010) = SErr
  /\ snd (fst (handle_resumption rp_srv 5000 rp_req 60010)) = ReplySidNotFound.
Proof. vm_compute. split; reflexivity. Qed.
Example C06_example_keyless_refused :
  let e := server_entry 0 rp_sid [x63] [] None true (Some [x75]) None 2100 950 in
  snd (handle_resumption {| s_custom := None; s_global := store empty_cache e |} 10 rp_req 60010) = SErr.
Proof. vm_compute. reflexivity. Qed.
Example C06_example_dead_hypotheses :
  dead (fst (fst (srun (rp_srv, 0) [SInvalidate rp_sid InGlobal]))) 0 rp_sid /\ srv_ok rp_srv.
Proof.
  split.
  - split; [|exact I]. cbn. intros e [].
  - split; [|exact I]. unfold sessions_ok. cbn. constructor; [intros []|constructor].
Qed.
