(* Props/C06.v — placeholder, filled below *)
From Coq Require Import List NArith ZArith.
From Cedar Require Import Lib.Bytes Model.Cache Model.Resume.
Theorem C06_placeholder : is_aesgcm s_AES = true.
Proof. reflexivity. Qed.
Print Assumptions C06_placeholder.
