(* Props/C03.v — placeholder until the proofs land. *)
From Coq Require Import List NArith ZArith Bool.
From Cedar Require Import Model.Negotiate Model.Handshake.
Theorem C03_placeholder : key_valid KMissing = false.
Proof. reflexivity. Qed.
Print Assumptions C03_placeholder.
