(* Props/C03.v — property C03: REQUIRED means required, and the reported
   handshake outcome is what happened — whatever the peer sends.

   [run] is either role of a full (non-resumed) handshake: the real endpoint's
   configuration together with an ARBITRARY peer script (Model/Handshake.v:
   every field of the peer's security ad, every answer in the bitmask exchange,
   its behaviour inside CLAIMTOBE, its key material, how and what it sends as
   post-auth ad).  [g_ran] and [g_encrypted]/[g_key] are the ghost record of what
   really happened on the connection; the correspondence run compares them with
   what the scripted peer saw and with the stream's real state.

   All theorems quantify over every configuration (any levels, any method and
   cipher lists), both roles and every peer script.  Proofs are in Proofs/C03.v. *)
From Coq Require Import List NArith ZArith Bool.
From Cedar Require Import Model.Negotiate Model.Handshake Proofs.C03.
Import ListNotations.

(* success + own Authentication REQUIRED  =>  a method from the endpoint's OWN
   list ran to successful completion on the wire *)
Theorem C03_auth_required : forall (x : run) (r : result),
  run_out x = Ok r -> c_auth (run_cfg x) = Rq ->
  exists m, In (m, true) (g_ran r) /\ In m (c_meths (run_cfg x)).
Proof. exact auth_required. Qed.
Print Assumptions C03_auth_required.

(* success + own Encryption or Integrity REQUIRED  =>  the stream is really
   encrypting, with a key derived by ECDH from a usable key sent by the peer *)
Theorem C03_enc_required : forall (x : run) (r : result),
  run_out x = Ok r -> (c_enc (run_cfg x) = Rq \/ c_integ (run_cfg x) = Rq) ->
  g_encrypted r = true /\ exists k, g_key r = Some (KDerived k) /\ key_valid k = true.
Proof. exact enc_required. Qed.
Print Assumptions C03_enc_required.

(* the reported Encryption flag always equals the stream's real state *)
Theorem C03_report_enc : forall (x : run) (r : result),
  run_out x = Ok r ->
  r_enc r = g_encrypted r /\ (g_encrypted r = true <-> g_key r <> None).
Proof. exact report_enc. Qed.
Print Assumptions C03_report_enc.

(* the reported Authentication flag and method are exactly what ran on the wire:
   the flag is set iff some exchange succeeded, and then NegotiatedAuth is that
   exchange's method, it is the only successful one, and it is own-listed *)
Theorem C03_report_auth : forall (x : run) (r : result),
  run_out x = Ok r ->
  (r_auth r = true <-> exists m, In (m, true) (g_ran r)) /\
  (r_auth r = true ->
     In (r_meth r, true) (g_ran r) /\ In (r_meth r) (c_meths (run_cfg x)) /\
     forall m, In (m, true) (g_ran r) -> m = r_meth r).
Proof. exact report_auth. Qed.
Print Assumptions C03_report_auth.

(* ---- resumed handshakes -------------------------------------------------------------

   [rrun]: either role resuming a cache entry of ANY shape (no key / empty key /
   32-byte key / other length, AES-GCM or not; Authenticated attribute present or
   not) against ANY reply of the peer (client role) or any lookup result (server
   role).  Cache lookup, expiry and the command map are C06/C07's subject. *)

(* client: success + own Authentication REQUIRED  =>  the session resumed was
   recorded as an authenticated one *)
Theorem C03_resumed_auth_required : forall (c : cfg) (e : sentry) (rp : rreply) (r : result),
  client_resume c e rp = Ok r -> c_auth c = Rq -> e_authed e = Some true.
Proof. exact resumed_auth_required_client. Qed.
Print Assumptions C03_resumed_auth_required.

(* server: NOT enforced by ServerHandshake itself (known finding
   c03-resumed-auth-required-server): the authenticator's config is only the
   default policy; the policy of the resumed command is enforced by the
   dispatching server on the faithfully restored outcome (C03_resumed_report
   below; C05_dispatch).  Witness, replayed on the real code by the check: *)
Theorem C03_resumed_auth_required_server_refuted :
  exists c e r, server_resume c (Some e) = Ok r /\ c_auth c = Rq /\ e_authed e = Some false.
Proof. exact resumed_auth_required_server_refuted. Qed.
Print Assumptions C03_resumed_auth_required_server_refuted.

(* success + own Encryption or Integrity REQUIRED  =>  the stream really encrypts
   with the cached key, which is a usable AES-GCM key *)
Theorem C03_resumed_enc_required : forall (x : rrun) (r : result),
  rrun_out x = Ok r -> (c_enc (rrun_cfg x) = Rq \/ c_integ (rrun_cfg x) = Rq) ->
  g_encrypted r = true /\ g_key r = Some KCached /\
  exists e, rrun_entry x = Some e /\ usable_key e = true.
Proof. exact resumed_enc_required. Qed.
Print Assumptions C03_resumed_enc_required.

(* a resumed handshake reports the stream's real encryption state, runs no
   authentication exchange, and reports the recorded authentication outcome *)
Theorem C03_resumed_report : forall (x : rrun) (r : result),
  rrun_out x = Ok r ->
  r_enc r = g_encrypted r /\ (g_encrypted r = true <-> g_key r <> None) /\
  g_ran r = [] /\
  exists e, rrun_entry x = Some e /\ (r_auth r = true <-> e_authed e = Some true).
Proof. exact resumed_report. Qed.
Print Assumptions C03_resumed_report.

(* ---- non-vacuity ----------------------------------------------------------------- *)

(* an honest-looking server: the client with everything REQUIRED succeeds,
   authenticated by CLAIMTOBE after one rejected attempt is impossible (the bit is
   withdrawn), so here directly; encrypted with the derived key *)
Example C03_ex_client_ok :
  run_out (AsClient (mkCfg Rq Rq Rq [mFS; mCTB] [cAES] true)
             (mkS RNone SYes SYes [mCTB; mFS] [mCTB] [cAES] [cAES] KGood
                  [mkReply 2 XOk true] PSealed RAuthorized))
  = Ok (mkR true true mCTB [(mCTB, true)] true (Some (KDerived KGood))).
Proof. vm_compute. reflexivity. Qed.

(* the confirmed attack of the unfixed code: server answers NO, omits its key,
   sends the post-auth ad in clear — now an error for a REQUIRED client ... *)
Example C03_ex_attack_rejected :
  run_out (AsClient (mkCfg Rq Rq Rq [mFS] [cAES] true)
             (mkS RNone SNo SNo [mFS] [mFS] [cAES] [cAES] KMissing [] PClear RAuthorized))
  = Err [].
Proof. vm_compute. reflexivity. Qed.
(* ... and an honest plaintext, unauthenticated session for an OPTIONAL client *)
Example C03_ex_optional_plain :
  run_out (AsClient (mkCfg Op Op Op [mFS] [cAES] true)
             (mkS RNone SNo SNo [mFS] [mFS] [cAES] [cAES] KMissing [] PClear RAuthorized))
  = Ok (mkR false false mFS [] false None).
Proof. vm_compute. reflexivity. Qed.

(* a server picking CLAIMTOBE although the client listed only FS is refused *)
Example C03_ex_unoffered :
  run_out (AsClient (mkCfg Pf Op Op [mFS] [cAES] true)
             (mkS RNone SYes SYes [mFS] [mFS] [cAES] [cAES] KGood [mkReply 2 XOk true] PSealed RAuthorized))
  = Err [].
Proof. vm_compute. reflexivity. Qed.

(* server role: REQUIRED/REQUIRED server, client fails one claim then succeeds *)
Example C03_ex_server_ok :
  run_out (AsServer (mkCfg Rq Rq Op [mCTB; mPW] [cAES] true)
             (mkC true (SLvl Op) (SLvl Op) [mCTB; mPW] [cAES] KGood
                  [mkM 514 XFail; mkM 2 XOk]))
  = Ok (mkR true true mCTB [(mCTB, false); (mCTB, true)] true (Some (KDerived KGood))).
Proof. vm_compute. reflexivity. Qed.
(* server role: client omits its ECDH key against Encryption REQUIRED *)
Example C03_ex_server_nokey :
  run_out (AsServer (mkCfg Op Rq Op [mCTB] [cAES] true)
             (mkC true (SLvl Op) (SLvl Op) [mCTB] [cAES] KMissing []))
  = Err [].
Proof. vm_compute. reflexivity. Qed.

(* resumed: an encrypted, authenticated session resumed by an all-REQUIRED client *)
Example C03_ex_resumed_ok :
  rrun_out (ResumeAsClient (mkCfg Rq Rq Rq [mCTB] [cAES] true) (mkE (EK32 true) (Some true)) (RReply RAuthorized))
  = Ok (mkR true true mNONE [] true (Some KCached)).
Proof. vm_compute. reflexivity. Qed.
(* resumed: a key-less entry named explicitly is refused under Encryption REQUIRED,
   an unauthenticated one under Authentication REQUIRED *)
Example C03_ex_resumed_refused :
  rrun_out (ResumeAsClient (mkCfg Op Rq Op [mCTB] [cAES] true) (mkE EKNone (Some true)) (RReply RAuthorized)) = Err []
  /\ rrun_out (ResumeAsClient (mkCfg Rq Op Op [mCTB] [cAES] true) (mkE (EK32 true) (Some false)) (RReply RAuthorized)) = Err [].
Proof. vm_compute. split; reflexivity. Qed.
