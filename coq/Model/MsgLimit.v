(* Model/MsgLimit.v — message/message.go PutString / PutStringBytes as they are since /repo
   286e010: on an encrypted stream a string whose length (terminator included) does not fit
   the int32 length prefix is refused before anything is written; every other string is
   handled as in Model/Msg.v.  (Msg.v's put_string keeps the historical "wrap the prefix"
   behaviour outside this domain; the correspondence cannot reach 2 GiB values, the refusal
   itself is checked on the real code by vh-c14's string-length-prefix-limit oracle.) *)
From Coq Require Import List NArith ZArith Bool.
From Cedar Require Import Lib.Bytes gen.Consts Model.Msg.
Import ListNotations.
Local Open Scope Z_scope.

Definition string_too_long (encrypted : bool) (s : bytes) : bool :=
  encrypted && (2 ^ 31 <=? Z.of_N (lenN (upto_nul s) + 1)).   (* length > math.MaxInt32 *)

Definition put_string_go (encrypted : bool) (w : writer) (s : bytes) : option writer :=
  if string_too_long encrypted s then None else Some (put_string encrypted w s).
Definition put_string_bytes_go (encrypted : bool) (w : writer) (s : bytes) : option writer :=
  if string_too_long encrypted s then None else Some (put_string_bytes encrypted w s).
