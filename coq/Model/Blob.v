(* Model/Blob.v — byte layout of the ExportCryptoState blob and the parser of
   NewStreamWithCryptoState (stream/stream.go). Digests and peer address are opaque bytes here. *)
From Coq Require Import List NArith Bool.
From Cedar Require Import Lib.Bytes gen.Consts.
Import ListNotations.
Local Open Scope N_scope.

Record rawblob := {
  rb_flags : N; rb_key : bytes; rb_eiv : bytes; rb_div : bytes;
  rb_ectr : N; rb_dctr : N; rb_sdg : bytes; rb_rdg : bytes; rb_peer : bytes }.

Definition magic : bytes := [n2b CsMagic0; n2b CsMagic1; n2b CsMagic2; n2b CsMagic3].
Definition var (x : bytes) : bytes := be_enc 2 (lenN x) ++ x.

(* ExportCryptoState's serialisation *)
Definition ser (b : rawblob) : bytes :=
  magic ++ be_enc 2 CsVersion ++ [n2b (rb_flags b)] ++ rb_key b ++ rb_eiv b ++ rb_div b ++
  be_enc 4 (rb_ectr b) ++ be_enc 4 (rb_dctr b) ++ var (rb_sdg b) ++ var (rb_rdg b) ++ var (rb_peer b).

Definition take (n : nat) (bs : bytes) : bytes * bytes := (firstn n bs, skipn n bs).

(* readVar: uint16 length then that many bytes; None = "truncated blob" *)
Definition read_var (bs : bytes) : option (bytes * bytes) :=
  if lenN bs <? 2 then None else
  let n := be_dec (firstn 2 bs) in
  let r := skipn 2 bs in
  if lenN r <? n then None else Some (firstn (N.to_nat n) r, skipn (N.to_nat n) r).

(* NewStreamWithCryptoState's parser; trailing bytes after the third field are ignored, as in the code *)
Definition parse (bs : bytes) : option rawblob :=
  if lenN bs <? CsFixedLen then None
  else if negb (bytes_eqb (firstn 4 bs) magic) then None
  else if negb (be_dec (firstn 2 (skipn 4 bs)) =? CsVersion) then None
  else
    match skipn 6 bs with
    | [] => None
    | fb :: r0 =>
        let '(k, r1) := take 32 r0 in
        let '(eiv, r2) := take 16 r1 in
        let '(div, r3) := take 16 r2 in
        let '(ec, r4) := take 4 r3 in
        let '(dc, r5) := take 4 r4 in
        match read_var r5 with
        | None => None
        | Some (sd, r6) =>
            match read_var r6 with
            | None => None
            | Some (rd, r7) =>
                match read_var r7 with
                | None => None
                | Some (peer, _) =>
                    Some {| rb_flags := b2n fb; rb_key := k; rb_eiv := eiv; rb_div := div;
                            rb_ectr := be_dec ec; rb_dctr := be_dec dc;
                            rb_sdg := sd; rb_rdg := rd; rb_peer := peer |}
                end
            end
        end
    end.

(* field sizes of a blob the exporter can produce *)
Definition rb_wf (b : rawblob) : Prop :=
  rb_flags b < 256 /\ length (rb_key b) = 32%nat /\ length (rb_eiv b) = 16%nat /\ length (rb_div b) = 16%nat /\
  rb_ectr b < 4294967296 /\ rb_dctr b < 4294967296 /\
  lenN (rb_sdg b) < 65536 /\ lenN (rb_rdg b) < 65536 /\ lenN (rb_peer b) < 65536.
