(* Model/PrivacySeq.v — histories through ONE Message (C09): stream-state changes interleaved
   with ad writes.

   Go code modelled:
     message/message.go   NewMessageForStream (a Message is the stream reference and an empty buffer:
                          it holds NO crypto decision), FinishMessage
     message/classad.go   putClassAdToMessageWithOptions: `sc.CryptoForSecretIsNoop()` is asked of the
                          stream for every ad, when that ad is serialised (Model/AdWire.v put_ad reads
                          s_key / s_enc of the state it is applied to)
     stream/stream.go     SetSymmetricKey (installs the key AND switches encryption on),
                          SetCryptoMode(true) (only with a key), SetCryptoMode(false)

   One operation of a history is a stream-state change, the allocation of a fresh Message on the
   same stream, or PutClassAdWithOptions followed by FinishMessage.  Definitions only. *)
From Coq Require Import List NArith ZArith Bool.
From Cedar Require Import Lib.Bytes gen.Consts Model.Msg Model.Privacy Model.AdWire.
Import ListNotations.
Local Open Scope N_scope.

Inductive sop :=
| OSetKey                           (* Stream.SetSymmetricKey *)
| OCryptoOn                         (* Stream.SetCryptoMode(true) *)
| OCryptoOff                        (* Stream.SetCryptoMode(false) *)
| ONewMsg                           (* m = NewMessageForStream(stream) *)
| OPutAd (c : config) (a : ad).     (* m.PutClassAdWithOptions(ad, cfg); m.FinishMessage() *)

(* the stream's (has key, encrypted) pair: ad writes leave it as it was *)
Definition stream_step (ke : bool * bool) (o : sop) : bool * bool :=
  match o with
  | OSetKey => (true, true)
  | OCryptoOn => (fst ke, if fst ke then true else snd ke)
  | OCryptoOff => (fst ke, false)
  | ONewMsg | OPutAd _ _ => ke
  end.

Definition set_mode (st : sstate) (ke : bool * bool) : sstate :=
  {| s_buf := s_buf st; s_out := s_out st; s_key := fst ke; s_enc := snd ke; s_saved := s_saved st |}.

Definition seq_step (st : sstate) (o : sop) : sstate :=
  match o with
  | OSetKey | OCryptoOn | OCryptoOff => set_mode st (stream_step (s_key st, s_enc st) o)
  | ONewMsg => {| s_buf := []; s_out := s_out st; s_key := s_key st; s_enc := s_enc st; s_saved := s_saved st |}
  | OPutAd c a => s_finish (put_ad c st a)
  end.

Definition run_seq (st : sstate) (ops : list sop) : sstate := fold_left seq_step ops st.

(* The reference: every ad is written by a brand-new Message on a brand-new sender state whose
   stream is in the mode in force AT THAT MOMENT of the history. *)
Fixpoint fresh_frames (ke : bool * bool) (ops : list sop) : list tframe :=
  match ops with
  | [] => []
  | o :: r =>
      match o with
      | OPutAd c a => s_frames (s_finish (put_ad c (sstate_init (fst ke) (snd ke)) a))
      | _ => []
      end ++ fresh_frames (stream_step ke o) r
  end.

Definition mode_after (ke : bool * bool) (ops : list sop) : bool * bool := fold_left stream_step ops ke.
