(* Model/Lockset.v — C17: lock-based race freedom.
   Threads are lists of events (acquire in a mode / release / read / write);
   the semantics interleaves them with lock exclusion (sync.Mutex = always
   exclusive mode, sync.RWMutex = shared or exclusive). A race is a reachable
   state in which two different threads are both about to access one location
   and at least one of them writes. Definitions only; proofs in Proofs/C17.v.

   The second half is the vocabulary of the facts regenerated from /repo's
   source by `vh-c17 facts` (gen/FactsC17.v) and the boolean obligations over
   them. *)
From Coq Require Import List Bool PeanoNat.
Import ListNotations.

Inductive mode := MR | MW.                       (* RLock | Lock *)
Inductive event := Acq (l : nat) (m : mode) | Rel (l : nat) | Rd (x : nat) | Wr (x : nat).
Definition thread := list event.
Definition held := list (nat * mode).

Definition holds_w (h : held) (l : nat) : bool :=
  existsb (fun p => Nat.eqb (fst p) l && match snd p with MW => true | MR => false end) h.
Definition holds_any (h : held) (l : nat) : bool :=
  existsb (fun p => Nat.eqb (fst p) l) h.

Fixpoint release (l : nat) (h : held) : held :=
  match h with
  | [] => []
  | p :: r => if Nat.eqb (fst p) l then r else p :: release l r
  end.

Definition next_held (h : held) (e : event) : held :=
  match e with
  | Acq l m => (l, m) :: h
  | Rel l => release l h
  | Rd _ | Wr _ => h
  end.

(* a state: every thread id has its held locks and its remaining events
   (ids beyond the program hold nothing and have nothing left to do) *)
Definition state := nat -> held * thread.

Definition init (ts : list thread) : state := fun i => ([], nth i ts []).

Definition upd (s : state) (i : nat) (v : held * thread) : state :=
  fun j => if Nat.eqb j i then v else s j.

(* lock exclusion: an exclusive acquire needs nobody else to hold the lock in
   any mode; a shared acquire needs nobody else to hold it exclusively *)
Definition enabled (s : state) (i : nat) (e : event) : Prop :=
  match e with
  | Acq l MW => forall j, j <> i -> holds_any (fst (s j)) l = false
  | Acq l MR => forall j, j <> i -> holds_w (fst (s j)) l = false
  | _ => True
  end.

Inductive step : state -> state -> Prop :=
| step_intro s s' i h e r :
    s i = (h, e :: r) -> enabled s i e ->
    (forall j, s' j = upd s i (next_held h e, r) j) ->
    step s s'.

Inductive reach : state -> state -> Prop :=
| reach_refl s : reach s s
| reach_step s s' s'' : reach s s' -> step s' s'' -> reach s s''.

Definition accesses (e : event) (x : nat) (w : bool) : Prop :=
  match e with Rd y => y = x /\ w = false | Wr y => y = x /\ w = true | _ => False end.

Definition race (s : state) : Prop :=
  exists i j x hi ei ri hj ej rj wi wj,
    i <> j /\ s i = (hi, ei :: ri) /\ s j = (hj, ej :: rj) /\
    accesses ei x wi /\ accesses ej x wj /\ (wi = true \/ wj = true).

(* the locking discipline: every access is made while holding the lock that
   guards its location, in a sufficient mode *)
Fixpoint wl (g : nat -> nat) (h : held) (t : thread) : bool :=
  match t with
  | [] => true
  | e :: r =>
      match e with
      | Rd x => holds_any h (g x)
      | Wr x => holds_w h (g x)
      | _ => true
      end && wl g (next_held h e) r
  end.

Definition well_locked (g : nat -> nat) (t : thread) : Prop := wl g [] t = true.

(* ------------------------------------------------------------------ *)
(** * A shared counter handing out identifiers (session ids)           *)
(* CAdd: one atomic read-modify-write (atomic.AddUint64) returning the new value;
   CLoad: atomic load into the thread's local; CStore: atomic store of local+1,
   which is also the value handed out. A Load followed by a Store is TWO events:
   other threads may run in between. *)
Inductive cop := CAdd | CLoad | CStore | COther.
Definition cthreads := nat -> nat * list cop.             (* local copy, remaining operations *)
Record cstate := mk_cs_state { c_val : nat; c_thr : cthreads; c_out : list nat }.

Definition cupd (t : cthreads) (i : nat) (v : nat * list cop) : cthreads :=
  fun j => if Nat.eqb j i then v else t j.

Inductive cstep : cstate -> cstate -> Prop :=
| cstep_add s i l r t' : c_thr s i = (l, CAdd :: r) -> (forall j, t' j = cupd (c_thr s) i (l, r) j) ->
    cstep s (mk_cs_state (S (c_val s)) t' (S (c_val s) :: c_out s))
| cstep_load s i l r t' : c_thr s i = (l, CLoad :: r) -> (forall j, t' j = cupd (c_thr s) i (c_val s, r) j) ->
    cstep s (mk_cs_state (c_val s) t' (c_out s))
| cstep_store s i l r t' : c_thr s i = (l, CStore :: r) -> (forall j, t' j = cupd (c_thr s) i (l, r) j) ->
    cstep s (mk_cs_state (S l) t' (S l :: c_out s)).

Inductive creach : cstate -> cstate -> Prop :=
| creach_refl s : creach s s
| creach_step s s' s'' : creach s s' -> cstep s' s'' -> creach s s''.

Definition cinit (c0 : nat) (ts : list (list cop)) : cstate :=
  mk_cs_state c0 (fun i => (0, nth i ts [])) [].

Definition is_add (o : cop) : bool := match o with CAdd => true | _ => false end.

(* ------------------------------------------------------------------ *)
(** * Command routing in the session cache                              *)
(* SessionCache.Store / MapCommand / Invalidate, each atomic under the cache lock;
   a client-session registration is Store followed by MapCommand and is NOT atomic
   with respect to other goroutines' operations. Entries are compared by identity
   (pointer), modelled as a number. Each mapping carries a ghost: the entry that was
   stored under the id when the mapping was made. *)
Inductive cache_op := OStore (id e : nat) | OMap (key id : nat) | OInvalidate (id : nat).
Record cache_st := mk_cache { cs_sessions : list (nat * nat); cs_cmap : list (nat * nat * option nat) }.

Fixpoint assoc (k : nat) (l : list (nat * nat)) : option nat :=
  match l with [] => None | (a, b) :: r => if Nat.eqb a k then Some b else assoc k r end.
Definition drop_id (id : nat) (l : list (nat * nat)) := filter (fun p => negb (Nat.eqb (fst p) id)) l.
Definition purge (id : nat) (m : list (nat * nat * option nat)) := filter (fun p => negb (Nat.eqb (snd (fst p)) id)) m.
Definition drop_key (k : nat) (m : list (nat * nat * option nat)) := filter (fun p => negb (Nat.eqb (fst (fst p)) k)) m.

Definition opt_eqb (a : option nat) (b : nat) : bool := match a with Some x => Nat.eqb x b | None => false end.

(* [lazy]: purge the id's mappings only when an entry is REPLACED (the variant that is wrong) *)
Definition cache_step (lazy : bool) (s : cache_st) (o : cache_op) : cache_st :=
  match o with
  | OStore id e =>
      let cur := assoc id (cs_sessions s) in
      let differs := negb (opt_eqb cur e) in
      let do_purge := if lazy then differs && match cur with Some _ => true | None => false end else differs in
      mk_cache ((id, e) :: drop_id id (cs_sessions s)) (if do_purge then purge id (cs_cmap s) else cs_cmap s)
  | OMap k id => mk_cache (cs_sessions s) ((k, id, assoc id (cs_sessions s)) :: drop_key k (cs_cmap s))
  | OInvalidate id => mk_cache (drop_id id (cs_sessions s)) (purge id (cs_cmap s))
  end.

Definition cache_run (lazy : bool) (ops : list cache_op) : cache_st :=
  fold_left (cache_step lazy) ops (mk_cache [] []).

(* LookupByCommand: the mapped id's current entry, with the ghost of the mapping used *)
Fixpoint cmap_find (k : nat) (m : list (nat * nat * option nat)) : option (nat * option nat) :=
  match m with [] => None | (a, id, g) :: r => if Nat.eqb a k then Some (id, g) else cmap_find k r end.
Definition lookup_by_command (s : cache_st) (k : nat) : option (nat * option nat) :=
  match cmap_find k (cs_cmap s) with
  | Some (id, g) => match assoc id (cs_sessions s) with Some e => Some (e, g) | None => None end
  | None => None
  end.
