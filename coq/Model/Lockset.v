(* Model/Lockset.v — C17: lock-based race freedom.
   Threads are lists of events (acquire in a mode / release / read / write);
   the semantics interleaves them with lock exclusion (sync.Mutex = always
   exclusive mode, sync.RWMutex = shared or exclusive). A race is a reachable
   state in which two different threads are both about to access one location
   and at least one of them writes. Definitions only; proofs in Proofs/C17.v.

   The second half is the vocabulary of the facts regenerated from /repo's
   source by `vh-c17 facts` (gen/FactsC17.v) and the boolean obligations over
   them. *)
From Coq Require Import List Bool PeanoNat.
Import ListNotations.

Inductive mode := MR | MW.                       (* RLock | Lock *)
Inductive event := Acq (l : nat) (m : mode) | Rel (l : nat) | Rd (x : nat) | Wr (x : nat).
Definition thread := list event.
Definition held := list (nat * mode).

Definition holds_w (h : held) (l : nat) : bool :=
  existsb (fun p => Nat.eqb (fst p) l && match snd p with MW => true | MR => false end) h.
Definition holds_any (h : held) (l : nat) : bool :=
  existsb (fun p => Nat.eqb (fst p) l) h.

Fixpoint release (l : nat) (h : held) : held :=
  match h with
  | [] => []
  | p :: r => if Nat.eqb (fst p) l then r else p :: release l r
  end.

Definition next_held (h : held) (e : event) : held :=
  match e with
  | Acq l m => (l, m) :: h
  | Rel l => release l h
  | Rd _ | Wr _ => h
  end.

(* a state: every thread id has its held locks and its remaining events
   (ids beyond the program hold nothing and have nothing left to do) *)
Definition state := nat -> held * thread.

Definition init (ts : list thread) : state := fun i => ([], nth i ts []).

Definition upd (s : state) (i : nat) (v : held * thread) : state :=
  fun j => if Nat.eqb j i then v else s j.

(* lock exclusion: an exclusive acquire needs nobody else to hold the lock in
   any mode; a shared acquire needs nobody else to hold it exclusively *)
Definition enabled (s : state) (i : nat) (e : event) : Prop :=
  match e with
  | Acq l MW => forall j, j <> i -> holds_any (fst (s j)) l = false
  | Acq l MR => forall j, j <> i -> holds_w (fst (s j)) l = false
  | _ => True
  end.

Inductive step : state -> state -> Prop :=
| step_intro s s' i h e r :
    s i = (h, e :: r) -> enabled s i e ->
    (forall j, s' j = upd s i (next_held h e, r) j) ->
    step s s'.

Inductive reach : state -> state -> Prop :=
| reach_refl s : reach s s
| reach_step s s' s'' : reach s s' -> step s' s'' -> reach s s''.

Definition accesses (e : event) (x : nat) (w : bool) : Prop :=
  match e with Rd y => y = x /\ w = false | Wr y => y = x /\ w = true | _ => False end.

Definition race (s : state) : Prop :=
  exists i j x hi ei ri hj ej rj wi wj,
    i <> j /\ s i = (hi, ei :: ri) /\ s j = (hj, ej :: rj) /\
    accesses ei x wi /\ accesses ej x wj /\ (wi = true \/ wj = true).

(* the locking discipline: every access is made while holding the lock that
   guards its location, in a sufficient mode *)
Fixpoint wl (g : nat -> nat) (h : held) (t : thread) : bool :=
  match t with
  | [] => true
  | e :: r =>
      match e with
      | Rd x => holds_any h (g x)
      | Wr x => holds_w h (g x)
      | _ => true
      end && wl g (next_held h e) r
  end.

Definition well_locked (g : nat -> nat) (t : thread) : Prop := wl g [] t = true.
