(* Model/Msg.v — message/message.go: the typed-message layer above frames.

   A frame at this layer is what Stream.ReadFrame returns / WriteFrame takes:
   (payload bytes, isEOM).  Reader = Message in decode mode (buffer, isEOM,
   finished) plus the frames still to come; writer = Message in encode mode
   (buffer) plus the frames handed to the stream so far.  Go run-time failures
   are explicit outcomes (Panic). *)
From Coq Require Import List NArith ZArith Lia Bool.
From Cedar Require Import Lib.Bytes gen.Consts.
Import ListNotations.
Local Open Scope N_scope.

Definition mframe := (bytes * bool)%type.

Inductive merr :=
| MEof          (* io.EOF: end of message before enough data *)
| MConn         (* the stream's ReadFrame failed (no more frames / transport or decrypt error) *)
| MTooBig       (* ErrStringSizeExceeded *)
| MOther.
Inductive mres (A : Type) := MOk (a : A) | MErr (e : merr) | MPanic.
Arguments MOk {A} a. Arguments MErr {A} e. Arguments MPanic {A}.

(* ---------- reader ---------------------------------------------------- *)
Record reader := { r_buf : bytes; r_eom : bool; r_fin : bool; r_in : list mframe;
                   r_alloc : N (* bytes requested from make() so far *) }.

Definition reader_of (fs : list mframe) : reader :=
  {| r_buf := []; r_eom := false; r_fin := false; r_in := fs; r_alloc := 0 |}.

(* [len_lt l n] = (length l < n), walking at most n cells (buffers can be MiB-sized) *)
Fixpoint len_lt (l : bytes) (n : N) : bool :=
  match l with
  | [] => 0 <? n
  | _ :: r => if n =? 0 then false else len_lt r (N.pred n)
  end.
Definition short_of (buf : bytes) (needed : Z) : bool :=
  if (needed <=? 0)%Z then false else len_lt buf (Z.to_N needed).

(* ensureData: pull frames until the buffer holds [needed] bytes or EOM was seen *)
Fixpoint ensure_loop (fs : list mframe) (buf : bytes) (eom : bool) (needed : Z)
  : option (bytes * bool * list mframe) :=
  if short_of buf needed && negb eom then
    match fs with
    | [] => None
    | (d, e) :: r => ensure_loop r (buf ++ d) e needed
    end
  else Some (buf, eom, fs).

Definition ensure (r : reader) (needed : Z) : reader * mres unit :=
  match ensure_loop (r_in r) (r_buf r) (r_eom r) needed with
  | None => (r, MErr MConn)
  | Some (buf, eom, fs) =>
      let r' := {| r_buf := buf; r_eom := eom; r_fin := r_fin r; r_in := fs; r_alloc := r_alloc r |} in
      if short_of buf needed
      then ({| r_buf := buf; r_eom := eom; r_fin := true; r_in := fs; r_alloc := r_alloc r |}, MErr MEof)
      else (r', MOk tt)
  end.

Definition set_buf (r : reader) (b : bytes) : reader :=
  {| r_buf := b; r_eom := r_eom r; r_fin := r_fin r; r_in := r_in r; r_alloc := r_alloc r |}.
Definition add_alloc (r : reader) (n : N) : reader :=
  {| r_buf := r_buf r; r_eom := r_eom r; r_fin := r_fin r; r_in := r_in r; r_alloc := r_alloc r + n |}.

(* read exactly n bytes that ensure has made available: make([]byte,n); io.ReadFull *)
Definition take (r : reader) (n : N) : reader * bytes :=
  (set_buf (add_alloc r n) (skipn (N.to_nat n) (r_buf r)), firstn (N.to_nat n) (r_buf r)).

Definition get_raw (r : reader) (n : N) : reader * mres bytes :=
  match ensure r (Z.of_N n) with
  | (r1, MOk _) => let '(r2, bs) := take r1 n in (r2, MOk bs)
  | (r1, MErr e) => (r1, MErr e)
  | (r1, MPanic) => (r1, MPanic)
  end.

(* GetChar *)
Definition get_char (r : reader) : reader * mres byte :=
  match get_raw r 1 with
  | (r1, MOk (b :: _)) => (r1, MOk b)
  | (r1, MOk []) => (r1, MErr MOther)
  | (r1, MErr e) => (r1, MErr e)
  | (r1, MPanic) => (r1, MPanic)
  end.

(* two's complement views *)
Definition wrap64 (z : Z) : Z := ((z + 2 ^ 63) mod 2 ^ 64 - 2 ^ 63)%Z.
Definition wrap32 (z : Z) : Z := ((z + 2 ^ 31) mod 2 ^ 32 - 2 ^ 31)%Z.
Definition wrapu32 (z : Z) : Z := (z mod 2 ^ 32)%Z.

Definition enc_int (z : Z) : bytes := be_enc 8 (Z.to_N (z mod 2 ^ 64)).
Definition dec_int (bs : bytes) : Z := wrap64 (Z.of_N (be_dec bs)).

(* GetInt (= GetInt64); GetInt32 / GetUint32 are Go conversions of its result *)
Definition get_int (r : reader) : reader * mres Z :=
  match get_raw r 8 with
  | (r1, MOk bs) => (r1, MOk (dec_int bs))
  | (r1, MErr e) => (r1, MErr e)
  | (r1, MPanic) => (r1, MPanic)
  end.
Definition map_res {A B} (f : A -> B) (x : reader * mres A) : reader * mres B :=
  match x with
  | (r, MOk a) => (r, MOk (f a))
  | (r, MErr e) => (r, MErr e)
  | (r, MPanic) => (r, MPanic)
  end.
Definition get_int32 r := map_res wrap32 (get_int r).
Definition get_uint32 r := map_res wrapu32 (get_int r).

(* GetString, unencrypted: bytes up to NUL; end of message also ends the string *)
Fixpoint get_cstr_loop (fuel : nat) (r : reader) (acc : bytes) : reader * mres bytes :=
  match fuel with
  | O => (r, MErr MOther)
  | S f =>
      match ensure r 1 with
      | (r1, MOk _) =>
          match r_buf r1 with
          | [] => (r1, MErr MOther)
          | b :: rest =>
              let r2 := set_buf r1 rest in
              if byte_eqb b x00 then (r2, MOk (rev' acc)) else get_cstr_loop f r2 (b :: acc)
          end
      | (r1, MErr MEof) => (r1, MOk (rev' acc))
      | (r1, MErr e) => (r1, MErr e)
      | (r1, MPanic) => (r1, MPanic)
      end
  end.
Definition total_bytes (r : reader) : N :=
  lenN (r_buf r) + fold_right (fun f a => lenN (fst f) + a) 0 (r_in r).
Definition get_cstr (r : reader) : reader * mres bytes :=
  get_cstr_loop (S (S (N.to_nat (total_bytes r)))) r [].

(* GetString, encrypted stream: int32 length prefix, then exactly that many bytes *)
Definition strip_string (data : bytes) : bytes :=
  match data with
  | b :: _ => if byte_eqb b (n2b BinNullChar) then []
              else match rev' data with
                   | l :: r => if byte_eqb l x00 then rev' r else data
                   | [] => data
                   end
  | [] => []
  end.
Definition get_lstr (r : reader) : reader * mres bytes :=
  match get_int32 r with
  | (r1, MOk len) =>
      if (len <? 0)%Z then (r1, MErr MOther) else     (* negative length prefix: rejected before any allocation *)
      match ensure r1 len with
      | (r2, MOk _) => let '(r3, data) := take r2 (Z.to_N len) in (r3, MOk (strip_string data))
      | (r2, MErr e) => (r2, MErr e)
      | (r2, MPanic) => (r2, MPanic)
      end
  | (r1, MErr e) => (r1, MErr e)
  | (r1, MPanic) => (r1, MPanic)
  end.
Definition get_string (encrypted : bool) (r : reader) : reader * mres bytes :=
  if encrypted then get_lstr r else get_cstr r.

(* GetBytes n *)
Definition get_bytes (r : reader) (n : Z) : reader * mres bytes :=
  if (n <=? 0)%Z then (r, MOk []) else get_raw r (Z.to_N n).

(* GetRemainingBytes *)
Fixpoint drain (fs : list mframe) (buf : bytes) (eom : bool) : option (bytes * list mframe) :=
  if eom then Some (buf, fs) else
  match fs with
  | [] => None
  | (d, e) :: r => drain r (buf ++ d) e
  end.
Definition get_remaining (r : reader) : reader * mres bytes :=
  match drain (r_in r) (r_buf r) (r_eom r) with
  | None => (r, MErr MConn)
  | Some (buf, fs) =>
      ({| r_buf := []; r_eom := true; r_fin := true; r_in := fs; r_alloc := r_alloc r + lenN buf |}, MOk buf)
  end.

(* ---------- writer ---------------------------------------------------- *)
Record writer := { w_buf : bytes; w_out : list mframe }.
Definition writer_init : writer := {| w_buf := []; w_out := [] |}.

Definition flush (w : writer) (eom : bool) : writer :=
  {| w_buf := []; w_out := w_out w ++ [(w_buf w, eom)] |}.
Definition w_append (w : writer) (bs : bytes) : writer :=
  {| w_buf := w_buf w ++ bs; w_out := w_out w |}.

Definition put_char (w : writer) (c : byte) : writer :=
  let w1 := if TargetFrameSize <=? lenN (w_buf w) then flush w false else w in
  w_append w1 [c].
Definition put_int (w : writer) (z : Z) : writer :=
  let w1 := if TargetFrameSize <? lenN (w_buf w) + 8 then flush w false else w in
  w_append w1 (enc_int z).

Fixpoint upto_nul (s : bytes) : bytes :=
  match s with [] => [] | b :: r => if byte_eqb b x00 then [] else b :: upto_nul r end.

(* PutBytes *)
Fixpoint put_chunks (fuel : nat) (w : writer) (data : bytes) : writer :=
  match fuel with
  | O => w
  | S f =>
      match data with
      | [] => w
      | _ =>
          let w1 := if 0 <? lenN (w_buf w) then flush w false else w in
          let chunk := firstn (N.to_nat MaxFrameSize) data in
          put_chunks f (w_append w1 chunk) (skipn (N.to_nat MaxFrameSize) data)
      end
  end.
Definition put_bytes (w : writer) (data : bytes) : writer :=
  let len := lenN data in
  if len =? 0 then w
  else if MaxFrameSize <? len then put_chunks (S (N.to_nat (len / MaxFrameSize))) w data
  else let w1 := if TargetFrameSize <? lenN (w_buf w) + len then flush w false else w in
       w_append w1 data.

(* PutString / PutStringBytes (same wire form) *)
Definition put_string (encrypted : bool) (w : writer) (s : bytes) : writer :=
  let data := upto_nul s ++ [x00] in
  let length := lenN data in
  let needed := if encrypted then length + 8 else length in
  if MaxFrameSize <? needed then
    let w1 := if 0 <? lenN (w_buf w) then flush w false else w in
    let w2 := if encrypted then put_int w1 (wrap32 (Z.of_N length)) else w1 in
    put_bytes w2 data
  else
    let w1 := if TargetFrameSize <? lenN (w_buf w) + needed then flush w false else w in
    let w2 := if encrypted then put_int w1 (wrap32 (Z.of_N length)) else w1 in
    w_append w2 data.

Definition put_string_bytes (encrypted : bool) (w : writer) (s : bytes) : writer :=
  let b := upto_nul s in
  let length := lenN b + 1 in
  let needed := if encrypted then length + 8 else length in
  if MaxFrameSize <? needed then
    let w1 := if 0 <? lenN (w_buf w) then flush w false else w in
    let w2 := if encrypted then put_int w1 (wrap32 (Z.of_N length)) else w1 in
    put_bytes (put_bytes w2 b) [x00]
  else
    let w1 := if TargetFrameSize <? lenN (w_buf w) + needed then flush w false else w in
    let w2 := if encrypted then put_int w1 (wrap32 (Z.of_N length)) else w1 in
    w_append w2 (b ++ [x00]).

Definition finish (w : writer) : writer := flush w true.
