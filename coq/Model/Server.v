(* Model/Server.v — executable model of cedar's command dispatch (property C05).

   Go code modelled (server/server.go, security/auth.go):

     Server.lookup / CommandPerms            ->  lookup, command_perms
     Server.commandLevelSatisfied            ->  current_policy, level_ok, command_level_satisfied
     Server.authorized                       ->  authorized
     Server.sessionSatisfies                 ->  session_satisfies
     Server.postAuthPolicy (ValidCommands)   ->  post_auth_policy
     Server.ServeConn (raw path, DC_AUTHENTICATE path, keep-alive loop, run)
                                             ->  serve_conn, auth_loop, raw_path
     Authenticator.handleSessionResumption   ->  resume   (what a resumed session restores)
     Authenticator.storeSession              ->  entry_of_full, store

   The security handshake itself is NOT modelled here (C03/C10): the outcome of
   a full handshake is an abstract input record [full] that carries the fields
   the server reports (Authentication, Encryption, User, the command) together
   with two GHOST fields the Go code does not have: whether an authentication
   exchange really ran to success, and whether the stream is really encrypting.
   The dispatch loop never reads the ghost fields (they only flow to the
   output), so every theorem about the loop holds for every possible handshake
   outcome; the end-to-end statement names "reported = real" as its hypothesis.

   Definitions only; proofs are in Proofs/C05*.v. *)
From Coq Require Import List ZArith NArith Bool.
From Cedar Require Import gen.FactsC05.
Import ListNotations.

Definition cmd := Z.      (* HTCondor command integer *)
Definition perm := N.     (* authorization level name (READ, WRITE, DAEMON, ...) *)
Definition user := N.     (* identity; 0 is the empty string *)
Definition addr := N.     (* peer address *)
Definition sid := N.      (* session id *)

(* ---- configuration --------------------------------------------------- *)

(* security.SecurityLevel is a string; only equality with "REQUIRED" matters *)
Inductive level := LUnset | LNever | LOptional | LPreferred | LRequired.
Record policy := { p_authn : level; p_enc : level; p_integ : level }.

(* server.registeredHandler; h_id names the handler function *)
Record hentry := { h_id : N; h_raw : bool; h_perms : list perm }.

(* the fields of server.Server the dispatch reads.  All of them may differ
   from one dispatch to the next (they are inputs of every step). *)
Record server := {
  s_default : option policy;                              (* SecurityConfig (nil?) *)
  s_percmd : option (cmd -> option policy);               (* SecurityConfigForCommand *)
  s_authorizer : option (perm -> addr -> user -> bool);   (* Authorizer *)
  s_handlers : list (cmd * hentry)                        (* handlers map; first binding wins *)
}.

Fixpoint lookup (t : list (cmd * hentry)) (c : cmd) : option hentry :=
  match t with
  | [] => None
  | (k, h) :: r => if Z.eqb k c then Some h else lookup r c
  end.

(* Handle / HandleRaw: the map write replaces an earlier registration *)
Definition handle (t : list (cmd * hentry)) (c : cmd) (id : N) (perms : list perm) :=
  (c, {| h_id := id; h_raw := false; h_perms := perms |}) :: t.
Definition handle_raw (t : list (cmd * hentry)) (c : cmd) (id : N) :=
  (c, {| h_id := id; h_raw := true; h_perms := [] |}) :: t.

(* CommandPerms: s.handlers[command].perms — nil for an unregistered command *)
Definition command_perms (s : server) (c : cmd) : list perm :=
  match lookup (s_handlers s) c with Some h => h_perms h | None => [] end.

Definition is_req (l : level) : bool := match l with LRequired => true | _ => false end.

(* the policy commandLevelSatisfied evaluates against: per-command if the
   function is set and returns non-nil, else the default; may be nil *)
Definition current_policy (s : server) (c : cmd) : option policy :=
  match s_percmd s with
  | Some f => match f c with Some p => Some p | None => s_default s end
  | None => s_default s
  end.

Definition requires_authn (req : option policy) : bool :=
  match req with Some p => is_req (p_authn p) | None => false end.
Definition requires_enc (req : option policy) : bool :=
  match req with Some p => is_req (p_enc p) || is_req (p_integ p) | None => false end.

Definition level_ok (req : option policy) (authenticated encrypted : bool) : bool :=
  match req with
  | None => true
  | Some p =>
      if is_req (p_authn p) && negb authenticated then false
      else if (is_req (p_enc p) || is_req (p_integ p)) && negb encrypted then false
      else true
  end.

Definition command_level_satisfied (s : server) (c : cmd) (authenticated encrypted : bool) : bool :=
  level_ok (current_policy s c) authenticated encrypted.

Definition authorized (s : server) (az : perm -> addr -> user -> bool) (c : cmd) (peer : addr) (u : user) : bool :=
  existsb (fun p => az p peer u) (command_perms s c).

(* ---- sessions ---------------------------------------------------------- *)

(* the fields of security.SecurityNegotiation the server side reads or hands
   to a handler *)
Record session := {
  n_cmd : cmd;          (* neg.ClientConfig.Command *)
  n_authn : bool;       (* neg.Authentication *)
  n_enc : bool;         (* neg.Encryption *)
  n_user : user;        (* neg.User *)
  n_resumed : bool;     (* neg.SessionResumed *)
  n_sid : sid;          (* neg.SessionId *)
  n_valid : list cmd    (* neg.ValidCommands: restored from the cache entry on resumption, never set by a
                           server-side full handshake; carried along, NOT consulted by the dispatch *)
}.

(* per-connection state: the negotiation record plus the two ghost facts *)
Record cstate := {
  cs_neg : session;
  cs_auth_real : bool;   (* GHOST: an authentication exchange really ran to success on this
                            connection, or the resumed session was established by one *)
  cs_enc_real : bool     (* Stream.IsEncrypted(): the stream really is encrypting *)
}.

Definition session_satisfies (s : server) (c : cmd) (peer : addr) (neg : option session) : bool :=
  match neg with
  | None => false
  | Some n =>
      if negb (command_level_satisfied s c (n_authn n) (n_enc n)) then false
      else match s_authorizer s with
           | Some az => authorized s az c peer (n_user n)
           | None => true
           end
  end.

(* postAuthPolicy's ValidCommands (before sorting): every registered, non-raw
   command with at least one level whose security level this session clears
   and whose levels the Authorizer accepts.  No Authorizer: nil. *)
Fixpoint keys_nodup (t : list (cmd * hentry)) (seen : list cmd) : list cmd :=
  match t with
  | [] => []
  | (k, _) :: r => if existsb (Z.eqb k) seen then keys_nodup r seen else k :: keys_nodup r (k :: seen)
  end.

Definition post_auth_policy (s : server) (u : user) (peer : addr) (authenticated encrypted : bool) : list cmd :=
  match s_authorizer s with
  | None => []
  | Some az =>
      filter (fun c =>
                match lookup (s_handlers s) c with
                | None => false
                | Some h =>
                    negb (h_raw h) && negb (match h_perms h with [] => true | _ => false end)
                    && command_level_satisfied s c authenticated encrypted
                    && existsb (fun p => az p peer u) (h_perms h)
                end)
             (keys_nodup (s_handlers s) [])
  end.

(* ---- the server's session cache and resumption ------------------------- *)

(* what kind of KeyInfo a cache entry holds *)
Inductive keykind :=
| KNone        (* KeyInfo == nil *)
| KAes         (* 32-byte key, protocol AES / AESGCM: the only usable kind *)
| KAesBadLen   (* non-empty key of another length, protocol AES *)
| KAesEmpty    (* KeyInfo present with empty Data, protocol AES *)
| KOther.      (* some other protocol name *)

Record sentry := {
  e_key : keykind;
  e_authn : bool;       (* policy attribute Authenticated (absent = false) *)
  e_user : user;        (* policy attribute User (absent = "") *)
  e_valid : list cmd;   (* policy attribute ValidCommands (claim sessions: MintClaimOptions.ValidCommands,
                           session_info); absent for sessions storeSession creates *)
  e_client : bool;      (* policy attribute CedarClientSideSession: the record the CLIENT half of a handshake
                           stored (this process negotiated the session with another server) *)
  e_auth_real : bool    (* GHOST: the session was established by a real authentication OF THE PEER BY US *)
}.

Definition cache := list (sid * sentry).
Fixpoint cache_lookup (k : cache) (s : sid) : option sentry :=
  match k with
  | [] => None
  | (i, e) :: r => if N.eqb i s then Some e else cache_lookup r s
  end.
Definition cache_store (k : cache) (s : sid) (e : sentry) : cache := (s, e) :: k.
(* storeClientSession (as of /repo f157697): marks the record as client-side; a cached record
   under the same id that is NOT client-side is never replaced (if it carries the key just
   negotiated it is the server half of this very session and only command mappings -- not
   modelled here -- are added; otherwise nothing is stored or mapped at all) *)
Definition mark_client (e : sentry) : sentry :=
  {| e_key := e_key e; e_authn := e_authn e; e_user := e_user e; e_valid := e_valid e;
     e_client := true; e_auth_real := e_auth_real e |}.
Definition client_store (k : cache) (s : sid) (e : sentry) : cache :=
  match cache_lookup k s with
  | Some e0 => if e_client e0 then cache_store k s (mark_client e) else k
  | None => cache_store k s (mark_client e)
  end.

Fixpoint cache_drop (k : cache) (s : sid) : cache :=
  match k with
  | [] => []
  | (i, e) :: r => if N.eqb i s then cache_drop r s else (i, e) :: cache_drop r s
  end.

(* outcome of a FULL handshake (ServerHandshakeWithMessage, no UseSession):
   abstract input, one record per connection *)
Record full := {
  f_cmd : cmd;          (* command named in the client's ad *)
  f_authn : bool;       (* negotiation.Authentication as returned *)
  f_enc : bool;         (* negotiation.Encryption as returned *)
  f_user : user;        (* negotiation.User as returned (after FQU mapping) *)
  f_sid : sid;          (* session id minted by createPostAuthAd *)
  f_haskey : bool;      (* a shared secret was derived (=> stored KeyInfo) *)
  f_auth_real : bool;   (* GHOST *)
  f_enc_real : bool     (* GHOST: Stream.IsEncrypted() after the handshake *)
}.

(* storeSession *)
Definition entry_of_full (r : full) : sentry :=
  {| e_key := if f_haskey r then KAes else KNone;
     e_authn := f_authn r; e_user := f_user r; e_valid := []; e_client := false; e_auth_real := f_auth_real r |}.

Definition cstate_of_full (r : full) : cstate :=
  {| cs_neg := {| n_cmd := f_cmd r; n_authn := f_authn r; n_enc := f_enc r; n_user := f_user r;
                  n_resumed := false; n_sid := f_sid r; n_valid := [] |};
     cs_auth_real := f_auth_real r; cs_enc_real := f_enc_real r |}.

(* sessionHasUsableKey: KeyInfo != nil && len(Data) == 32 && isAESGCM(Protocol) *)
Definition usable_key (k : keykind) : bool := match k with KAes => true | _ => false end.

(* handleSessionResumption after the lookup succeeded: an entry without a
   usable key, and the client-side record of a session this process negotiated
   with another server, are treated exactly like an unknown session (error, None).
   Otherwise Authenticated and User come from the stored policy, the key
   restores Encryption and is installed on the stream. checkResumedSession then
   sets Encryption from the stream's real state (true: the key was just
   installed) and, on the server, checks only the encryption/integrity
   requirement of the default config against it — which therefore always holds;
   the authentication requirement is left to the per-command dispatch check. *)
Definition resume (e : sentry) (s : sid) (c : cmd) : option cstate :=
  if negb (e_client e) && usable_key (e_key e) then
    Some {| cs_neg := {| n_cmd := c; n_authn := e_authn e; n_enc := true; n_user := e_user e;
                         n_resumed := true; n_sid := s; n_valid := e_valid e |};
            cs_auth_real := e_auth_real e; cs_enc_real := true |}
  else None.

(* ---- the connection script --------------------------------------------- *)

(* what a handler invocation does: return nil after KeepAlive(), return nil,
   return an error, return KeepOpen(), or PANIC (Go panics are an explicit outcome) *)
Inductive hret := HKeepAlive | HDone | HErr | HKeepOpen | HPanic.

(* one handler invocation's continuation: its return, the result of reading
   the follow-on command integer (None = EOF / error), and the server tables
   in force when that follow-on command is dispatched *)
Record step := { st_ret : hret; st_next : option cmd; st_srv : server }.

Inductive hs_in :=
| HsErr (stored : option full)   (* handshake returned an error (a session may already be stored) *)
| HsFull (r : full)              (* full handshake succeeded *)
| HsResume (s : sid) (c : option cmd) (io_ok : bool).
                                 (* UseSession="YES": named sid, Command attribute, reply could be sent *)

Record conn := {
  c_srv : server;           (* tables in force for the first dispatch *)
  c_peer : addr;
  c_first : option cmd;     (* the leading command integer; None = read failed *)
  c_hs : hs_in;             (* only consulted on the DC_AUTHENTICATE path *)
  c_steps : list step
}.

(* ---- output ------------------------------------------------------------- *)

Record invocation := {
  i_handler : N;
  i_rawpath : bool;              (* reached through the raw path *)
  i_cmd : cmd;                   (* Conn.Command *)
  i_neg : option session;        (* Conn.Negotiation *)
  i_enc_real : bool;             (* Conn.Stream.IsEncrypted() at the call *)
  i_auth_real : bool;            (* GHOST *)
  i_peer : addr;
  i_srv : server                 (* GHOST: the tables in force at the call *)
}.

Inductive refusal := RUnknown | RWrongKind | RNotSatisfied.

Inductive dispatch :=
| DInvoke (i : invocation)
| DRefuse (c : cmd) (why : refusal).

(* how ServeConn ended *)
Inductive cend :=
| EClosedOk      (* conn.Close(), return nil *)
| EClosedErr     (* conn.Close(), return error *)
| EOpen          (* handler took the connection (KeepOpen): not closed, return nil *)
| EPending       (* the script ran out: the handler has not returned *)
| EPanic.        (* the handler panicked: ServeConn has no recover, the panic unwinds it (only its
                    deferred cancel() runs, the connection is NOT closed by ServeConn) and reaches the
                    caller -- in Server.Serve the per-connection goroutine's deferred recover(), which
                    logs and closes the connection *)

(* Server.Serve's per-connection goroutine: is the connection closed once ServeConn is over?
   ServeConn closes it itself on every return except KeepOpen; after a panic Serve's recover does. *)
Definition closed_under_serve (e : cend) : bool :=
  match e with EClosedOk | EClosedErr | EPanic => true | EOpen | EPending => false end.

Definition dispatch_cmd (d : dispatch) : cmd :=
  match d with DInvoke i => i_cmd i | DRefuse c _ => c end.
Fixpoint invocations (ds : list dispatch) : list invocation :=
  match ds with
  | [] => []
  | DInvoke i :: r => i :: invocations r
  | DRefuse _ _ :: r => invocations r
  end.

(* ---- ServeConn ------------------------------------------------------------ *)

(* the `for` loop of the DC_AUTHENTICATE path; recursion on the script *)
Fixpoint auth_loop (srv : server) (peer : addr) (cs : cstate) (c : cmd) (steps : list step)
  : list dispatch * cend :=
  match lookup (s_handlers srv) c with
  | None => ([DRefuse c RUnknown], EClosedErr)
  | Some h =>
      if h_raw h then ([DRefuse c RWrongKind], EClosedErr)
      else if negb (session_satisfies srv c peer (Some (cs_neg cs))) then ([DRefuse c RNotSatisfied], EClosedErr)
      else
        let inv := DInvoke {| i_handler := h_id h; i_rawpath := false; i_cmd := c;
                              i_neg := Some (cs_neg cs); i_enc_real := cs_enc_real cs;
                              i_auth_real := cs_auth_real cs; i_peer := peer; i_srv := srv |} in
        match steps with
        | [] => ([inv], EPending)
        | st :: rest =>
            match st_ret st with
            | HErr => ([inv], EClosedErr)
            | HPanic => ([inv], EPanic)
            | HKeepOpen => ([inv], EOpen)
            | HDone => ([inv], EClosedOk)
            | HKeepAlive =>
                match st_next st with
                | None => ([inv], EClosedOk)
                | Some c' => let '(ds, e) := auth_loop (st_srv st) peer cs c' rest in (inv :: ds, e)
                end
            end
        end
  end.

(* raw path + run *)
Definition raw_path (srv : server) (peer : addr) (c : cmd) (steps : list step) : list dispatch * cend :=
  match lookup (s_handlers srv) c with
  | None => ([DRefuse c RUnknown], EClosedErr)
  | Some h =>
      if negb (h_raw h) then ([DRefuse c RWrongKind], EClosedErr)
      else
        let inv := DInvoke {| i_handler := h_id h; i_rawpath := true; i_cmd := c; i_neg := None;
                              i_enc_real := false; i_auth_real := false; i_peer := peer; i_srv := srv |} in
        match steps with
        | [] => ([inv], EPending)
        | st :: _ =>
            match st_ret st with
            | HErr => ([inv], EClosedErr)
            | HPanic => ([inv], EPanic)
            | HKeepOpen => ([inv], EOpen)
            | HKeepAlive | HDone => ([inv], EClosedOk)
            end
        end
  end.

(* the handshake step: new cache and, on success, the connection state *)
Definition handshake (k : cache) (h : hs_in) : cache * option cstate :=
  match h with
  | HsErr None => (k, None)
  | HsErr (Some r) => (cache_store k (f_sid r) (entry_of_full r), None)
  | HsFull r => (cache_store k (f_sid r) (entry_of_full r), Some (cstate_of_full r))
  | HsResume s c io_ok =>
      match cache_lookup k s with
      | None => (k, None)
      | Some e =>
          (* the reply (SID_NOT_FOUND or AUTHORIZED) must go out; then the entry is resumed *)
          if io_ok then
            (k, resume e s (match c with Some x => x | None => DC_AUTHENTICATE end))
          else (k, None)
      end
  end.

Definition serve_conn (k : cache) (cn : conn) : cache * (list dispatch * cend) :=
  match c_first cn with
  | None => (k, ([], EClosedErr))
  | Some c =>
      if Z.eqb c DC_AUTHENTICATE then
        match s_default (c_srv cn) with
        | None => (k, ([], EClosedErr))
        | Some _ =>
            match handshake k (c_hs cn) with
            | (k', None) => (k', ([], EClosedErr))
            | (k', Some cs) => (k', auth_loop (c_srv cn) (c_peer cn) cs (n_cmd (cs_neg cs)) (c_steps cn))
            end
        end
      else (k, raw_path (c_srv cn) (c_peer cn) c (c_steps cn))
  end.

(* ---- multi-connection histories -------------------------------------------- *)

Inductive event :=
| EConn (cn : conn)
| EDrop (s : sid)                   (* session expired or invalidated *)
| EImport (s : sid) (e : sentry)    (* session installed by the application (ImportClaimSession, Store) *)
| EClientRecord (s : sid) (e : sentry).
                                    (* this process, as a CLIENT of some other server, finished a handshake and
                                       storeClientSession filed its record in the cache the server side shares;
                                       the record's content (what that server told us) is arbitrary *)

Fixpoint run_history (k : cache) (evs : list event) : list (list dispatch * cend) :=
  match evs with
  | [] => []
  | EConn cn :: r => let '(k', out) := serve_conn k cn in out :: run_history k' r
  | EDrop s :: r => run_history (cache_drop k s) r
  | EImport s e :: r => run_history (cache_store k s e) r
  | EClientRecord s e :: r => run_history (client_store k s e) r
  end.

Definition history_dispatches (k : cache) (evs : list event) : list dispatch :=
  flat_map fst (run_history k evs).
Definition history_invocations (k : cache) (evs : list event) : list invocation :=
  invocations (history_dispatches k evs).

(* every full-handshake record that occurs in a history *)
Definition full_of_hs (h : hs_in) : list full :=
  match h with HsErr (Some r) => [r] | HsFull r => [r] | _ => [] end.
Fixpoint history_fulls (evs : list event) : list full :=
  match evs with
  | [] => []
  | EConn cn :: r => full_of_hs (c_hs cn) ++ history_fulls r
  | _ :: r => history_fulls r
  end.
Fixpoint history_imports (evs : list event) : list sentry :=
  match evs with
  | [] => []
  | EImport _ e :: r => e :: history_imports r
  | _ :: r => history_imports r
  end.
