(* Model/Cancel.v — C19: context cancellation in stream.go's I/O primitive and in
   sequences of such primitives (handshakes, message exchange).

   Go code modelled (stream/stream.go):

     func (s *Stream) readWithContext(ctx, data) error {      // writeWithContext is the same shape
         if ctx.Err() != nil { return ctx.Err() }              // P0  pre-check
         if ctx.Done() == nil { _, err := io.ReadFull(..); return err }   // fast path, never-cancellable ctx
         stop := context.AfterFunc(ctx, func() { s.conn.Close() })       // P1  register close-on-cancel
         _, err := io.ReadFull(s.reader, data)                 // P2  blocking call
         if !stop() { return ctx.Err() }                       // P3  stop: false iff the close was started
         return err
     }

   The statement structure is not assumed: [prim_shape] is regenerated from the
   source by `vh-c19 facts` (gen/FactsC19.v) and the model below is parametric
   in it; the theorems are proved for [good_shape] and the obligation
   [shape_read = good_shape] is re-checked on every run.

   Definitions only; proofs are in Proofs/C19.v. *)
From Coq Require Import List Bool Arith String.
Import ListNotations.

(* ------------------------------------------------------------------ *)
(** * Fact vocabulary (instantiated by gen/FactsC19.v)                  *)

Inductive ctxk :=
| CtxParam                       (* the enclosing function's own context parameter *)
| CtxDerived                     (* context.WithCancel/Timeout/Deadline/Value of it *)
| CtxField (f : string)          (* a context stored in a struct field, e.g. CEDARTLSConnection.ctx *)
| CtxNone                        (* callee takes no context (it uses a stored one; its own sites are listed) *)
| CtxBackground (fn_has_ctx : bool) (* context.Background()/TODO(); flag: a caller context was available *)
| CtxOther.

Inductive errk :=
| EPropagate                     (* if err != nil { ...; return <non-nil error> } *)
| ETail                          (* return call(...) *)
| ELater                         (* err flows into a later `return ... err` *)
| EVoidAbort                     (* inside a function without results: if err != nil { return } *)
| ESwallowRetry (head exit : bool) (* `continue` in a retry loop; head: loop re-enters at a propagating I/O site;
                                      exit: leaving the loop ends in an error return *)
| ESwallowNext (ok : bool)       (* error logged / recorded / dropped; ok: the fall-through path reaches a
                                    propagating I/O site or a non-nil error return (incl. sticky `if X != nil {return X}`) *)
| EVoidCall (ok : bool)          (* call of an I/O function that returns no error; ok as above *)
| ENoErr
| EDropped
| ESwallowReturnNil
| EUnknown.

Inductive rclass := RConn | RTLS | RDeadline | RUnknown.  (* RDeadline: Set[Read|Write]Deadline on a connection *)

(* function names are interned by the translator: [fn_names] is the table, sites
   carry indices into it (string literals are slow to load in bulk) *)
Record raw_site := mk_raw { r_fn : nat; r_callee : string; r_class : rclass }.
Record io_site := mk_site { s_fn : nat; s_callee : nat; s_ord : nat; s_ctx : ctxk; s_err : errk }.
Record ctx_init := mk_init { i_fn : nat; i_field : string; i_kind : ctxk }.
Definition fn_name (names : list string) (i : nat) : string := nth i names EmptyString.
(* a call of context.Background / TODO / WithoutCancel, and whether a caller context was in scope *)
Record ctx_subst := mk_subst { cs_fn : nat; cs_callee : string; cs_has_ctx : bool }.
Record prim_shape := mk_shape { sh_precheck : bool; sh_fast : bool; sh_reg : bool; sh_stopchk : bool; sh_ordered : bool }.

Definition good_shape := mk_shape true true true true true.

Definition shape_eqb (a b : prim_shape) : bool :=
  Bool.eqb (sh_precheck a) (sh_precheck b) && Bool.eqb (sh_fast a) (sh_fast b) &&
  Bool.eqb (sh_reg a) (sh_reg b) && Bool.eqb (sh_stopchk a) (sh_stopchk b) &&
  Bool.eqb (sh_ordered a) (sh_ordered b).

Definition prim_read_name := "stream.Stream.readWithContext"%string.
Definition prim_write_name := "stream.Stream.writeWithContext"%string.

Definition is_prim (names : list string) (i : nat) : bool :=
  let f := fn_name names i in String.eqb f prim_read_name || String.eqb f prim_write_name.

(* a context-typed struct field is acceptable when every place that sets it
   stores the caller's context, and there is at least one such place *)
Definition field_init_ok (inits : list ctx_init) (f : string) : bool :=
  let mine := filter (fun i => String.eqb (i_field i) f) inits in
  negb (Nat.eqb (List.length mine) 0) &&
  forallb (fun i => match i_kind i with CtxParam | CtxDerived => true | _ => false end) mine.

Definition ctx_ok (inits : list ctx_init) (k : ctxk) : bool :=
  match k with
  | CtxParam | CtxDerived | CtxNone => true
  | CtxField f => field_init_ok inits f
  | CtxBackground has => negb has
  | CtxOther => false
  end.

Definition err_ok (k : errk) : bool :=
  match k with
  | EPropagate | ETail | ELater | EVoidAbort => true
  | ESwallowRetry h e => h && e
  | ESwallowNext ok => ok
  | EVoidCall ok => ok
  | ENoErr | EDropped | ESwallowReturnNil | EUnknown => false
  end.

Definition site_ok (inits : list ctx_init) (s : io_site) : bool := ctx_ok inits (s_ctx s) && err_ok (s_err s).

(* raw connection I/O may only sit in the two primitives; I/O on the TLS
   connection layered over CEDAR messages is allowed because that connection
   (CEDARTLSConnection) carries the caller's context (field obligation) *)
Definition raw_ok (names : list string) (inits : list ctx_init) (r : raw_site) : bool :=
  match r_class r with
  | RConn => is_prim names (r_fn r)
  | RTLS => field_init_ok inits "CEDARTLSConnection.ctx"
  (* the library arms a socket deadline only where the caller asked for one (Stream.SetTimeout);
     in particular the primitives - fast path included - set none of their own *)
  | RDeadline => String.eqb (fn_name names (r_fn r)) "stream.Stream.SetTimeout"
  | RUnknown => false
  end.

Definition calls_prim (names : list string) (sites : list io_site) (p : string) : bool :=
  existsb (fun s => String.eqb (fn_name names (s_callee s)) p) sites.

(* the four structural features the theorems need; the fast path is an optimisation *)
Definition shape_good (sh : prim_shape) : bool :=
  sh_precheck sh && sh_reg sh && sh_stopchk sh && sh_ordered sh.

Definition facts_ok (names : list string) (sr sw : prim_shape) (raws : list raw_site) (sites : list io_site) (inits : list ctx_init) : bool :=
  shape_good sr && shape_good sw &&
  forallb (raw_ok names inits) raws && forallb (site_ok inits) sites &&
  (* non-vacuity of the translation: both primitives exist, are used, and do the raw I/O *)
  calls_prim names sites prim_read_name && calls_prim names sites prim_write_name &&
  existsb (fun r => String.eqb (fn_name names (r_fn r)) prim_read_name) raws &&
  existsb (fun r => String.eqb (fn_name names (r_fn r)) prim_write_name) raws &&
  Nat.leb 100 (List.length sites).

(* call sites in the packages that CALL the handshakes (server/, client/, ccb/): the
   context handed down is the caller's (never Background/TODO/WithoutCancel when one is
   in scope); the accept loop's hand-over to ServeConn must be among them *)
Definition callers_ok (names : list string) (inits : list ctx_init) (callers : list io_site) : bool :=
  forallb (fun s => ctx_ok inits (s_ctx s)) callers &&
  existsb (fun s => String.eqb (fn_name names (s_fn s)) "server.Server.Serve" &&
                    String.eqb (fn_name names (s_callee s)) "server.Server.ServeConn") callers &&
  existsb (fun s => String.eqb (fn_name names (s_fn s)) "client.ConnectAndAuthenticateWithConfig") callers &&
  existsb (fun s => String.eqb (fn_name names (s_fn s)) "ccb.brokerReg.register") callers.

(* nowhere in the analysed packages is the caller's context replaced by one that cannot be
   cancelled while a context is in scope. The allow-list (function names, each with a reason
   in notes/C19.md) is empty: the unchanged tree has no such place. *)
Definition subst_allowed : list string := [].
Definition substs_ok (names : list string) (l : list ctx_subst) : bool :=
  forallb (fun c => negb (cs_has_ctx c) || existsb (String.eqb (fn_name names (cs_fn c))) subst_allowed) l.

Definition bad_sites (inits : list ctx_init) (sites : list io_site) : list io_site :=
  filter (fun s => negb (site_ok inits s)) sites.
Definition bad_raws (names : list string) (inits : list ctx_init) (raws : list raw_site) : list raw_site :=
  filter (fun r => negb (raw_ok names inits r)) raws.
(* entry points that have no context at all (listed, not a violation) *)
Definition no_ctx_entries (names : list string) (sites : list io_site) : list string :=
  map (fun s => fn_name names (s_fn s)) (filter (fun s => match s_ctx s with CtxBackground false => true | _ => false end) sites).

(* ------------------------------------------------------------------ *)
(** * The primitive                                                     *)

Inductive bres := BOk | BErr.                       (* what the blocking call yields when the peer lets it finish *)
Inductive peer := Completes (b : bres) | Stalls.    (* Stalls: the call never completes by itself *)
Inductive res := ROk | RIoErr | RClosedErr | RCtxErr.
Inductive outcome := Returned (r : res) (closed : bool) (io : bool) | Hangs.

Definition of_bres (b : bres) : res := match b with BOk => ROk | BErr => RIoErr end.

(* [ct]: the point at which cancellation takes effect, relative to this
   primitive: 0 before the pre-check, 1 between pre-check and registration,
   2 during the blocking call, 3 after the call returned but before stop(),
   >= 4 after stop().  None: no cancellation ever.
   [race]: when the close and the completion of the call race, whether the
   call saw the closed connection.
   Assumption (named in the theorems): closing the connection makes a blocked
   call return — used in the [Stalls] branch. *)
Definition cancelled_by (cancellable : bool) (ct : option nat) (p : nat) : bool :=
  cancellable && match ct with Some t => Nat.leb t p | None => false end.

Definition prim (sh : prim_shape) (cancellable : bool) (ct : option nat) (p : peer) (race : bool) : outcome :=
  if sh_precheck sh && cancelled_by cancellable ct 0 then Returned RCtxErr false false
  else if sh_fast sh && negb cancellable then
    match p with Completes b => Returned (of_bres b) false true | Stalls => Hangs end
  else
    let registered := sh_reg sh && sh_ordered sh && cancellable in
    match p with
    | Stalls =>
        (* the call can only return if the watcher closes the connection *)
        if registered && match ct with Some _ => true | None => false end
        then Returned (if sh_stopchk sh then RCtxErr else RClosedErr) true true
        else Hangs
    | Completes b =>
        let started := registered && cancelled_by cancellable ct 3 in   (* close-on-cancel fired before stop() *)
        if started
        then Returned (if sh_stopchk sh then RCtxErr else if race then RClosedErr else of_bres b) true true
        else Returned (of_bres b) false true
    end.

(* ------------------------------------------------------------------ *)
(** * Sequences of primitives with error propagation                    *)

Inductive policy := Propagate | Swallow.
(* one step: what the caller does with an error, how the peer behaves at this
   step, and whether/where the cancellation lands inside this step *)
Record step := mk_step { st_pol : policy; st_peer : peer; st_cancel : option nat; st_race : bool }.

Inductive hres := HOk | HErr | HHang.
Record trace := mk_trace { t_res : hres; t_io : list bool; t_closed : bool }.

(* [cancelled]: the context is already cancelled when the step starts;
   [sw]: an error has been swallowed; [fin]: the function's final statement
   returns an error whenever one was swallowed. *)
Fixpoint run (sh : prim_shape) (cancellable cancelled sw fin closed : bool) (ps : list step) : trace :=
  match ps with
  | [] => mk_trace (if sw && fin then HErr else HOk) [] closed
  | s :: rest =>
      let ct := if cancelled then Some 0 else st_cancel s in
      match prim sh cancellable ct (st_peer s) (st_race s) with
      | Hangs => mk_trace HHang [true] closed
      | Returned r c io =>
          let cancelled' := cancelled || (cancellable && match st_cancel s with Some _ => true | None => false end) in
          match r, st_pol s with
          | ROk, _ =>
              let t := run sh cancellable cancelled' sw fin (closed || c) rest in
              mk_trace (t_res t) (io :: t_io t) (t_closed t)
          | _, Propagate => mk_trace HErr [io] (closed || c)
          | _, Swallow =>
              let t := run sh cancellable cancelled' true fin (closed || c) rest in
              mk_trace (t_res t) (io :: t_io t) (t_closed t)
          end
      end
  end.

(* after a swallowed error some later step propagates, or the function ends in an error *)
Definition guarded (ps : list step) (fin : bool) : bool :=
  existsb (fun s => match st_pol s with Propagate => true | Swallow => false end) ps || fin.

Definition healthy (s : step) : bool :=
  match st_peer s, st_cancel s with Completes BOk, None => true | _, _ => false end.

(* the same sequence with no context at all: plain blocking calls (specification of
   "a context that can never be cancelled adds no failure mode") *)
Fixpoint run_plain (sw fin closed : bool) (ps : list step) : trace :=
  match ps with
  | [] => mk_trace (if sw && fin then HErr else HOk) [] closed
  | s :: rest =>
      match st_peer s with
      | Stalls => mk_trace HHang [true] closed
      | Completes BOk =>
          let t := run_plain sw fin closed rest in mk_trace (t_res t) (true :: t_io t) (t_closed t)
      | Completes BErr =>
          match st_pol s with
          | Propagate => mk_trace HErr [true] closed
          | Swallow => let t := run_plain true fin closed rest in mk_trace (t_res t) (true :: t_io t) (t_closed t)
          end
      end
  end.

