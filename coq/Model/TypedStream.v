(* Model/TypedStream.v — the glue between the typed-message layer (Model/Msg.v) and the
   stream (Model/Frame.v): Message.FlushFrame hands each buffer to Stream.WriteFrame, which is
   SendMessage for the EOM frame and SendPartialMessage otherwise; Message.ensureData pulls
   frames with Stream.ReadFrame, which is ReceiveFrameWithEnd with isEOM := (end flag <> 0). *)
From Coq Require Import List NArith Bool.
From Cedar Require Import Lib.Bytes Lib.Sym gen.Consts Model.Frame Model.Msg.
Import ListNotations.
Local Open Scope N_scope.

Definition flag_of_eom (e : bool) : N := if e then EndFlagComplete else EndFlagPartial.

(* WriteFrame for each frame the typed writer emitted, in order; stops at the first refusal *)
Fixpoint send_mframes (s : stream) (fs : list mframe) : stream * sres (list frame) :=
  match fs with
  | [] => (s, SOk [])
  | (d, e) :: r =>
      match send_frame s d (flag_of_eom e) with
      | (s1, SOk f) =>
          match send_mframes s1 r with
          | (s2, SOk ws) => (s2, SOk (f :: ws))
          | (s2, SErr x) => (s2, SErr x)
          end
      | (s1, SErr x) => (s1, SErr x)
      end
  end.

(* ReadFrame n times *)
Fixpoint recv_mframes (s : stream) (n : nat) (ws : list frame) : stream * option (list mframe) :=
  match n with
  | O => (s, Some [])
  | S n' =>
      match ws with
      | [] => (s, None)
      | w :: r =>
          match recv_frame_we s w with
          | (s1, SOk (d, fl)) =>
              match recv_mframes s1 n' r with
              | (s2, Some ms) => (s2, Some ((d, negb (fl =? 0)) :: ms))
              | (s2, None) => (s2, None)
              end
          | (s1, SErr _) => (s1, None)
          end
      end
  end.
