(* Model/Version.v — version/version.go: Parse (the X.Y.Z of a "$CondorVersion: X.Y.Z ...$"
   string), AtLeast, and message.HTCondorVersion.BuiltSinceVersion (the peer-version gate
   of the ClassAd writer).  strconv.Atoi is modelled with its exact failure behaviour: a
   syntax error yields (0, error), a value outside int64 yields the clamped value AND an
   error (which matters for the third component, whose error Parse ignores). *)
From Coq Require Import List NArith ZArith Lia Bool.
From Cedar Require Import Lib.Bytes Model.Decode Model.Sinful.
Import ListNotations.
Local Open Scope Z_scope.

Definition int64_max : Z := 2 ^ 63 - 1.
Definition int64_min : Z := - 2 ^ 63.

Fixpoint digits_val (s : bytes) (acc : Z) : option Z :=
  match s with
  | [] => Some acc
  | c :: r => let n := Z.of_N (b2n c) in
              if (48 <=? n) && (n <=? 57) then digits_val r (acc * 10 + (n - 48)) else None
  end.

(* strconv.Atoi: (value, error?) *)
Definition atoi (s : bytes) : Z * bool :=
  match s with
  | [] => (0, true)
  | c :: r =>
      let neg := byte_eqb c x2d in
      let digs := if neg || byte_eqb c x2b then r else s in
      match digs with
      | [] => (0, true)
      | _ =>
          match digits_val digs 0 with
          | None => (0, true)
          | Some v =>
              if neg then (if 2 ^ 63 <? v then (int64_min, true) else (- v, false))
              else (if 2 ^ 63 <=? v then (int64_max, true) else (v, false))
          end
      end
  end.

Definition is_version_sep (b : byte) : bool :=
  byte_eqb b x20 || byte_eqb b x3a || byte_eqb b x24 || byte_eqb b x09.

(* one whitespace/colon/dollar separated token: Some (maj, min, sub) if it looks like X.Y[.Z] *)
Definition version_of_field (f : bytes) : option (Z * Z * Z) :=
  match split_on x2e f [] with
  | p0 :: p1 :: rest =>
      let '(maj, e1) := atoi p0 in
      let '(mn, e2) := atoi p1 in
      if e1 || e2 then None
      else Some (maj, mn, match rest with p2 :: _ => fst (atoi p2) | [] => 0 end)
  | _ => None
  end.

Fixpoint first_version (fs : list bytes) : option (Z * Z * Z) :=
  match fs with
  | [] => None
  | f :: r => match version_of_field f with Some v => Some v | None => first_version r end
  end.

(* version.Parse *)
Definition version_parse (s : bytes) : option (Z * Z * Z) :=
  first_version (fields_by is_version_sep s []).

(* CondorVersion.AtLeast *)
Definition at_least (v o : Z * Z * Z) : bool :=
  let '(a1, b1, c1) := v in let '(a2, b2, c2) := o in
  if negb (a1 =? a2) then a2 <? a1
  else if negb (b1 =? b2) then b2 <? b1
  else c2 <=? c1.

(* message.HTCondorVersion.BuiltSinceVersion *)
Definition built_since (v o : Z * Z * Z) : bool :=
  let '(a1, b1, c1) := v in let '(a2, b2, c2) := o in
  (a2 <? a1) || ((a1 =? a2) && (b2 <? b1)) || ((a1 =? a2) && (b1 =? b2) && (c2 <=? c1)).
