(* Model/LocksetFacts.v — C17: vocabulary of the facts `vh-c17 facts` regenerates
   from /repo's source (gen/FactsC17.v), the guard map, and the boolean
   obligations over the facts. Definitions only. *)
From Coq Require Import List Bool String.
From Cedar Require Import Model.Lockset.
Import ListNotations.
Local Open Scope string_scope.

Inductive rw := AR | AW.
Definition heldset := list (string * string * mode).   (* lock field, object expression, mode *)
Record lock_fact := mk_lf { lf_fn : string; lf_field : string; lf_rw : rw; lf_base : string; lf_held : heldset }.

(* interprocedural lockset: an unexported function that the translator analysed as entered
   with the locks hf_entry held (names in the function's own receiver/parameter names), and
   the lockset held at each of its static call sites in the package (caller, locks in the
   callee's names). lf_held of an access inside such a function = hf_entry ++ locks taken locally. *)
Record helper_fact := mk_hf { hf_fn : string; hf_entry : heldset; hf_sites : list (string * heldset) }.

(* critical sections: how often a function acquires a lock and whether it writes state guarded by it *)
Record cs_fact := mk_cs { cs_fn : string; cs_lock : string; cs_regions : nat; cs_writes : bool }.

Inductive vkind := VOnceInit | VAfterOnce | VAtomicRMW | VAtomicLoad | VAtomicStore | VAtomicCAS | VPlain.
Record var_fact := mk_vf { vf_fn : string; vf_var : string; vf_rw : rw; vf_kind : vkind }.

(* the ordered atomic operations a function applies to a package-level counter *)
Record counter_prog := mk_cp { cp_fn : string; cp_var : string; cp_ops : list cop }.
(* in-place mutation of a slice owned by a SecurityConfig (shared by shallow copies) *)
Record slice_mut := mk_sm { sm_fn : string; sm_what : string; sm_base : string }.

(* an in-place write (element / sub-slice assignment, clear, copy destination, read-into) to a
   byte slice that is rooted in a struct field or may alias the key bytes of a cached
   SessionEntry (KeyInfo.Data), which every resuming connection reads without a lock *)
Record key_write := mk_kw { kw_fn : string; kw_what : string; kw_target : string; kw_aliases_cached_key : bool }.
Definition cached_key_writers (ws : list key_write) : list key_write := filter kw_aliases_cached_key ws.

Inductive cfgk := CfgCopy | CfgFresh | CfgShared.
Record auth_site := mk_as { as_fn : string; as_arg : string; as_kind : cfgk }.

(* a config-returning hook installed on an Authenticator (ServerConfigForCommand): the
   handshake writes the connection's ECDH key into what the hook returns and adopts it *)
Inductive hookk := HookCopy | HookNil | HookShared.
Record hook_site := mk_hs { hs_fn : string; hs_field : string; hs_rhs : string; hs_kind : hookk }.

Inductive sorigin := SLocal | SField.
Record broker_fact := mk_bf { bf_fn : string; bf_callee : string; bf_origin : sorigin; bf_held : heldset }.

Inductive srw := SR | SW | SWOnce | SPreR | SPreW | SModeR | SModeW.
(* SMode*: only executed when a key exists and encryption is off, where the crypto-for-secret
   toggle really flips the stream's single encryption flag (a per-stream mode switch that is
   not safe under full-duplex use, as in C++); a no-op toggle touches nothing *)
Record stream_acc := mk_sa { sa_method : string; sa_field : string; sa_rw : srw }.

(* ---- the guard map: which lock protects which field ---------------------- *)
Inductive guard :=
| GLock (l : string)                              (* every access holds l of the same object (W: exclusively) *)
| GImmutable                                      (* set at construction, never written afterwards *)
| GOwnerRead (l : string) (owners : list string). (* writes hold l; reads hold l, or are made by the single
                                                     goroutine that also performs every write *)

Definition guard_table : list (string * guard) := [
  ("SessionCache.sessions", GLock "SessionCache.mu");
  ("SessionCache.commandMap", GLock "SessionCache.mu");
  ("SessionEntry.expiration", GLock "SessionEntry.mu");
  ("SessionEntry.lastPeerVersion", GLock "SessionEntry.mu");
  ("SessionEntry.inherited", GLock "SessionEntry.mu");
  ("SessionEntry.id", GImmutable); ("SessionEntry.addr", GImmutable); ("SessionEntry.keyInfo", GImmutable);
  ("SessionEntry.policy", GImmutable); ("SessionEntry.lease", GImmutable); ("SessionEntry.tag", GImmutable);
  ("SessionEntry.createdAt", GImmutable);
  ("brokerReg.addr", GImmutable); ("brokerReg.cfg", GImmutable);
  ("brokerReg.stream", GOwnerRead "brokerReg.mu" ["ccb.brokerReg.serve"]);
  ("brokerReg.conn", GLock "brokerReg.mu"); ("brokerReg.contact", GLock "brokerReg.mu");
  ("brokerReg.cookie", GLock "brokerReg.mu"); ("brokerReg.brokerStreaming", GLock "brokerReg.mu");
  ("brokerReg.registered", GLock "brokerReg.mu")
].

Fixpoint guard_of (f : string) (t : list (string * guard)) : option guard :=
  match t with
  | [] => None
  | (k, g) :: r => if String.eqb k f then Some g else guard_of f r
  end.

Definition mode_ok (a : rw) (m : mode) : bool :=
  match a, m with AW, MR => false | _, _ => true end.

Definition holds (h : heldset) (l base : string) (a : rw) : bool :=
  existsb (fun p => let '(n, b, m) := p in String.eqb n l && String.eqb b base && mode_ok a m) h.

Definition access_ok (x : lock_fact) : bool :=
  match guard_of (lf_field x) guard_table with
  | None => false                                  (* an unclassified field: must be added to the guard map *)
  | Some GImmutable => match lf_rw x with AR => true | AW => false end
  | Some (GLock l) => holds (lf_held x) l (lf_base x) (lf_rw x)
  | Some (GOwnerRead l owners) =>
      holds (lf_held x) l (lf_base x) (lf_rw x) ||
      match lf_rw x with AR => existsb (String.eqb (lf_fn x)) owners | AW => false end
  end.

(* the claimed entry lockset of a helper is contained in the lockset of EVERY recorded call
   site (same lock, same object, at least the claimed mode); a non-empty claim needs a call site *)
Definition mode_covers (need have : mode) : bool :=
  match need, have with MW, MR => false | _, _ => true end.
Definition held_has (h : heldset) (l : string * string * mode) : bool :=
  let '(n, b, m) := l in
  existsb (fun p => let '(n', b', m') := p in String.eqb n' n && String.eqb b' b && mode_covers m m') h.
Definition helper_ok (h : helper_fact) : bool :=
  match hf_entry h with
  | [] => true
  | _ => match hf_sites h with [] => false | _ => true end &&
         forallb (fun site => forallb (held_has (snd site)) (hf_entry h)) (hf_sites h)
  end.

Definition unguarded (fs : list lock_fact) : list lock_fact := filter (fun x => negb (access_ok x)) fs.

(* a function that changes the cache does its read-decide-write in ONE critical
   section: it acquires the cache lock exactly once (so nothing can be stored,
   renewed or removed between the read that decides and the write that acts) *)
Definition cs_ok (c : cs_fact) : bool := negb (cs_writes c) || Nat.eqb (cs_regions c) 1.

(* a package-level variable is touched only through sync.Once, or through sync/atomic
   operations that are complete by themselves: an atomic Store is a blind overwrite
   (with a preceding Load: a check-then-act built from atomics) and is not accepted *)
Definition var_ok (v : var_fact) : bool :=
  match vf_kind v with VPlain | VAtomicStore => false | _ => true end.

(* a function that hands out values of a counter does so by atomic adds only
   (pure readers may Load); Load..Store sequences and anything unrecognised fail *)
Definition counter_prog_ok (c : counter_prog) : bool :=
  forallb is_add (cp_ops c) ||
  forallb (fun o => match o with CLoad => true | _ => false end) (cp_ops c).

Definition private (s : auth_site) : bool :=
  match as_kind s with CfgCopy | CfgFresh => true | CfgShared => false end.

Definition hook_private (h : hook_site) : bool :=
  match hs_kind h with HookCopy | HookNil => true | HookShared => false end.

(* a write to the published broker stream holds the write mutex; the only reader of it is serve *)
Definition broker_ok (b : broker_fact) : bool :=
  match bf_origin b with
  | SLocal => true
  | SField =>
      if String.eqb (bf_callee b) "WriteControlAd"
      then existsb (fun p => let '(n, _, _) := p in String.eqb n "brokerReg.writeMu") (bf_held b)
      else String.eqb (bf_fn b) "ccb.brokerReg.serve"
  end.

(* how SessionCache.Store guards the purge of the command mappings that point at the
   stored id: present at all / guarded by the PRESENCE of an old entry / guarded by the
   identity test against the stored entry *)
Record store_purge_fact := mk_sp { sp_present : bool; sp_presence_guard : bool; sp_identity_guard : bool }.
(* the modelled Store (cache_step false): purge whenever a DIFFERENT entry takes the id,
   whether or not the id was present *)
Definition store_purge_ok (f : store_purge_fact) : bool :=
  sp_present f && negb (sp_presence_guard f) && sp_identity_guard f.

(* a function that installs a cipher on a Stream, and whether it freezes the send / receive handshake digest *)
Record key_installer := mk_ki { ki_fn : string; ki_send : bool; ki_recv : bool }.
Definition installer_ok (k : key_installer) : bool := ki_send k && ki_recv k.

(* steady state = after both handshake digests are finalised (SetSymmetricKey /
   FinalizeDigests): SWOnce and SPre* accesses cannot happen any more *)
Definition steady_w (a : stream_acc) : bool := match sa_rw a with SW => true | _ => false end.
Definition steady_any (a : stream_acc) : bool := match sa_rw a with SW | SR => true | _ => false end.

Definition conflicts (xs ys : list stream_acc) : list string :=
  map sa_field (filter (fun a => steady_w a && existsb (fun b => steady_any b && String.eqb (sa_field a) (sa_field b)) ys) xs).

Definition stream_split_ok (send recv : list stream_acc) : bool :=
  match List.app (conflicts send recv) (conflicts recv send) with nil => true | _ => false end &&
  (* non-vacuity: both paths really write their own state *)
  existsb (fun a => steady_w a && String.eqb (sa_field a) "encryptCounter") send &&
  existsb (fun a => steady_w a && String.eqb (sa_field a) "decryptCounter") recv.

(* ---- from facts to threads of the lockset model ---------------------------- *)
Fixpoint index_of (s : string) (l : list string) : nat :=
  match l with
  | [] => 0
  | x :: r => if String.eqb x s then 0 else S (index_of s r)
  end.

Definition lock_names : list string := ["SessionCache.mu"; "SessionEntry.mu"; "brokerReg.mu"].
Definition field_names : list string := map fst guard_table.

Definition lock_of_field (f : string) : string :=
  match guard_of f guard_table with
  | Some (GLock l) => l
  | Some (GOwnerRead l _) => l
  | _ => ""
  end.

(* location id -> lock id *)
Definition g_of (x : nat) : nat := index_of (lock_of_field (nth x field_names "")) lock_names.

Definition held_mode (h : heldset) (l base : string) : mode :=
  if existsb (fun p => let '(n, b, m) := p in String.eqb n l && String.eqb b base && match m with MW => true | MR => false end) h
  then MW else MR.

(* the events of one lock-guarded access: acquire its guard in the mode recorded, access, release *)
Definition fact_events (x : lock_fact) : thread :=
  match guard_of (lf_field x) guard_table with
  | Some (GLock l) =>
      let lid := index_of l lock_names in
      let xid := index_of (lf_field x) field_names in
      [Acq lid (held_mode (lf_held x) l (lf_base x));
       match lf_rw x with AR => Rd xid | AW => Wr xid end;
       Rel lid]
  | _ => []
  end.
