(* Model/Sinful.v — addresses/sinful.go: ParseSinful and its helpers
   (splitHostPort, parseSinfulParams, urlDecode = url.PathUnescape,
   SplitCCBContact), over byte strings.

   The code is modelled as it is: it never validates host or port, it splits
   host:port on the LAST colon, the only error is a malformed %XX escape in the
   query, and on that error the primary address fields are still returned.
   Go slice expressions are go_slice (None = run-time panic); the model's
   result is None iff some slice expression would panic.

   strings.TrimSpace / strings.Fields are Unicode aware.  On arbitrary bytes
   they are modelled exactly: a "space rune" at a position is one ASCII space
   byte or one of the UTF-8 encodings of U+0085, U+00A0, U+1680,
   U+2000..U+200A, U+2028, U+2029, U+202F, U+205F, U+3000.  These encodings
   begin with a non-continuation byte, so Go's rune-by-rune scan (invalid bytes
   advance by one) reaches them at a rune boundary exactly when a byte-by-byte
   scan finds them; for the same reason DecodeLastRuneInString sees them as a
   suffix exactly when the byte pattern is a suffix. *)
From Coq Require Import List NArith ZArith Lia Bool.
From Cedar Require Import Lib.Bytes Model.Decode.
Import ListNotations.
Local Open Scope N_scope.

(* ---------- Unicode white space on raw bytes ---------------------------------- *)
Definition in_range (b : byte) (lo hi : N) : bool := (lo <=? b2n b) && (b2n b <=? hi).

Definition uspace2 (a b : byte) : bool := byte_eqb a xc2 && (byte_eqb b x85 || byte_eqb b xa0).
Definition uspace3 (a b c : byte) : bool :=
  (byte_eqb a xe1 && byte_eqb b x9a && byte_eqb c x80)
  || (byte_eqb a xe2 && byte_eqb b x80
      && (in_range c 128 138 || byte_eqb c xa8 || byte_eqb c xa9 || byte_eqb c xaf))
  || (byte_eqb a xe2 && byte_eqb b x81 && byte_eqb c x9f)
  || (byte_eqb a xe3 && byte_eqb b x80 && byte_eqb c x80).

(* length in bytes of the space rune at the head of s (0 = none) *)
Definition uspace_len (s : bytes) : nat :=
  match s with
  | a :: r =>
      if is_space a then 1%nat else
      match r with
      | b :: r2 =>
          if uspace2 a b then 2%nat else
          match r2 with
          | c :: _ => if uspace3 a b c then 3%nat else 0%nat
          | [] => 0%nat
          end
      | [] => 0%nat
      end
  | [] => 0%nat
  end.

(* the same, looking at the END of a string given in reverse *)
Definition uspace_len_rev (t : bytes) : nat :=
  match t with
  | c :: r =>
      if is_space c then 1%nat else
      match r with
      | b :: r2 =>
          if uspace2 b c then 2%nat else
          match r2 with
          | a :: _ => if uspace3 a b c then 3%nat else 0%nat
          | [] => 0%nat
          end
      | [] => 0%nat
      end
  | [] => 0%nat
  end.

Fixpoint utrim_left_f (fuel : nat) (s : bytes) : bytes :=
  match fuel with
  | O => s
  | S f => match uspace_len s with
           | O => s
           | k => utrim_left_f f (skipn k s)
           end
  end.
Fixpoint utrim_rev_f (fuel : nat) (t : bytes) : bytes :=
  match fuel with
  | O => t
  | S f => match uspace_len_rev t with
           | O => t
           | k => utrim_rev_f f (skipn k t)
           end
  end.
(* strings.TrimSpace *)
Definition utrim_space (s : bytes) : bytes :=
  let l := utrim_left_f (length s) s in
  rev' (utrim_rev_f (length l) (rev' l)).

(* strings.Fields *)
Fixpoint ufields_f (fuel : nat) (s cur : bytes) : list bytes :=
  match fuel with
  | O => match cur with [] => [] | _ => [rev' cur] end
  | S f =>
      match s with
      | [] => match cur with [] => [] | _ => [rev' cur] end
      | x :: r =>
          match uspace_len s with
          | O => ufields_f f r (x :: cur)
          | k => match cur with
                 | [] => ufields_f f (skipn k s) []
                 | _ => rev' cur :: ufields_f f (skipn k s) []
                 end
          end
      end
  end.
Definition ufields (s : bytes) : list bytes := ufields_f (S (length s)) s [].

(* ---------- url.PathUnescape ----------------------------------------------------- *)
Definition hexdigit (b : byte) : option N :=
  let n := b2n b in
  if (48 <=? n) && (n <=? 57) then Some (n - 48)
  else if (97 <=? n) && (n <=? 102) then Some (n - 87)
  else if (65 <=? n) && (n <=? 70) then Some (n - 55)
  else None.
(* None = url.EscapeError *)
Fixpoint unescape (s : bytes) : option bytes :=
  match s with
  | [] => Some []
  | b :: r =>
      if byte_eqb b x25 then
        match r with
        | h1 :: h2 :: r' =>
            match hexdigit h1, hexdigit h2 with
            | Some a, Some c => option_map (cons (n2b (a * 16 + c))) (unescape r')
            | _, _ => None
            end
        | _ => None
        end
      else option_map (cons b) (unescape r)
  end.

(* ---------- parseSinfulParams ------------------------------------------------------ *)
(* strings.FieldsFunc(s, r == '&' || r == ';'): empty fields are dropped *)
Definition is_param_sep (b : byte) : bool := byte_eqb b x26 || byte_eqb b x3b.
Fixpoint fields_by (sep : byte -> bool) (s cur : bytes) : list bytes :=
  match s with
  | [] => match cur with [] => [] | _ => [rev' cur] end
  | x :: r =>
      if sep x then
        match cur with
        | [] => fields_by sep r []
        | _ => rev' cur :: fields_by sep r []
        end
      else fields_by sep r (x :: cur)
  end.

(* one "key=value" pair: None = slice panic, Some None = bad escape *)
Definition parse_pair (pair : bytes) : option (option (bytes * bytes)) :=
  let i := index_byte x3d pair in
  obind (if (i <? 0)%Z then Some (pair, [])
         else obind (go_slice pair 0 i) (fun k =>
              obind (go_slice pair (i + 1) (Z.of_N (lenN pair))) (fun v => Some (k, v))))
        (fun kv =>
  match unescape (fst kv) with
  | None => Some None
  | Some dk => match unescape (snd kv) with
               | None => Some None
               | Some dv => Some (Some (dk, dv))
               end
  end).
Fixpoint parse_pairs (ps : list bytes) : option (option (list (bytes * bytes))) :=
  match ps with
  | [] => Some (Some [])
  | p :: rest =>
      obind (parse_pair p) (fun o =>
      match o with
      | None => Some None                       (* the first bad pair ends the parse *)
      | Some kv =>
          obind (parse_pairs rest) (fun tl =>
          Some (match tl with Some l => Some (kv :: l) | None => None end))
      end)
  end.
Definition parse_sinful_params (q : bytes) : option (option (list (bytes * bytes))) :=
  parse_pairs (fields_by is_param_sep q []).

(* map lookup on the ordered pair list: the last value written wins *)
Fixpoint plookup (k : bytes) (kvs : list (bytes * bytes)) (best : option bytes) : option bytes :=
  match kvs with
  | [] => best
  | (k', v) :: r => plookup k r (if bytes_eqb k k' then Some v else best)
  end.
Definition param (k : bytes) (kvs : list (bytes * bytes)) : bytes :=
  match plookup k kvs None with Some v => v | None => [] end.

(* ---------- SplitCCBContact --------------------------------------------------------- *)
Definition last_byte_is (s : bytes) (b : byte) : bool :=
  match rev' s with x :: _ => byte_eqb x b | [] => false end.
(* Some None = not a contact (ok = false) *)
Definition split_ccb_contact (contact : bytes) : option (option (bytes * bytes)) :=
  let s := utrim_space contact in
  let i := last_index_byte x23 s in
  if (i <? 0)%Z then Some None else
  obind (go_slice s 0 i) (fun b0 =>
  obind (go_slice s (i + 1) (Z.of_N (lenN s))) (fun id0 =>
  let broker := utrim_space b0 in
  let id := utrim_space id0 in
  obind (if (2 <=? lenN broker) && (match broker with x :: _ => byte_eqb x x3c | [] => false end)
            && last_byte_is broker x3e
         then go_slice broker 1 (Z.of_N (lenN broker) - 1) else Some broker) (fun broker' =>
  match broker', id with
  | [], _ | _, [] => Some None
  | _, _ => Some (Some (broker', id))
  end))).

Fixpoint ccb_contacts (cs : list bytes) : option (list (bytes * bytes * bytes)) :=
  match cs with
  | [] => Some []
  | c :: rest =>
      obind (split_ccb_contact c) (fun o =>
      obind (ccb_contacts rest) (fun tl =>
      Some (match o with Some (b, i) => (b, i, c) :: tl | None => tl end)))
  end.

(* ---------- ParseSinful ----------------------------------------------------------------- *)
Record sinful := {
  sf_err : bool;                       (* error returned (bad url-encoding) *)
  sf_primary : bytes; sf_host : bytes; sf_port : bytes;
  sf_sock : bytes; sf_priv_addr : bytes; sf_priv_net : bytes; sf_alias : bytes;
  sf_noudp : bool;
  sf_addrs : list bytes;
  sf_ccb : list (bytes * bytes * bytes);   (* broker, id, raw contact *)
  sf_params : list (bytes * bytes)         (* in wire order; a Go map: last value wins *)
}.

Definition k_sock : bytes := [x73; x6f; x63; x6b].
Definition k_priv_addr : bytes := [x50; x72; x69; x76; x41; x64; x64; x72].
Definition k_priv_net : bytes := [x50; x72; x69; x76; x4e; x65; x74].
Definition k_alias : bytes := [x61; x6c; x69; x61; x73].
Definition k_noudp : bytes := [x6e; x6f; x55; x44; x50].
Definition k_addrs : bytes := [x61; x64; x64; x72; x73].
Definition k_ccbid : bytes := [x63; x63; x62; x69; x64].

(* splitHostPort: (host, port), both empty when there is no colon *)
Definition split_host_port (addr : bytes) : option (bytes * bytes) :=
  let i := last_index_byte x3a addr in
  if (i <? 0)%Z then Some ([], []) else
  obind (go_slice addr 0 i) (fun h =>
  obind (go_slice addr (i + 1) (Z.of_N (lenN addr))) (fun p => Some (h, p))).

Definition parse_sinful (addr : bytes) : option sinful :=
  let s := trim_suffix_b x3e (trim_prefix_b x3c (utrim_space addr)) in
  let i := index_byte x3f s in
  obind (if (i <? 0)%Z then Some (s, [])
         else obind (go_slice s 0 i) (fun p =>
              obind (go_slice s (i + 1) (Z.of_N (lenN s))) (fun q => Some (p, q)))) (fun pq =>
  let '(primary, query) := pq in
  obind (split_host_port primary) (fun hp =>
  let '(host, port) := hp in
  let base := {| sf_err := false; sf_primary := primary; sf_host := host; sf_port := port;
                 sf_sock := []; sf_priv_addr := []; sf_priv_net := []; sf_alias := [];
                 sf_noudp := false; sf_addrs := []; sf_ccb := []; sf_params := [] |} in
  match query with
  | [] => Some base
  | _ =>
      obind (parse_sinful_params query) (fun o =>
      match o with
      | None => Some {| sf_err := true; sf_primary := primary; sf_host := host; sf_port := port;
                        sf_sock := []; sf_priv_addr := []; sf_priv_net := []; sf_alias := [];
                        sf_noudp := false; sf_addrs := []; sf_ccb := []; sf_params := [] |}
      | Some params =>
          let addrs := param k_addrs params in
          obind (ccb_contacts (ufields (param k_ccbid params))) (fun ccb =>
          Some {| sf_err := false; sf_primary := primary; sf_host := host; sf_port := port;
                  sf_sock := param k_sock params; sf_priv_addr := param k_priv_addr params;
                  sf_priv_net := param k_priv_net params; sf_alias := param k_alias params;
                  sf_noudp := match plookup k_noudp params None with Some _ => true | None => false end;
                  sf_addrs := match addrs with [] => [] | _ => split_on x2b addrs [] end;
                  sf_ccb := ccb; sf_params := params |})
      end)
  end)).
