(* Model/Negotiate.v — executable model of the policy negotiation of
   /repo/security/auth.go:

     negotiateSecurity            ~ negotiate (neg_meth, neg_ciph, should)
     authMethodToBitmask          ~ bit
     bitmaskToAuthMethod          ~ of_bit
     createClientAuthBitmask      ~ mask
     handleServerAuthentication   ~ srv_select (one round), auth_loop (composed)
     handleClientAuthentication   ~ cl_methods, auth_loop (composed)
     createServerSecurityAd/parseServerSecurityAd (what the client sees)  ~ seen_meths
     ClientHandshake x ServerHandshake between two honest endpoints        ~ honest

   Levels are the strings of SecurityLevel: the four names, and [Ot] for any
   other string (the client feeds the server's "YES"/"NO" answer into the same
   function).  Definitions only; proofs are in Proofs/C10*.v. *)
From Coq Require Import List NArith ZArith Bool.
Import ListNotations.
Local Open Scope Z_scope.

Inductive lvl := Rq | Pf | Op | Nv | Ot.
Inductive meth := mFS | mIDT | mTOK | mSCI | mSSL | mKRB | mCTB | mPW | mNONE | mX (n : N).
Inductive ciph := cAES | cBF | c3DES | cX (n : N).

Definition is_rq (l : lvl) := match l with Rq => true | _ => false end.
Definition is_pf (l : lvl) := match l with Pf => true | _ => false end.
Definition is_op (l : lvl) := match l with Op => true | _ => false end.
Definition is_nv (l : lvl) := match l with Nv => true | _ => false end.

Definition meth_eqb (a b : meth) : bool :=
  match a, b with
  | mFS, mFS | mIDT, mIDT | mTOK, mTOK | mSCI, mSCI | mSSL, mSSL | mKRB, mKRB
  | mCTB, mCTB | mPW, mPW | mNONE, mNONE => true
  | mX x, mX y => N.eqb x y
  | _, _ => false
  end.
Definition ciph_eqb (a b : ciph) : bool :=
  match a, b with
  | cAES, cAES | cBF, cBF | c3DES, c3DES => true
  | cX x, cX y => N.eqb x y
  | _, _ => false
  end.

Definition mem (m : meth) (l : list meth) : bool := existsb (meth_eqb m) l.
Definition cmem (c : ciph) (l : list ciph) : bool := existsb (ciph_eqb c) l.

(* AuthMethod.Implemented *)
Definition implemented (m : meth) : bool :=
  match m with mPW | mX _ => false | _ => true end.

(* first server method that is implemented and also listed by the client; NONE
   is the "nothing found" value and is never a result by itself *)
Fixpoint neg_meth (sm cm : list meth) : meth :=
  match sm with
  | [] => mNONE
  | s :: r => if implemented s && mem s cm && negb (meth_eqb s mNONE) then s else neg_meth r cm
  end.

(* first server cipher that is AES and also listed by the client *)
Fixpoint neg_ciph (sc cc : list ciph) : option ciph :=
  match sc with
  | [] => None
  | s :: r => if ciph_eqb s cAES && cmem s cc then Some s else neg_ciph r cc
  end.

(* the switch deciding shouldAuthenticate / shouldEncrypt *)
Definition should (s c : lvl) (have : bool) : bool :=
  if is_rq s || is_rq c then true
  else if is_nv s || is_nv c then false
  else if is_pf s || is_pf c then have
  else false.

Inductive nerr := EAuthReqNever | EAuthNeverReq | EEncReqNever | EEncNeverReq | ENoCipher | ENoMethod.

Record nres := mkN {
  n_err : option nerr;
  n_auth : bool;      (* negotiation.Authentication *)
  n_enc : bool;       (* negotiation.Encryption *)
  n_enact : bool;
  n_meth : meth;      (* NegotiatedAuth *)
  n_ciph : option ciph (* NegotiatedCrypto, None = "" *)
}.

Definition has_meth (m : meth) : bool := negb (meth_eqb m mNONE).
Definition has_ciph (k : option ciph) : bool := match k with Some _ => true | None => false end.

(* the case analysis of negotiateSecurity over the two sides' levels, given
   whether a common method / cipher was found: (error, Authentication,
   Encryption, Enact) exactly as left on the SecurityNegotiation *)
Definition decide (sA cA sE cE : lvl) (hm hk : bool) : option nerr * (bool * bool * bool) :=
  if is_rq sA && is_nv cA then (Some EAuthReqNever, (true, false, false))
  else if is_nv sA && is_rq cA then (Some EAuthNeverReq, (false, false, false))
  else
    let sa := should sA cA hm in
    if is_rq sE && is_nv cE then (Some EEncReqNever, (false, true, false))
    else if is_nv sE && is_rq cE then (Some EEncNeverReq, (false, false, false))
    else
      let se := should sE cE hk in
      if se && negb hk then (Some ENoCipher, (sa, se, sa || se))
      else if sa && negb hm then (Some ENoMethod, (sa, se, sa || se))
      else (None, (sa, se, sa || se)).

Definition negotiate (sA cA sE cE : lvl) (sm cm : list meth) (sc cc : list ciph) : nres :=
  let m := neg_meth sm cm in
  let k := neg_ciph sc cc in
  match decide sA cA sE cE (has_meth m) (has_ciph k) with
  | (e, (a, en, ea)) => mkN e a en ea m k
  end.

(* ---- method bitmasks ---------------------------------------------------- *)

Definition bit (m : meth) : Z :=
  match m with
  | mNONE => 0 | mCTB => 2 | mFS => 4 | mKRB => 64 | mSSL => 256 | mPW => 512
  | mTOK => 2048 | mIDT => 2048 | mSCI => 4096 | mX _ => 0
  end.

(* None is the empty string result *)
Definition of_bit (b : Z) : option meth :=
  match b with
  | 0 => Some mNONE | 2 => Some mCTB | 4 => Some mFS | 64 => Some mKRB | 256 => Some mSSL
  | 512 => Some mPW | 2048 => Some mTOK | 4096 => Some mSCI | _ => None
  end.

Definition mask (ms : list meth) : Z := fold_left (fun a m => Z.lor a (bit m)) ms 0.

(* server: first own method whose bit is in the client's bitmask *)
Fixpoint srv_select (sm : list meth) (cb : Z) : option meth :=
  match sm with
  | [] => None
  | m :: r => if Z.land cb (bit m) =? 0 then srv_select r cb else Some m
  end.

(* client: own methods that the server also lists (token pre-filter not modelled) *)
Definition cl_methods (cm sm : list meth) : list meth := filter (fun m => mem m sm) cm.

(* the server's method list as the client parses it from the response ad:
   AuthMethodsList, or when that is empty the single negotiated AuthMethods *)
Definition seen_meths (sm : list meth) (negotiated : meth) : list meth :=
  match sm with [] => [negotiated] | _ => sm end.

(* ---- the two retry loops composed (honest client against honest server) -- *)

Inductive lres :=
| LOk (m : meth)      (* an exchange ran to success on both sides *)
| LExhausted          (* no method left: client error, server error *)
| LRejected           (* client refuses the server's selection (not offered) *)
| LFuel.              (* never reached; see Proofs *)

Definition cons_round (r : Z * Z) (x : list (Z * Z) * lres) : list (Z * Z) * lres :=
  (r :: fst x, snd x).

(* Two names can share one bit (TOKEN and IDTOKENS, HTCondor's CAUTH_TOKEN): the
   client resolves the bit the server answers to the method it offered under it. *)
Definition offered_under (cms : list meth) (r : Z) : option meth := find (fun m => bit m =? r) cms.

(* [aok m]: the sub-protocol of method m succeeds between these two peers.
   A round is (bitmask sent by the client, bit answered by the server); the
   client's final "giving up" zero is recorded as (0, -1). *)
Fixpoint auth_loop (fuel : nat) (aok : meth -> bool) (sm cms : list meth) (avail : Z)
  : list (Z * Z) * lres :=
  match fuel with
  | O => ([], LFuel)
  | S f =>
      if avail =? 0 then ([(0, -1)], LExhausted)
      else match srv_select sm avail with
           | None => ([(avail, 0)], LExhausted)
           | Some ms =>
               let r := bit ms in
               match of_bit r with
               | None => cons_round (avail, r) (auth_loop f aok sm cms (Z.land avail (Z.lnot r)))
               | Some _ =>
                   match offered_under cms r with
                   | None => ([(avail, r)], LRejected)
                   | Some mc =>
                       if aok ms && aok mc then ([(avail, r)], LOk ms)
                       else cons_round (avail, r) (auth_loop f aok sm cms (Z.land avail (Z.lnot (bit mc))))
                   end
               end
           end
  end.

(* ---- honest client x honest server --------------------------------------- *)

Record policy := mkP {
  p_auth : lvl; p_enc : lvl; p_integ : lvl;
  p_meths : list meth; p_ciphs : list ciph;
  p_pub : N            (* the ECDH public key this endpoint advertises *)
}.

(* symbolic session key: what each side derives from its own key pair and the
   public key it received *)
Inductive skey := KDH (client_pub server_pub : N).

Record hok := mkOk {
  k_rounds : list (Z * Z);
  k_ran : option meth;                      (* ghost: exchange that ran to success *)
  k_cauth : bool; k_sauth : bool;           (* reported Authentication *)
  k_cenc : bool; k_senc : bool;             (* reported Encryption *)
  k_cmeth : meth; k_smeth : meth;           (* reported NegotiatedAuth *)
  k_creal : bool; k_sreal : bool;           (* ghost: streams really encrypting *)
  k_ckey : option skey; k_skey : option skey;
  k_csid : N; k_ssid : N
}.

Inductive hout :=
| HDenied                                        (* server sent ReturnCode=DENIED; both ends fail *)
| HFail (cerr serr : bool) (rounds : list (Z * Z))  (* failure without a denial *)
| HOk (r : hok).

Definition requires_protection (p : policy) : bool := is_rq (p_enc p) || is_rq (p_integ p).

(* Control flow of the two handshakes run against each other, as a function of
   finite data: the levels, whether each side must end up protected
   ([c_prot]/[s_prot]: own Encryption or Integrity REQUIRED), whether the
   server / the client found a common method and cipher ([hm hk] / [hm' hk']),
   whether the client's intersection with the server's list is empty, and
   whether the retry loop ended with a successful exchange ([lo]). *)
Inductive aout :=
| ADenied
| AFail (cerr serr : bool)
| AOk (cauth sauth cenc senc : bool).

Definition flow (cA sA cE sE : lvl) (c_prot s_prot : bool) (hm hk hm' hk' cms_nil lo : bool) : aout :=
  match decide sA cA sE cE hm hk with
  | (Some _, _) => ADenied          (* sendNegotiationFailureResponse; client sees ReturnCode=DENIED *)
  | (None, (sa, _, _)) =>
      (* both ends install a key iff both advertised one (always, for honest
         endpoints) and the cipher they negotiated is AES; otherwise
         plaintextOutcome fails the side whose policy requires protection *)
      let s_enc_fails := negb hk && s_prot in
      let c_enc_fails := negb hk' && c_prot in
      (* the client re-runs negotiateSecurity on the server's YES/NO answer *)
      match decide Ot cA Ot cE hm' hk' with
      | (Some _, _) => AFail true (sa || s_enc_fails)
      | (None, _) =>
          let finish (ran : bool) :=
            if s_enc_fails then AFail true true        (* no post-auth ad is sent *)
            else if c_enc_fails then AFail true false
            else if negb (Bool.eqb hk hk') then AFail true false (* post-auth ad unreadable *)
            else AOk ran sa hk' hk in
          if sa then
            (* server answered YES *)
            if cms_nil then AFail true true
            else if lo then finish true else AFail true true
          else
            (* server answered NO: the client refuses if its own policy requires authentication *)
            if is_rq cA then AFail true s_enc_fails else finish false
      end
  end.

(* did the run reach the bitmask loop *)
Definition consulted (cA sA cE sE : lvl) (hm hk hm' hk' cms_nil : bool) : bool :=
  match decide sA cA sE cE hm hk with
  | (None, (true, _, _)) =>
      match decide Ot cA Ot cE hm' hk' with (None, _) => negb cms_nil | _ => false end
  | _ => false
  end.

Definition honest (aok : meth -> bool) (Cl Sv : policy) (sid : N) : hout :=
  let m := neg_meth (p_meths Sv) (p_meths Cl) in
  let k := neg_ciph (p_ciphs Sv) (p_ciphs Cl) in
  let sm' := seen_meths (p_meths Sv) m in
  let m' := neg_meth sm' (p_meths Cl) in
  let k' := neg_ciph (p_ciphs Sv) (p_ciphs Cl) in
  let cms := cl_methods (p_meths Cl) sm' in
  let cms_nil := match cms with [] => true | _ => false end in
  let lp := auth_loop (S (length cms)) aok (p_meths Sv) cms (mask cms) in
  let used := consulted (p_auth Cl) (p_auth Sv) (p_enc Cl) (p_enc Sv)
                (has_meth m) (has_ciph k) (has_meth m') (has_ciph k') cms_nil in
  let rounds := if used then fst lp else [] in
  let ran := if used then match snd lp with LOk x => Some x | _ => None end else None in
  match flow (p_auth Cl) (p_auth Sv) (p_enc Cl) (p_enc Sv)
             (requires_protection Cl) (requires_protection Sv)
             (has_meth m) (has_ciph k) (has_meth m') (has_ciph k') cms_nil
             (match snd lp with LOk _ => true | _ => false end) with
  | ADenied => HDenied
  | AFail ce se => HFail ce se rounds
  | AOk ca sa ce se =>
      HOk (mkOk rounds ran ca sa ce se
             (match ran with
              | Some x => match offered_under cms (bit x) with Some mc => mc | None => x end
              | None => m' end)
             (match ran with Some x => x | None => m end)
             ce se
             (if ce then Some (KDH (p_pub Cl) (p_pub Sv)) else None)
             (if se then Some (KDH (p_pub Cl) (p_pub Sv)) else None)
             sid sid)
  end.

(* ==========================================================================
   Second part (C10 extension): Integrity and the client's token pre-filter.
   Everything above is unchanged (Model/Handshake.v builds on it); the
   definitions below ADD the two things the first part leaves out.

     negotiateSecurity incl. the Integrity reconciliation   ~ decide_i, negotiate_i
     hasCompatibleToken (one boolean per client/server pair) ~ [tok]
     the intersection loop of handleClientAuthentication     ~ cl_methods_t
     ClientHandshake x ServerHandshake                       ~ flow_i, honest_i
   ========================================================================== *)

Inductive nerr_i := EBase (e : nerr) | EIntReqNever | EIntNeverReq | ENoCipherInteg.

(* negotiateSecurity with the Integrity levels: REQUIRED against NEVER is an
   incompatibility (checked after the two Encryption incompatibilities, before
   shouldEncrypt is stored: Authentication/Encryption/Enact are still false),
   REQUIRED integrity without a negotiated cipher is an error (checked after the
   "encryption required but no cipher" return, before the "no method" return). *)
Definition decide_i (sA cA sE cE sI cI : lvl) (hm hk : bool) : option nerr_i * (bool * bool * bool) :=
  if is_rq sA && is_nv cA then (Some (EBase EAuthReqNever), (true, false, false))
  else if is_nv sA && is_rq cA then (Some (EBase EAuthNeverReq), (false, false, false))
  else
    let sa := should sA cA hm in
    if is_rq sE && is_nv cE then (Some (EBase EEncReqNever), (false, true, false))
    else if is_nv sE && is_rq cE then (Some (EBase EEncNeverReq), (false, false, false))
    else if is_rq sI && is_nv cI then (Some EIntReqNever, (false, false, false))
    else if is_nv sI && is_rq cI then (Some EIntNeverReq, (false, false, false))
    else
      let se := should sE cE hk in
      if se && negb hk then (Some (EBase ENoCipher), (sa, se, sa || se))
      else if (is_rq sI || is_rq cI) && negb hk then (Some ENoCipherInteg, (sa, se, sa || se))
      else if sa && negb hm then (Some (EBase ENoMethod), (sa, se, sa || se))
      else (None, (sa, se, sa || se)).

Record nres_i := mkNi {
  ni_err : option nerr_i; ni_auth : bool; ni_enc : bool; ni_enact : bool;
  ni_meth : meth; ni_ciph : option ciph
}.

Definition negotiate_i (sA cA sE cE sI cI : lvl) (sm cm : list meth) (sc cc : list ciph) : nres_i :=
  let m := neg_meth sm cm in
  let k := neg_ciph sc cc in
  match decide_i sA cA sE cE sI cI (has_meth m) (has_ciph k) with
  | (e, (a, en, ea)) => mkNi e a en ea m k
  end.

(* isTokenMethod *)
Definition is_token (m : meth) : bool := match m with mTOK | mIDT | mSCI => true | _ => false end.

(* handleClientAuthentication's intersection: own methods the server also lists;
   a token method only when hasCompatibleToken says so.  [tok] is that one
   boolean: it does not depend on which token method is asked about (the probe
   looks at the client's Token / TokenFile / TokenDir against the TrustDomain /
   IssuerKeys of the server's response ad). *)
Definition cl_methods_t (tok : bool) (cm sm : list meth) : list meth :=
  filter (fun m => mem m sm && (negb (is_token m) || tok)) cm.

Definition flow_i (cA sA cE sE cI sI : lvl) (hm hk hm' hk' cms_nil lo : bool) : aout :=
  match decide_i sA cA sE cE sI cI hm hk with
  | (Some _, _) => ADenied
  | (None, (sa, _, _)) =>
      let s_enc_fails := negb hk && (is_rq sE || is_rq sI) in
      let c_enc_fails := negb hk' && (is_rq cE || is_rq cI) in
      (* the server's response ad says Authentication/Encryption YES|NO and Integrity "NO" *)
      match decide_i Ot cA Ot cE Ot cI hm' hk' with
      | (Some _, _) => AFail true (sa || s_enc_fails)
      | (None, _) =>
          let finish (ran : bool) :=
            if s_enc_fails then AFail true true
            else if c_enc_fails then AFail true false
            else if negb (Bool.eqb hk hk') then AFail true false
            else AOk ran sa hk' hk in
          if sa then
            if cms_nil then AFail true true
            else if lo then finish true else AFail true true
          else
            if is_rq cA then AFail true s_enc_fails else finish false
      end
  end.

Definition consulted_i (cA sA cE sE cI sI : lvl) (hm hk hm' hk' cms_nil : bool) : bool :=
  match decide_i sA cA sE cE sI cI hm hk with
  | (None, (true, _, _)) =>
      match decide_i Ot cA Ot cE Ot cI hm' hk' with (None, _) => negb cms_nil | _ => false end
  | _ => false
  end.

(* [tok]: the client holds a token usable against this server *)
Definition honest_i (aok : meth -> bool) (tok : bool) (Cl Sv : policy) (sid : N) : hout :=
  let m := neg_meth (p_meths Sv) (p_meths Cl) in
  let k := neg_ciph (p_ciphs Sv) (p_ciphs Cl) in
  let sm' := seen_meths (p_meths Sv) m in
  let m' := neg_meth sm' (p_meths Cl) in
  let k' := neg_ciph (p_ciphs Sv) (p_ciphs Cl) in
  let cms := cl_methods_t tok (p_meths Cl) sm' in
  let cms_nil := match cms with [] => true | _ => false end in
  let lp := auth_loop (S (length cms)) aok (p_meths Sv) cms (mask cms) in
  let used := consulted_i (p_auth Cl) (p_auth Sv) (p_enc Cl) (p_enc Sv) (p_integ Cl) (p_integ Sv)
                (has_meth m) (has_ciph k) (has_meth m') (has_ciph k') cms_nil in
  let rounds := if used then fst lp else [] in
  let ran := if used then match snd lp with LOk x => Some x | _ => None end else None in
  match flow_i (p_auth Cl) (p_auth Sv) (p_enc Cl) (p_enc Sv) (p_integ Cl) (p_integ Sv)
               (has_meth m) (has_ciph k) (has_meth m') (has_ciph k') cms_nil
               (match snd lp with LOk _ => true | _ => false end) with
  | ADenied => HDenied
  | AFail ce se => HFail ce se rounds
  | AOk ca sa ce se =>
      HOk (mkOk rounds ran ca sa ce se
             (match ran with
              | Some x => match offered_under cms (bit x) with Some mc => mc | None => x end
              | None => m' end)
             (match ran with Some x => x | None => m end)
             ce se
             (if ce then Some (KDH (p_pub Cl) (p_pub Sv)) else None)
             (if se then Some (KDH (p_pub Cl) (p_pub Sv)) else None)
             sid sid)
  end.
