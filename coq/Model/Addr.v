(* Model/Addr.v — the remaining address / CCB text decoders a peer- or broker-supplied
   string reaches:

     addresses/addresses.go  ParseHTCondorAddress, IsValidSharedPortID
     addresses/sinful.go     BrokerIsCCB
     ccb/listener.go         SplitBrokerList
     ccb/nested.go           splitFlatEntryAndRoute
     ccb/ccb.go              ContactString  (the renderer SplitCCBContact inverts)

   Modelled as the code is.  ParseHTCondorAddress returns no error at all: an address
   without "?" is its own server address, the FIRST "sock=" parameter wins even when it
   is empty, and "sock=?x" yields IsSharedPort = true with an EMPTY id (the id is cut at
   the first '?' after the emptiness test) -- see addr_empty_id_example.
   Go slice expressions are go_slice: the model's result is None iff one would panic.

   Byte-level exactness of the rune-level Go calls used here:
   * strings.Trim(s, "<>"), strings.FieldsFunc with ASCII separators, strings.Split,
     strings.Index, strings.HasPrefix and strings.ContainsRune('#') with ASCII
     arguments act on bytes: an ASCII byte is never part of a multi-byte rune, and an
     invalid byte decodes to U+FFFD, which is none of the separators.
   * IsValidSharedPortID ranges over runes; every accepted rune is ASCII, every byte
     >= 0x80 belongs to a rune >= 0x80 or decodes to U+FFFD, both refused: the function
     is "non-empty and every BYTE is in [A-Za-z0-9._-]". *)
From Coq Require Import List NArith ZArith Lia Bool.
From Cedar Require Import Lib.Bytes Model.Decode Model.Sinful.
Import ListNotations.
Local Open Scope N_scope.

(* ---------- small string helpers -------------------------------------------------- *)
Fixpoint has_prefix (p s : bytes) : bool :=
  match p, s with
  | [], _ => true
  | a :: p', b :: s' => byte_eqb a b && has_prefix p' s'
  | _ :: _, [] => false
  end.

Fixpoint trim_left_by (f : byte -> bool) (s : bytes) : bytes :=
  match s with b :: r => if f b then trim_left_by f r else s | [] => [] end.
(* strings.Trim(s, cutset) for an ASCII cutset *)
Definition trim_by (f : byte -> bool) (s : bytes) : bytes :=
  rev' (trim_left_by f (rev' (trim_left_by f s))).

Definition is_angle (b : byte) : bool := byte_eqb b x3c || byte_eqb b x3e.
Definition is_nil (s : bytes) : bool := match s with [] => true | _ => false end.

(* s[:Index(s, b)] when b occurs, else s *)
Definition cut_at (b : byte) (s : bytes) : option bytes :=
  let i := index_byte b s in
  if (i <? 0)%Z then Some s else go_slice s 0 i.

(* ---------- ParseHTCondorAddress ---------------------------------------------------- *)
Record sp_info := { sp_server : bytes; sp_id : bytes; sp_is : bool }.

Definition k_sock_eq : bytes := [x73; x6f; x63; x6b; x3d].     (* "sock=" *)

(* the loop over the '&'-separated parameters: the first one that starts with "sock="
   supplies param[5:] and ends the loop *)
Fixpoint first_sock (ps : list bytes) : option bytes :=
  match ps with
  | [] => Some []
  | p :: r => if has_prefix k_sock_eq p then go_slice p 5 (Z.of_N (lenN p)) else first_sock r
  end.

Definition parse_htcondor_address (address : bytes) : option sp_info :=
  let s := trim_by is_angle address in
  let q := index_byte x3f s in
  if (q <? 0)%Z then Some {| sp_server := s; sp_id := []; sp_is := false |} else
  obind (go_slice s 0 q) (fun server =>
  obind (go_slice s (q + 1) (Z.of_N (lenN s))) (fun query =>
  obind (first_sock (split_on x26 query [])) (fun id =>
  match id with
  | [] => Some {| sp_server := server; sp_id := []; sp_is := false |}
  | _ =>
      obind (cut_at x26 id) (fun id1 =>
      obind (cut_at x3f id1) (fun id2 =>
      Some {| sp_server := server; sp_id := id2; sp_is := true |}))
  end))).

(* ---------- IsValidSharedPortID ------------------------------------------------------ *)
Definition is_id_byte (b : byte) : bool :=
  let n := b2n b in
  ((97 <=? n) && (n <=? 122)) || ((65 <=? n) && (n <=? 90)) || ((48 <=? n) && (n <=? 57))
  || byte_eqb b x2e || byte_eqb b x2d || byte_eqb b x5f.
Definition is_valid_shared_port_id (id : bytes) : bool :=
  match id with [] => false | _ => forallb is_id_byte id end.

(* ---------- BrokerIsCCB ---------------------------------------------------------------- *)
Definition broker_is_ccb (b : bytes) : bool := existsb (fun x => byte_eqb x x23) b.

(* ---------- ccb.SplitBrokerList ---------------------------------------------------------- *)
Definition is_broker_sep (b : byte) : bool :=
  byte_eqb b x2c || byte_eqb b x20 || byte_eqb b x09 || byte_eqb b x0a.
(* FieldsFunc, then the (redundant) `f != ""` filter of the code *)
Definition split_broker_list (s : bytes) : list bytes :=
  filter (fun f => negb (is_nil f)) (fields_by is_broker_sep s []).

(* ---------- ccb.splitFlatEntryAndRoute ------------------------------------------------------ *)
(* strings.Join(l, " ") *)
Fixpoint join_sp (l : list bytes) : bytes :=
  match l with
  | [] => []
  | [x] => x
  | x :: r => x ++ x20 :: join_sp r
  end.

(* the `len(e) >= 2 && e[0] == '<' && e[len(e)-1] == '>'` strip shared with SplitCCBContact *)
Definition strip_angle_pair (e : bytes) : option bytes :=
  if (2 <=? lenN e) && (match e with x :: _ => byte_eqb x x3c | [] => false end) && last_byte_is e x3e
  then go_slice e 1 (Z.of_N (lenN e) - 1) else Some e.

(* Some None = ok is false; Some (Some (entry, ccbid, route)) *)
Definition split_flat_entry_and_route (contact : bytes) : option (option (bytes * bytes * bytes)) :=
  let s := utrim_space contact in
  let i := index_byte x23 s in
  if (i <? 0)%Z then Some None else
  obind (go_slice s 0 i) (fun e0 =>
  obind (go_slice s (i + 1) (Z.of_N (lenN s))) (fun t0 =>
  obind (strip_angle_pair (utrim_space e0)) (fun entry =>
  match split_on x23 (utrim_space t0) [] with
  | [] => Some None                                   (* len(ids) == 0: strings.Split never does *)
  | id0 :: rest =>
      match entry, id0 with
      | [], _ | _, [] => Some None
      | _, _ =>
          Some (Some (entry, utrim_space id0,
                      join_sp (filter (fun t => negb (is_nil t)) (map utrim_space rest))))
      end
  end))).

(* ---------- ccb.ContactString: fmt.Sprintf("%s#%d", broker, uint64) --------------------------- *)
Fixpoint dec_f (fuel : nat) (n : N) (acc : bytes) : bytes :=
  match fuel with
  | O => acc
  | S f =>
      let acc' := n2b (48 + n mod 10) :: acc in
      if n <? 10 then acc' else dec_f f (n / 10) acc'
  end.
(* %d of a value below 2^64: at most 20 digits *)
Definition dec (n : N) : bytes := dec_f 20 n [].
Definition contact_string (broker : bytes) (ccbid : N) : bytes := broker ++ x23 :: dec ccbid.

(* the code's quirk: IsSharedPort with an empty id *)
Example addr_empty_id_example :
  (* "<h:1?sock=?x>" *)
  option_map (fun i => (sp_server i, sp_id i, sp_is i))
    (parse_htcondor_address [x3c; x68; x3a; x31; x3f; x73; x6f; x63; x6b; x3d; x3f; x78; x3e])
  = Some ([x68; x3a; x31], [], true).
Proof. vm_compute. reflexivity. Qed.
