(* Model/Privacy.v — which attributes of a ClassAd are serialised.

   Go code modelled (message/classad.go unless noted):
     classad.IsPrivateAttributeV1   (classad v0.4.0 classad/private.go: map lookup of strings.ToLower(name))
     classad.IsPrivateAttributeV2   (len(name) >= 12 && strings.EqualFold(name[:12], "_condor_priv"))
     HTCondorVersion.BuiltSinceVersion
     putClassAdToMessageWithOptions (includePrivate / excludePrivate / excludePrivateV2 decision)
     filterAttributesByPrivacy, filterAttributesByWhitelist, isAttrInList

   An ad is the list of (attribute name, rendered expression text) pairs in
   the order ad.GetAttributes() returns them (ad.Lookup(name) of such a name
   returns that attribute's expression: checked on every generated ad by the
   harness).  Definitions only. *)
From Coq Require Import List NArith ZArith Bool.
From Coq Require String.
From Cedar Require Import Lib.Bytes.
Import ListNotations.
Local Open Scope N_scope.

Definition s2b (s : String.string) : bytes := String.list_byte_of_string s.

(* ---------- Go's case mapping, as far as it can reach ASCII ------------- *)
Definition is_upper (b : byte) : bool := let n := b2n b in (65 <=? n) && (n <=? 90).
Definition lower_ascii (b : byte) : byte := if is_upper b then n2b (b2n b + 32) else b.

(* strings.ToLower(name), observed through equality with all-ASCII strings:
   unicode.ToLower maps exactly two non-ASCII runes into ASCII, U+0130 (C4 B0)
   to 'i' and U+212A KELVIN SIGN (E2 84 AA) to 'k' (the harness checks this
   fact over every rune on each run).  Every other non-ASCII byte stays
   non-ASCII in the result (as the lower-cased rune or as U+FFFD), so it is
   copied: it can never equal an ASCII name.  C4 and E2 are never continuation
   bytes, hence always start a rune in Go's decoder. *)
Fixpoint go_lower_key (s : bytes) : bytes :=
  match s with
  | [] => []
  | b :: r =>
      if byte_eqb b xc4 then
        match r with
        | b2 :: r2 => if byte_eqb b2 xb0 then x69 :: go_lower_key r2 else b :: go_lower_key r
        | [] => [b]
        end
      else if byte_eqb b xe2 then
        match r with
        | b2 :: b3 :: r3 =>
            if byte_eqb b2 x84 && byte_eqb b3 xaa then x6b :: go_lower_key r3 else b :: go_lower_key r
        | _ => b :: go_lower_key r
        end
      else lower_ascii b :: go_lower_key r
  end.

Import Coq.Strings.String.StringSyntax.
Local Open Scope string_scope.
Definition private_v1_names : list bytes :=
  map s2b ["capability"; "childclaimids"; "claimid"; "claimidlist"; "claimids"; "transferkey"].
Definition private_v2_prefix : bytes := s2b "_condor_priv".
Local Close Scope string_scope.

Definition is_private_v1 (name : bytes) : bool :=
  existsb (bytes_eqb (go_lower_key name)) private_v1_names.

(* EqualFold of a 12-byte slice against 12 ASCII letters none of which is
   's' or 'k' (the only ASCII letters with a non-ASCII simple fold): byte-wise
   ASCII case-insensitive comparison. *)
Definition is_private_v2 (name : bytes) : bool :=
  (12 <=? lenN name) && bytes_eqb (map lower_ascii (firstn 12 name)) private_v2_prefix.

Definition is_private_any (name : bytes) : bool := is_private_v1 name || is_private_v2 name.

(* ---------- configuration ---------------------------------------------- *)
Record config := {
  c_opts : N;                        (* PutClassAdOptions bit set *)
  c_whitelist : list bytes;
  c_enc_attrs : list bytes;          (* EncryptedAttrs *)
  c_peer : option (Z * Z * Z)        (* PeerVersion, nil = None *)
}.

Definition opt_no_types (o : N) := N.testbit o 0.
Definition opt_no_private (o : N) := N.testbit o 1.
Definition opt_server_time (o : N) := N.testbit o 2.
Definition opt_include_private (o : N) := N.testbit o 5.

Definition built_since (v : Z * Z * Z) (major minor patch : Z) : bool :=
  let '(ma, mi, pa) := v in
  ((major <? ma) || ((ma =? major) && (minor <? mi)) || ((ma =? major) && (mi =? minor) && (patch <=? pa)))%Z.

Definition include_private (c : config) : bool :=
  opt_include_private (c_opts c) && negb (opt_no_private (c_opts c)).
Definition exclude_private (c : config) : bool := negb (include_private c).
Definition exclude_private_v2 (c : config) : bool :=
  exclude_private c ||
  match c_peer c with Some v => negb (built_since v 9 9 0) | None => false end.

Definition in_list (a : bytes) (l : list bytes) : bool := existsb (bytes_eqb a) l.

(* the body of both filter loops: true = the attribute is dropped *)
Definition dropped (exP exV2 : bool) (enc_attrs : list bytes) (name : bytes) : bool :=
  if exP || exV2 then
    let v2 := is_private_v2 name in
    let v1 := is_private_v1 name || in_list name enc_attrs in
    (exP && (v1 || v2)) || (exV2 && v2)
  else false.

Definition attr := (bytes * bytes)%type.     (* name, rendered expression text *)

Definition filter_privacy (attrs : list attr) (exP exV2 : bool) (enc_attrs : list bytes) : list attr :=
  filter (fun a => negb (dropped exP exV2 enc_attrs (fst a))) attrs.

Definition filter_whitelist (attrs : list attr) (wl : list bytes) (exP exV2 : bool) (enc_attrs : list bytes)
  : list attr :=
  filter (fun a => in_list (fst a) wl && negb (dropped exP exV2 enc_attrs (fst a))) attrs.

Definition attrs_to_send (c : config) (attrs : list attr) : list attr :=
  match c_whitelist c with
  | _ :: _ => filter_whitelist attrs (c_whitelist c) (exclude_private c) (exclude_private_v2 c) (c_enc_attrs c)
  | [] => filter_privacy attrs (exclude_private c) (exclude_private_v2 c) (c_enc_attrs c)
  end.

(* ---------- the specification's notion of "private name" ----------------
   ASCII case-insensitive equality with a fixed name, or with the reserved
   prefix on the first 12 bytes.  Proofs/C09 shows the Go predicates cover it. *)
Definition ascii_fold_eqb (a b : bytes) : bool := bytes_eqb (map lower_ascii a) (map lower_ascii b).
Definition spec_private_v1 (name : bytes) : bool := existsb (ascii_fold_eqb name) private_v1_names.
Definition spec_private_v2 (name : bytes) : bool :=
  ascii_fold_eqb (firstn 12 name) private_v2_prefix.
Definition spec_private (name : bytes) : bool := spec_private_v1 name || spec_private_v2 name.
