(* Model/FSPath.v — security/fs_auth.go: filesystem (FS / FS_REMOTE) authentication.

   Go function                          Gallina definition
   -----------------------------------  --------------------------------------
   filepath.IsAbs / Clean / Dir / Base  is_abs / clean / dir / base      (Unix)
   net.ParseIP (netip.ParseAddr)        parse_ip  (16-byte form, as net.IP.Equal compares)
   fsAuthLocalLeafRE / RemoteLeafRE     local_leaf_ok / remote_leaf_ok
   fsSuffixRE                           suffix_ok
   fsAddrLeaf                           fs_addr_leaf
   verifyFSPathEndpoint                 verify_endpoint   (peer = result of net.SplitHostPort)
   validateFSAuthPath                   validate
   performFSAuthenticationClient        client_exchange   (abstract filesystem + server script)
   performFSAuthenticationServer        server_verdict    (abstract lstat result)

   Definitions only.  Paths are byte strings; nothing is totalised silently. *)
From Coq Require Import List NArith ZArith Bool.
From Coq Require String Ascii.
From Cedar Require Import Lib.Bytes.
Import ListNotations.
Import Coq.Strings.String.StringSyntax.
Local Open Scope N_scope.

(* ASCII text -> bytes *)
Fixpoint bs (s : String.string) : bytes :=
  match s with
  | String.EmptyString => []
  | String.String a r => Ascii.byte_of_ascii a :: bs r
  end.

Definition slash : byte := x2f.
Definition dot : byte := x2e.
Definition underscore : byte := x5f.
Definition dash : byte := x2d.
Definition colon : byte := x3a.
Definition percent : byte := x25.

Definition is_nil {A} (l : list A) : bool := match l with [] => true | _ => false end.

(* ---------- strings.Split / strings.Join with a one-byte separator ------- *)
(* a split always has at least one field: (first field, remaining fields) *)
Fixpoint split1 (sep : byte) (s : bytes) : bytes * list bytes :=
  match s with
  | [] => ([], [])
  | b :: r => let '(f, fs) := split1 sep r in
              if byte_eqb b sep then ([], f :: fs) else (b :: f, fs)
  end.
Definition split_on (sep : byte) (s : bytes) : list bytes :=
  let '(f, fs) := split1 sep s in f :: fs.
Fixpoint join_on (sep : byte) (l : list bytes) : bytes :=
  match l with
  | [] => []
  | f :: r => match r with [] => f | _ => f ++ sep :: join_on sep r end
  end.

Fixpoint strip_prefix (pre s : bytes) : option bytes :=
  match pre with
  | [] => Some s
  | a :: pre' => match s with
                 | b :: s' => if byte_eqb a b then strip_prefix pre' s' else None
                 | [] => None
                 end
  end.
Definition has_prefix (pre s : bytes) : bool :=
  match strip_prefix pre s with Some _ => true | None => false end.

(* ---------- path/filepath on Unix ---------------------------------------- *)
Definition is_sep (b : byte) : bool := byte_eqb b slash.
Definition is_abs (p : bytes) : bool := match p with b :: _ => is_sep b | [] => false end.

Definition is_dot (c : bytes) : bool := bytes_eqb c [dot].
Definition is_dotdot (c : bytes) : bool := bytes_eqb c [dot; dot].
(* a path element that Clean keeps as it is *)
Definition normal_comp (c : bytes) : bool := negb (is_nil c) && negb (is_dot c) && negb (is_dotdot c).

(* filepath.Clean processes the elements between separators left to right,
   keeping a stack of output elements ([st] is that stack, top first):
   "" and "." are skipped; ".." removes the last element if there is one that
   is not itself a kept "..", is dropped at the root, and is kept otherwise. *)
Definition clean_step (rooted : bool) (st : list bytes) (c : bytes) : list bytes :=
  if is_nil c || is_dot c then st
  else if is_dotdot c then
    match st with
    | top :: r => if rooted then r else if is_dotdot top then c :: st else r
    | [] => if rooted then [] else [c]
    end
  else c :: st.

Definition clean (p : bytes) : bytes :=
  match p with
  | [] => [dot]
  | b :: rest =>
      if is_sep b then
        slash :: join_on slash (rev (fold_left (clean_step true) (split_on slash rest) []))
      else
        match rev (fold_left (clean_step false) (split_on slash p) []) with
        | [] => [dot]
        | st => join_on slash st
        end
  end.

(* filepath.Dir: Clean of everything up to and including the last separator *)
Definition dir (p : bytes) : bytes :=
  clean (match removelast (split_on slash p) with
         | [] => []
         | pre => join_on slash pre ++ [slash]
         end).

Fixpoint drop_seps (s : bytes) : bytes :=
  match s with b :: r => if is_sep b then drop_seps r else s | [] => [] end.
Fixpoint last_of (c : bytes) (cs : list bytes) : bytes :=
  match cs with [] => c | d :: r => last_of d r end.
(* filepath.Base: strip trailing separators, take the last element *)
Definition base (p : bytes) : bytes :=
  match p with
  | [] => [dot]
  | _ => match rev (drop_seps (rev p)) with
         | [] => [slash]
         | q => let '(f, fs) := split1 slash q in last_of f fs
         end
  end.

(* ---------- net.ParseIP (Go 1.25: netip.ParseAddr, zone rejected) --------- *)
Definition in_range (lo hi : N) (b : byte) : bool := let n := b2n b in (lo <=? n) && (n <=? hi).
Definition is_digit (b : byte) : bool := in_range 48 57 b.
Definition is_alnum (b : byte) : bool := is_digit b || in_range 65 90 b || in_range 97 122 b.
Definition is_hostch (b : byte) : bool :=
  is_alnum b || byte_eqb b dot || byte_eqb b underscore || byte_eqb b dash.
Definition digit_val (b : byte) : option N := if is_digit b then Some (b2n b - 48) else None.
Definition hex_val (b : byte) : option N :=
  if is_digit b then Some (b2n b - 48)
  else if in_range 97 102 b then Some (b2n b - 87)
  else if in_range 65 70 b then Some (b2n b - 55)
  else None.

(* parseIPv4Fields: [prev_dot] = at the start or just after a '.',
   [acc] = completed octets, most recent first *)
Fixpoint v4_loop (s : bytes) (prev_dot : bool) (val digs : N) (acc : list N) : option (list N) :=
  match s with
  | [] => match acc with
          | [c; b; a] => Some [a; b; c; val]
          | _ => None                                   (* too short *)
          end
  | ch :: r =>
      match digit_val ch with
      | Some d =>
          if (digs =? 1) && (val =? 0) then None        (* leading zero *)
          else let v := val * 10 + d in
               if 255 <? v then None else v4_loop r false v (digs + 1) acc
      | None =>
          if byte_eqb ch dot then
            if prev_dot || is_nil r then None           (* empty field *)
            else match acc with
                 | [_; _; _] => None                    (* too long *)
                 | _ => v4_loop r true 0 0 (val :: acc)
                 end
          else None
      end
  end.
Definition parse_v4_fields (s : bytes) : option (list N) := v4_loop s true 0 0 [].

(* up to four hex digits; a fifth is an error *)
Fixpoint scan_hex (s : bytes) (n : nat) (acc : N) : option (N * nat * bytes) :=
  match s with
  | ch :: r =>
      match hex_val ch with
      | Some d => if Nat.leb 4 n then None else scan_hex r (S n) (acc * 16 + d)
      | None => Some (acc, n, s)
      end
  | [] => Some (acc, n, s)
  end.

(* the group loop of parseIPv6: [ip] = bytes produced so far, [ell] = position
   of "::" in [ip]; result = (bytes, ellipsis, unparsed rest) *)
Fixpoint v6_loop (fuel : nat) (s : bytes) (ip : list N) (ell : option nat)
  : option (list N * option nat * bytes) :=
  match fuel with
  | O => Some (ip, ell, s)
  | S fuel' =>
    if Nat.leb 16 (length ip) then Some (ip, ell, s) else
    match scan_hex s 0 0 with
    | None => None
    | Some (acc, off, rest) =>
      if Nat.eqb off 0 then None else
      match rest with
      | ch :: r1 =>
          if byte_eqb ch dot then
            if (match ell with None => true | Some _ => false end) && negb (Nat.eqb (length ip) 12) then None
            else if Nat.ltb 16 (length ip + 4) then None
            else match parse_v4_fields s with
                 | Some f4 => Some (ip ++ f4, ell, [])
                 | None => None
                 end
          else
            let ip' := ip ++ [acc / 256; acc mod 256] in
            if negb (byte_eqb ch colon) then None
            else match r1 with
                 | [] => None                           (* colon must be followed by more *)
                 | c2 :: r2 =>
                     if byte_eqb c2 colon then
                       match ell with
                       | Some _ => None                 (* multiple :: *)
                       | None => match r2 with
                                 | [] => Some (ip', Some (length ip'), [])
                                 | _ => v6_loop fuel' r2 ip' (Some (length ip'))
                                 end
                       end
                     else v6_loop fuel' r1 ip' ell
                 end
      | [] => Some (ip ++ [acc / 256; acc mod 256], ell, [])
      end
    end
  end.

Definition parse_v6 (s : bytes) : option (list N) :=
  if existsb (fun b => byte_eqb b percent) s then None     (* zone (or empty zone): ParseIP gives nil *)
  else
    let start := match s with
                 | a :: b :: r => if byte_eqb a colon && byte_eqb b colon then (r, Some O) else (s, None)
                 | _ => (s, None)
                 end in
    let '(s1, ell0) := start in
    match ell0, s1 with
    | Some _, [] => Some (repeat 0 16)
    | _, _ =>
      match v6_loop 9 s1 [] ell0 with
      | None => None
      | Some (ip, ell, rest) =>
          if negb (is_nil rest) then None
          else if Nat.ltb (length ip) 16 then
            match ell with
            | None => None
            | Some e => Some (firstn e ip ++ repeat 0 (16 - length ip)%nat ++ skipn e ip)
            end
          else match ell with Some _ => None | None => Some ip end
      end
    end.

Fixpoint first_special (s : bytes) : option byte :=
  match s with
  | [] => None
  | b :: r => if byte_eqb b dot || byte_eqb b colon || byte_eqb b percent then Some b else first_special r
  end.

(* the address as the 16 bytes net.ParseIP returns (IPv4 in its v4-in-v6 form) *)
Definition parse_ip (s : bytes) : option (list N) :=
  match first_special s with
  | None => None
  | Some c =>
      if byte_eqb c dot then
        match parse_v4_fields s with
        | Some f4 => Some (repeat 0 10 ++ [255; 255] ++ f4)
        | None => None
        end
      else if byte_eqb c colon then parse_v6 s
      else None
  end.

Fixpoint ip_eqb (a b : list N) : bool :=
  match a, b with
  | [], [] => true
  | x :: a', y :: b' => (x =? y) && ip_eqb a' b'
  | _, _ => false
  end.

(* ---------- leaf recognisers -------------------------------------------- *)
(* source forms of the regular expressions the recognisers below were written for *)
Local Open Scope string_scope.
Definition local_re_src : String.string := "^FS_[A-Za-z0-9]{1,16}$".
Definition remote_re_src : String.string := "^FS_REMOTE_[A-Za-z0-9._\-]+_[0-9]+_[A-Za-z0-9]{1,16}$".
Definition suffix_re_src : String.string := "^[A-Za-z0-9]{1,16}$".
Definition base_dir_src : String.string := "/tmp".

Definition fs_base : bytes := bs base_dir_src.
Definition pfx_local : bytes := bs "FS_".
Definition pfx_remote : bytes := bs "FS_REMOTE_".
Definition remote_word : bytes := bs "REMOTE_".
Local Close Scope string_scope.

(* ^[A-Za-z0-9]{1,16}$ *)
Definition suffix_ok (r : bytes) : bool :=
  negb (is_nil r) && Nat.leb (length r) 16 && forallb is_alnum r.
(* ^FS_[A-Za-z0-9]{1,16}$ *)
Definition local_leaf_ok (leaf : bytes) : bool :=
  match strip_prefix pfx_local leaf with Some r => suffix_ok r | None => false end.
(* ^FS_REMOTE_[A-Za-z0-9._\-]+_[0-9]+_[A-Za-z0-9]{1,16}$ : the suffix and the
   digit field contain no '_', so they are the last two '_'-separated fields;
   the host part is everything before them *)
Definition remote_leaf_ok (leaf : bytes) : bool :=
  match strip_prefix pfx_remote leaf with
  | None => false
  | Some s =>
      match rev (split_on underscore s) with
      | r :: d :: hrev =>
          let h := join_on underscore (rev hrev) in
          suffix_ok r && negb (is_nil d) && forallb is_digit d &&
          negb (is_nil hrev) && negb (is_nil h) && forallb is_hostch h
      | _ => false
      end
  end.

(* what the three regular expressions denote, stated directly *)
Definition alnum_suffix (r : bytes) : Prop :=
  (1 <= length r <= 16)%nat /\ Forall (fun b => is_alnum b = true) r.
Definition local_shape (leaf : bytes) : Prop :=
  exists r, leaf = pfx_local ++ r /\ alnum_suffix r.
Definition remote_shape (leaf : bytes) : Prop :=
  exists h d r, leaf = pfx_remote ++ h ++ underscore :: d ++ underscore :: r /\
    h <> [] /\ Forall (fun b => is_hostch b = true) h /\
    d <> [] /\ Forall (fun b => is_digit b = true) d /\ alnum_suffix r.
(* the address-qualified form FS[_REMOTE]_<ip>_<port>_<suffix> *)
Definition addr_shape (remote : bool) (leaf ip port : bytes) : Prop :=
  exists sfx, leaf = (if remote then pfx_remote else pfx_local) ++ ip ++ underscore :: port ++ underscore :: sfx /\
    parse_ip ip <> None /\ (1 <= length port <= 5)%nat /\
    Forall (fun b => is_digit b = true) port /\ alnum_suffix sfx.

(* fsAddrLeaf *)
Definition port_ok (port : bytes) : bool :=
  Nat.leb 1 (length port) && Nat.leb (length port) 5 && forallb is_digit port.
Definition fs_addr_leaf (leaf : bytes) (remote : bool) : option (bytes * bytes) :=
  match strip_prefix (if remote then pfx_remote else pfx_local) leaf with
  | None => None
  | Some rest =>
      if negb remote && has_prefix remote_word rest then None
      else match split_on underscore rest with
           | [ip; port; sfx] =>
               match parse_ip ip with
               | None => None
               | Some _ => if suffix_ok sfx && port_ok port then Some (ip, port) else None
               end
           | _ => None
           end
  end.

(* the connection's peer address after net.SplitHostPort *)
Inductive peer := PNone | PBad | PHP (host port : bytes).

(* verifyFSPathEndpoint *)
Definition verify_endpoint (ip port : bytes) (pr : peer) : bool :=
  match pr with
  | PNone | PBad => false
  | PHP h pp =>
      bytes_eqb port pp &&
      match parse_ip ip, parse_ip h with
      | Some a, Some b => ip_eqb a b
      | _, _ => false
      end
  end.

(* the name's address is the connection's peer: same port text, same IP address *)
Definition names_endpoint (ip port : bytes) (pr : peer) : Prop :=
  exists h a, pr = PHP h port /\ parse_ip ip = Some a /\ parse_ip h = Some a.

(* validateFSAuthPath *)
Inductive vres := VOk (leaf : bytes) | VErr (cls : N).
Definition unsafe_leaf (leaf : bytes) : bool :=
  existsb (fun b => byte_eqb b slash || byte_eqb b x00) leaf || is_dot leaf || is_dotdot leaf.
Definition validate (p : bytes) (remote : bool) (pr : peer) : vres :=
  if is_nil p then VErr 1
  else if negb (is_abs p) then VErr 2
  else if negb (bytes_eqb (clean p) p) then VErr 3
  else if negb (bytes_eqb (dir p) fs_base) then VErr 4
  else
    let leaf := base p in
    if unsafe_leaf leaf then VErr 5
    else match fs_addr_leaf leaf remote with
         | Some (ip, port) => if verify_endpoint ip port pr then VOk leaf else VErr 6
         | None => if (if remote then remote_leaf_ok leaf else local_leaf_ok leaf)
                   then VOk leaf else VErr 7
         end.

(* ---------- the client exchange ------------------------------------------ *)
(* What the peer (an arbitrary server) and the transport make each step of the
   client's exchange do. *)
Inductive io (A : Type) := IoOk (a : A) | IoFail.
Arguments IoOk {A} a. Arguments IoFail {A}.
Inductive eom_res := EomOk | EomMore | EomErr.   (* GetChar after the value: io.EOF / a byte / another error *)
Record script := {
  sc_path : io bytes;      (* GetStringWithMaxSize: the path, or failure (I/O, closed, over-long) *)
  sc_eom1 : eom_res;
  sc_put  : bool;          (* PutInt of the result code succeeds *)
  sc_fin  : bool;          (* FinishMessage succeeds *)
  sc_res  : io Z;          (* GetInt of the server's verdict *)
  sc_eom2 : eom_res }.

(* the client's view of the filesystem: does os.OpenRoot(base) succeed, does
   Mkdir of a given leaf inside it succeed *)
(* what is at the created path when the client's Remove runs: other parties (the
   server removes the directory itself in the normal protocol; anything running
   with the client's uid, or root, may fill or replace it) act in between *)
Inductive cleanup_state :=
| CsEmptyDir        (* still the empty directory: Remove removes it *)
| CsGone            (* already removed: Remove fails, nothing is there *)
| CsNonEmptyDir     (* somebody put an entry inside: Remove fails, the directory stays *)
| CsOtherObject.    (* replaced by a file or symlink of that name: Remove unlinks it *)
Definition remove_clears (s : cleanup_state) : bool :=
  match s with CsNonEmptyDir => false | _ => true end.

Record fsenv := { open_root_ok : bool; mkdir_ok : bytes -> bool; at_cleanup : bytes -> cleanup_state }.

Inductive effect :=
| EMkdir (path : bytes) (ok : bool)     (* Mkdir attempted at [path] (mode 0700) *)
| ERmdir (path : bytes).                (* Remove attempted at [path] *)

(* paths that exist after the effects because of them (and did not before) *)
Fixpoint left_from (st : bytes -> cleanup_state) (effs : list effect) (cur : list bytes) : list bytes :=
  match effs with
  | [] => cur
  | EMkdir p true :: r => left_from st r (cur ++ [p])
  | EMkdir _ false :: r => left_from st r cur
  | ERmdir p :: r =>
      left_from st r (if remove_clears (st p) then filter (fun q => negb (bytes_eqb p q)) cur else cur)
  end.
Definition left_behind (env : fsenv) (effs : list effect) : list bytes :=
  left_from (at_cleanup env) effs [].

Inductive ret := RetNil | RetErr (stage : N).
Record xresult := { x_eff : list effect; x_reply : option Z; x_ret : ret }.

Definition under_base (leaf : bytes) : bytes := fs_base ++ slash :: leaf.

(* the validation + Mkdir step: (effects, result code, cleanup to run on return) *)
Definition mkdir_part (remote : bool) (pr : peer) (env : fsenv) (p : bytes)
  : list effect * Z * list effect :=
  if is_nil p then ([], (-1)%Z, [])
  else match validate p remote pr with
       | VErr _ => ([], (-1)%Z, [])
       | VOk leaf =>
           if open_root_ok env then
             if mkdir_ok env leaf
             then ([EMkdir (under_base leaf) true], 0%Z, [ERmdir (under_base leaf)])
             else ([EMkdir (under_base leaf) false], (-1)%Z, [])
           else ([], (-1)%Z, [])
       end.

(* the rest of the exchange: send the code, read the verdict *)
Definition exchange_tail (sc : script) : ret :=
  if negb (sc_put sc) then RetErr 4
  else if negb (sc_fin sc) then RetErr 5
  else match sc_res sc with
       | IoFail => RetErr 6
       | IoOk v =>
           match sc_eom2 sc with
           | EomErr => RetErr 7
           | EomMore => RetErr 8
           | EomOk => if (v =? 0)%Z then RetNil else RetErr 9
           end
       end.

(* performFSAuthenticationClient (with the cleanup registered right after the
   Mkdir step, so that it runs on every return after it) *)
Definition client_exchange (remote : bool) (pr : peer) (env : fsenv) (sc : script) : xresult :=
  match sc_path sc with
  | IoFail => {| x_eff := []; x_reply := None; x_ret := RetErr 1 |}
  | IoOk p =>
    match sc_eom1 sc with
    | EomErr => {| x_eff := []; x_reply := None; x_ret := RetErr 2 |}
    | EomMore => {| x_eff := []; x_reply := None; x_ret := RetErr 3 |}
    | EomOk =>
      let '(eff1, code, cleanup) := mkdir_part remote pr env p in
      {| x_eff := eff1 ++ cleanup; x_reply := Some code; x_ret := exchange_tail sc |}
    end
  end.

(* ---------- the server's verification ------------------------------------ *)
(* os.Lstat of the path: nothing there, or an object with these attributes *)
Record lstat := { st_dir : bool; st_symlink : bool; st_perm : N; st_nlink : N; st_uid : N }.

Definition owner_only_perm : N := 448.   (* 0700 *)

(* (result code sent to the client, identity recorded) *)
Definition server_verdict (client_code : Z) (st : option lstat) (lookup : N -> option bytes)
  : Z * option bytes :=
  if (client_code =? 0)%Z then
    match st with
    | None => ((-1)%Z, None)
    | Some s =>
        if st_dir s && negb (st_symlink s) && (st_perm s =? owner_only_perm)
           && ((st_nlink s =? 1) || (st_nlink s =? 2))
        then match lookup (st_uid s) with
             | Some u => (0%Z, Some u)
             | None => ((-1)%Z, None)
             end
        else ((-1)%Z, None)
    end
  else ((-1)%Z, None).
