(* Model/Resume.v — server side of session resumption
   (security/auth.go handleSessionResumption, setupStreamEncryption's
   SessionResumed branch, storeSession) over the cache model of Model/Cache.v,
   plus the application phase of the resumed connection with the ideal AEAD of
   Lib/Sym.v (first protected frame: IV taken from the frame, AAD = digests of
   the cleartext received / sent before the key was installed + frame header).

   Go                               Gallina
   a.config.SessionCache / global   srv (s_custom : option cache, s_global)
   lookup + global fallback         srv_lookup
   handleSessionResumption          handle_resumption
   setupStreamEncryption (resumed)  the sstream returned by handle_resumption
   ReceiveFrame / sendMessage on the resumed stream (first frame)   srv_accept / srv_send

   The resumption request and reply are fixed functions of (session id,
   command, reply wanted): req_bytes / reply_bytes contain no fresh value.
   Definitions only. *)
From Coq Require Import List NArith ZArith Bool.
From Cedar Require Import Lib.Bytes Lib.Sym Model.Cache.
Import ListNotations.
Local Open Scope Z_scope.

Record srv := { s_custom : option cache; s_global : cache }.
Inductive found_in := InCustom | InGlobal.

(* cache.LookupNonExpired(sid), then the global cache when a distinct custom cache missed *)
Definition srv_lookup (s : srv) (now : Z) (sid : str) : srv * option (entry * found_in) :=
  match s_custom s with
  | Some c =>
      let '(c', r) := lookup_nonexpired c now sid in
      match r with
      | Some e => ({| s_custom := Some c'; s_global := s_global s |}, Some (e, InCustom))
      | None =>
          let '(g', r2) := lookup_nonexpired (s_global s) now sid in
          ({| s_custom := Some c'; s_global := g' |}, option_map (fun e => (e, InGlobal)) r2)
      end
  | None =>
      let '(g', r2) := lookup_nonexpired (s_global s) now sid in
      ({| s_custom := None; s_global := g' |}, option_map (fun e => (e, InGlobal)) r2)
  end.

Definition srv_store (s : srv) (w : found_in) (e : entry) : srv :=
  match w, s_custom s with
  | InCustom, Some c => {| s_custom := Some (store c e); s_global := s_global s |}
  | _, _ => {| s_custom := s_custom s; s_global := store (s_global s) e |}
  end.

(* the resumption request ad: Sid, ResumeResponse (absent = false), Command (absent = wire command) *)
Record request := { q_sid : str; q_want_reply : bool; q_command : option Z }.
Inductive reply := NoReply | ReplyAuthorized (sid : str) | ReplySidNotFound.

(* the bytes of request and reply on the wire: deterministic, no nonce *)
Definition z_enc (z : Z) : bytes := be_enc 8 (Z.to_N (z mod 2 ^ 64)).
Definition req_bytes (q : request) : bytes :=
  be_enc 4 (lenN (q_sid q)) ++ q_sid q ++ [if q_want_reply q then x01 else x00]
  ++ match q_command q with Some c => x01 :: z_enc c | None => [x00] end.
Definition reply_bytes (r : reply) : bytes :=
  match r with
  | NoReply => []
  | ReplyAuthorized sid => x41 :: sid
  | ReplySidNotFound => [x4e]
  end.

(* the negotiation result the server reports *)
Record sneg := {
  n_command : Z; n_sid : str;
  n_resumed : bool; n_encryption : bool; n_authentication : bool;
  n_user : option str; n_valid : option str
}.

(* crypto state of the stream when the handshake returns *)
Record sstream := {
  st_key : option bytes;       (* Some k = AES-GCM installed and enabled with key k *)
  st_recv_dg : digest;         (* digest of cleartext received before the key was installed *)
  st_send_dg : digest          (* digest of cleartext sent before the key was installed (zero if none) *)
}.
Inductive sres := SOk (n : sneg) (st : sstream) | SErr.

Definition pol_get {A} (e : entry) (f : policy -> option A) : option A :=
  match e_policy e with Some p => f p | None => None end.

Definition dg_of (b : bytes) : digest := match b with [] => DZero | _ => H b end.

(* handleSessionResumption *)
Definition handle_resumption (s : srv) (now : Z) (q : request) (wire_cmd : Z) : srv * reply * sres :=
  let '(s1, r) := srv_lookup s now (q_sid q) in
  (* a client-side record (a session this process negotiated as a client of another
     server) is treated like an unknown session; so is a session without a usable key *)
  let usable := match r with
                | Some (e, w) => if is_client_side e then None
                                 else match usable_key e with Some k => Some (e, w, k) | None => None end
                | None => None
                end in
  match usable with
  | None => (s1, if q_want_reply q then ReplySidNotFound else NoReply, SErr)
  | Some (e, w, k) =>
      let e' := renew_lease e now in
      let s2 := srv_store s1 w e' in
      let rep := if q_want_reply q then ReplyAuthorized (q_sid q) else NoReply in
      let n := {| n_command := match q_command q with Some c => c | None => wire_cmd end;
                  n_sid := q_sid q; n_resumed := true; n_encryption := true;
                  n_authentication := match pol_get e p_authenticated with Some b => b | None => false end;
                  n_user := pol_get e p_user; n_valid := pol_get e p_valid |} in
      (s2, rep, SOk n {| st_key := Some k; st_recv_dg := dg_of (req_bytes q);
                         st_send_dg := dg_of (reply_bytes rep) |})
  end.

(* ---- application phase on the resumed connection --------------------------- *)
(* a frame on the wire: cleartext, or IV + AES-GCM ciphertext (first protected frame) *)
Inductive wframe :=
| WPlain (hdr : bytes) (p : bytes)
| WSealed (hdr : bytes) (iv : bytes) (c : ctext).

(* ReceiveFrame on the server's stream: the first frame after the handshake *)
Definition srv_accept (st : sstream) (f : wframe) : option bytes :=
  match st_key st, f with
  | None, WPlain _ p => Some p
  | Some k, WSealed hdr iv c => open k iv (AadFirst (st_recv_dg st) (st_send_dg st) hdr) c
  | _, _ => None
  end.
(* the first frame the server sends *)
Definition srv_send (st : sstream) (hdr iv p : bytes) : wframe :=
  match st_key st with
  | None => WPlain hdr p
  | Some k => WSealed hdr iv (seal k iv (AadFirst (st_send_dg st) (st_recv_dg st) hdr) p)
  end.

(* the legitimate client's first protected frame on a connection where it sent
   request q and received reply rep, holding key k *)
Definition client_frame (k : bytes) (q : request) (rep : reply) (hdr iv p : bytes) : wframe :=
  WSealed hdr iv (seal k iv (AadFirst (dg_of (req_bytes q)) (dg_of (reply_bytes rep)) hdr) p).

(* ---- storeSession (server side of a full handshake) ------------------------ *)
Definition server_entry (now : Z) (sid addr tag : str) (key : option key_info)
  (authenticated : bool) (user valid : option str) (dur lease : Z) : entry :=
  {| e_id := sid; e_addr := addr; e_tag := tag; e_key := key;
     e_policy := Some {| p_authenticated := Some authenticated; p_user := user; p_valid := valid;
                         p_authmethods := None; p_crypto := None; p_client_side := None |};
     e_exp := Some (now + dur); e_lease := lease |}.

(* ---- server/server.go ServeConn: dispatch of the command a handshake named -------------
   After the handshake (here: a resumption) returned a negotiation, the dispatching server
   looks the command up (s.handlers), refuses it when there is no authenticated handler
   (unregistered, or registered as a raw command only), re-checks the session against the
   command's CURRENT security level (commandLevelSatisfied) and the Authorizer
   (sessionSatisfies), and only then runs the handler.  None of the refusal paths touches a
   session cache or the negotiation: serve_conn's state is handle_resumption's, by construction.

   Go                                       Gallina
   Server.handlers / lookup                 d_handler : Z -> hkind
   SecurityConfigForCommand(c).Authentication = REQUIRED            d_auth_required
   ... .Encryption or .Integrity = REQUIRED                         d_enc_required
   Server.Authorizer(perm, peerAddr, user)  d_authorizer (the peer address is not modelled)
   commandLevelSatisfied / sessionSatisfies command_level_satisfied / dispatch
   ServeConn (DC_AUTHENTICATE branch, first command)                serve_conn *)
Inductive hkind := HNone | HRaw | HAuth (perms : list str).
Record dsrv := {
  d_handler : Z -> hkind;
  d_auth_required : Z -> bool;
  d_enc_required : Z -> bool;
  d_authorizer : option (str -> option str -> bool)
}.
Inductive dres :=
| DServed            (* the handler runs *)
| DNoHandler         (* "no authenticated handler for command" *)
| DLevel             (* the session does not meet the command's security level *)
| DNotAuthorized.    (* the identity is not authorized under the current policy *)

Definition command_level_satisfied (d : dsrv) (cmd : Z) (authd enc : bool) : bool :=
  negb (d_auth_required d cmd && negb authd) && negb (d_enc_required d cmd && negb enc).

Definition dispatch (d : dsrv) (n : sneg) : dres :=
  match d_handler d (n_command n) with
  | HNone | HRaw => DNoHandler
  | HAuth perms =>
      if negb (command_level_satisfied d (n_command n) (n_authentication n) (n_encryption n)) then DLevel
      else match d_authorizer d with
           | None => DServed
           | Some az => if existsb (fun p => az p (n_user n)) perms then DServed else DNotAuthorized
           end
  end.

Definition serve_conn (d : dsrv) (s : srv) (now : Z) (q : request) (wire_cmd : Z)
  : srv * reply * sres * option dres :=
  let '(s', rep, res) := handle_resumption s now q wire_cmd in
  (s', rep, res, match res with SOk n _ => Some (dispatch d n) | SErr => None end).
