(* Model/Decode.v — C13: Go failure semantics (panic / allocation) and the
   length-, count- and cap-driven decoders of cedar that sit above Model/Msg.v.

   Conventions
   * A Go run-time failure is the explicit outcome MPanic (message level) or
     None of go_make / go_slice (pure level); nothing is totalised.
   * Every make(n) / append-built result adds its size to the allocation
     counter r_alloc of the reader.
   * All recursion is structural on a fuel that is derived from the input that
     is still available (bytes or frames); the fuel-exhausted branch returns an
     error and is unreachable (each iteration consumes input or stops).

   The definitions follow the code as it is AFTER the C13 fix commits
   (negative length prefixes rejected before make(), raw-ad loops stop at the
   end of the message, the ZKM secret field is read under the byte budget,
   handshake readers use GetBytes).  The pre-fix GetString is get_lstr_unfixed. *)
From Coq Require Import List NArith ZArith Lia Bool.
From Cedar Require Import Lib.Bytes gen.Consts Model.Msg.
Import ListNotations.
Local Open Scope N_scope.

(* ---------- Go failure semantics at the pure level ----------------------- *)
(* make([]byte, n): None = run-time panic (makeslice: len out of range) *)
Definition go_make (n : Z) : option N :=
  if (n <? 0)%Z then None else Some (Z.to_N n).
(* s[lo:hi]: None = run-time panic (slice bounds out of range) *)
Definition go_slice (s : bytes) (lo hi : Z) : option bytes :=
  if ((0 <=? lo) && (lo <=? hi) && (hi <=? Z.of_N (lenN s)))%Z
  then Some (firstn (Z.to_nat (hi - lo)) (skipn (Z.to_nat lo) s)) else None.
(* s[i] *)
Definition go_index (s : bytes) (i : Z) : option byte :=
  if ((0 <=? i) && (i <? Z.of_N (lenN s)))%Z
  then match skipn (Z.to_nat i) s with b :: _ => Some b | [] => None end else None.

(* ---------- measures ------------------------------------------------------ *)
Fixpoint frames_bytes (fs : list mframe) : N :=
  match fs with [] => 0 | f :: r => lenN (fst f) + frames_bytes r end.
(* bytes of the logical stream not yet consumed: buffered + still to come *)
Definition avail (r : reader) : N := lenN (r_buf r) + frames_bytes (r_in r).

Definition bind {A B} (x : reader * mres A) (f : reader -> A -> reader * mres B)
  : reader * mres B :=
  match x with
  | (r, MOk a) => f r a
  | (r, MErr e) => (r, MErr e)
  | (r, MPanic) => (r, MPanic)
  end.

(* make([]byte, n) at the message level *)
Definition r_make (r : reader) (n : Z) : reader * mres unit :=
  match go_make n with
  | None => (r, MPanic)
  | Some k => (add_alloc r k, MOk tt)
  end.
(* io.ReadFull(m.buffer, data) for len(data) = n bytes already ensured *)
Definition r_read (r : reader) (n : N) : reader * bytes :=
  (set_buf r (skipn (N.to_nat n) (r_buf r)), firstn (N.to_nat n) (r_buf r)).

(* ---------- GetString ------------------------------------------------------ *)
(* encrypted stream, after the fix: a negative prefix is an error *)
Definition get_lstr' (r : reader) : reader * mres bytes :=
  bind (get_int32 r) (fun r1 len =>
  if (len <? 0)%Z then (r1, MErr MOther) else
  bind (ensure r1 len) (fun r2 _ =>
  bind (r_make r2 len) (fun r3 _ =>
  let '(r4, data) := r_read r3 (Z.to_N len) in (r4, MOk (strip_string data))))).

(* the same function BEFORE fix 56f4942 (kept only as the refutation witness): the
   sign of the prefix was never tested, so make([]byte, length) could panic *)
Definition get_lstr_unfixed (r : reader) : reader * mres bytes :=
  bind (get_int32 r) (fun r1 len =>
  bind (ensure r1 len) (fun r2 _ =>
  bind (r_make r2 len) (fun r3 _ =>
  let '(r4, data) := r_read r3 (Z.to_N len) in (r4, MOk (strip_string data))))).

(* cleartext stream: Msg.get_cstr plus the allocation of the result *)
Definition charge {A} (size : A -> N) (x : reader * mres A) : reader * mres A :=
  match x with
  | (r, MOk a) => (add_alloc r (size a), MOk a)
  | other => other
  end.
Definition get_cstr' (r : reader) : reader * mres bytes := charge lenN (get_cstr r).

Definition get_string' (encrypted : bool) (r : reader) : reader * mres bytes :=
  if encrypted then get_lstr' r else get_cstr' r.

(* ---------- GetStringWithMaxSize ------------------------------------------ *)
Definition get_lstr_max (maxSize : Z) (r : reader) : reader * mres bytes :=
  bind (get_int32 r) (fun r1 len =>
  if (len <? 0)%Z then (r1, MErr MOther) else
  let exceeds := (maxSize <? len)%Z in
  let n := if exceeds then maxSize else len in
  bind (ensure r1 n) (fun r2 _ =>
  bind (r_make r2 n) (fun r3 _ =>
  let '(r4, data) := r_read r3 (Z.to_N n) in
  if exceeds then (r4, MErr MTooBig) else (r4, MOk (strip_string data))))).

(* cleartext: at most [left] more bytes are taken from the buffer *)
Fixpoint get_cstr_max_loop (fuel : nat) (r : reader) (acc : bytes) (left : N)
  : reader * mres bytes :=
  if left =? 0 then (r, MErr MTooBig) else
  match fuel with
  | O => (r, MErr MOther)
  | S f =>
      match ensure r 1 with
      | (r1, MOk _) =>
          match r_buf r1 with
          | [] => (r1, MErr MOther)
          | b :: rest =>
              let r2 := set_buf r1 rest in
              if byte_eqb b x00 then (r2, MOk (rev' acc))
              else get_cstr_max_loop f r2 (b :: acc) (N.pred left)
          end
      | (r1, MErr MEof) =>
          match acc with [] => (r1, MOk []) | _ => (r1, MErr MTooBig) end
      | (r1, MErr e) => (r1, MErr e)
      | (r1, MPanic) => (r1, MPanic)
      end
  end.
Definition get_cstr_max (maxSize : Z) (r : reader) : reader * mres bytes :=
  charge lenN (get_cstr_max_loop (S (S (N.to_nat (avail r)))) r [] (Z.to_N maxSize)).

Definition get_string_max (encrypted : bool) (maxSize : Z) (r : reader) : reader * mres bytes :=
  if (maxSize <=? 0)%Z then (r, MOk [])
  else if encrypted then get_lstr_max maxSize r else get_cstr_max maxSize r.

(* ---------- SkipString / discard ------------------------------------------- *)
Fixpoint discard_loop (fuel : nat) (r : reader) (n : N) : reader * mres unit :=
  if n =? 0 then (r, MOk tt) else
  match fuel with
  | O => (r, MErr MOther)
  | S f =>
      match ensure r 1 with
      | (r1, MOk _) =>
          let t := N.min (lenN (r_buf r1)) n in
          discard_loop f (set_buf r1 (skipn (N.to_nat t) (r_buf r1))) (n - t)
      | (r1, MErr e) => (r1, MErr e)
      | (r1, MPanic) => (r1, MPanic)
      end
  end.
Definition discard (r : reader) (n : Z) : reader * mres unit :=
  if (n <=? 0)%Z then (r, MOk tt)
  else discard_loop (S (S (length (r_in r)))) r (Z.to_N n).

Fixpoint skip_cstr_loop (fuel : nat) (r : reader) : reader * mres unit :=
  match fuel with
  | O => (r, MErr MOther)
  | S f =>
      match ensure r 1 with
      | (r1, MOk _) =>
          match r_buf r1 with
          | [] => (r1, MErr MOther)
          | b :: rest =>
              let r2 := set_buf r1 rest in
              if byte_eqb b x00 then (r2, MOk tt) else skip_cstr_loop f r2
          end
      | (r1, MErr MEof) => (r1, MOk tt)
      | (r1, MErr e) => (r1, MErr e)
      | (r1, MPanic) => (r1, MPanic)
      end
  end.
Definition skip_string (encrypted : bool) (r : reader) : reader * mres unit :=
  if encrypted then bind (get_int32 r) (fun r1 len => discard r1 len)
  else skip_cstr_loop (S (S (N.to_nat (avail r)))) r.

(* Message.Finished(): finished && buffer empty *)
Definition finished (r : reader) : bool :=
  r_fin r && match r_buf r with [] => true | _ => false end.

(* ---------- ClassAds -------------------------------------------------------- *)
Definition secret_marker : bytes := [x5a; x4b; x4d].   (* "ZKM" *)
Definition has_eq (s : bytes) : bool := existsb (fun b => byte_eqb b x3d) s.

Section ClassAd.
  (* external behaviour: does the classad library accept expression number i
     (attribute non-empty, value parses)?  Everything else is modelled. *)
  Variable parse_ok : N -> bytes -> bool.
  Variable encrypted : bool.
  Variable cap : Z.      (* maxSize; <= 0 means unbounded *)

  (* one budgeted string read: GetStringWithMaxSize(cap - total) or GetString *)
  Definition budget_read (total : Z) (r : reader) : reader * mres bytes :=
    if (0 <? cap)%Z then
      if (cap - total <=? 0)%Z then (r, MErr MOther)
      else get_string_max encrypted (cap - total) r
    else get_string' encrypted r.
  Definition charge_total (total : Z) (s : bytes) : Z :=
    if (0 <? cap)%Z then (total + Z.of_N (lenN s) + 1)%Z else total.

  (* the expression loop of getClassAdFromMessageWithMaxSize: [left] expressions
     still to read, [i] the index of the next one *)
  Fixpoint ad_loop (fuel : nat) (left : Z) (i : N) (total : Z) (r : reader)
    : reader * mres Z :=
    if (left <=? 0)%Z then (r, MOk total) else
    match fuel with
    | O => (r, MErr MOther)
    | S f =>
        bind (budget_read total r) (fun r1 s =>
        let total1 := charge_total total s in
        bind (if bytes_eqb s secret_marker
              then bind (budget_read total1 r1) (fun r2 e => (r2, MOk (e, charge_total total1 e)))
              else (r1, MOk (s, total1))) (fun r2 et =>
        let '(e, total2) := et in
        if has_eq e && parse_ok i e
        then ad_loop f (left - 1) (N.succ i) total2 r2
        else (r2, MErr MOther)))
    end.

  Definition get_classad (r : reader) : reader * mres unit :=
    bind (get_int r) (fun r0 num =>
    bind (ad_loop (S (S (N.to_nat (avail r0)))) num 0 0%Z r0) (fun r1 total =>
    bind (budget_read total r1) (fun r2 mytype =>
    bind (budget_read (charge_total total mytype) r2) (fun r3 _ => (r3, MOk tt))))).
End ClassAd.

(* GetClassAdRaw / SkipClassAdRaw (after the fix: stop once the message is
   exhausted).  The text that GetClassAdRaw builds is charged to r_alloc. *)
Definition is_type_name (s : bytes) : bool :=
  (lenN s <=? 128) &&
  negb (existsb (fun b => byte_eqb b x3d || byte_eqb b x22 || byte_eqb b x0a
                          || byte_eqb b x0d || byte_eqb b x5c) s).
Fixpoint raw_loop (encrypted : bool) (fuel : nat) (left : Z) (r : reader) : reader * mres unit :=
  if (left <=? 0)%Z then (r, MOk tt) else
  match fuel with
  | O => (r, MErr MOther)
  | S f =>
      if finished r then (r, MErr MOther) else
      bind (get_string' encrypted r) (fun r1 s =>
      bind (if bytes_eqb s secret_marker then get_string' encrypted r1 else (r1, MOk s)) (fun r2 e =>
      raw_loop encrypted f (left - 1) (add_alloc r2 (lenN e + 1))))
  end.
Definition type_line (encrypted : bool) (r : reader) : reader * mres unit :=
  bind (get_string' encrypted r) (fun r1 s =>
  match s with
  | [] => (r1, MOk tt)
  | _ => if is_type_name s then (add_alloc r1 (lenN s + 16), MOk tt) else (r1, MErr MOther)
  end).
Definition get_classad_raw (encrypted : bool) (r : reader) : reader * mres unit :=
  bind (get_int r) (fun r0 num =>
  bind (raw_loop encrypted (S (S (S (N.to_nat (avail r0))))) num r0) (fun r1 _ =>
  bind (type_line encrypted r1) (fun r2 _ => type_line encrypted r2))).

(* skipStringIsMarker: SkipString that also reports whether the skipped string is the
   secret marker.  Cleartext: the marker is matched byte by byte ([st] = the part of
   the marker still to match, None once the string differs).  Encrypted: a string of
   1..len(marker)+1 bytes is looked at (buffer.Next, no allocation), any other length
   is discarded. *)
Definition st_step (st : option bytes) (b : byte) : option bytes :=
  match st with
  | Some (x :: rest) => if byte_eqb b x then Some rest else None
  | _ => None
  end.
Definition st_done (st : option bytes) : bool :=
  match st with Some [] => true | _ => false end.
Fixpoint skip_cstr_marker_loop (fuel : nat) (r : reader) (st : option bytes) : reader * mres bool :=
  match fuel with
  | O => (r, MErr MOther)
  | S f =>
      match ensure r 1 with
      | (r1, MOk _) =>
          match r_buf r1 with
          | [] => (r1, MErr MOther)
          | b :: rest =>
              let r2 := set_buf r1 rest in
              if byte_eqb b x00 then (r2, MOk (st_done st))
              else skip_cstr_marker_loop f r2 (st_step st b)
          end
      | (r1, MErr MEof) => (r1, MOk (st_done st))
      | (r1, MErr e) => (r1, MErr e)
      | (r1, MPanic) => (r1, MPanic)
      end
  end.
Definition skip_lstr_is_marker (r : reader) : reader * mres bool :=
  bind (get_int32 r) (fun r1 len =>
  if (len <=? 0)%Z || (Z.of_N (lenN secret_marker) + 1 <? len)%Z
  then bind (discard r1 len) (fun r2 _ => (r2, MOk false))
  else bind (ensure r1 len) (fun r2 _ =>
       let '(r3, data) := r_read r2 (Z.to_N len) in
       match data with
       | [] => (r3, MPanic)          (* data[0] on an empty slice *)
       | _ => (r3, MOk (bytes_eqb (strip_string data) secret_marker))
       end)).
Definition skip_string_is_marker (encrypted : bool) (r : reader) : reader * mres bool :=
  if encrypted then skip_lstr_is_marker r
  else skip_cstr_marker_loop (S (S (N.to_nat (avail r)))) r (Some secret_marker).

Fixpoint skip_loop (encrypted : bool) (fuel : nat) (left : Z) (r : reader) : reader * mres unit :=
  if (left <=? 0)%Z then (r, MOk tt) else
  match fuel with
  | O => (r, MErr MOther)
  | S f =>
      if finished r then (r, MErr MOther) else
      bind (skip_string_is_marker encrypted r) (fun r1 is_marker =>
      bind (if is_marker then skip_string encrypted r1 else (r1, MOk tt)) (fun r2 _ =>
      skip_loop encrypted f (left - 1) r2))
  end.
Definition skip_classad_raw (encrypted : bool) (r : reader) : reader * mres unit :=
  bind (get_int r) (fun r0 num =>
  bind (skip_loop encrypted (S (S (S (N.to_nat (avail r0))))) num r0) (fun r1 _ =>
  bind (skip_string encrypted r1) (fun r2 _ => skip_string encrypted r2))).

(* ---------- length-driven handshake readers -------------------------------- *)
(* security/auth.go exchangeKey, client side (after the fix) *)
Definition exchange_key_client (r : reader) : reader * mres unit :=
  bind (get_int r) (fun r1 hasKey =>
  if (hasKey =? 0)%Z then (r1, MOk tt) else
  bind (get_int r1) (fun r2 _keyLength =>
  bind (get_int r2) (fun r3 _protocol =>
  bind (get_int r3) (fun r4 _duration =>
  bind (get_int r4) (fun r5 inputLen =>
  if (inputLen <? 0)%Z then (r5, MErr MOther) else
  bind (get_bytes r5 inputLen) (fun r6 _ => (r6, MOk tt))))))).

(* security/ssl_auth.go CEDARTLSConnection.receiveMessage (after the fix) *)
Definition ssl_receive_message (r : reader) : reader * mres bytes :=
  bind (get_int r) (fun r1 _status =>
  bind (get_int r1) (fun r2 length =>
  if (length <? 0)%Z then (r2, MErr MOther) else get_bytes r2 length)).

(* security/token_auth.go getIDString (AUTH_PW_MAX_NAME_LEN passed in) *)
Definition get_id_string (encrypted : bool) (maxName : Z) (r : reader) : reader * mres bytes :=
  bind (get_int r) (fun r1 expected =>
  if (maxName <? expected)%Z then (r1, MErr MOther) else
  bind (get_string_max encrypted maxName r1) (fun r2 s =>
  if (Z.of_N (lenN s) =? expected)%Z then (r2, MOk s) else (r2, MErr MOther))).

(* ---------- frames on a raw connection (stream/stream.go) ------------------- *)
(* A connection is the byte string that will still arrive before the peer
   stops; io.ReadFull of n bytes fails iff fewer than n remain (and then has
   consumed them all).  [alloc] counts make() requests. *)
Record conn := { c_in : bytes; c_alloc : N }.
Inductive fres (A : Type) := FOk (a : A) | FErr | FPanic.
Arguments FOk {A} a. Arguments FErr {A}. Arguments FPanic {A}.

Definition c_make (c : conn) (n : N) : conn := {| c_in := c_in c; c_alloc := c_alloc c + n |}.
Definition c_read (c : conn) (n : N) : conn * option bytes :=
  if len_lt (c_in c) n then ({| c_in := []; c_alloc := c_alloc c |}, None)
  else ({| c_in := skipn (N.to_nat n) (c_in c); c_alloc := c_alloc c |},
        Some (firstn (N.to_nat n) (c_in c))).

Section Frames.
  (* encrypted = gcm != nil && encrypted; [open_ k hdr body] = decryptDataWithAAD
     of the k-th frame (None = authentication failure / too short) *)
  Variable encrypted : bool.
  Variable open_ : N -> bytes -> bytes -> option bytes.

  Definition max_wire : N := if encrypted then MaxMessageSize + 32 else MaxMessageSize.

  (* ReceiveFrameWithEnd *)
  Definition recv_frame (k : N) (c : conn) : conn * fres (bytes * N) :=
    match c_read (c_make c NormalHeaderSize) NormalHeaderSize with
    | (c1, None) => (c1, FErr)
    | (c1, Some hdr) =>
        match hdr with
        | flag :: lenb =>
            let len := be_dec lenb in
            if max_wire <? len then (c1, FErr)
            else if FlagMaxRecvWE <? b2n flag then (c1, FErr)
            else if len =? 0 then (if encrypted then (c1, FErr) else (c1, FOk ([], b2n flag)))
            else
              match c_read (c_make c1 len) len with
              | (c2, None) => (c2, FErr)
              | (c2, Some body) =>
                  if encrypted then
                    match open_ k hdr body with
                    | None => (c_make c2 69, FErr)
                    | Some p => (c_make c2 (69 + lenN p), FOk (p, b2n flag))
                    end
                  else (c2, FOk (body, b2n flag))
              end
        | [] => (c1, FPanic)          (* header[0] on an empty slice *)
        end
    end.

  (* readNextFrame (a loop after the fix): append frames until a non-partial one *)
  Fixpoint read_next_loop (fuel : nat) (k : N) (c : conn) (acc : bytes) : conn * fres (bytes * N) :=
    match fuel with
    | O => (c, FErr)
    | S f =>
        match recv_frame k c with
        | (c1, FOk (d, flag)) =>
            let c2 := c_make c1 (lenN d) in
            if flag =? EndFlagPartial then read_next_loop f (N.succ k) c2 (acc ++ d)
            else (c2, FOk (acc ++ d, N.succ k))
        | (c1, FErr) => (c1, FErr)
        | (c1, FPanic) => (c1, FPanic)
        end
    end.
  (* every delivered frame consumes at least its 5-byte header, so |c| + 1 steps suffice *)
  Definition frames_fuel (c : conn) : nat := S (N.to_nat (lenN (c_in c))).
  Definition read_next_frame (k : N) (c : conn) : conn * fres (bytes * N) :=
    read_next_loop (frames_fuel c) k c [].

  (* ReceiveCompleteMessage: flags other than 0/1 are an error *)
  Fixpoint recv_complete_loop (fuel : nat) (k : N) (c : conn) (acc : bytes) : conn * fres (bytes * N) :=
    match fuel with
    | O => (c, FErr)
    | S f =>
        match recv_frame k c with
        | (c1, FOk (d, flag)) =>
            let c2 := c_make c1 (lenN d) in
            if flag =? EndFlagComplete then (c2, FOk (acc ++ d, N.succ k))
            else if flag =? EndFlagPartial then recv_complete_loop f (N.succ k) c2 (acc ++ d)
            else (c2, FErr)
        | (c1, FErr) => (c1, FErr)
        | (c1, FPanic) => (c1, FPanic)
        end
    end.
  Definition receive_complete_message (k : N) (c : conn) : conn * fres (bytes * N) :=
    recv_complete_loop (frames_fuel c) k c [].
End Frames.

(* ---------- NewStreamWithCryptoState: the blob parser ------------------------ *)
(* result: Some (Some fields) = accepted, Some None = error, None = panic *)
Definition cs_magic : bytes := [n2b CsMagic0; n2b CsMagic1; n2b CsMagic2; n2b CsMagic3].
Definition obind {A B} (x : option A) (f : A -> option B) : option B :=
  match x with Some a => f a | None => None end.

(* readVar: uint16 length + that many bytes; allocation = n *)
Definition read_var (blob : bytes) (off : Z) : option (option (bytes * Z)) :=
  let len := Z.of_N (lenN blob) in
  if (len <? off + 2)%Z then Some None else
  obind (go_slice blob off (off + 2)) (fun lb =>
  let n := Z.of_N (be_dec lb) in
  let off := (off + 2)%Z in
  if (len <? off + n)%Z then Some None else
  obind (go_make n) (fun _ =>
  obind (go_slice blob off (off + n)) (fun v => Some (Some (v, (off + n)%Z))))).

Record cstate := { cs_flags : N; cs_key : bytes; cs_eiv : bytes; cs_div : bytes;
                   cs_ectr : N; cs_dctr : N; cs_sd : bytes; cs_rd : bytes; cs_peer : bytes }.

Definition parse_crypto_state (blob : bytes) : option (option (cstate * N)) :=
  if lenN blob <? CsFixedLen then Some None else
  obind (go_slice blob 0 4) (fun magic =>
  if negb (bytes_eqb magic cs_magic) then Some None else
  obind (go_slice blob 4 6) (fun ver =>
  if negb (be_dec ver =? CsVersion) then Some None else
  obind (go_index blob 6) (fun flags =>
  obind (go_slice blob 7 39) (fun key =>
  obind (go_slice blob 39 55) (fun eiv =>
  obind (go_slice blob 55 71) (fun div =>
  obind (go_slice blob 71 75) (fun ectr =>
  obind (go_slice blob 75 79) (fun dctr =>
  obind (read_var blob 79) (fun v1 =>
  match v1 with None => Some None | Some (sd, o1) =>
  obind (read_var blob o1) (fun v2 =>
  match v2 with None => Some None | Some (rd, o2) =>
  obind (read_var blob o2) (fun v3 =>
  match v3 with None => Some None | Some (peer, _) =>
    Some (Some ({| cs_flags := b2n flags; cs_key := key; cs_eiv := eiv; cs_div := div;
                   cs_ectr := be_dec ectr; cs_dctr := be_dec dctr;
                   cs_sd := sd; cs_rd := rd; cs_peer := peer |},
                32 + lenN sd + lenN rd + lenN peer))
  end) end) end))))))))).

(* ---------- text parsers ----------------------------------------------------- *)
(* strings.LastIndex / Index of a single byte: position or -1 *)
Fixpoint index_from (b : byte) (s : bytes) (i : Z) : Z :=
  match s with
  | [] => (-1)%Z
  | x :: r => if byte_eqb x b then i else index_from b r (i + 1)%Z
  end.
Definition index_byte (b : byte) (s : bytes) : Z := index_from b s 0.
Fixpoint last_index_from (b : byte) (s : bytes) (i : Z) (best : Z) : Z :=
  match s with
  | [] => best
  | x :: r => last_index_from b r (i + 1)%Z (if byte_eqb x b then i else best)
  end.
Definition last_index_byte (b : byte) (s : bytes) : Z := last_index_from b s 0 (-1).

(* security/claim_session.go ParseClaimIDStrict: (sessionID, sessionInfo, sessionKey);
   None = a slice expression panicked *)
Definition parse_claim_id_strict (c : bytes) : option (bytes * bytes * bytes) :=
  let n := Z.of_N (lenN c) in
  let lastHash := last_index_byte x23 c in
  if (lastHash <? 0)%Z then Some ([], [], []) else
  obind (go_slice c (lastHash + 1) n) (fun afterHash =>
  let lastBracket := last_index_byte x5d c in
  match afterHash with
  | b :: _ =>
      if byte_eqb b x5b && (lastHash <? lastBracket)%Z then
        obind (go_slice c 0 lastHash) (fun sid =>
        obind (go_slice c (lastHash + 1) (lastBracket + 1)) (fun info =>
        obind (go_slice c (lastBracket + 1) n) (fun key => Some (sid, info, key))))
      else Some ([], [], afterHash)
  | [] => Some ([], [], afterHash)
  end).

(* security/inherited_session.go ImportSessionInfoAttributes, one `name=value`
   item after splitting on ';' and trimming (after the fix: the quotes are only
   removed from a value of length >= 2): Some None = item skipped *)
Definition is_space (b : byte) : bool :=
  byte_eqb b x20 || byte_eqb b x09 || byte_eqb b x0a || byte_eqb b x0b || byte_eqb b x0c || byte_eqb b x0d.
Fixpoint trim_left (s : bytes) : bytes :=
  match s with b :: r => if is_space b then trim_left r else s | [] => [] end.
Definition trim_space (s : bytes) : bytes := rev' (trim_left (rev' (trim_left s))).
Definition last_byte (s : bytes) : option byte := match rev' s with b :: _ => Some b | [] => None end.
Definition has_prefix_q (s : bytes) : bool := match s with b :: _ => byte_eqb b x22 | [] => false end.
Definition has_suffix_q (s : bytes) : bool := match last_byte s with Some b => byte_eqb b x22 | None => false end.

Definition session_attr_item (item0 : bytes) : option (option (bytes * bytes)) :=
  let item := trim_space item0 in
  match item with
  | [] => Some None
  | _ =>
    let eqPos := index_byte x3d item in
    if (eqPos <=? 0)%Z then Some None else
    obind (go_slice item 0 eqPos) (fun nm =>
    obind (go_slice item (eqPos + 1) (Z.of_N (lenN item))) (fun v0 =>
    let v := trim_space v0 in
    if (2 <=? lenN v) && has_prefix_q v && has_suffix_q v then
      obind (go_slice v 1 (Z.of_N (lenN v) - 1)) (fun v' => Some (Some (trim_space nm, v')))
    else Some (Some (trim_space nm, v))))
  end.
Fixpoint split_on (b : byte) (s : bytes) (cur : bytes) : list bytes :=
  match s with
  | [] => [rev' cur]
  | x :: r => if byte_eqb x b then rev' cur :: split_on b r [] else split_on b r (x :: cur)
  end.
Definition trim_prefix_b (b : byte) (s : bytes) : bytes :=
  match s with x :: r => if byte_eqb x b then r else s | [] => [] end.
Definition trim_suffix_b (b : byte) (s : bytes) : bytes :=
  match rev' s with x :: r => if byte_eqb x b then rev' r else s | [] => [] end.
Fixpoint attr_items (items : list bytes) : option (list (bytes * bytes)) :=
  match items with
  | [] => Some []
  | it :: rest =>
      obind (session_attr_item it) (fun o =>
      obind (attr_items rest) (fun tl =>
      Some (match o with Some kv => kv :: tl | None => tl end)))
  end.
Definition import_session_info_attributes (info : bytes) : option (list (bytes * bytes)) :=
  match info with
  | [] => Some []
  | _ => attr_items (split_on x3b (trim_suffix_b x5d (trim_prefix_b x5b info)) [])
  end.
