(* Model/FrameSpec.v — histories over Model/Frame.v used by the property
   statements: well-formed application messages, the sender run of a history,
   the receiver reading n messages, wire projections. Definitions only. *)
From Coq Require Import List NArith Bool.
From Cedar Require Import Lib.Bytes Lib.Sym gen.Consts Model.Frame.
Import ListNotations.
Local Open Scope N_scope.

(* an application message, as the sender assembles it *)
Inductive msg :=
| Buffered (chunks : list bytes)                   (* StartMessage; WriteMessage c ...; EndMessage *)
| Direct (partials : list bytes) (last : bytes).   (* SendPartialMessage p ...; SendMessage last *)

Definition payload_of (m : msg) : bytes :=
  match m with
  | Buffered cs => concat cs
  | Direct ps l => concat ps ++ l
  end.

(* fold a frame-producing step, stopping at the first error *)
Fixpoint writes (s : stream) (cs : list bytes) : stream * sres (list frame) :=
  match cs with
  | [] => (s, SOk [])
  | c :: r =>
      match write_message s c with
      | (s1, SOk fs) =>
          match writes s1 r with
          | (s2, SOk fs2) => (s2, SOk (fs ++ fs2))
          | (s2, SErr e) => (s2, SErr e)
          end
      | (s1, SErr e) => (s1, SErr e)
      end
  end.
Fixpoint partials (s : stream) (ps : list bytes) : stream * sres (list frame) :=
  match ps with
  | [] => (s, SOk [])
  | p :: r =>
      match send_frame s p EndFlagPartial with
      | (s1, SOk f) =>
          match partials s1 r with
          | (s2, SOk fs2) => (s2, SOk (f :: fs2))
          | (s2, SErr e) => (s2, SErr e)
          end
      | (s1, SErr e) => (s1, SErr e)
      end
  end.

Definition send_msg (s : stream) (m : msg) : stream * sres (list frame) :=
  match m with
  | Buffered cs =>
      match writes (start_message s) cs with
      | (s1, SOk fs) =>
          match end_message s1 with
          | (s2, SOk fs2) => (s2, SOk (fs ++ fs2))
          | (s2, SErr e) => (s2, SErr e)
          end
      | (s1, SErr e) => (s1, SErr e)
      end
  | Direct ps l =>
      match partials s ps with
      | (s1, SOk fs) =>
          match send_frame s1 l EndFlagComplete with
          | (s2, SOk f) => (s2, SOk (fs ++ [f]))
          | (s2, SErr e) => (s2, SErr e)
          end
      | (s1, SErr e) => (s1, SErr e)
      end
  end.

Fixpoint send_all (s : stream) (h : list msg) : stream * sres (list frame) :=
  match h with
  | [] => (s, SOk [])
  | m :: r =>
      match send_msg s m with
      | (s1, SOk fs) =>
          match send_all s1 r with
          | (s2, SOk fs2) => (s2, SOk (fs ++ fs2))
          | (s2, SErr e) => (s2, SErr e)
          end
      | (s1, SErr e) => (s1, SErr e)
      end
  end.

(* the three whole-message receive APIs *)
Inductive rapi := ApiComplete | ApiStartReadEnd | ApiMessage.

(* StartMessageRead; ReadMessageBytes (whole buffer); EndMessageRead *)
Definition recv_sre (s : stream) (fs : list frame) : stream * sres bytes * list frame :=
  match start_read s fs with
  | (s1, SOk _, r) =>
      let n := lenN (recv_buf s1) in
      if n =? 0 then
        match end_read s1 with
        | (s2, SOk _) => (s2, SOk [], r)
        | (s2, SErr e) => (s2, SErr e, r)
        end
      else
      match read_bytes s1 n r with
      | (s2, SOk b, r2) =>
          match end_read s2 with
          | (s3, SOk _) => (s3, SOk b, r2)
          | (s3, SErr e) => (s3, SErr e, r2)
          end
      | (s2, SErr e, r2) => (s2, SErr e, r2)
      end
  | (s1, SErr e, r) => (s1, SErr e, r)
  end.

(* Message.GetRemainingBytes over Stream.ReadFrame: frames until a non-zero end flag *)
Fixpoint recv_msg_frames (s : stream) (acc : bytes) (fs : list frame) : stream * sres bytes * list frame :=
  match fs with
  | [] => (s, SErr EEOF, [])
  | f :: r =>
      match recv_frame_we s f with
      | (s1, SOk (d, fl)) =>
          if fl =? 0 then recv_msg_frames s1 (acc ++ d) r else (s1, SOk (acc ++ d), r)
      | (s1, SErr e) => (s1, SErr e, r)
      end
  end.

Definition recv_one (api : rapi) (s : stream) (fs : list frame) : stream * sres bytes * list frame :=
  match api with
  | ApiComplete => recv_complete s [] fs
  | ApiStartReadEnd => recv_sre s fs
  | ApiMessage => recv_msg_frames s [] fs
  end.

(* read up to n messages; returns those delivered before the first error *)
Fixpoint recv_upto (api : rapi) (s : stream) (n : nat) (fs : list frame)
  : stream * list bytes * option serr * list frame :=
  match n with
  | O => (s, [], None, fs)
  | S n' =>
      match recv_one api s fs with
      | (s1, SOk b, r) =>
          let '(s2, got, e, r2) := recv_upto api s1 n' r in (s2, b :: got, e, r2)
      | (s1, SErr e, r) => (s1, [], Some e, r)
      end
  end.

(* sender operations *)
Inductive sop :=
| OSend (d : bytes) | OPartial (d : bytes) | OWrite (d : bytes) | OEnd | OStart
| OSecret (d : bytes) | OSetCrypto (b : bool).

Definition run_sop (s : stream) (o : sop) : stream * N * list frame :=
  match o with
  | OSend d => match send_frame s d EndFlagComplete with
               | (s1, SOk f) => (s1, 0, [f]) | (s1, SErr _) => (s1, 1, []) end
  | OPartial d => match send_frame s d EndFlagPartial with
                  | (s1, SOk f) => (s1, 0, [f]) | (s1, SErr _) => (s1, 1, []) end
  | OWrite d => match write_message s d with
                | (s1, SOk fs) => (s1, 0, fs) | (s1, SErr _) => (s1, 1, []) end
  | OEnd => match end_message s with
            | (s1, SOk fs) => (s1, 0, fs) | (s1, SErr _) => (s1, 1, []) end
  | OStart => (start_message s, 0, [])
  | OSecret d =>
      let s1 := prepare_secret s in
      match send_frame s1 (d ++ [x00]) EndFlagComplete with
      | (s2, SOk f) => (restore_secret s2, 0, [f])
      | (s2, SErr _) => (restore_secret s2, 1, [])
      end
  | OSetCrypto b =>
      if b then match key s with
                | Some _ => (upd_enc s true (before_secret s), 0, [])
                | None => (s, 1, [])
                end
      else (upd_enc s false (before_secret s), 0, [])
  end.

Fixpoint run_sops (s : stream) (ops : list sop) : stream * list N * list frame :=
  match ops with
  | [] => (s, [], [])
  | o :: r =>
      let '(s1, e, fs) := run_sop s o in
      let '(s2, es, fs2) := run_sops s1 r in
      (s2, e :: es, fs ++ fs2)
  end.


(* wire projections *)
Definition cts_of (fs : list frame) : list ctext :=
  flat_map (fun f => match f_body f with Ct _ c => [c] | Raw _ => [] end) fs.
Definition nonce_of_ct (c : ctext) : bytes * bytes := match c with Seal k n _ _ => (k, n) end.
Definition key_nonces (fs : list frame) : list (bytes * bytes) := map nonce_of_ct (cts_of fs).
