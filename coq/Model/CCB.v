(* Model/CCB.v — executable model of the CCB requester (ccb/requester.go,
   ccb/nested.go, ccb/ccb.go GenerateConnectID).  Definitions only.

   Go function                          Gallina
   -----------------------------------  ------------------------------------
   GenerateConnectID                    connect_id (random bytes are an input)
   readReverseConnect + AdString        greeting, ad_string, hello_matches
   acceptReversed                       accept_reversed
   readBrokerFailure                    reply
   dialStandard (select loop, defers)   att_step / run_attempt / finish
   proxyRequestOnStream                 proxy_request
   dialProxy / proxyRequestDial         proxy_attempt
   dialOne                              dial_mode
   Dial (launch/stagger/result loop)    dial_step / run_dial
   Stream.ReceiveFrameWithEnd (clear)   split_frames        (bytes -> Msg.v frames)
   GetClassAdWithMaxSize (no key)       read_ad             (over Msg.v / Decode.v readers)
   readReverseConnect +
   ReadReverseConnectAd + AdString      decode_frames / decode_wire / decode_greeting

   Connections are labelled by the peer that opened them ([peer]); what a
   connection sends first is a [greeting].  Scheduling (arrival order, which
   ready branch a select takes, timer firing, cancellation) is an explicit
   event list, so every theorem over "all lists" is a theorem over all
   interleavings. *)
From Coq Require Import List NArith ZArith Bool.
From Cedar Require Import Lib.Bytes gen.FactsC20.
From Cedar Require gen.Consts Model.Msg Model.Decode.
Import ListNotations.

Definition peer := N.

(* ---- connect ids ------------------------------------------------------- *)

Definition hexdigit (n : N) : byte :=
  match n with
  | 0 => x30 | 1 => x31 | 2 => x32 | 3 => x33 | 4 => x34 | 5 => x35 | 6 => x36 | 7 => x37
  | 8 => x38 | 9 => x39 | 10 => x61 | 11 => x62 | 12 => x63 | 13 => x64 | 14 => x65 | _ => x66
  end%N.
Definition hex_byte (b : byte) : bytes :=
  [hexdigit (b2n b / 16); hexdigit (b2n b mod 16)].
Definition hex_enc (bs : bytes) : bytes := flat_map hex_byte bs.

(* GenerateConnectID: hex of the bytes read from crypto/rand (an input here). *)
Definition connect_id (rnd : bytes) : bytes := hex_enc rnd.

(* ---- the opening message of a connection -------------------------------- *)

Inductive greeting :=
| GHello (cmd : Z) (claim : option bytes) (* one well-formed message: command int, ClassAd;
                                             claim = string value of ClaimId if present and a string *)
| GMalformed                              (* bytes that are not a CEDAR message / ClassAd *)
| GClosed                                 (* closed before a complete message *)
| GStall.                                 (* incomplete message, then silence *)

(* AdString: "" when the attribute is absent or not a string *)
Definition ad_string (c : option bytes) : bytes :=
  match c with Some s => s | None => [] end.

(* readReverseConnect succeeded, command is CCB_REVERSE_CONNECT, ClaimId == connectID *)
Definition hello_matches (id : bytes) (g : greeting) : bool :=
  match g with
  | GHello cmd c => Z.eqb cmd ccb_reverse_connect && bytes_eqb (ad_string c) id
  | _ => false
  end.

(* ---- acceptReversed ------------------------------------------------------ *)

Inductive arrival :=
| AConn (p : peer) (g : greeting) (* Accept returns p *)
| ACancel (blocked : bool)        (* ctx becomes done; blocked: the loop is already inside Accept *)
| AListenErr.                     (* Accept fails (listener closed) *)

Inductive acc_err := EAccept | ECtx.
Inductive acc_result := AccConn (p : peer) | AccErr (e : acc_err) | AccPending.

(* result and the connections closed by the loop, in order *)
Fixpoint accept_reversed (id : bytes) (cancelled : bool) (arr : list arrival)
  : acc_result * list peer :=
  match arr with
  | [] => (AccPending, [])
  | AListenErr :: _ => (AccErr EAccept, [])
  | ACancel blocked :: r =>
      if blocked then accept_reversed id true r else (AccErr ECtx, [])
  | AConn p g :: r =>
      if cancelled then (AccErr ECtx, [p])        (* the read fails at once; closed; loop top returns *)
      else match g with
           | GStall => (AccErr ECtx, [p])         (* read blocks until ctx is done; closed *)
           | _ => if hello_matches id g then (AccConn p, [])
                  else let '(res, cl) := accept_reversed id false r in (res, p :: cl)
           end
  end.

(* ---- one standard-mode attempt: dialStandard ---------------------------- *)

Inductive reply := ROk | RFail (msg : bytes) | RUnreadable.

Inductive att_err :=
| AeBroker (msg : bytes) (* broker sent {Result:false, ErrorString:msg} *)
| AeBrokerRead           (* broker connection closed / unreadable reply *)
| AeTimeout              (* ctx done *)
| AeAccept               (* listener failed *)
| AeProxyRefused (msg : bytes) | AeProxyUnsupported | AeProxyHello | AeProxyMismatch.

Inductive att_result := Returned (p : peer) | Failed (e : att_err).

Inductive acc_state := AsWaiting | AsStalled (p : peer) | AsDone (r : acc_result).

Record att_state := mkAtt {
  as_acc : acc_state;        (* the accept goroutine *)
  as_reply_open : bool;      (* replyCh still selected on *)
  as_ctx_done : bool;
  as_closed : list peer;     (* closed by the accept loop *)
  as_backlog : list peer     (* reached the listener, never accepted *)
}.

Record outcome := mkOut { o_res : att_result; o_closed : list peer }.

Inductive att := Running (s : att_state) | Finished (o : outcome).

Definition att_init : att_state := mkAtt AsWaiting true false [] [].

Inductive sev :=
| SArrive (p : peer) (g : greeting) (* a connection reaches the reverse listener *)
| SListenErr
| SCtxDone                          (* timeout / cancellation of the dial context *)
| SPickAccept                       (* select takes acceptCh *)
| SPickReply (r : reply)            (* select takes replyCh; r = what the broker sent *)
| SPickDone.                        (* select takes ctx.Done *)

(* teardown when dialStandard returns: ln.Close (backlog reset), the stalled
   read dies with the context, and a connection the accept goroutine matched
   but that was not taken from acceptCh is closed by the reaper *)
Definition finish (s : att_state) (res : att_result) : outcome :=
  let stalled := match as_acc s with AsStalled p => [p] | _ => [] end in
  let reaped := match as_acc s, res with
                | AsDone (AccConn p), Failed _ => [p]
                | _, _ => []
                end in
  mkOut res (as_closed s ++ as_backlog s ++ stalled ++ reaped).

Definition att_step (id : bytes) (a : att) (e : sev) : att :=
  match a with
  | Finished o =>
      match e with
      | SArrive p _ => Finished (mkOut (o_res o) (o_closed o ++ [p]))  (* refused: listener is gone *)
      | _ => a
      end
  | Running s =>
      match e with
      | SArrive p g =>
          match as_acc s with
          | AsWaiting =>
              if as_ctx_done s then
                Running (mkAtt (AsDone (AccErr ECtx)) (as_reply_open s) true (as_closed s ++ [p]) (as_backlog s))
              else match g with
                   | GStall => Running (mkAtt (AsStalled p) (as_reply_open s) false (as_closed s) (as_backlog s))
                   | _ => if hello_matches id g
                          then Running (mkAtt (AsDone (AccConn p)) (as_reply_open s) false (as_closed s) (as_backlog s))
                          else Running (mkAtt AsWaiting (as_reply_open s) false (as_closed s ++ [p]) (as_backlog s))
                   end
          | _ => Running (mkAtt (as_acc s) (as_reply_open s) (as_ctx_done s) (as_closed s) (as_backlog s ++ [p]))
          end
      | SListenErr =>
          match as_acc s with
          | AsWaiting => Running (mkAtt (AsDone (AccErr EAccept)) (as_reply_open s) (as_ctx_done s) (as_closed s) (as_backlog s))
          | _ => a
          end
      | SCtxDone =>
          match as_acc s with
          | AsStalled p => Running (mkAtt (AsDone (AccErr ECtx)) (as_reply_open s) true (as_closed s ++ [p]) (as_backlog s))
          | acc => Running (mkAtt acc (as_reply_open s) true (as_closed s) (as_backlog s))
          end
      | SPickAccept =>
          match as_acc s with
          | AsDone (AccConn p) => Finished (finish s (Returned p))
          | AsDone (AccErr ECtx) => Finished (finish s (Failed AeTimeout))
          | AsDone (AccErr EAccept) => Finished (finish s (Failed AeAccept))
          | _ => a
          end
      | SPickReply r =>
          if as_reply_open s then
            if as_ctx_done s then Finished (finish s (Failed AeTimeout)) (* the read died with the context *)
            else match r with
                 | ROk => Running (mkAtt (as_acc s) false (as_ctx_done s) (as_closed s) (as_backlog s))
                 | RFail m => Finished (finish s (Failed (AeBroker m)))
                 | RUnreadable => Finished (finish s (Failed AeBrokerRead))
                 end
          else a
      | SPickDone =>
          if as_ctx_done s then Finished (finish s (Failed AeTimeout)) else a
      end
  end.

Definition run_attempt_from (id : bytes) (a : att) (sched : list sev) : att :=
  fold_left (att_step id) sched a.
Definition run_attempt (id : bytes) (sched : list sev) : att :=
  run_attempt_from id (Running att_init) sched.

Definition att_outcome (a : att) : option outcome :=
  match a with Finished o => Some o | Running _ => None end.

(* ---- proxied mode: proxyRequestOnStream / dialProxy / proxyRequestDial ---- *)

(* [PrOk echo]: {Result:true}; echo = the string value of a ClaimId attribute the
   reply happens to carry (any other extra attribute is equally irrelevant).  The
   requester never consults it: the hello is checked against the id it generated. *)
Inductive preply := PrOk (echo : option bytes) | PrFail (msg : bytes) | PrUnsupported | PrUnreadable.

(* the broker connection is returned only after {Result:true} and the matching hello *)
Definition proxy_request (id : bytes) (rep : preply) (hello : greeting) : option att_err :=
  match rep with
  | PrUnreadable => Some AeBrokerRead
  | PrFail m => Some (AeProxyRefused m)
  | PrUnsupported => Some AeProxyUnsupported
  | PrOk _ =>
      match hello with
      | GHello cmd c =>
          if Z.eqb cmd ccb_reverse_connect
          then if bytes_eqb (ad_string c) id then None else Some AeProxyMismatch
          else Some AeProxyHello
      | _ => Some AeProxyHello
      end
  end.

(* dialProxy: the broker connection [b] is handed off on success, closed otherwise *)
Definition proxy_attempt (id : bytes) (b : peer) (rep : preply) (hello : greeting) : outcome :=
  match proxy_request id rep hello with
  | None => mkOut (Returned b) []
  | Some e => mkOut (Failed e) [b]
  end.

(* the whole sequence of messages the broker socket delivers after the reply:
   only the first one is read; it decides.  Nothing at all = closed. *)
Definition proxy_attempt_stream (id : bytes) (b : peer) (rep : preply) (hellos : list greeting) : outcome :=
  match hellos with
  | [] => proxy_attempt id b rep GClosed
  | g :: _ => proxy_attempt id b rep g
  end.

Inductive mode := MStandard | MProxy | MNested.
(* dialOne: a broker address that still carries '#' is resolved by one
   streaming request to the entry broker; else ProxyReturnAddr decides *)
Definition dial_mode (broker_has_hash proxy_addr_set : bool) : mode :=
  if broker_has_hash then MNested else if proxy_addr_set then MProxy else MStandard.

(* ---- Dial: staggered attempts, first success wins ------------------------ *)

Inductive dev :=
| DResult (i : nat) (* attempt i's result is taken from the results channel *)
| DStagger          (* the stagger timer fires *)
| DCtxDone.

Inductive dial_res :=
| DReturned (i : nat) (p : peer)
| DAllFailed (errs : list att_err)
| DTimedOut.

Record dial_state := mkDial {
  d_next : nat;             (* attempts launched so far *)
  d_reported : list nat;    (* attempts whose result has been taken *)
  d_errs : list att_err
}.

Inductive dial := DRunning (s : dial_state) | DDone (r : dial_res) (launched : nat) (reported : list nat).

Definition mem_nat (i : nat) (l : list nat) : bool := existsb (Nat.eqb i) l.

(* results: what attempt i delivers if and when it finishes (None: never) *)
Definition dial_step (sequential : bool) (results : list (option outcome)) (d : dial) (e : dev) : dial :=
  match d with
  | DDone _ _ _ => d
  | DRunning s =>
      let n := length results in
      match e with
      | DCtxDone => DDone DTimedOut (d_next s) (d_reported s)
      | DStagger =>
          if negb sequential && Nat.ltb (d_next s) n
          then DRunning (mkDial (S (d_next s)) (d_reported s) (d_errs s))
          else d
      | DResult i =>
          if Nat.ltb i (d_next s) && negb (mem_nat i (d_reported s)) then
            match nth_error results i with
            | Some (Some o) =>
                match o_res o with
                | Returned p => DDone (DReturned i p) (d_next s) (i :: d_reported s)
                | Failed err =>
                    let errs := d_errs s ++ [err] in
                    let rep := i :: d_reported s in
                    if Nat.ltb (d_next s) n
                    then DRunning (mkDial (S (d_next s)) rep errs)
                    else if Nat.eqb (length rep) (d_next s)
                         then DDone (DAllFailed errs) (d_next s) rep
                         else DRunning (mkDial (d_next s) rep errs)
                end
            | _ => d
            end
          else d
      end
  end.

Definition dial_init : dial := DRunning (mkDial 1 [] []).

Definition run_dial (sequential : bool) (results : list (option outcome)) (sched : list dev) : dial :=
  match results with
  | [] => DDone (DAllFailed []) 0 []       (* Dial rejects an empty contact list before any attempt *)
  | _ => fold_left (dial_step sequential results) sched dial_init
  end.

(* connections of launched attempts that finished with a connection but lost:
   taken from the results channel and closed by Dial's drain *)
Fixpoint losers_from (k : nat) (launched : nat) (reported : list nat) (results : list (option outcome)) : list peer :=
  match results with
  | [] => []
  | r :: rest =>
      let tl := losers_from (S k) launched reported rest in
      if Nat.ltb k launched && negb (mem_nat k reported) then
        match r with
        | Some o => match o_res o with Returned p => p :: tl | Failed _ => tl end
        | None => tl
        end
      else tl
  end.

Definition dial_drained (results : list (option outcome)) (d : dial) : list peer :=
  match d with
  | DDone _ launched reported => losers_from 0 launched reported results
  | DRunning _ => []
  end.

(* the whole dial: attempt i runs with its own connect id on its own schedule *)
Definition attempt_outcomes (atts : list (bytes * list sev)) : list (option outcome) :=
  map (fun a => att_outcome (run_attempt (fst a) (snd a))) atts.

Definition dial_full (sequential : bool) (atts : list (bytes * list sev)) (sched : list dev) : dial :=
  run_dial sequential (attempt_outcomes atts) sched.

(* ======================================================================== *)
(* ---- the opening message ON THE WIRE: bytes -> greeting ------------------ *)
(* readReverseConnect (ccb.go): msg.GetInt, then ReadReverseConnectAd: the
   command must be CommandReverseConnect, then GetClassAdWithMaxSize
   (maxControlAdSize); the requester then takes AdString(ad, "ClaimId").
   Typed values are those of Model/Msg.v (get_int = the 8-byte big-endian
   two's-complement reader), bounded strings those of Model/Decode.v
   (get_string_max, C13's model of GetStringWithMaxSize).  The reverse
   connection is a fresh cleartext stream (no key).

   External, hence parameters (quantified in the theorems, a concrete simple
   instance below for the correspondence run): the ClassAd expression parser
   [parses] (parseAndInsertExpression returns nil) and the evaluator
   [claim_of] (string value of ClaimId in the ad built from the accepted
   expression strings; None when absent or not a string). *)

Inductive wire_tail := TClosed | TSilent.      (* after its bytes the peer closes / stays silent *)
Inductive frames_end := FeClean | FeTrunc | FeBad.

(* Stream.ReceiveFrameWithEnd on a cleartext stream, as often as the bytes
   allow: 5-byte header (end flag, 4-byte big-endian length); a length above
   MaxMessageSize or an end flag above 10 is an error; ReadFrame: EOM iff the
   end flag is not 0.  The frames before the first bad / incomplete one are
   delivered (the reader pulls frames lazily). *)
Fixpoint split_frames (fuel : nat) (w : bytes) : list Msg.mframe * frames_end :=
  match fuel with
  | O => ([], FeTrunc)
  | S f =>
      match w with
      | [] => ([], FeClean)
      | flag :: l0 :: l1 :: l2 :: l3 :: rest =>
          let len := be_dec [l0; l1; l2; l3] in
          if (Consts.MaxMessageSize <? len)%N then ([], FeBad)
          else if (Consts.FlagMaxRecvWE <? b2n flag)%N then ([], FeBad)
          else if Msg.len_lt rest len then ([], FeTrunc)
          else let '(fs, e) := split_frames f (skipn (N.to_nat len) rest) in
               ((firstn (N.to_nat len) rest, negb (b2n flag =? 0)%N) :: fs, e)
      | _ => ([], FeTrunc)
      end
  end.
Definition frames_of (w : bytes) : list Msg.mframe * frames_end := split_frames (S (length w)) w.

Definition secret_marker_c20 : bytes := [x5a; x4b; x4d].   (* "ZKM" *)

(* one budgeted string of getClassAdFromMessageWithMaxSize: remainingBytes :=
   maxSize - totalBytesRead; <= 0 is an error; else GetStringWithMaxSize *)
Definition budget_str (cap total : Z) (r : Msg.reader) : Msg.reader * Msg.mres bytes :=
  if (cap - total <=? 0)%Z then (r, Msg.MErr Msg.MOther)
  else Decode.get_string_max false (cap - total) r.
Definition charge_str (total : Z) (s : bytes) : Z := (total + Z.of_N (lenN s) + 1)%Z.

(* the expression loop "for i := 0; i < int(numExprs); i++"; [left] = numExprs - i.
   Every iteration charges at least one byte, so after [cap] iterations the
   budget test fails: fuel cap+1 is never exhausted before that. *)
Fixpoint read_exprs (parses : bytes -> bool) (cap : Z) (fuel : nat) (left : Z) (r : Msg.reader)
         (total : Z) (acc : list bytes) : Msg.reader * Msg.mres (list bytes * Z) :=
  if (left <=? 0)%Z then (r, Msg.MOk (rev acc, total)) else
  match fuel with
  | O => (r, Msg.MErr Msg.MOther)
  | S f =>
      match budget_str cap total r with
      | (r1, Msg.MOk s) =>
          let total1 := charge_str total s in
          if bytes_eqb s secret_marker_c20 then
            match budget_str cap total1 r1 with     (* getSecretStringWithMaxSize: no key, the toggle is a no-op *)
            | (r2, Msg.MOk s2) =>
                if parses s2 then read_exprs parses cap f (left - 1)%Z r2 (charge_str total1 s2) (s2 :: acc)
                else (r2, Msg.MErr Msg.MOther)
            | (r2, Msg.MErr e) => (r2, Msg.MErr e)
            | (r2, Msg.MPanic) => (r2, Msg.MPanic)
            end
          else if parses s then read_exprs parses cap f (left - 1)%Z r1 total1 (s :: acc)
          else (r1, Msg.MErr Msg.MOther)
      | (r1, Msg.MErr e) => (r1, Msg.MErr e)
      | (r1, Msg.MPanic) => (r1, Msg.MPanic)
      end
  end.

(* GetClassAdWithMaxSize(cap), cap > 0: expression count, expressions, MyType,
   TargetType (both only Set as attributes of those names; they are read under
   the same budget).  Result: the accepted expression strings. *)
Definition read_ad (parses : bytes -> bool) (cap : Z) (r : Msg.reader) : Msg.reader * Msg.mres (list bytes) :=
  match Msg.get_int r with
  | (r1, Msg.MOk n) =>
      match read_exprs parses cap (S (Z.to_nat cap)) n r1 0%Z [] with
      | (r2, Msg.MOk (es, total)) =>
          match budget_str cap total r2 with
          | (r3, Msg.MOk my) =>
              match budget_str cap (charge_str total my) r3 with
              | (r4, Msg.MOk _) => (r4, Msg.MOk es)
              | (r4, Msg.MErr e) => (r4, Msg.MErr e)
              | (r4, Msg.MPanic) => (r4, Msg.MPanic)
              end
          | (r3, Msg.MErr e) => (r3, Msg.MErr e)
          | (r3, Msg.MPanic) => (r3, Msg.MPanic)
          end
      | (r2, Msg.MErr e) => (r2, Msg.MErr e)
      | (r2, Msg.MPanic) => (r2, Msg.MPanic)
      end
  | (r1, Msg.MErr e) => (r1, Msg.MErr e)
  | (r1, Msg.MPanic) => (r1, Msg.MPanic)
  end.

(* what readReverseConnect + AdString deliver from the frames of a connection *)
Inductive decoded :=
| DcHello (cmd : Z) (claim : option bytes)   (* cmd <> CCB_REVERSE_CONNECT: the ad is not read, claim = None *)
| DcBad                                      (* read / parse error with the bytes at hand *)
| DcConn                                     (* the frames ran out: ReadFrame failed *)
| DcPanic.

Definition decode_frames (parses : bytes -> bool) (claim_of : list bytes -> option bytes) (cap : Z)
           (fs : list Msg.mframe) : decoded :=
  match Msg.get_int (Msg.reader_of fs) with
  | (r1, Msg.MOk cmd) =>
      if Z.eqb cmd ccb_reverse_connect then
        match read_ad parses cap r1 with
        | (_, Msg.MOk es) => DcHello cmd (claim_of es)
        | (_, Msg.MErr Msg.MConn) => DcConn
        | (_, Msg.MErr _) => DcBad
        | (_, Msg.MPanic) => DcPanic
        end
      else DcHello cmd None
  | (_, Msg.MErr Msg.MConn) => DcConn
  | (_, Msg.MErr _) => DcBad
  | (_, Msg.MPanic) => DcPanic
  end.

(* bytes + what the peer does after them -> the [greeting] of the accept loop.
   A Go panic in the reader would not be a greeting at all: it is kept apart
   (GMalformed is NOT used for it) by [decode_panics]. *)
Definition decode_wire (parses : bytes -> bool) (claim_of : list bytes -> option bytes) (cap : Z)
           (tail : wire_tail) (w : bytes) : greeting :=
  let '(fs, fe) := frames_of w in
  match decode_frames parses claim_of cap fs with
  | DcHello cmd c => GHello cmd c
  | DcBad | DcPanic => GMalformed
  | DcConn =>
      match fe with
      | FeBad => GMalformed
      | _ => match tail with TClosed => GClosed | TSilent => GStall end
      end
  end.
Definition decode_panics (parses : bytes -> bool) (claim_of : list bytes -> option bytes) (cap : Z) (w : bytes) : bool :=
  match decode_frames parses claim_of cap (fst (frames_of w)) with DcPanic => true | _ => false end.

(* a connection that sent exactly these bytes and keeps the socket open *)
Definition decode_greeting (parses : bytes -> bool) (claim_of : list bytes -> option bytes) (cap : Z)
           (w : bytes) : greeting := decode_wire parses claim_of cap TSilent w.

(* ---- a concrete simple instance of the external parser / evaluator ------- *)
(* Used by the correspondence run only, on ads whose expressions are
   "Name = <integer | "string without quote or backslash">": split at the first
   '=', TrimSpace both sides, attribute names compare case-insensitively, a
   later assignment replaces an earlier one. *)
Definition is_space (b : byte) : bool :=
  let n := b2n b in ((n =? 32) || ((9 <=? n) && (n <=? 13)))%N.
Fixpoint trim_left (s : bytes) : bytes :=
  match s with [] => [] | b :: r => if is_space b then trim_left r else s end.
Definition trim (s : bytes) : bytes := rev (trim_left (rev (trim_left s))).
Fixpoint split_at_eq (s acc : bytes) : option (bytes * bytes) :=
  match s with
  | [] => None
  | b :: r => if byte_eqb b x3d then Some (rev acc, r) else split_at_eq r (b :: acc)
  end.
Definition lower (b : byte) : byte :=
  let n := b2n b in if ((65 <=? n) && (n <=? 90))%N then n2b (n + 32) else b.
Definition simple_parses (s : bytes) : bool :=
  match split_at_eq s [] with
  | Some (name, _) => match trim name with [] => false | _ => true end
  | None => false
  end.
Definition claimid_lc : bytes := [x63; x6c; x61; x69; x6d; x69; x64].   (* "claimid" *)
Definition plain_string_char (b : byte) : bool := negb (byte_eqb b x22) && negb (byte_eqb b x5c).
Definition simple_string (v : bytes) : option bytes :=
  match v with
  | q :: r =>
      if byte_eqb q x22 then
        match rev r with
        | q2 :: inner => if byte_eqb q2 x22 && forallb plain_string_char inner then Some (rev inner) else None
        | [] => None
        end
      else None
  | [] => None
  end.
Fixpoint simple_claim_acc (es : list bytes) (cur : option bytes) : option bytes :=
  match es with
  | [] => cur
  | e :: r =>
      match split_at_eq e [] with
      | Some (name, v) =>
          if bytes_eqb (map lower (trim name)) claimid_lc
          then simple_claim_acc r (simple_string (trim v))
          else simple_claim_acc r cur
      | None => simple_claim_acc r cur
      end
  end.
Definition simple_claim_of (es : list bytes) : option bytes := simple_claim_acc es None.
