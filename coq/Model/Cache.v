(* Model/Cache.v — security/session_cache.go and the client side of
   security/auth.go (ClientHandshake, storeClientSession, resumeSession) and the
   retry loop of client/client.go ConnectAndAuthenticateWithConfig, as a state
   machine with an explicit clock.

   Go                               Gallina
   SessionEntry                     entry        (policy: only the attributes the code reads back)
   SessionCache{sessions,commandMap} cache       (association lists, newest first)
   IsExpired / RenewLease           is_expired / renew_lease
   Store (same entry / another entry) / Lookup / LookupNonExpired / LookupByCommand / MapCommand /
   Invalidate / InvalidateExpired   store, store_new / lookup / lookup_nonexpired / lookup_by_command /
                                    map_command / invalidate / invalidate_expired
   the key strings                  cmd_key      (the real bytes "{tag,addr,<cmd>}" / "{addr,<cmd>}")
   storeClientSession               store_client_session
   resumeSession (cache effects)    resume_session
   ClientHandshake                  client_handshake
   ConnectAndAuthenticateWithConfig connect_and_authenticate

   Strings are byte lists.  Time is whole seconds in Z; a zero time.Time
   ("never expires") is None.  What the peer does is a parameter (an oracle),
   so every statement about the client holds against every peer.
   Definitions only. *)
From Coq Require Import List NArith ZArith Bool.
From Cedar Require Import Lib.Bytes.
Import ListNotations.
Local Open Scope Z_scope.

Definition str := bytes.

Record key_info := { k_data : bytes; k_proto : str }.

(* attributes of the cached policy ad that resumption reads back *)
Record policy := {
  p_authenticated : option bool;   (* "Authenticated" (server side only) *)
  p_user : option str;             (* "User" *)
  p_valid : option str;            (* "ValidCommands" (server side only) *)
  p_authmethods : option str;      (* "AuthMethods" *)
  p_crypto : option str;           (* "CryptoMethods" *)
  p_client_side : option bool      (* "CedarClientSideSession": the record storeClientSession makes *)
}.

Record entry := {
  e_id : str; e_addr : str; e_tag : str;
  e_key : option key_info;
  e_policy : option policy;
  e_exp : option Z;                (* None = zero time: never expires *)
  e_lease : Z
}.

Record cache := { c_sessions : list entry; c_cmdmap : list (str * str) }.
Definition empty_cache : cache := {| c_sessions := []; c_cmdmap := [] |}.

(* ---- SessionEntry ------------------------------------------------------ *)
(* IsExpired: expiration.IsZero() ? false : time.Now().After(expiration) *)
Definition is_expired (e : entry) (now : Z) : bool :=
  match e_exp e with None => false | Some t => t <? now end.

Definition set_exp (e : entry) (x : option Z) : entry :=
  {| e_id := e_id e; e_addr := e_addr e; e_tag := e_tag e; e_key := e_key e;
     e_policy := e_policy e; e_exp := x; e_lease := e_lease e |}.

(* RenewLease: if lease != 0 { expiration = now + lease } *)
Definition renew_lease (e : entry) (now : Z) : entry :=
  if e_lease e =? 0 then e else set_exp e (Some (now + e_lease e)).

(* isAESGCM *)
Definition s_AES : str := [x41; x45; x53].
Definition s_AESGCM : str := [x41; x45; x53; x47; x43; x4d].
Definition is_aesgcm (p : str) : bool := bytes_eqb p s_AES || bytes_eqb p s_AESGCM.
(* sessionHasUsableKey: the key a resumption can install: KeyInfo != nil,
   len(Data) == 32, isAESGCM(Protocol) *)
Definition usable_key (e : entry) : option bytes :=
  match e_key e with
  | Some k => if is_aesgcm (k_proto k) && (lenN (k_data k) =? 32)%N then Some (k_data k) else None
  | None => None
  end.
Definition has_usable_key (e : entry) : bool :=
  match usable_key e with Some _ => true | None => false end.
(* sessionIsClientSide *)
Definition is_client_side (e : entry) : bool :=
  match e_policy e with
  | Some p => match p_client_side p with Some b => b | None => false end
  | None => false
  end.
(* sameSessionKey: the same non-empty key *)
Definition same_key (a b : option key_info) : bool :=
  match a, b with
  | Some x, Some y => match k_data x with [] => false | _ => bytes_eqb (k_data x) (k_data y) end
  | _, _ => false
  end.

(* time.Duration(secs) * time.Second: int64 nanoseconds, wrapping silently; the entry's
   expiry is now + that many nanoseconds.  In whole seconds (clock readings are compared at
   whole seconds): floor of the wrapped nanosecond count / 10^9.  The identity for
   |secs| < 2^63 / 10^9 (about 292 years). *)
Definition wrap64 (z : Z) : Z := (z + 2 ^ 63) mod 2 ^ 64 - 2 ^ 63.
Definition go_secs (secs : Z) : Z := wrap64 (secs * 1000000000) / 1000000000.

(* ---- the two maps ------------------------------------------------------ *)
Definition id_is (id : str) (e : entry) : bool := bytes_eqb (e_id e) id.
Definition find_sess (id : str) (l : list entry) : option entry := find (id_is id) l.
Definition del_sess (id : str) (l : list entry) : list entry :=
  filter (fun e => negb (id_is id e)) l.

Definition map_get (k : str) (m : list (str * str)) : option str :=
  match find (fun kv => bytes_eqb (fst kv) k) m with Some kv => Some (snd kv) | None => None end.
Definition map_del (k : str) (m : list (str * str)) : list (str * str) :=
  filter (fun kv => negb (bytes_eqb (fst kv) k)) m.
Definition map_set (k v : str) (m : list (str * str)) : list (str * str) :=
  (k, v) :: map_del k m.

(* ---- key strings ------------------------------------------------------- *)
Definition ch_lbrace : byte := x7b.   (* { *)
Definition ch_rbrace : byte := x7d.   (* } *)
Definition ch_comma  : byte := x2c.   (* , *)
Definition ch_lt     : byte := x3c.   (* < *)
Definition ch_gt     : byte := x3e.   (* > *)

(* fmt.Sprintf("{%s,%s,<%s>}", tag, addr, command)  /  fmt.Sprintf("{%s,<%s>}", addr, command) *)
Definition cmd_key (tag addr cmd : str) : str :=
  match tag with
  | [] => ch_lbrace :: addr ++ ch_comma :: ch_lt :: cmd ++ [ch_gt; ch_rbrace]
  | _ => ch_lbrace :: tag ++ ch_comma :: addr ++ ch_comma :: ch_lt :: cmd ++ [ch_gt; ch_rbrace]
  end.

(* ---- SessionCache ------------------------------------------------------ *)
(* Store: c.sessions[entry.id] = entry *)
Definition store (c : cache) (e : entry) : cache :=
  {| c_sessions := e :: del_sess (e_id e) (c_sessions c); c_cmdmap := c_cmdmap c |}.

(* Store of an entry object other than the one already stored under its id (a new
   session, or a session registered again): the command mappings of the entry it
   replaces are removed first.  [store] itself is the re-Store of the very entry that
   is cached (lease renewal), which keeps them. *)
Definition store_new (c : cache) (e : entry) : cache :=
  store {| c_sessions := c_sessions c;
           c_cmdmap := filter (fun kv => negb (bytes_eqb (snd kv) (e_id e))) (c_cmdmap c) |} e.

(* Lookup *)
Definition lookup (c : cache) (now : Z) (id : str) : option entry :=
  match find_sess id (c_sessions c) with
  | None => None
  | Some e => if is_expired e now then None else Some e
  end.

(* LookupNonExpired: an expired entry is deleted from sessions together with every
   command mapping whose value is its id (as Invalidate does) *)
Definition lookup_nonexpired (c : cache) (now : Z) (id : str) : cache * option entry :=
  match find_sess id (c_sessions c) with
  | None => (c, None)
  | Some e =>
      if is_expired e now
      then ({| c_sessions := del_sess id (c_sessions c);
               c_cmdmap := filter (fun kv => negb (bytes_eqb (snd kv) id)) (c_cmdmap c) |}, None)
      else (c, Some e)
  end.

(* LookupByCommand *)
Definition lookup_by_command (c : cache) (now : Z) (tag addr cmd : str) : option entry :=
  match map_get (cmd_key tag addr cmd) (c_cmdmap c) with
  | None => None
  | Some sid =>
      match find_sess sid (c_sessions c) with
      | None => None
      | Some e => if is_expired e now then None else Some e
      end
  end.

(* MapCommand *)
Definition map_command (c : cache) (tag addr cmd sid : str) : cache :=
  {| c_sessions := c_sessions c; c_cmdmap := map_set (cmd_key tag addr cmd) sid (c_cmdmap c) |}.

(* Invalidate: absent => false and nothing changes; present => the session and
   every command mapping whose value is the id are removed *)
Definition invalidate (c : cache) (id : str) : cache * bool :=
  match find_sess id (c_sessions c) with
  | None => (c, false)
  | Some _ =>
      ({| c_sessions := del_sess id (c_sessions c);
          c_cmdmap := filter (fun kv => negb (bytes_eqb (snd kv) id)) (c_cmdmap c) |}, true)
  end.

(* InvalidateExpired: drop expired sessions, then every mapping whose session is absent *)
Definition invalidate_expired (c : cache) (now : Z) : cache * Z :=
  let live := filter (fun e => negb (is_expired e now)) (c_sessions c) in
  ({| c_sessions := live;
      c_cmdmap := filter (fun kv => match find_sess (snd kv) live with Some _ => true | None => false end)
                         (c_cmdmap c) |},
   Z.of_nat (length (c_sessions c)) - Z.of_nat (length live)).

Definition size (c : cache) : Z := Z.of_nat (length (c_sessions c)).

(* ---- strings.Split(s, ",") and strings.TrimSpace (ASCII white space) ---- *)
Fixpoint split_commas_acc (cur : str) (s : str) : list str :=
  match s with
  | [] => [rev cur]
  | b :: r => if byte_eqb b ch_comma then rev cur :: split_commas_acc [] r
              else split_commas_acc (b :: cur) r
  end.
Definition split_commas (s : str) : list str := split_commas_acc [] s.

Definition is_space (b : byte) : bool :=
  let n := b2n b in ((9 <=? n) && (n <=? 13))%N || (n =? 32)%N.
Fixpoint trim_left (s : str) : str :=
  match s with
  | [] => []
  | b :: r => if is_space b then trim_left r else s
  end.
Definition trim_space (s : str) : str := rev (trim_left (rev (trim_left s))).

(* ---- client side of security/auth.go ------------------------------------ *)
(* what the post-auth ad of a full handshake told the client, plus what the
   key exchange produced *)
Record full_ok := {
  f_sid : str;                 (* "Sid" ("" when absent) *)
  f_user : option str;         (* negotiation.User if non-empty *)
  f_valid : str;               (* "ValidCommands" ("" when absent) *)
  f_dur : Z; f_lease : Z;      (* "SessionDuration" / "SessionLease" (0 when absent) *)
  f_key : option key_info;     (* shared secret, if any *)
  f_authmethods : str; f_crypto : str
}.
Inductive full_reply := FOk (r : full_ok) | FFail.

(* what the peer does with a resumption request *)
Inductive resume_reply :=
| RAuthorized        (* ReturnCode = "AUTHORIZED" *)
| RSidNotFound       (* ReturnCode = "SID_NOT_FOUND" *)
| ROtherCode         (* any other ReturnCode *)
| RNoCode            (* a reply ad without ReturnCode *)
| RBroken.           (* the exchange breaks: a write fails or no reply ad arrives *)

Record peer := { on_full : full_reply; on_resume : str -> resume_reply }.

Inductive outcome :=
| OFull (sid : str)                          (* full handshake succeeded; session id announced by the server *)
| OFullErr                                   (* full handshake failed *)
| OResumed (sid : str) (key : option key_info) (user : option str)
| OResumeErr (sid : str)                     (* SessionResumptionError *)
| OExplicitMissing.                          (* SessionResumptionError: pre-registered session not in cache *)

(* the request the client puts on the wire *)
Inductive action := AFull | AResume (sid : str) | ANone.

(* storeClientSession (called when Sid <> "" and serverAddr <> "").  The entry
   and its command mappings are filed under the handshake's SecurityTag. *)
Definition client_entry (now : Z) (tag addr : str) (r : full_ok) : entry :=
  let dur := if f_dur r =? 0 then 3600 else f_dur r in
  let lease := if f_lease r =? 0 then 1800 else f_lease r in
  let pol := {| p_authenticated := None; p_user := f_user r; p_valid := None;
                p_authmethods := Some (f_authmethods r); p_crypto := Some (f_crypto r);
                p_client_side := Some true |} in
  {| e_id := f_sid r; e_addr := addr; e_tag := tag; e_key := f_key r;
     e_policy := Some pol; e_exp := Some (now + go_secs dur); e_lease := go_secs lease |}.
(* if ValidCommands != "" { strings.Split(ValidCommands, ",") } *)
Definition raw_cmds (valid : str) : list str :=
  match valid with [] => [] | v => split_commas v end.
(* The entry is stored unless the cache already holds, under the same id, a live record
   that is not a client-side one: if that record carries the very key just negotiated it
   is the server-side record of this session (client and server in one process sharing
   the cache) and the commands are filed to it; otherwise it is an unrelated session and
   nothing at all is cached. *)
Definition map_cmds (c : cache) (tag addr : str) (r : full_ok) : cache :=
  fold_left (fun c' cmd => let cmd' := trim_space cmd in
                           match cmd' with [] => c' | _ => map_command c' tag addr cmd' (f_sid r) end)
            (raw_cmds (f_valid r)) c.
Definition store_client_session (c : cache) (now : Z) (tag addr : str) (r : full_ok) : cache :=
  match lookup c now (f_sid r) with
  | Some ex =>
      if is_client_side ex then map_cmds (store_new c (client_entry now tag addr r)) tag addr r
      else if same_key (e_key ex) (f_key r) then map_cmds c tag addr r
      else c
  | None => map_cmds (store_new c (client_entry now tag addr r)) tag addr r
  end.

(* resumeSession: effects on the cache and the result *)
Definition resume_session (c : cache) (now : Z) (e : entry) (p : peer) : cache * outcome :=
  match on_resume p (e_id e) with
  | RBroken | RSidNotFound => (fst (invalidate c (e_id e)), OResumeErr (e_id e))
  | ROtherCode => (c, OResumeErr (e_id e))
  | RAuthorized | RNoCode =>
      (store c (renew_lease e now),
       OResumed (e_id e) (e_key e) (match e_policy e with Some pl => p_user pl | None => None end))
  end.

(* performFullAuthentication: cache effects *)
Definition full_auth (c : cache) (now : Z) (tag addr : str) (p : peer) : cache * outcome :=
  match on_full p with
  | FFail => (c, OFullErr)
  | FOk r =>
      match f_sid r, addr with
      | [], _ | _, [] => (c, OFull (f_sid r))
      | _, _ => (store_client_session c now tag addr r, OFull (f_sid r))
      end
  end.

(* ClientHandshake.  [sid] is SecurityConfig.SessionID ("" = none), [addr] the
   effective server address (PeerName, else the stream's peer address), [cmd]
   the decimal rendering of SecurityConfig.Command, None when Command < 0. *)
Definition client_action (c : cache) (now : Z) (sid tag addr : str) (cmd : option str) : action :=
  match sid with
  | _ :: _ => match lookup c now sid with Some e => AResume (e_id e) | None => ANone end
  | [] =>
      match addr, cmd with
      | _ :: _, Some cm =>
          match lookup_by_command c now tag addr cm with
          | Some e => if has_usable_key e then AResume (e_id e) else AFull
          | None => AFull
          end
      | _, _ => AFull
      end
  end.

Definition client_handshake (c : cache) (now : Z) (sid tag addr : str) (cmd : option str) (p : peer)
  : cache * outcome :=
  match sid with
  | _ :: _ =>
      match lookup_nonexpired c now sid with
      | (c1, None) => (c1, OExplicitMissing)
      | (c1, Some e) => resume_session c1 now e p
      end
  | [] =>
      match addr, cmd with
      | _ :: _, Some cm =>
          match lookup_by_command c now tag addr cm with
          | Some e => if has_usable_key e then resume_session c now e p else full_auth c now tag addr p
          | None => full_auth c now tag addr p
          end
      | _, _ => full_auth c now tag addr p
      end
  end.

(* ConnectAndAuthenticateWithConfig: two attempts, the second only after a
   SessionResumptionError; each attempt is a fresh connection (its own peer behaviour) *)
Definition is_resumption_error (o : outcome) : bool :=
  match o with OResumeErr _ | OExplicitMissing => true | _ => false end.
Definition connect_and_authenticate (c : cache) (now : Z) (sid tag addr : str) (cmd : option str)
  (p1 p2 : peer) : cache * list outcome :=
  let '(c1, o1) := client_handshake c now sid tag addr cmd p1 in
  if is_resumption_error o1 then
    let '(c2, o2) := client_handshake c1 now sid tag addr cmd p2 in (c2, [o1; o2])
  else (c1, [o1]).
