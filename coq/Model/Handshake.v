(* Model/Handshake.v — the full (non-resumed) client and server handshakes of
   /repo/security/auth.go as functions of an ARBITRARY peer script.

     performFullAuthentication + handleClientAuthentication + setupStreamEncryption
       + plaintextOutcome (client)                                   ~ client_hs
     ServerHandshakeWithMessage + handleServerAuthentication + setupStreamEncryption
       + plaintextOutcome (server)                                   ~ server_hs

   The peer is a script: the fields of the security ad it sends (levels as
   arbitrary strings, method and cipher lists, ECDH key material, ReturnCode),
   its answers in the method-bitmask exchange, how it behaves inside the
   CLAIMTOBE sub-protocol, and how it sends / what it puts into the post-auth ad.

   Results carry the fields cedar reports (Authentication, Encryption,
   NegotiatedAuth) and GHOST fields the real code does not have: the
   authentication exchanges that actually ran on the wire with their result,
   and whether the stream is really encrypting (and with which key).  The
   correspondence run compares the ghosts with what the scripted peer saw and
   with Stream.IsEncrypted / the bytes on the wire.

   Session resumption (resumeSession / handleSessionResumption followed by
   setupStreamEncryption's resumed branch and checkResumedSession) is modelled at
   the end of the file as a function of the cache entry's shape and of the
   peer's reply; the cache itself (lookup, expiry, command map) is C06/C07's
   subject.  Definitions only. *)
From Coq Require Import List NArith ZArith Bool.
From Cedar Require Import Model.Negotiate.
Import ListNotations.
Local Open Scope Z_scope.

(* a level string sent by a peer: the server's "YES"/"NO", or any other string
   (which negotiateSecurity compares with the four names) *)
Inductive sstr := SYes | SNo | SLvl (l : lvl).
Definition to_lvl (s : sstr) : lvl := match s with SLvl l => l | _ => Ot end.
Definition is_yes (s : sstr) : bool := match s with SYes => true | _ => false end.

(* ECDH key material in the peer's ad *)
Inductive keymat :=
| KGood       (* a valid P-256 point whose private half the peer holds *)
| KUnknown    (* a valid point the peer cannot use itself *)
| KMissing    (* attribute absent / empty *)
| KBad.       (* truncated, not on the curve, not base64 *)
Definition key_present (k : keymat) : bool := match k with KMissing => false | _ => true end.
Definition key_valid (k : keymat) : bool := match k with KGood | KUnknown => true | _ => false end.

Inductive rcode := RNone | RAuthorized | ROther.   (* ReturnCode absent/"" , "AUTHORIZED", anything else *)
Definition rc_rejects (r : rcode) : bool := match r with ROther => true | _ => false end.

Inductive pmode := PClear | PSealed | PAbsent.      (* how the post-auth ad is sent *)

(* what the stream ends up with *)
Inductive skeysrc :=
| KDerived (peer : keymat)     (* HKDF(ECDH(own private, peer's advertised public)) *)
| KCached.                     (* the key of the resumed cache entry *)

Record result := mkR {
  r_auth : bool;                 (* reported Authentication *)
  r_enc : bool;                  (* reported Encryption *)
  r_meth : meth;                 (* reported NegotiatedAuth *)
  g_ran : list (meth * bool);    (* ghost: exchanges that ran on the wire, in order, with result *)
  g_encrypted : bool;            (* ghost: the stream is really encrypting *)
  g_key : option skeysrc         (* ghost: the key installed on the stream *)
}.

Inductive outcome :=
| Ok (r : result)
| Err (ran : list (meth * bool)).   (* handshake returned an error; exchanges seen so far *)

Record cfg := mkCfg {
  c_auth : lvl; c_enc : lvl; c_integ : lvl;
  c_meths : list meth; c_ciphs : list ciph;
  c_haskey : bool                 (* NewAuthenticator generated an ECDH key pair *)
}.

Definition needs_protection (c : cfg) : bool := is_rq (c_enc c) || is_rq (c_integ c).

(* setupStreamEncryption + plaintextOutcome: is a key installed *)
Definition installs_key (own_has : bool) (peer : keymat) (k : option ciph) : bool :=
  own_has && key_present peer
  && match k with Some cAES => true | _ => false end
  && key_valid peer.

(* parseServerSecurityAd: the full list when present and non-empty, else the single negotiated value *)
Definition prefer_list {A} (l single : list A) : list A := match l with [] => single | _ => l end.

(* ---- client against a scripted server ---------------------------------------- *)

(* how an authentication sub-protocol run against the scripted peer ends *)
Inductive xres :=
| XOk        (* the exchange completes successfully *)
| XFail      (* the exchange completes with a failure; the connection stays usable *)
| XAbort.    (* the peer goes away *)

Record reply := mkReply {
  rp_bit : Z;          (* the method bitmask the server answers *)
  rp_res : xres;       (* how the selected method's exchange ends (e.g. CLAIMTOBE: claim acknowledged / rejected) *)
  rp_haskey_ok : bool  (* after a successful exchange: a well-formed key-exchange message follows *)
}.

Record sscript := mkS {
  s_rc : rcode;                       (* ReturnCode in the response ad *)
  s_auth : sstr; s_enc : sstr;        (* Authentication / Encryption strings *)
  s_list : list meth;                 (* AuthMethodsList *)
  s_single : list meth;               (* AuthMethods (parsed as a list) *)
  s_clist : list ciph; s_csingle : list ciph;
  s_key : keymat;
  s_replies : list reply;
  s_post : pmode; s_post_rc : rcode
}.

(* The Integrity string of the scripted server's response ad.  harness/peer's scripted server
   always writes Integrity="NO" (as cedar's own createServerSecurityAd does), which is none of
   the four level names. *)
Definition s_integ (s : sscript) : lvl := Ot.

Inductive lstep :=
| LDone (m : meth) (ran : list (meth * bool))      (* authenticated with m *)
| LErr (ran : list (meth * bool)).

(* handleClientAuthentication's loop; recursion on the peer's replies *)
Fixpoint client_loop (cms : list meth) (replies : list reply) (avail : Z) (ran : list (meth * bool)) : lstep :=
  if avail =? 0 then LErr ran                      (* sends the final 0, AuthMethodsExhaustedError *)
  else match replies with
       | [] => LErr ran                            (* peer went away *)
       | rp :: rest =>
           let r := rp_bit rp in
           if r =? 0 then LErr ran                 (* server rejected all remaining methods *)
           else match of_bit r with
                | None => client_loop cms rest (Z.land avail (Z.lnot r)) ran
                | Some _ =>
                  match offered_under cms r with
                  | None => LErr ran                                               (* not offered *)
                  | Some mc =>
                    if Z.land r avail =? 0 then LErr ran                           (* withdrawn *)
                    else if meth_eqb mc mPW then
                      (* the PASSWORD stub fails locally, nothing on the wire *)
                      client_loop cms rest (Z.land avail (Z.lnot (bit mPW))) ran
                    else match rp_res rp with
                         | XOk =>
                             if rp_haskey_ok rp then LDone mc (ran ++ [(mc, true)])
                             else LErr (ran ++ [(mc, true)])
                         | XFail => client_loop cms rest (Z.land avail (Z.lnot (bit mc))) (ran ++ [(mc, false)])
                         | XAbort => LErr ran
                         end
                  end
                end
       end.

(* setupStreamEncryption, plaintextOutcome and the post-auth ad on the client *)
Definition client_finish (c : cfg) (s : sscript) (k : option ciph)
  (auth : bool) (m : meth) (ran : list (meth * bool)) : outcome :=
  let enc := installs_key (c_haskey c) (s_key s) k in
  if negb enc && needs_protection c then Err ran
  else
    let readable := match s_post s with
                    | PAbsent => false
                    | PClear => negb enc
                    | PSealed => enc && match s_key s with KGood => true | _ => false end
                    end in
    if negb readable then Err ran
    else if rc_rejects (s_post_rc s) then Err ran
    else Ok (mkR auth enc m ran enc (if enc then Some (KDerived (s_key s)) else None)).

Definition client_hs (c : cfg) (s : sscript) : outcome :=
  if rc_rejects (s_rc s) then Err []
  else
    let sm := prefer_list (s_list s) (s_single s) in
    let sc := prefer_list (s_clist s) (s_csingle s) in
    let n := negotiate_i (to_lvl (s_auth s)) (c_auth c) (to_lvl (s_enc s)) (c_enc c) (s_integ s) (c_integ c)
                         sm (c_meths c) sc (c_ciphs c) in
    match ni_err n with
    | Some _ => Err []
    | None =>
        if is_yes (s_auth s) then
          match sm with
          | [] => Err []
          | _ =>
              let cms := cl_methods (c_meths c) sm in
              match cms with
              | [] => Err []
              | _ => match client_loop cms (s_replies s) (mask cms) [] with
                     | LDone m ran => client_finish c s (ni_ciph n) true m ran
                     | LErr ran => Err ran
                     end
              end
          end
        else if is_rq (c_auth c) then Err []
        else client_finish c s (ni_ciph n) false (ni_meth n) []
    end.

(* ---- server against a scripted client ----------------------------------------- *)

(* [m_res]: how the exchange of the method the server selects ends (e.g.
   CLAIMTOBE: the client sends its claim / an error indicator / goes away) *)
Record mstep := mkM { m_mask : Z; m_res : xres }.

Record cscript := mkC {
  q_cmd_ok : bool;                    (* leading command integer is DC_AUTHENTICATE *)
  q_auth : sstr; q_enc : sstr;        (* Authentication / Encryption strings *)
  q_meths : list meth; q_ciphs : list ciph;
  q_key : keymat;
  q_masks : list mstep
}.

(* handleServerAuthentication's loop; recursion on the peer's bitmask messages *)
Fixpoint server_loop (sm : list meth) (masks : list mstep) (ran : list (meth * bool)) : lstep :=
  match masks with
  | [] => LErr ran
  | st :: rest =>
      if m_mask st =? 0 then LErr ran
      else match srv_select sm (m_mask st) with
           | None => server_loop sm rest ran            (* answers 0, waits for the next bitmask *)
           | Some ms =>
               if meth_eqb ms mPW then server_loop sm rest ran    (* stub: fails locally *)
               else match m_res st with
                    | XOk => LDone ms (ran ++ [(ms, true)])
                    | XFail => server_loop sm rest (ran ++ [(ms, false)])
                    | XAbort => LErr ran
                    end
           end
  end.

(* setupStreamEncryption and plaintextOutcome on the server (the post-auth ad is
   then written whatever the peer does with it) *)
Definition server_finish (c : cfg) (s : cscript) (k : option ciph)
  (auth : bool) (m : meth) (ran : list (meth * bool)) : outcome :=
  let enc := installs_key (c_haskey c) (q_key s) k in
  if negb enc && needs_protection c then Err ran
  else Ok (mkR auth enc m ran enc (if enc then Some (KDerived (q_key s)) else None)).

(* The Integrity level in the scripted client's ad: harness/peer's client scripts all carry
   Integrity="OPTIONAL" (it is not a script dimension). *)
Definition q_integ (s : cscript) : lvl := Op.

Definition server_hs (c : cfg) (s : cscript) : outcome :=
  if negb (q_cmd_ok s) then Err []
  else
    let n := negotiate_i (c_auth c) (to_lvl (q_auth s)) (c_enc c) (to_lvl (q_enc s)) (c_integ c) (q_integ s)
                         (c_meths c) (q_meths s) (c_ciphs c) (q_ciphs s) in
    match ni_err n with
    | Some _ => Err []                                  (* DENIED response sent *)
    | None =>
        if ni_auth n then
          match server_loop (c_meths c) (q_masks s) [] with
          | LDone m ran => server_finish c s (ni_ciph n) true m ran
          | LErr ran => Err ran
          end
        else server_finish c s (ni_ciph n) false (ni_meth n) []
    end.

(* ---- resumed handshakes ------------------------------------------------------------ *)

(* the KeyInfo of the cache entry being resumed: absent; empty data; 32 bytes;
   another non-zero length — each with "the protocol name denotes AES-GCM" *)
Inductive ekey := EKNone | EKEmpty (aes : bool) | EK32 (aes : bool) | EKBadLen (aes : bool).

Record sentry := mkE {
  e_key : ekey;
  e_authed : option bool      (* policy attribute Authenticated, if present *)
}.
Definition entry_authenticated (e : sentry) : bool :=
  match e_authed e with Some true => true | _ => false end.
(* sessionHasUsableKey *)
Definition usable_key (e : sentry) : bool := match e_key e with EK32 true => true | _ => false end.

(* the scripted server's answer to a resumption request *)
Inductive rreply := RClosed | RReply (rc : rcode).

(* checkResumedSession.  The authentication requirement is enforced on the client
   only: on the server the policy that applies to a resumed session is the one of
   the command being run, checked by the dispatching server (C05) against the
   restored outcome; the authenticator's config is merely the default. *)
Definition resumed_result (client : bool) (c : cfg) (e : sentry) (encrypted : bool) : outcome :=
  if negb encrypted && needs_protection c then Err []
  else if client && is_rq (c_auth c) && negb (entry_authenticated e) then Err []
  else Ok (mkR (entry_authenticated e) encrypted mNONE [] encrypted (if encrypted then Some KCached else None)).

(* resumeSession on an entry (named explicitly or found through the command map) *)
Definition client_resume (c : cfg) (e : sentry) (rp : rreply) : outcome :=
  match rp with
  | RClosed => Err []
  | RReply rc =>
      if rc_rejects rc then Err []
      else match e_key e with
           | EK32 true => resumed_result true c e true       (* SetSymmetricKey(cached key) *)
           | EKBadLen true => Err []                         (* SetSymmetricKey refuses the length *)
           | EK32 false | EKBadLen false =>                  (* not AES-GCM: no key installed; plaintextOutcome *)
               if needs_protection c then Err [] else resumed_result true c e false
           | EKNone | EKEmpty _ => resumed_result true c e false  (* no secret: setupStreamEncryption not called *)
           end
  end.

(* handleSessionResumption; [found]: the cache lookup result *)
Definition server_resume (c : cfg) (found : option sentry) : outcome :=
  match found with
  | None => Err []
  | Some e => if usable_key e then resumed_result false c e true else Err []
  end.
