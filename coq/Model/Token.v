(* Model/Token.v — security/token_auth.go, token_verify.go: the TOKEN (IDTOKENS)
   AKEP2 exchange and standalone token verification.

   Peer = an ARBITRARY list of frames (payload, EOM) as delivered by
   Stream.ReadFrame; each role is a function of that list.  Decoding uses the
   message-layer reader of Model/Msg.v (GetInt / GetBytes / GetChar) plus
   GetStringWithMaxSize below.

   Parameters (inputs of the model, never axioms):
     crypto  c_sign / c_kdf / c_mac / c_skey      Lib/SymC11.v
     e_parse_dur  time.ParseDuration (applied to SEC_TOKEN_MAX_AGE ++ "s")
     e_json  encoding/json.Unmarshal into map[string]interface{} followed by the
             lookup of the six keys cedar reads (kid, exp, iat, sub, iss, scope)
     e_pool / e_named   contents of the pool key file / of keyDir/<kid>
     now     time.Now().Unix()
     rb / ra the local nonce (crypto/rand)
   base64url (RawURLEncoding, non-strict), strings.Split on ".",
   strings.TrimSpace, simple_scramble, key doubling, timing arithmetic, the
   deferred-error state machine and all message layouts are modelled in full. *)
From Coq Require Import List NArith ZArith Lia Bool.
From Cedar Require Import Lib.Bytes Lib.SymC11 gen.Consts gen.FactsC11 Model.Msg.
Import ListNotations.
Local Open Scope Z_scope.

(* ---------- byte-string helpers ---------------------------------------- *)
Definition dot : byte := x2e.
Definition s_POOL : bytes := [x50; x4f; x4f; x4c].
Definition s_server_at : bytes := [x73; x65; x72; x76; x65; x72; x40].
Definition s_htcondor : bytes := [x68; x74; x63; x6f; x6e; x64; x6f; x72].

Definition is_nil (b : bytes) : bool := match b with [] => true | _ => false end.

(* strings.Split(s, sep) for a one-byte separator: n separators give n+1 parts *)
Fixpoint split_on (sep : byte) (s : bytes) : list bytes :=
  match s with
  | [] => [[]]
  | b :: r =>
      if byte_eqb b sep then [] :: split_on sep r
      else match split_on sep r with
           | p :: ps => (b :: p) :: ps
           | [] => [[b]]
           end
  end.

(* strings.Contains *)
Fixpoint is_prefix (p s : bytes) : bool :=
  match p, s with
  | [], _ => true
  | x :: p', y :: s' => byte_eqb x y && is_prefix p' s'
  | _ :: _, [] => false
  end.
Fixpoint contains (s sub : bytes) : bool :=
  is_prefix sub s || match s with [] => false | _ :: r => contains r sub end.

(* strings.TrimSpace: unicode.IsSpace runes in their UTF-8 encodings *)
Definition space_encodings : list bytes :=
  [[x09]; [x0a]; [x0b]; [x0c]; [x0d]; [x20]; [xc2; x85]; [xc2; xa0];
   [xe1; x9a; x80];
   [xe2; x80; x80]; [xe2; x80; x81]; [xe2; x80; x82]; [xe2; x80; x83]; [xe2; x80; x84];
   [xe2; x80; x85]; [xe2; x80; x86]; [xe2; x80; x87]; [xe2; x80; x88]; [xe2; x80; x89];
   [xe2; x80; x8a]; [xe2; x80; xa8]; [xe2; x80; xa9]; [xe2; x80; xaf]; [xe2; x81; x9f];
   [xe3; x80; x80]].
Fixpoint strip_one (encs : list bytes) (s : bytes) : option bytes :=
  match encs with
  | [] => None
  | e :: r => if is_prefix e s then Some (skipn (length e) s) else strip_one r s
  end.
Fixpoint trim_left (encs : list bytes) (fuel : nat) (s : bytes) : bytes :=
  match fuel with
  | O => s
  | S f => match strip_one encs s with Some s' => trim_left encs f s' | None => s end
  end.
(* the right end is trimmed on the reversed string with the reversed encodings *)
Definition trim_space_go (s : bytes) : bytes :=
  let l := trim_left space_encodings (length s) s in
  rev' (trim_left (map (fun e => rev' e) space_encodings) (length l) (rev' l)).

(* ---------- base64.RawURLEncoding.DecodeString (non-strict) -------------- *)
Definition b64val (b : byte) : option N :=
  let n := b2n b in
  (if (65 <=? n) && (n <=? 90) then Some (n - 65)
   else if (97 <=? n) && (n <=? 122) then Some (n - 71)
   else if (48 <=? n) && (n <=? 57) then Some (n + 4)
   else if n =? 45 then Some 62
   else if n =? 95 then Some 63
   else None)%N.
(* '\r' and '\n' are skipped wherever they occur; any other foreign byte is an error *)
Fixpoint b64_vals (s : bytes) : option (list N) :=
  match s with
  | [] => Some []
  | b :: r =>
      if byte_eqb b x0a || byte_eqb b x0d then b64_vals r
      else match b64val b, b64_vals r with
           | Some v, Some vs => Some (v :: vs)
           | _, _ => None
           end
  end.
Fixpoint b64_groups (vs : list N) : option bytes :=
  (match vs with
   | [] => Some []
   | [_] => None
   | [a; b] => Some [n2b (a * 4 + b / 16)]
   | [a; b; c] => Some [n2b (a * 4 + b / 16); n2b ((b mod 16) * 16 + c / 4)]
   | a :: b :: c :: d :: r =>
       match b64_groups r with
       | Some o => Some (n2b (a * 4 + b / 16) :: n2b ((b mod 16) * 16 + c / 4) :: n2b ((c mod 4) * 64 + d) :: o)
       | None => None
       end
   end)%N.
Definition b64url_decode (s : bytes) : option bytes :=
  match b64_vals s with Some vs => b64_groups vs | None => None end.

(* base64.RawURLEncoding.EncodeToString (used by GenerateJWT; here for examples) *)
Definition b64chr (n : N) : byte :=
  (if n <? 26 then n2b (n + 65)
   else if n <? 52 then n2b (n + 71)
   else if n <? 62 then n2b (n - 4)
   else if n =? 62 then x2d else x5f)%N.
Fixpoint b64url_encode (bs : bytes) : bytes :=
  (match bs with
   | [] => []
   | [a] => let x := b2n a in [b64chr (x / 4); b64chr ((x mod 4) * 16)]
   | [a; b] => let x := b2n a in let y := b2n b in
               [b64chr (x / 4); b64chr ((x mod 4) * 16 + y / 16); b64chr ((y mod 16) * 4)]
   | a :: b :: c :: r =>
       let x := b2n a in let y := b2n b in let z := b2n c in
       b64chr (x / 4) :: b64chr ((x mod 4) * 16 + y / 16) :: b64chr ((y mod 16) * 4 + z / 64)
       :: b64chr (z mod 64) :: b64url_encode r
   end)%N.

(* ---------- JSON view (encoding/json is a parameter) -------------------- *)
Inductive jv :=
| JAbsent                 (* key not in the object (also: top-level null) *)
| JStr (s : bytes)        (* a JSON string *)
| JNum (z : Z)            (* a JSON number; z = the float64 truncated toward zero, exactly *)
| JOther.                 (* null, bool, array, object *)
Record claims := { j_kid : jv; j_exp : jv; j_iat : jv; j_sub : jv; j_iss : jv; j_scope : jv }.

Record env := {
  e_cr : crypto;
  e_json : bytes -> option claims;   (* None: json.Unmarshal error *)
  e_pool : option bytes;             (* pool key file contents; None: not configured / unreadable *)
  e_named : bytes -> option bytes;   (* keyDir/<kid> contents; None: dir not configured / unreadable *)
  e_max_age : Z;                     (* SecurityConfig.TokenMaxAge *)
  e_env_max_age : bytes;             (* os.Getenv("SEC_TOKEN_MAX_AGE"); [] when unset *)
  e_parse_dur : bytes -> option Z;   (* time.ParseDuration: nanoseconds, None on error *)
  e_trust : bytes                    (* SecurityConfig.TrustDomain *)
}.

Definition env_secs (e : env) : option Z :=
  if is_nil (e_env_max_age e) then None
  else match e_parse_dur e (e_env_max_age e ++ [x73]) with
       | Some ns => Some (Z.quot ns 1000000000)
       | None => None
       end.

(* decodeJWTSegment / the inline decode in validateTokenAndDeriveKeys *)
Definition decode_seg (e : env) (seg : bytes) : option claims :=
  match b64url_decode seg with
  | Some b => e_json e b
  | None => None
  end.

(* ---------- loadSigningKey ---------------------------------------------- *)
Definition deadbeef : list N := [222; 173; 190; 239]%N.
Fixpoint scramble_from (i : nat) (d : bytes) : bytes :=
  match d with
  | [] => []
  | b :: r => n2b (N.lxor (b2n b) (nth (Nat.modulo i 4) deadbeef 0%N)) :: scramble_from (S i) r
  end.
Definition simple_scramble (d : bytes) : bytes := scramble_from 0 d.

Definition load_signing_key (e : env) (kid : bytes) : option bytes :=
  if bytes_eqb kid s_POOL then
    match e_pool e with
    | None => None
    | Some d => let k := simple_scramble d in if is_nil k then None else Some (k ++ k)
    end
  else if contains kid [x2f] || contains kid [dot; dot] then None
  else match e_named e kid with
       | None => None
       | Some d => let k := simple_scramble d in if is_nil k then None else Some k
       end.

(* ---------- validateTokenTiming ----------------------------------------- *)
(* Go int64(float64) on amd64: out-of-range gives the "integer indefinite" value *)
Definition f2i (z : Z) : Z := if (- 2 ^ 63 <=? z) && (z <? 2 ^ 63) then z else - 2 ^ 63.
(* Some None: claim absent; Some (Some t): timestamp; None: "not a valid timestamp" *)
Definition claim_time (v : jv) : option (option Z) :=
  match v with
  | JAbsent => Some None
  | JNum z => Some (Some (f2i z))
  | _ => None
  end.
(* where the maximum age comes from: TokenMaxAge if positive, else
   SEC_TOKEN_MAX_AGE read as seconds (ParseDuration of value ++ "s", then
   int64(d.Seconds())), else the default; an unparsable value is ignored *)
Definition max_age_of (cfg : Z) (env_secs : option Z) : Z :=
  if 0 <? cfg then cfg else match env_secs with Some s => s | None => DefaultTokenMaxAge end.
(* the age check is skipped when the resolved maximum is not positive *)
Definition timing_ok (now ma : Z) (c : claims) : bool :=
  match claim_time (j_exp c), claim_time (j_iat c) with
  | Some eo, Some io =>
      (match eo with Some exp => now <? exp | None => true end) &&
      (match io with
       | Some iat => negb ((0 <? ma) && (iat <? wrap64 (now - ma)))   (* int64 now-maxAge; no now-iat, which could overflow *)
       | None => true
       end)
  | _, _ => false
  end.

Definition resolved_max_age (e : env) : Z := max_age_of (e_max_age e) (env_secs e).

(* ---------- validateTokenAndDeriveKeys ---------------------------------- *)
Record vstate := { v_cid : bytes; v_sid : bytes; v_key : bytes; v_sig : bytes; v_K : bytes }.

(* key id named by a decoded header, handshake flavour: non-string kid is an error *)
Definition kid_strict (h : claims) : option bytes :=
  match j_kid h with
  | JAbsent => Some s_POOL
  | JStr s => Some (if is_nil s then s_POOL else s)
  | _ => None
  end.
(* VerifyIDToken flavour: anything but a non-empty string means "POOL" *)
Definition kid_lenient (h : claims) : bytes :=
  match j_kid h with
  | JStr s => if is_nil s then s_POOL else s
  | _ => s_POOL
  end.

Definition server_id (e : env) : bytes :=
  s_server_at ++ (if is_nil (e_trust e) then s_htcondor else e_trust e).

Definition validate_token (e : env) (now : Z) (claimed token : bytes) : option vstate :=
  if is_nil token then None else
  match split_on dot token with
  | [p0; p1] =>
      match decode_seg e p0 with
      | None => None
      | Some h =>
          match kid_strict h with
          | None => None
          | Some kid =>
              match load_signing_key e kid with
              | None => None
              | Some key =>
                  match decode_seg e p1 with
                  | None => None
                  | Some c =>
                      if negb (timing_ok now (resolved_max_age e) c) then None else
                      match (match j_sub c with
                             | JAbsent => Some []            (* ClientID is reset: never the id claimed in step 1 *)
                             | JStr s => Some s
                             | _ => None
                             end) with
                      | None => None
                      | Some cid =>
                          if is_nil cid then None else
                          let sig := c_sign (e_cr e) key token in
                          Some {| v_cid := cid; v_sid := server_id e; v_key := key; v_sig := sig;
                                  v_K := c_kdf (e_cr e) sig token |}
                      end
                  end
              end
          end
      end
  | _ => None
  end.

(* ---------- wire primitives --------------------------------------------- *)
(* outcome of one receive step: value and reader, network abort, or a stored
   (deferred) authentication error *)
Inductive rd (A : Type) := ROk (a : A) (r : reader) | RNet | RAuth.
Arguments ROk {A} a r. Arguments RNet {A}. Arguments RAuth {A}.

(* getInt: every failure is wrapped as ErrNetwork *)
Definition rd_int (r : reader) : rd Z :=
  match get_int r with (r1, MOk z) => ROk z r1 | _ => RNet end.
(* getRawBytes *)
Definition rd_raw (r : reader) (n : Z) : rd bytes :=
  match get_bytes r n with (r1, MOk b) => ROk b r1 | _ => RNet end.

(* Message.GetStringWithMaxSize, unencrypted stream *)
Fixpoint cstr_max_loop (fuel : nat) (r : reader) (acc : bytes) : reader * mres bytes :=
  match fuel with
  | O => (r, MErr MTooBig)
  | S f =>
      match ensure r 1 with
      | (r1, MOk _) =>
          match r_buf r1 with
          | [] => (r1, MErr MOther)
          | b :: rest =>
              let r2 := set_buf r1 rest in
              if byte_eqb b x00 then (r2, MOk (rev' acc)) else cstr_max_loop f r2 (b :: acc)
          end
      | (r1, MErr MEof) => if is_nil acc then (r1, MOk []) else (r1, MErr MTooBig)
      | (r1, MErr e) => (r1, MErr e)
      | (r1, MPanic) => (r1, MPanic)
      end
  end.
Definition get_cstr_max (r : reader) (max : Z) : reader * mres bytes :=
  if max <=? 0 then (r, MOk []) else cstr_max_loop (Z.to_nat max) r [].

(* getToken *)
Definition rd_token (r : reader) : rd bytes :=
  match get_cstr_max r AuthPwMaxTokenLen with (r1, MOk s) => ROk s r1 | _ => RNet end.
(* getIDString *)
Definition rd_id (r : reader) : rd bytes :=
  match rd_int r with
  | ROk n r1 =>
      if AuthPwMaxNameLen <? n then RAuth else
      match get_cstr_max r1 AuthPwMaxNameLen with
      | (r2, MOk s) => if Z.of_N (lenN s) =? n then ROk s r2 else RAuth
      | _ => RNet
      end
  | RNet => RNet
  | RAuth => RAuth
  end.
(* the "expected EOM" probe: GetChar must answer io.EOF *)
Definition at_eom (r : reader) : bool :=
  match get_char r with (_, MErr MEof) => true | _ => false end.
(* "length then bytes if length > 0" used when draining an error-state message *)
Definition rd_opt_field (r : reader) : rd unit :=
  match rd_int r with
  | ROk n r1 => if 0 <? n then match rd_raw r1 n with ROk _ r2 => ROk tt r2 | RNet => RNet | RAuth => RAuth end
                else ROk tt r1
  | RNet => RNet
  | RAuth => RAuth
  end.

(* senders *)
Definition w_int (w : writer) (z : Z) : writer := put_int w z.
Definition w_id (w : writer) (s : bytes) : writer :=
  put_string false (put_int w (Z.of_N (lenN s))) s.
Definition w_lenbytes (w : writer) (b : bytes) : writer :=
  put_bytes (put_int w (Z.of_N (lenN b))) b.
Definition w_msg (w : writer) : list mframe := w_out (finish w).

(* MAC inputs *)
Definition mac_T (cid sid ra rb : bytes) : bytes := cid ++ [x20] ++ sid ++ [x00] ++ ra ++ rb.
Definition mac_C (cid rb : bytes) : bytes := cid ++ [x00] ++ rb.

(* ---------- server ------------------------------------------------------- *)
Inductive s1res :=
| S1Net                                           (* abort: nothing more is sent *)
| S1Err                                           (* error stored, exchange continues *)
| S1Ok (claimed token ra : bytes) (r : reader).

(* receiveServerTokenStep1 *)
Definition srv_step1 (r0 : reader) : s1res :=
  match rd_int r0 with
  | ROk status r1 =>
      if status =? AuthPwError then
        match rd_id r1 with
        | ROk _ r2 =>
            match rd_token r2 with
            | ROk _ r3 => match rd_opt_field r3 with RNet => S1Net | _ => S1Err end
            | RNet => S1Net
            | RAuth => S1Err
            end
        | RNet => S1Net
        | RAuth => S1Err
        end
      else if negb (status =? AuthPwAOk) then S1Err
      else
        match rd_id r1 with
        | ROk cid r2 =>
            match rd_token r2 with
            | ROk tok r3 =>
                match rd_int r3 with
                | ROk ralen r4 =>
                    if AuthPwKeyLen <? ralen then S1Err else
                    match rd_raw r4 ralen with
                    | ROk ra r5 => if at_eom r5 then S1Ok cid tok ra r5 else S1Err
                    | RNet => S1Net
                    | RAuth => S1Err
                    end
                | RNet => S1Net
                | RAuth => S1Err
                end
            | RNet => S1Net
            | RAuth => S1Err
            end
        | RNet => S1Net
        | RAuth => S1Err
        end
  | RNet => S1Net
  | RAuth => S1Err
  end.

(* sendServerTokenStep2 *)
Definition srv_msg2_err : list mframe :=
  w_msg (w_int (w_int (w_int (w_id (w_id (w_int writer_init AuthPwError) []) []) 0) 0) 0).
Definition srv_msg2_ok (cr : crypto) (v : vstate) (ra rb : bytes) : list mframe :=
  w_msg (w_lenbytes (w_lenbytes (w_lenbytes (w_id (w_id (w_int writer_init AuthPwAOk) (v_cid v)) (v_sid v)) ra) rb)
                    (c_mac cr (v_K v) (mac_T (v_cid v) (v_sid v) ra rb))).

(* receiveServerTokenStep3 on a state without stored error: true = no error *)
Definition srv_step3 (cr : crypto) (v : vstate) (rb : bytes) (r0 : reader) : bool :=
  match rd_int r0 with
  | ROk status r1 =>
      if negb (status =? AuthPwAOk) then false else
      match rd_id r1 with
      | ROk cid r2 =>
          if negb (bytes_eqb cid (v_cid v)) then false else
          match rd_int r2 with
          | ROk rblen r3 =>
              if AuthPwKeyLen <? rblen then false else
              match rd_raw r3 rblen with
              | ROk rbe r4 =>
                  if negb (bytes_eqb rbe rb) then false else
                  match rd_int r4 with
                  | ROk maclen r5 =>
                      match rd_raw r5 maclen with
                      | ROk mac r6 =>
                          bytes_eqb mac (c_mac cr (v_K v) (mac_C (v_cid v) rb)) && at_eom r6
                      | _ => false
                      end
                  | _ => false
                  end
              | _ => false
              end
          | _ => false
          end
      | _ => false
      end
  | _ => false
  end.

(* negotiation.User = strings.Split(ClientID, "@")[0] *)
Definition user_of (cid : bytes) : bytes :=
  match split_on x40 cid with p :: _ => p | [] => [] end.

Inductive outcome := Accept (user skey : bytes) | Fail.
Record sres := { s_out : outcome; s_sent : option (list mframe) }.

(* performTokenAuthenticationServer; [rb] is the nonce drawn when msg 2 is an OK message *)
Definition server_run (e : env) (now : Z) (rb : bytes) (frames : list mframe) : sres :=
  match srv_step1 (reader_of frames) with
  | S1Net => {| s_out := Fail; s_sent := None |}
  | S1Err => {| s_out := Fail; s_sent := Some srv_msg2_err |}
  | S1Ok claimed tok ra r1 =>
      match validate_token e now claimed tok with
      | None => {| s_out := Fail; s_sent := Some srv_msg2_err |}
      | Some v =>
          {| s_out := if srv_step3 (e_cr e) v rb (reader_of (r_in r1))
                      then Accept (user_of (v_cid v)) (c_skey (e_cr e) rb) else Fail;
             s_sent := Some (srv_msg2_ok (e_cr e) v ra rb) |}
      end
  end.

(* ---------- client ------------------------------------------------------- *)
(* result of loadTokenForAuthentication: (ClientID, Token = header.payload, Signature) *)
Definition loaded := option (bytes * bytes * bytes).

(* loadSingleToken *)
Definition load_single_token (e : env) (tok : bytes) : loaded :=
  match split_on dot tok with
  | [p0; p1; p2] =>
      match b64url_decode p2 with
      | None => None
      | Some sig =>
          match decode_seg e p1 with
          | None => None
          | Some c =>
              match j_sub c with
              | JStr s => if is_nil s then None else Some (s, p0 ++ dot :: p1, sig)
              | _ => None        (* absent: ClientID stays ""; non-string: error *)
              end
          end
      end
  | _ => None
  end.

Definition cli_msg1_err : list mframe :=
  w_msg (w_int (put_string false (w_id (w_int writer_init AuthPwError) []) []) 0).
Definition cli_msg1_ok (cid tok ra : bytes) : list mframe :=
  w_msg (w_lenbytes (put_string false (w_id (w_int writer_init AuthPwAOk) cid) tok) ra).
Definition cli_msg3_err : list mframe :=
  w_msg (w_int (w_int (w_id (w_int writer_init AuthPwError) []) 0) 0).
Definition cli_msg3_ok (cr : crypto) (K cid rb : bytes) : list mframe :=
  w_msg (w_lenbytes (w_lenbytes (w_id (w_int writer_init AuthPwAOk) cid) rb) (c_mac cr K (mac_C cid rb))).

Inductive c2res :=
| C2Net
| C2Err
| C2Ok (sid rb : bytes).

(* receiveTokenStep2; [cid], [ra], [K] are the client's own values (empty in error state) *)
Definition cli_step2 (cr : crypto) (cid ra K : bytes) (r0 : reader) : c2res :=
  match rd_int r0 with
  | ROk status r1 =>
      if status =? AuthPwError then
        match rd_id r1 with
        | ROk _ r2 =>
            match rd_id r2 with
            | ROk _ r3 =>
                match rd_opt_field r3 with
                | ROk _ r4 =>
                    match rd_opt_field r4 with
                    | ROk _ r5 => match rd_opt_field r5 with RNet => C2Net | _ => C2Err end
                    | RNet => C2Net
                    | RAuth => C2Err
                    end
                | RNet => C2Net
                | RAuth => C2Err
                end
            | RNet => C2Net
            | RAuth => C2Err
            end
        | RNet => C2Net
        | RAuth => C2Err
        end
      else if negb (status =? AuthPwAOk) then C2Err
      else
        match rd_id r1 with
        | ROk echo r2 =>
            if negb (bytes_eqb echo cid) then C2Err else
            match rd_id r2 with
            | ROk sid r3 =>
                match rd_int r3 with
                | ROk ralen r4 =>
                    if AuthPwKeyLen <? ralen then C2Err else
                    match rd_raw r4 ralen with
                    | ROk rae r5 =>
                        if negb (bytes_eqb rae ra) then C2Err else
                        match rd_int r5 with
                        | ROk rblen r6 =>
                            if AuthPwKeyLen <? rblen then C2Err else
                            match rd_raw r6 rblen with
                            | ROk rb r7 =>
                                match rd_int r7 with
                                | ROk maclen r8 =>
                                    match rd_raw r8 maclen with
                                    | ROk mac _ =>
                                        if bytes_eqb mac (c_mac cr K (mac_T cid sid ra rb))
                                        then C2Ok sid rb else C2Err
                                    | RNet => C2Net
                                    | RAuth => C2Err
                                    end
                                | RNet => C2Net
                                | RAuth => C2Err
                                end
                            | RNet => C2Net
                            | RAuth => C2Err
                            end
                        | RNet => C2Net
                        | RAuth => C2Err
                        end
                    | RNet => C2Net
                    | RAuth => C2Err
                    end
                | RNet => C2Net
                | RAuth => C2Err
                end
            | RNet => C2Net
            | RAuth => C2Err
            end
        | RNet => C2Net
        | RAuth => C2Err
        end
  | RNet => C2Net
  | RAuth => C2Err
  end.

Inductive coutcome := CAccept (skey : bytes) | CFail.
Record cres := { c_out : coutcome; c_sent : list (list mframe) }.

(* performTokenAuthenticationClient from the loaded token on; [ra] is the nonce
   drawn when msg 1 is an OK message *)
Definition client_run (cr : crypto) (ld : loaded) (ra : bytes) (frames : list mframe) : cres :=
  match ld with
  | None =>
      match cli_step2 cr [] [] [] (reader_of frames) with
      | C2Net => {| c_out := CFail; c_sent := [cli_msg1_err] |}
      | _ => {| c_out := CFail; c_sent := [cli_msg1_err; cli_msg3_err] |}
      end
  | Some (cid, tok, sig) =>
      let K := c_kdf cr sig tok in
      let m1 := cli_msg1_ok cid tok ra in
      match cli_step2 cr cid ra K (reader_of frames) with
      | C2Net => {| c_out := CFail; c_sent := [m1] |}
      | C2Err => {| c_out := CFail; c_sent := [m1; cli_msg3_err] |}
      | C2Ok sid rb => {| c_out := CAccept (c_skey cr rb); c_sent := [m1; cli_msg3_ok cr K cid rb] |}
      end
  end.

(* ---------- VerifyIDToken ------------------------------------------------ *)
Record id_claims := { ic_sub : bytes; ic_iss : bytes; ic_scope : bytes; ic_exp : Z; ic_iat : Z }.
Definition jstr (v : jv) : bytes := match v with JStr s => s | _ => [] end.
Definition jint (v : jv) : Z := match v with JNum z => f2i z | _ => 0 end.

Definition verify_id_token (e : env) (now : Z) (tok : bytes) : option id_claims :=
  match split_on dot (trim_space_go tok) with
  | [p0; p1; p2] =>
      match decode_seg e p0 with
      | None => None
      | Some h =>
          match load_signing_key e (kid_lenient h) with
          | None => None
          | Some key =>
              match b64url_decode p2 with
              | None => None
              | Some actual =>
                  if negb (bytes_eqb (c_sign (e_cr e) key (p0 ++ dot :: p1)) actual) then None else
                  match decode_seg e p1 with
                  | None => None
                  | Some c =>
                      if negb (timing_ok now (resolved_max_age e) c) then None else
                      if is_nil (jstr (j_sub c)) then None else
                      Some {| ic_sub := jstr (j_sub c); ic_iss := jstr (j_iss c); ic_scope := jstr (j_scope c);
                              ic_exp := jint (j_exp c); ic_iat := jint (j_iat c) |}
                  end
              end
          end
      end
  | _ => None
  end.
