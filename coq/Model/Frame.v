(* Model/Frame.v — stream/stream.go: framing, AES-GCM protection, digests,
   message assembly, crypto-state export/import.

   Wire frames are symbolic: the header is (flag, body length); the body is
   either raw bytes or [iv?] ++ ciphertext, where a ciphertext is the ideal
   AEAD term of Lib/Sym.v.  The random IV drawn by SetSymmetricKey is an
   argument.  Receivers stop at the first error; the state returned with an
   error is not meaningful (the model does not reproduce what a failed
   decryption leaves behind) and no theorem or comparison looks at it. *)
From Coq Require Import List NArith ZArith Bool.
From Cedar Require Import Lib.Bytes Lib.Sym gen.Consts.
Import ListNotations.
Local Open Scope N_scope.

Inductive serr :=
| ETooLarge | ECounterMax | EBadFlag | EDecrypt | EZeroEnc | EState | EUnexpectedFlag | EOpaque | EEOF
| EExport | EImport.
Inductive sres (A : Type) := SOk (a : A) | SErr (e : serr).
Arguments SOk {A} a. Arguments SErr {A} e.

(* running handshake digest of one direction *)
Record dstate := { dg_acc : bytes; dg_written : bool; dg_final : option digest }.
Definition dg_init : dstate := {| dg_acc := []; dg_written := false; dg_final := None |}.
Definition dg_write (d : dstate) (bs : bytes) : dstate :=
  match dg_final d with
  | Some _ => d
  | None => {| dg_acc := dg_acc d ++ bs; dg_written := true; dg_final := None |}
  end.
Definition dg_value (d : dstate) : digest :=
  match dg_final d with
  | Some x => x
  | None => if dg_written d then H (dg_acc d) else DZero
  end.
Definition dg_finalize (d : dstate) : dstate :=
  {| dg_acc := dg_acc d; dg_written := dg_written d; dg_final := Some (dg_value d) |}.

Inductive body := Raw (bs : bytes) | Ct (iv : option bytes) (c : ctext).
Record frame := { f_flag : N; f_body : body }.
Definition body_len (b : body) : N :=
  match b with
  | Raw bs => lenN bs
  | Ct iv c => ct_len c + match iv with Some _ => 16 | None => 0 end
  end.
Definition hdr_of (flag len : N) : bytes := n2b flag :: be_enc 4 len.

Record stream := {
  key : option bytes;           (* gcm != nil, with its key *)
  encrypted : bool;
  authenticated : bool;
  enc_iv : bytes; dec_iv : bytes;
  enc_ctr : N; dec_ctr : N;
  fin_send_aad : bool; fin_recv_aad : bool;
  send_dg : dstate; recv_dg : dstate;
  send_buf : bytes; send_eom : bool;
  recv_buf : bytes; bytes_read : N; total_msg : N; in_msg : bool;
  before_secret : bool;
  peer_addr : bytes
}.

Definition zero16 : bytes := repeat x00 16.
Definition new_stream : stream :=
  {| key := None; encrypted := false; authenticated := false;
     enc_iv := zero16; dec_iv := zero16; enc_ctr := 0; dec_ctr := 0;
     fin_send_aad := false; fin_recv_aad := false;
     send_dg := dg_init; recv_dg := dg_init;
     send_buf := []; send_eom := false;
     recv_buf := []; bytes_read := 0; total_msg := 0; in_msg := false;
     before_secret := false; peer_addr := [] |}.

(* functional record update helpers *)
Definition upd_send (s : stream) (ctr : N) (fin : bool) (sd rd : dstate) : stream :=
  {| key := key s; encrypted := encrypted s; authenticated := authenticated s;
     enc_iv := enc_iv s; dec_iv := dec_iv s; enc_ctr := ctr; dec_ctr := dec_ctr s;
     fin_send_aad := fin; fin_recv_aad := fin_recv_aad s;
     send_dg := sd; recv_dg := rd;
     send_buf := send_buf s; send_eom := send_eom s;
     recv_buf := recv_buf s; bytes_read := bytes_read s; total_msg := total_msg s; in_msg := in_msg s;
     before_secret := before_secret s; peer_addr := peer_addr s |}.
Definition upd_recv (s : stream) (div : bytes) (ctr : N) (fin : bool) (sd rd : dstate) : stream :=
  {| key := key s; encrypted := encrypted s; authenticated := authenticated s;
     enc_iv := enc_iv s; dec_iv := div; enc_ctr := enc_ctr s; dec_ctr := ctr;
     fin_send_aad := fin_send_aad s; fin_recv_aad := fin;
     send_dg := sd; recv_dg := rd;
     send_buf := send_buf s; send_eom := send_eom s;
     recv_buf := recv_buf s; bytes_read := bytes_read s; total_msg := total_msg s; in_msg := in_msg s;
     before_secret := before_secret s; peer_addr := peer_addr s |}.
Definition upd_sbuf (s : stream) (buf : bytes) (eom : bool) : stream :=
  {| key := key s; encrypted := encrypted s; authenticated := authenticated s;
     enc_iv := enc_iv s; dec_iv := dec_iv s; enc_ctr := enc_ctr s; dec_ctr := dec_ctr s;
     fin_send_aad := fin_send_aad s; fin_recv_aad := fin_recv_aad s;
     send_dg := send_dg s; recv_dg := recv_dg s;
     send_buf := buf; send_eom := eom;
     recv_buf := recv_buf s; bytes_read := bytes_read s; total_msg := total_msg s; in_msg := in_msg s;
     before_secret := before_secret s; peer_addr := peer_addr s |}.
Definition upd_rbuf (s : stream) (buf : bytes) (rd tot : N) (inm : bool) : stream :=
  {| key := key s; encrypted := encrypted s; authenticated := authenticated s;
     enc_iv := enc_iv s; dec_iv := dec_iv s; enc_ctr := enc_ctr s; dec_ctr := dec_ctr s;
     fin_send_aad := fin_send_aad s; fin_recv_aad := fin_recv_aad s;
     send_dg := send_dg s; recv_dg := recv_dg s;
     send_buf := send_buf s; send_eom := send_eom s;
     recv_buf := buf; bytes_read := rd; total_msg := tot; in_msg := inm;
     before_secret := before_secret s; peer_addr := peer_addr s |}.
Definition upd_enc (s : stream) (e : bool) (bs : bool) : stream :=
  {| key := key s; encrypted := e; authenticated := authenticated s;
     enc_iv := enc_iv s; dec_iv := dec_iv s; enc_ctr := enc_ctr s; dec_ctr := dec_ctr s;
     fin_send_aad := fin_send_aad s; fin_recv_aad := fin_recv_aad s;
     send_dg := send_dg s; recv_dg := recv_dg s;
     send_buf := send_buf s; send_eom := send_eom s;
     recv_buf := recv_buf s; bytes_read := bytes_read s; total_msg := total_msg s; in_msg := in_msg s;
     before_secret := bs; peer_addr := peer_addr s |}.

(* GCM nonce of frame number ctr: leading 32-bit word of the base IV advanced by ctr (mod 2^32) *)
Definition nonce_of (iv : bytes) (ctr : N) : bytes :=
  be_enc 4 ((be_dec (firstn 4 iv) + ctr) mod 4294967296) ++ skipn 4 iv.

Definition enc_active (s : stream) : bool :=
  match key s with Some _ => encrypted s | None => false end.

(* SetSymmetricKey k, with the random IV it draws *)
Definition set_key (s : stream) (k iv : bytes) : sres stream :=
  if negb (lenN k =? KeyLen) then SErr EState else
  SOk {| key := Some k; encrypted := true; authenticated := authenticated s;
         enc_iv := iv; dec_iv := dec_iv s; enc_ctr := 0; dec_ctr := 0;
         fin_send_aad := false; fin_recv_aad := false;
         send_dg := dg_finalize (send_dg s); recv_dg := dg_finalize (recv_dg s);
         send_buf := send_buf s; send_eom := send_eom s;
         recv_buf := recv_buf s; bytes_read := bytes_read s; total_msg := total_msg s; in_msg := in_msg s;
         before_secret := before_secret s; peer_addr := peer_addr s |}.

(* SetConnection: the stream continues over another connection; only the recorded peer
   address changes - the handshake digests keep running over both connections *)
Definition set_connection (s : stream) (addr : bytes) : stream :=
  {| key := key s; encrypted := encrypted s; authenticated := authenticated s;
     enc_iv := enc_iv s; dec_iv := dec_iv s; enc_ctr := enc_ctr s; dec_ctr := dec_ctr s;
     fin_send_aad := fin_send_aad s; fin_recv_aad := fin_recv_aad s;
     send_dg := send_dg s; recv_dg := recv_dg s;
     send_buf := send_buf s; send_eom := send_eom s;
     recv_buf := recv_buf s; bytes_read := bytes_read s; total_msg := total_msg s; in_msg := in_msg s;
     before_secret := before_secret s; peer_addr := addr |}.

(* FinalizeDigests *)
Definition finalize_digests (s : stream) : stream :=
  upd_send s (enc_ctr s) (fin_send_aad s) (dg_finalize (send_dg s)) (dg_finalize (recv_dg s)).

(* first-frame / later-frame associated data; digests are frozen (finalised) when first used *)
Definition fin_dg (fin : bool) (d : dstate) : dstate := if fin then d else dg_finalize d.
Definition aad_send (s : stream) (hdr : bytes) : aad :=
  if fin_send_aad s then AadHdr hdr else AadFirst (dg_value (send_dg s)) (dg_value (recv_dg s)) hdr.
Definition aad_recv (s : stream) (hdr : bytes) : aad :=
  if fin_recv_aad s then AadHdr hdr else AadFirst (dg_value (recv_dg s)) (dg_value (send_dg s)) hdr.

(* ---- sender: sendMessageWithEnd ------------------------------------ *)
Definition send_frame (s : stream) (data : bytes) (flag : N) : stream * sres frame :=
  if MaxMessageSize <? lenN data then (s, SErr ETooLarge) else
  match key s with
  | Some k =>
      if encrypted s then
        if enc_ctr s =? CounterGuard then (s, SErr ECounterMax) else
        let first := enc_ctr s =? 0 in
        let wlen := lenN data + GcmTagSize + (if first then GcmTagSize else 0) in
        let hdr := hdr_of flag wlen in
        let nonce := nonce_of (enc_iv s) (enc_ctr s) in
        let sd := fin_dg (fin_send_aad s) (send_dg s) in
        let rd := fin_dg (fin_send_aad s) (recv_dg s) in
        let f := {| f_flag := flag;
                    f_body := Ct (if first then Some (enc_iv s) else None) (seal k nonce (aad_send s hdr) data) |} in
        (upd_send s (enc_ctr s + 1) true (dg_write sd (hdr ++ data)) rd, SOk f)
      else
        let hdr := hdr_of flag (lenN data) in
        (upd_send s (enc_ctr s) (fin_send_aad s) (dg_write (send_dg s) (hdr ++ data)) (recv_dg s),
         SOk {| f_flag := flag; f_body := Raw data |})
  | None =>
      let hdr := hdr_of flag (lenN data) in
      (upd_send s (enc_ctr s) (fin_send_aad s) (dg_write (send_dg s) (hdr ++ data)) (recv_dg s),
       SOk {| f_flag := flag; f_body := Raw data |})
  end.

(* ---- receiver ------------------------------------------------------- *)
Definition max_wire (s : stream) : N :=
  if enc_active s then MaxMessageSize + WireSlack else MaxMessageSize.

(* what a FAILED decryptDataWithAAD leaves behind: once the body is long enough to hold the
   (optional) IV and a tag, the first-frame flag is set and both digests are frozen BEFORE
   gcm.Open runs, and stay so when it fails; the counter does not move.  (decryptIV is also
   overwritten from a would-be first frame, but it is overwritten again by every later attempt
   while the counter is 0 and never read before, so the model leaves it.) *)
Definition fail_decrypt (s : stream) (blen : N) : stream :=
  if (if dec_ctr s =? 0 then IvLenRecv + MinTagLen else MinTagLen) <=? blen
  then upd_recv s (dec_iv s) (dec_ctr s) true
         (fin_dg (fin_recv_aad s) (send_dg s)) (fin_dg (fin_recv_aad s) (recv_dg s))
  else s.

(* decryptDataWithAAD on an encrypting stream *)
Definition decrypt_with (s : stream) (k hdr div : bytes) (c : ctext) (blen : N) : stream * sres bytes :=
  match open k (nonce_of div (dec_ctr s)) (aad_recv s hdr) c with
  | Some p => (upd_recv s div (dec_ctr s + 1) true
                 (fin_dg (fin_recv_aad s) (send_dg s)) (fin_dg (fin_recv_aad s) (recv_dg s)), SOk p)
  | None => (fail_decrypt s blen, SErr EDecrypt)
  end.
Definition decrypt (s : stream) (k : bytes) (hdr : bytes) (b : body) : stream * sres bytes :=
  let blen := body_len b in
  match b with
  | Raw _ => (fail_decrypt s blen, SErr EDecrypt)     (* not a ciphertext term: fails to open *)
  | Ct ivo c =>
      match dec_ctr s =? 0, ivo with
      | true, Some iv => if lenN iv =? 16 then decrypt_with s k hdr iv c blen else (fail_decrypt s blen, SErr EDecrypt)
      | false, None => decrypt_with s k hdr (dec_iv s) c blen
      | _, _ => (fail_decrypt s blen, SErr EDecrypt)
      end
  end.

(* body of an accepted non-empty frame -> cleartext *)
Definition recv_body (s : stream) (hdr : bytes) (b : body) : stream * sres bytes :=
  if enc_active s then
    match key s with
    | Some k => decrypt s k hdr b
    | None => (s, SErr EState)
    end
  else match b with
       | Raw bs => (s, SOk bs)
       | Ct _ _ => (s, SErr EOpaque)    (* ciphertext bytes have no plaintext reading in the model *)
       end.
(* feed the receive digest (no-op once frozen) *)
Definition note_recv (s : stream) (bs : bytes) : stream :=
  upd_recv s (dec_iv s) (dec_ctr s) (fin_recv_aad s) (send_dg s) (dg_write (recv_dg s) bs).

(* common part of ReceiveFrame / ReceiveFrameWithEnd; [with_end] selects the digest
   treatment of zero-length frames *)
Definition recv_frame_gen (with_end : bool) (s : stream) (f : frame) : stream * sres (bytes * N) :=
  let len := body_len (f_body f) in
  let hdr := hdr_of (f_flag f) len in
  if max_wire s <? len then (s, SErr ETooLarge)
  else if (if with_end then FlagMaxRecvWE else FlagMaxRecv) <? f_flag f then (s, SErr EBadFlag)
  else if len =? 0 then
    if enc_active s then (s, SErr EZeroEnc)
    else if with_end then (note_recv s hdr, SOk ([], f_flag f))
         else (s, SOk ([], f_flag f))
  else
    match recv_body s hdr (f_body f) with
    | (s1, SOk d) => (note_recv s1 (hdr ++ d), SOk (d, f_flag f))
    | (s1, SErr e) => (s1, SErr e)
    end.
Definition recv_frame_we := recv_frame_gen true.       (* ReceiveFrameWithEnd *)
Definition recv_frame (s : stream) (f : frame) : stream * sres bytes :=   (* ReceiveFrame *)
  match recv_frame_gen false s f with
  | (s1, SOk (d, _)) => (s1, SOk d)
  | (s1, SErr e) => (s1, SErr e)
  end.

(* ReceiveCompleteMessage over the frames still to arrive *)
Fixpoint recv_complete (s : stream) (acc : bytes) (fs : list frame) : stream * sres bytes * list frame :=
  match fs with
  | [] => (s, SErr EEOF, [])
  | f :: r =>
      match recv_frame_we s f with
      | (s1, SOk (d, fl)) =>
          if fl =? EndFlagComplete then (s1, SOk (acc ++ d), r)
          else if fl =? EndFlagPartial then recv_complete s1 (acc ++ d) r
          else (s1, SErr EUnexpectedFlag, r)
      | (s1, SErr e) => (s1, SErr e, r)
      end
  end.

(* readNextFrame: appends to the receive buffer until a non-partial frame *)
Fixpoint read_next (s : stream) (fs : list frame) : stream * sres unit * list frame :=
  match fs with
  | [] => (s, SErr EEOF, [])
  | f :: r =>
      match recv_frame_we s f with
      | (s1, SOk (d, fl)) =>
          let buf := recv_buf s1 ++ d in
          let s2 := upd_rbuf s1 buf (bytes_read s1) (lenN buf) (in_msg s1) in
          if fl =? EndFlagPartial then read_next s2 r else (s2, SOk tt, r)
      | (s1, SErr e) => (s1, SErr e, r)
      end
  end.
Definition start_read (s : stream) (fs : list frame) : stream * sres unit * list frame :=
  if in_msg s then (s, SErr EState, fs) else
  match read_next s fs with
  | (s1, SOk _, r) => (upd_rbuf s1 (recv_buf s1) 0 (total_msg s1) true, SOk tt, r)
  | x => x
  end.
(* ReadMessageBytes with a destination of n bytes *)
Definition read_bytes (s : stream) (n : N) (fs : list frame) : stream * sres bytes * list frame :=
  if negb (in_msg s) then (s, SErr EState, fs) else
  let avail := lenN (recv_buf s) - bytes_read s in
  let step (s1 : stream) (r : list frame) :=
    let avail1 := lenN (recv_buf s1) - bytes_read s1 in
    let k := N.min n avail1 in
    (upd_rbuf s1 (recv_buf s1) (bytes_read s1 + k) (total_msg s1) (in_msg s1),
     SOk (firstn (N.to_nat k) (skipn (N.to_nat (bytes_read s1)) (recv_buf s1))), r) in
  if avail =? 0 then
    match read_next s fs with
    | (s1, SOk _, r) => step s1 r
    | (s1, SErr e, r) => (s1, SErr e, r)
    end
  else step s fs.
Definition end_read (s : stream) : stream * sres unit :=
  if negb (in_msg s) then (s, SErr EState)
  else if bytes_read s <? total_msg s then (s, SErr EState)
  else (upd_rbuf s [] 0 0 false, SOk tt).

(* ---- buffered sender ------------------------------------------------ *)
Definition flush_partial (s : stream) : stream * sres (list frame) :=
  if lenN (send_buf s) =? 0 then (s, SOk []) else
  match send_frame s (send_buf s) EndFlagPartial with
  | (s1, SOk f) => (upd_sbuf s1 [] (send_eom s1), SOk [f])
  | (s1, SErr e) => (s1, SErr e)
  end.
Definition write_message (s : stream) (data : bytes) : stream * sres (list frame) :=
  if send_eom s then (s, SErr EState) else
  let s1 := upd_sbuf s (send_buf s ++ data) (send_eom s) in
  if DefaultFrameThreshold <=? lenN (send_buf s1) then flush_partial s1 else (s1, SOk []).
Definition start_message (s : stream) : stream := upd_sbuf s [] false.
Definition end_message (s : stream) : stream * sres (list frame) :=
  if send_eom s then (s, SErr EState) else
  let s0 := upd_sbuf s (send_buf s) true in
  match send_frame s0 (send_buf s0) EndFlagComplete with
  | (s1, SOk f) => (upd_sbuf s1 [] (send_eom s1), SOk [f])
  | (s1, SErr e) => (s1, SErr e)
  end.

(* ---- crypto mode toggles -------------------------------------------- *)
(* prepareCryptoForSecret / restoreCryptoAfterSecret (after /repo 0140d4f): encryption is switched on
   for one secret field only when a key exists and it is off, and [before_secret] - the code's
   cryptoToggledForSecret - remembers that it was; when there is nothing to toggle no stream state
   is written at all; restore undoes exactly a toggle that happened *)
Definition prepare_secret (s : stream) : stream :=
  match key s with
  | Some _ => if encrypted s then s else upd_enc s true true
  | None => s
  end.
Definition restore_secret (s : stream) : stream :=
  if before_secret s then upd_enc s false false else s.
Definition secret_is_noop (s : stream) : bool :=
  match key s with None => true | Some _ => encrypted s end.

(* ---- ExportCryptoState / NewStreamWithCryptoState -------------------- *)
Definition digest_bytes_len (d : dstate) : N := match dg_final d with Some _ => 32 | None => 0 end.

(* the exported blob, symbolically: digests stay terms *)
Record blob := {
  b_magic : bytes; b_version : N; b_flags : N; b_key : bytes;
  b_eiv : bytes; b_div : bytes; b_ectr : N; b_dctr : N;
  b_sdg : option digest; b_rdg : option digest; b_peer : bytes }.

Definition flag_if (b : bool) (v : N) : N := if b then v else 0.
Definition export_state (s : stream) : sres blob :=
  if negb (encrypted s) then SErr EExport else
  match key s with
  | None => SErr EExport
  | Some k =>
    if negb (lenN k =? KeyLen) then SErr EExport
    else if negb (fin_send_aad s && fin_recv_aad s) then SErr EExport
    else if in_msg s then SErr EExport
    else if negb (bytes_read s =? 0) then SErr EExport
    else if negb (lenN (recv_buf s) =? 0) then SErr EExport
    else if negb (lenN (send_buf s) =? 0) then SErr EExport
    else if send_eom s then SErr EExport
    else SOk {| b_magic := [n2b CsMagic0; n2b CsMagic1; n2b CsMagic2; n2b CsMagic3];
                b_version := CsVersion;
                b_flags := flag_if (encrypted s) CsFlagEncrypted + flag_if (authenticated s) CsFlagAuthenticated
                           + flag_if (fin_send_aad s) CsFlagFinSendAAD + flag_if (fin_recv_aad s) CsFlagFinRecvAAD
                           + flag_if (dg_written (send_dg s)) CsFlagSendDgWritten
                           + flag_if (dg_written (recv_dg s)) CsFlagRecvDgWritten;
                b_key := k; b_eiv := enc_iv s; b_div := dec_iv s;
                b_ectr := enc_ctr s; b_dctr := dec_ctr s;
                b_sdg := dg_final (send_dg s); b_rdg := dg_final (recv_dg s);
                b_peer := peer_addr s |}
  end.

Definition has_flag (flags v : N) : bool := negb (N.land flags v =? 0).
Definition import_state (b : blob) (conn_peer : bytes) : sres stream :=
  if negb (bytes_eqb (b_magic b) [n2b CsMagic0; n2b CsMagic1; n2b CsMagic2; n2b CsMagic3]) then SErr EImport
  else if negb (b_version b =? CsVersion) then SErr EImport
  else SOk {| key := Some (b_key b);
              encrypted := has_flag (b_flags b) CsFlagEncrypted;
              authenticated := has_flag (b_flags b) CsFlagAuthenticated;
              enc_iv := b_eiv b; dec_iv := b_div b; enc_ctr := b_ectr b; dec_ctr := b_dctr b;
              fin_send_aad := has_flag (b_flags b) CsFlagFinSendAAD;
              fin_recv_aad := has_flag (b_flags b) CsFlagFinRecvAAD;
              send_dg := {| dg_acc := []; dg_written := has_flag (b_flags b) CsFlagSendDgWritten; dg_final := b_sdg b |};
              recv_dg := {| dg_acc := []; dg_written := has_flag (b_flags b) CsFlagRecvDgWritten; dg_final := b_rdg b |};
              send_buf := []; send_eom := false;
              recv_buf := []; bytes_read := 0; total_msg := 0; in_msg := false;
              before_secret := false;
              peer_addr := if lenN (b_peer b) =? 0 then conn_peer else b_peer b |}.
