(* Model/AdWire.v — a ClassAd on the wire: the sender and the four receivers (parsing, raw-text, skipping,
   size-capped parsing: see the end of the file).

   Go code modelled:
     message/classad.go  putClassAdToMessageWithOptions (after the attribute filter of Model/Privacy.v),
                         putSecretExpr, getSecretString, GetClassAdRaw / GetClassAdRawBody, isTypeName,
                         getClassAdFromMessageWithMaxSize (maxSize = 0, i.e. GetClassAd),
                         the name/value split of parseAndInsertExpression
     message/skip.go     SkipClassAdRaw, SkipString (+ the marker-aware variant), discard
     stream/stream.go    PrepareCryptoForSecret, RestoreCryptoAfterSecret, CryptoForSecretIsNoop,
                         IsEncrypted; "a frame is sealed iff gcm != nil && encrypted at the time it is written/read"

   Typed values and framing are those of Model/Msg.v.  A frame additionally
   carries a ghost tag: sealed (true) = its payload travelled under AES-GCM.
   The stream is abstracted to (has key, encrypted flag, saved flag). *)
From Coq Require Import List NArith ZArith Bool.
From Coq Require String.
From Cedar Require Import Lib.Bytes gen.Consts Model.Msg Model.Privacy.
From Cedar Require Model.Decode.
Import ListNotations.
Local Open Scope N_scope.

Import Coq.Strings.String.StringSyntax.
Local Open Scope string_scope.
Definition secret_marker : bytes := s2b "ZKM".
Definition server_time_expr : bytes := s2b "ServerTime = 1699200000".
Definition eq_sep : bytes := s2b " = ".
Local Close Scope string_scope.

Definition tframe := (bool * mframe)%type.     (* sealed?, (payload, eom) *)

(* ===================== sender ========================================== *)
Record sstate := {
  s_buf : bytes;           (* Message.buffer (encode mode) *)
  s_out : list tframe;     (* frames handed to the stream so far, with their ghost tag *)
  s_key : bool;            (* stream.gcm != nil *)
  s_enc : bool;            (* stream.encrypted *)
  s_saved : bool           (* stream.cryptoBeforeSecret *)
}.

Definition sstate_init (key enc : bool) : sstate :=
  {| s_buf := []; s_out := []; s_key := key; s_enc := enc; s_saved := false |}.

Definition sealed_now (st : sstate) : bool := s_key st && s_enc st.

(* run a Message writer operation (Model/Msg.v) on the buffer; every frame it
   flushes is written in the stream's current mode *)
Definition s_lift (f : writer -> writer) (st : sstate) : sstate :=
  let w' := f {| w_buf := s_buf st; w_out := [] |} in
  {| s_buf := w_buf w';
     s_out := s_out st ++ map (fun fr => (sealed_now st, fr)) (w_out w');
     s_key := s_key st; s_enc := s_enc st; s_saved := s_saved st |}.

Definition s_put_int (st : sstate) (z : Z) : sstate := s_lift (fun w => put_int w z) st.
Definition s_put_string (st : sstate) (s : bytes) : sstate := s_lift (fun w => put_string (s_enc st) w s) st.
Definition s_flush (st : sstate) (eom : bool) : sstate := s_lift (fun w => flush w eom) st.

Definition s_prepare (st : sstate) : sstate :=
  {| s_buf := s_buf st; s_out := s_out st; s_key := s_key st;
     s_enc := if s_key st && negb (s_enc st) then true else s_enc st;
     s_saved := s_enc st |}.
Definition s_restore (st : sstate) : sstate :=
  {| s_buf := s_buf st; s_out := s_out st; s_key := s_key st; s_enc := s_saved st; s_saved := s_saved st |}.
Definition secret_is_noop (key enc : bool) : bool := negb key || enc.

(* putSecretExpr *)
Definition put_secret_expr (st : sstate) (e : bytes) : sstate :=
  let st1 := s_put_string st secret_marker in
  let st2 := s_flush st1 false in
  let st3 := s_prepare st2 in
  let st4 := s_put_string st3 e in
  let st5 := s_flush st4 false in
  s_restore st5.

Definition expr_text (a : attr) : bytes := fst a ++ eq_sep ++ snd a.

Record ad := {
  ad_attrs : list attr;      (* GetAttributes() order, with expr.String() *)
  ad_mytype : bytes;         (* EvaluateAttrString("MyType"), "" when absent / not a string *)
  ad_targettype : bytes
}.

Definition put_one (c : config) (encrypt_secrets : bool) (st : sstate) (a : attr) : sstate :=
  if encrypt_secrets && (is_private_any (fst a) || in_list (fst a) (c_enc_attrs c))
  then put_secret_expr st (expr_text a)
  else s_put_string st (expr_text a).

Definition put_ad (c : config) (st : sstate) (a : ad) : sstate :=
  let send := attrs_to_send c (ad_attrs a) in
  let stime := opt_server_time (c_opts c) in
  let n := (Z.of_nat (length send) + (if stime then 1 else 0))%Z in
  let st1 := s_put_int st n in
  let st2 := if stime then s_put_string st1 server_time_expr else st1 in
  let encrypt_secrets := negb (secret_is_noop (s_key st2) (s_enc st2)) in
  let st3 := fold_left (put_one c encrypt_secrets) send st2 in
  if opt_no_types (c_opts c) then st3
  else s_put_string (s_put_string st3 (ad_mytype a)) (ad_targettype a).

Definition s_finish (st : sstate) : sstate := s_flush st true.

Definition s_frames (st : sstate) : list tframe := s_out st.

(* what an observer of the connection learns from a frame: everything of a
   clear frame, only length and end flag of a sealed one *)
Inductive seen := SeenClear (payload : bytes) (eom : bool) | SeenSealed (len : N) (eom : bool).
Definition view1 (f : tframe) : seen :=
  let '(sealed, (d, e)) := f in if sealed then SeenSealed (lenN d) e else SeenClear d e.
Definition view (fs : list tframe) : list seen := map view1 fs.

(* ===================== receivers ======================================= *)
Record treader := {
  t_r : reader;
  t_tags : list bool;      (* ghost: tags of the frames still in r_in (t_r) *)
  t_key : bool; t_enc : bool; t_saved : bool
}.
Definition treader_of (key enc : bool) (fs : list tframe) : treader :=
  {| t_r := reader_of (map snd fs); t_tags := map fst fs; t_key := key; t_enc := enc; t_saved := false |}.
Definition t_sealed (t : treader) : bool := t_key t && t_enc t.

(* run a Message reader operation.  Frames it pulled must have been written in
   the mode the receiving stream is in: a sealed frame read in clear mode is
   ciphertext handed up as data, a clear frame read in sealed mode fails
   authentication — both are the outcome MErr MConn here. *)
Definition t_step {A} (f : reader -> reader * mres A) (t : treader) : treader * mres A :=
  let '(r', res) := f (t_r t) in
  let k := (length (r_in (t_r t)) - length (r_in r'))%nat in
  let t' := {| t_r := r'; t_tags := skipn k (t_tags t); t_key := t_key t; t_enc := t_enc t; t_saved := t_saved t |} in
  if forallb (Bool.eqb (t_sealed t)) (firstn k (t_tags t)) then (t', res) else (t', MErr MConn).

Definition t_prepare (t : treader) : treader :=
  {| t_r := t_r t; t_tags := t_tags t; t_key := t_key t;
     t_enc := if t_key t && negb (t_enc t) then true else t_enc t; t_saved := t_enc t |}.
Definition t_restore (t : treader) : treader :=
  {| t_r := t_r t; t_tags := t_tags t; t_key := t_key t; t_enc := t_saved t; t_saved := t_saved t |}.

Definition t_get_int (t : treader) := t_step get_int t.
Definition t_get_string (t : treader) := t_step (get_string (t_enc t)) t.
(* getSecretString *)
Definition t_get_secret (t : treader) : treader * mres bytes :=
  let '(t1, res) := t_get_string (t_prepare t) in (t_restore t1, res).

(* ---- SkipString / discard (message/skip.go) --------------------------- *)
Fixpoint skip_cstr_loop (fuel : nat) (r : reader) (want : option bytes) : reader * mres bool :=
  (* want = Some rest: every byte so far matched the marker and [rest] is still expected *)
  match fuel with
  | O => (r, MErr MOther)
  | S f =>
      match ensure r 1 with
      | (r1, MOk _) =>
          match r_buf r1 with
          | [] => (r1, MErr MOther)
          | b :: rest =>
              let r2 := set_buf r1 rest in
              if byte_eqb b x00 then (r2, MOk match want with Some [] => true | _ => false end)
              else skip_cstr_loop f r2
                     match want with
                     | Some (c :: w') => if byte_eqb b c then Some w' else None
                     | _ => None
                     end
          end
      | (r1, MErr MEof) => (r1, MOk match want with Some [] => true | _ => false end)
      | (r1, MErr e) => (r1, MErr e)
      | (r1, MPanic) => (r1, MPanic)
      end
  end.

Fixpoint discard_loop (fuel : nat) (r : reader) (n : Z) : reader * mres unit :=
  if (n <=? 0)%Z then (r, MOk tt) else
  match fuel with
  | O => (r, MErr MOther)
  | S f =>
      match ensure r 1 with
      | (r1, MOk _) =>
          let have := lenN (r_buf r1) in
          let take := N.min have (Z.to_N n) in
          discard_loop f (set_buf r1 (skipn (N.to_nat take) (r_buf r1))) (n - Z.of_N take)
      | (r1, MErr e) => (r1, MErr e)
      | (r1, MPanic) => (r1, MPanic)
      end
  end.
Definition discard (r : reader) (n : Z) : reader * mres unit :=
  discard_loop (S (S (length (r_in r)))) r n.

(* skipStringIsMarker: SkipString that also reports whether the string read is SecretMarker *)
Definition skip_string_marker (encrypted : bool) (r : reader) : reader * mres bool :=
  if encrypted then
    match get_int32 r with
    | (r1, MOk len) =>
        if ((0 <? len) && (len <=? Z.of_N (lenN secret_marker) + 1))%Z then
          match ensure r1 len with
          | (r2, MOk _) => let '(r3, data) := take r2 (Z.to_N len) in
                           (r3, MOk (bytes_eqb (strip_string data) secret_marker))
          | (r2, MErr e) => (r2, MErr e)
          | (r2, MPanic) => (r2, MPanic)
          end
        else
          match discard r1 len with
          | (r2, MOk _) => (r2, MOk false)
          | (r2, MErr e) => (r2, MErr e)
          | (r2, MPanic) => (r2, MPanic)
          end
    | (r1, MErr e) => (r1, MErr e)
    | (r1, MPanic) => (r1, MPanic)
    end
  else skip_cstr_loop (S (S (N.to_nat (total_bytes r)))) r (Some secret_marker).

(* SkipString *)
Definition skip_string (encrypted : bool) (r : reader) : reader * mres unit :=
  if encrypted then
    match get_int32 r with
    | (r1, MOk len) => discard r1 len
    | (r1, MErr e) => (r1, MErr e)
    | (r1, MPanic) => (r1, MPanic)
    end
  else
    match skip_cstr_loop (S (S (N.to_nat (total_bytes r)))) r None with
    | (r1, MOk _) => (r1, MOk tt)
    | (r1, MErr e) => (r1, MErr e)
    | (r1, MPanic) => (r1, MPanic)
    end.

Definition t_skip_string (t : treader) := t_step (skip_string_marker (t_enc t)) t.
Definition t_skip_plain (t : treader) := t_step (skip_string (t_enc t)) t.
Definition t_skip_secret (t : treader) : treader * mres unit :=
  let '(t1, res) := t_skip_plain (t_prepare t) in (t_restore t1, res).

(* ---- isTypeName ------------------------------------------------------- *)
Definition type_name_bad_byte (b : byte) : bool :=
  let n := b2n b in (n =? 61) || (n =? 34) || (n =? 10) || (n =? 13) || (n =? 92).
Definition is_type_name (s : bytes) : bool :=
  (lenN s <=? 128) && negb (existsb type_name_bad_byte s).

(* ---- the expression loop shared by GetClassAdRawBody and GetClassAd ----
   [ok] is what the receiver does with one expression string: GetClassAdRaw
   accepts everything, GetClassAd stops at the first string
   parseAndInsertExpression rejects.  [check_fin]: GetClassAdRawBody (and
   SkipClassAdRaw) stop when the message is exhausted, GetClassAd does not
   (it fails on the empty string it then reads). *)
Definition t_finished (t : treader) : bool :=      (* Message.Finished() *)
  r_fin (t_r t) && match r_buf (t_r t) with [] => true | _ => false end.

Fixpoint get_exprs (ok : bytes -> bool) (check_fin : bool) (n : nat) (t : treader) (acc : list bytes)
  : treader * mres (list bytes) :=
  match n with
  | O => (t, MOk (rev acc))
  | S k =>
      if check_fin && t_finished t then (t, MErr MOther) else
      match t_get_string t with
      | (t1, MOk s) =>
          if bytes_eqb s secret_marker then
            match t_get_secret t1 with
            | (t2, MOk s2) => if ok s2 then get_exprs ok check_fin k t2 (s2 :: acc) else (t2, MErr MOther)
            | (t2, MErr e) => (t2, MErr e)
            | (t2, MPanic) => (t2, MPanic)
            end
          else if ok s then get_exprs ok check_fin k t1 (s :: acc) else (t1, MErr MOther)
      | (t1, MErr e) => (t1, MErr e)
      | (t1, MPanic) => (t1, MPanic)
      end
  end.

Definition received := (list bytes * bytes * bytes)%type.   (* expression strings, MyType, TargetType *)

Definition get_types (check_names : bool) (t : treader) (exprs : list bytes) : treader * mres received :=
  match t_get_string t with
  | (t1, MOk my) =>
      if check_names && negb (lenN my =? 0) && negb (is_type_name my) then (t1, MErr MOther) else
      match t_get_string t1 with
      | (t2, MOk tg) =>
          if check_names && negb (lenN tg =? 0) && negb (is_type_name tg) then (t2, MErr MOther)
          else (t2, MOk (exprs, my, tg))
      | (t2, MErr e) => (t2, MErr e)
      | (t2, MPanic) => (t2, MPanic)
      end
  | (t1, MErr e) => (t1, MErr e)
  | (t1, MPanic) => (t1, MPanic)
  end.

Definition get_ad_gen (ok : bytes -> bool) (check_names : bool) (t : treader) : treader * mres received :=
  match t_get_int t with
  | (t1, MOk n) =>
      match get_exprs ok check_names (Z.to_nat n) t1 [] with
      | (t2, MOk es) => get_types check_names t2 es
      | (t2, MErr e) => (t2, MErr e)
      | (t2, MPanic) => (t2, MPanic)
      end
  | (t1, MErr e) => (t1, MErr e)
  | (t1, MPanic) => (t1, MPanic)
  end.

(* GetClassAdRaw *)
Definition get_ad_raw (t : treader) := get_ad_gen (fun _ => true) true t.
(* GetClassAd; [parses s] = parseAndInsertExpression returns nil on s *)
Definition get_ad (parses : bytes -> bool) (t : treader) := get_ad_gen parses false t.

(* SkipClassAdRaw *)
Fixpoint skip_exprs (n : nat) (t : treader) : treader * mres unit :=
  match n with
  | O => (t, MOk tt)
  | S k =>
      if t_finished t then (t, MErr MOther) else
      match t_skip_string t with
      | (t1, MOk true) =>
          match t_skip_secret t1 with
          | (t2, MOk _) => skip_exprs k t2
          | (t2, MErr e) => (t2, MErr e)
          | (t2, MPanic) => (t2, MPanic)
          end
      | (t1, MOk false) => skip_exprs k t1
      | (t1, MErr e) => (t1, MErr e)
      | (t1, MPanic) => (t1, MPanic)
      end
  end.

Definition skip_ad (t : treader) : treader * mres unit :=
  match t_get_int t with
  | (t1, MOk n) =>
      match skip_exprs (Z.to_nat n) t1 with
      | (t2, MOk _) =>
          match t_skip_plain t2 with
          | (t3, MOk _) =>
              match t_skip_plain t3 with
              | (t4, MOk _) => (t4, MOk tt)
              | (t4, MErr e) => (t4, MErr e)
              | (t4, MPanic) => (t4, MPanic)
              end
          | (t3, MErr e) => (t3, MErr e)
          | (t3, MPanic) => (t3, MPanic)
          end
      | (t2, MErr e) => (t2, MErr e)
      | (t2, MPanic) => (t2, MPanic)
      end
  | (t1, MErr e) => (t1, MErr e)
  | (t1, MPanic) => (t1, MPanic)
  end.

(* bytes a receiver has not consumed: what is left in the buffer and in the frames not yet pulled *)
Definition unread (t : treader) : bytes * list mframe := (r_buf (t_r t), r_in (t_r t)).

(* ---- the name / value split of parseAndInsertExpression --------------- *)
Fixpoint split_eq (s : bytes) (acc : bytes) : option (bytes * bytes) :=
  match s with
  | [] => None
  | b :: r => if byte_eqb b x3d then Some (rev' acc, r) else split_eq r (b :: acc)
  end.

(* ===================== the size-capped parsing receiver ================= *)
(* getClassAdFromMessageWithMaxSize with maxSize = cap (behind GetClassAdWithMaxSize): the FOURTH
   receiver.  cap <= 0 is GetClassAd.  With cap > 0 every wire string of the ad - each expression,
   each SecretMarker, the put_secret field behind it, MyType, TargetType - is read with
   GetStringWithMaxSize(cap - total) (Model/Decode.v get_string_max, C13's model of that function),
   refused outright when cap - total <= 0, and then charged len + 1 to total.  The secret field is read
   under the same crypto-for-secret toggle as in GetClassAd (getSecretStringWithMaxSize). *)
Definition t_get_string_max (k : Z) (t : treader) : treader * mres bytes :=
  t_step (Decode.get_string_max (t_enc t) k) t.
Definition t_get_secret_max (k : Z) (t : treader) : treader * mres bytes :=
  let '(t1, res) := t_get_string_max k (t_prepare t) in (t_restore t1, res).

Definition charge1 (total : Z) (s : bytes) : Z := (total + Z.of_N (lenN s) + 1)%Z.

(* one budgeted read: "remainingBytes := maxSize - totalBytesRead; if remainingBytes <= 0 { error }" *)
Definition budget_get (cap total : Z) (secret : bool) (t : treader) : treader * mres bytes :=
  if (cap - total <=? 0)%Z then (t, MErr MOther)
  else if secret then t_get_secret_max (cap - total) t else t_get_string_max (cap - total) t.

Fixpoint get_exprs_capped (ok : bytes -> bool) (cap : Z) (n : nat) (t : treader) (total : Z) (acc : list bytes)
  : treader * mres (list bytes * Z) :=
  match n with
  | O => (t, MOk (rev acc, total))
  | S k =>
      match budget_get cap total false t with
      | (t1, MOk s) =>
          let total1 := charge1 total s in
          if bytes_eqb s secret_marker then
            match budget_get cap total1 true t1 with
            | (t2, MOk s2) =>
                if ok s2 then get_exprs_capped ok cap k t2 (charge1 total1 s2) (s2 :: acc) else (t2, MErr MOther)
            | (t2, MErr e) => (t2, MErr e)
            | (t2, MPanic) => (t2, MPanic)
            end
          else if ok s then get_exprs_capped ok cap k t1 total1 (s :: acc) else (t1, MErr MOther)
      | (t1, MErr e) => (t1, MErr e)
      | (t1, MPanic) => (t1, MPanic)
      end
  end.

Definition get_types_capped (cap : Z) (t : treader) (total : Z) (exprs : list bytes) : treader * mres received :=
  match budget_get cap total false t with
  | (t1, MOk my) =>
      match budget_get cap (charge1 total my) false t1 with
      | (t2, MOk tg) => (t2, MOk (exprs, my, tg))
      | (t2, MErr e) => (t2, MErr e)
      | (t2, MPanic) => (t2, MPanic)
      end
  | (t1, MErr e) => (t1, MErr e)
  | (t1, MPanic) => (t1, MPanic)
  end.

(* GetClassAdWithMaxSize(cap); [parses] as for get_ad *)
Definition get_ad_capped (parses : bytes -> bool) (cap : Z) (t : treader) : treader * mres received :=
  if (cap <=? 0)%Z then get_ad parses t else
  match t_get_int t with
  | (t1, MOk n) =>
      match get_exprs_capped parses cap (Z.to_nat n) t1 0%Z [] with
      | (t2, MOk (es, total)) => get_types_capped cap t2 total es
      | (t2, MErr e) => (t2, MErr e)
      | (t2, MPanic) => (t2, MPanic)
      end
  | (t1, MErr e) => (t1, MErr e)
  | (t1, MPanic) => (t1, MPanic)
  end.

(* what the capped receiver charges for an ad whose wire strings are [items] (markers included) *)
Definition charged (items : list bytes) : Z := fold_left charge1 items 0%Z.
