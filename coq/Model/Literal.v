(* Model/Literal.v — the literal fast path of the ClassAd decoder and the
   specification it is measured against.

   Go code modelled (message/classad.go, after fix commit "tryInsertLiteral ... conservative"):
     tryInsertLiteral, equalFoldASCII, classifyNumberLiteral          -> try_literal
     decodeOldClassAdString                                           -> decode_old_string
     parseAndInsertExpression (split at the first '=', TrimSpace)     -> split_expr
     strings.TrimSpace (Unicode White_Space, both ends)               -> trim_space
     unicode/utf8 DecodeRune / ValidString                            -> utf8_step / utf8_valid

   Specification (classad v0.4.0 parser/streaming_lexer.go + classad.y, as reached through
   classad.ParseExpr) restricted to texts that are ONE literal: an optional single sign, one number /
   boolean keyword, or one or more adjacent string tokens, surrounded by white space:
                                                                      -> lex_literal
   lex_literal returns None for everything else (other expressions, lexical errors, comments).
   It is tied to the real parser by the correspondence run (exhaustively over short texts over the
   literal alphabet), never assumed.

   The numeric value of a real is not modelled: a real literal is (sign, text handed to
   strconv.ParseFloat); whether ParseFloat reports a range error for it is an input ([ovf]). *)
From Coq Require Import List NArith ZArith Bool.
From Cedar Require Import Lib.Bytes.
Import ListNotations.
Local Open Scope N_scope.

Inductive lit :=
| LBool (b : bool)
| LInt (z : Z)
| LReal (neg : bool) (text : bytes)       (* value = (-1)^neg * ParseFloat(text) *)
| LStr (s : bytes).

(* ---------- byte classes ------------------------------------------------ *)
Definition is_digit (b : byte) : bool := let n := b2n b in (48 <=? n) && (n <=? 57).
Definition is_letter (b : byte) : bool :=
  let n := b2n b in ((65 <=? n) && (n <=? 90)) || ((97 <=? n) && (n <=? 122)).
Definition is_ident_char (b : byte) : bool := is_letter b || is_digit b || (b2n b =? 95).
Definition is_ascii_space (b : byte) : bool :=
  let n := b2n b in ((9 <=? n) && (n <=? 13)) || (n =? 32).
Definition beq (b : byte) (n : N) : bool := b2n b =? n.
Definition lower_byte (b : byte) : byte :=
  let n := b2n b in if (65 <=? n) && (n <=? 90) then n2b (n + 32) else b.

(* non-ASCII members of Unicode White_Space in UTF-8: U+0085 U+00A0 | U+1680 U+2000..200A U+2028 U+2029 U+202F U+205F U+3000 *)
Definition sp2 (a b : byte) : bool := beq a 194 && (beq b 133 || beq b 160).
Definition sp3 (a b c : byte) : bool :=
  (beq a 225 && beq b 154 && beq c 128) ||
  (beq a 226 && beq b 128 && (((128 <=? b2n c) && (b2n c <=? 138)) || beq c 168 || beq c 169 || beq c 175)) ||
  (beq a 226 && beq b 129 && beq c 159) ||
  (beq a 227 && beq b 128 && beq c 128).

(* strip leading white-space runes: TrimLeftFunc(s, unicode.IsSpace) and the lexer's white-space trivia *)
Fixpoint trim_left (s : bytes) : bytes :=
  match s with
  | [] => []
  | b :: r =>
      if is_ascii_space b then trim_left r else
      match r with
      | b2 :: r2 =>
          if sp2 b b2 then trim_left r2 else
          match r2 with
          | b3 :: r3 => if sp3 b b2 b3 then trim_left r3 else s
          | [] => s
          end
      | [] => s
      end
  end.

(* the same from the end, on the reversed string (utf8.DecodeLastRune) *)
Fixpoint trim_left_rev (s : bytes) : bytes :=
  match s with
  | [] => []
  | b :: r =>
      if is_ascii_space b then trim_left_rev r else
      match r with
      | b2 :: r2 =>
          if sp2 b2 b then trim_left_rev r2 else
          match r2 with
          | b3 :: r3 => if sp3 b3 b2 b then trim_left_rev r3 else s
          | [] => s
          end
      | [] => s
      end
  end.
Definition trim_right (s : bytes) : bytes := rev (trim_left_rev (rev s)).
Definition trim_space (s : bytes) : bytes := trim_right (trim_left s).

(* ---------- UTF-8 as Go decodes it --------------------------------------- *)
Definition is_cont (b : byte) : bool := (128 <=? b2n b) && (b2n b <=? 191).
Definition in_rng (b : byte) (lo hi : N) : bool := (lo <=? b2n b) && (b2n b <=? hi).

(* width of the rune at the head and whether it is a valid encoding (invalid: width 1, U+FFFD) *)
Definition utf8_step (s : bytes) : nat * bool :=
  match s with
  | [] => (0%nat, false)
  | b :: r =>
      let n := b2n b in
      if n <? 128 then (1%nat, true)
      else if in_rng b 194 223 then
        match r with c1 :: _ => if is_cont c1 then (2%nat, true) else (1%nat, false) | [] => (1%nat, false) end
      else if in_rng b 224 239 then
        match r with
        | c1 :: c2 :: _ =>
            let lo := if n =? 224 then 160 else 128 in
            let hi := if n =? 237 then 159 else 191 in
            if in_rng c1 lo hi && is_cont c2 then (3%nat, true) else (1%nat, false)
        | _ => (1%nat, false)
        end
      else if in_rng b 240 244 then
        match r with
        | c1 :: c2 :: c3 :: _ =>
            let lo := if n =? 240 then 144 else 128 in
            let hi := if n =? 244 then 143 else 191 in
            if in_rng c1 lo hi && is_cont c2 && is_cont c3 then (4%nat, true) else (1%nat, false)
        | _ => (1%nat, false)
        end
      else (1%nat, false)
  end.

Fixpoint utf8_valid_f (fuel : nat) (s : bytes) : bool :=
  match fuel with
  | O => match s with [] => true | _ => false end
  | S f =>
      match s with
      | [] => true
      | _ => let '(w, ok) := utf8_step s in ok && utf8_valid_f f (skipn w s)
      end
  end.
Definition utf8_valid (s : bytes) : bool := utf8_valid_f (length s) s.

Definition replacement_char : bytes := [xef; xbf; xbd].
(* UTF-8 of a code point below 256 (octal escapes) *)
Definition encode_small (v : N) : bytes :=
  if v <? 128 then [n2b v] else [n2b (192 + v / 64); n2b (128 + v mod 64)].

(* ---------- numbers ------------------------------------------------------ *)
Fixpoint span_digits (s : bytes) : bytes * bytes :=
  match s with
  | b :: r => if is_digit b then let '(d, rest) := span_digits r in (b :: d, rest) else ([], s)
  | [] => ([], [])
  end.
Fixpoint dec_value_acc (acc : Z) (s : bytes) : Z :=
  match s with
  | [] => acc
  | b :: r => dec_value_acc (acc * 10 + Z.of_N (b2n b - 48)) r
  end.
Definition dec_value (s : bytes) : Z := dec_value_acc 0 s.

Inductive numclass := NumNone | NumInt | NumReal.

(* classifyNumberLiteral *)
Definition classify_unsigned (s : bytes) : numclass :=
  let '(ds, r) := span_digits s in
  match r with
  | [] =>
      match ds with
      | [] => NumNone
      | d :: _ :: _ => if beq d 48 then NumNone else NumInt
      | _ => NumInt
      end
  | c :: r1 =>
      if negb (beq c 46) then NumNone else
      let '(fs, r2) := span_digits r1 in
      match fs with
      | [] => NumNone
      | _ =>
          match r2 with
          | [] => NumReal
          | e :: r3 =>
              if negb (beq e 101 || beq e 69) then NumNone else
              let r4 := match r3 with sg :: r' => if beq sg 43 || beq sg 45 then r' else r3 | [] => r3 end in
              let '(es, r5) := span_digits r4 in
              match es, r5 with
              | _ :: _, [] => NumReal
              | _, _ => NumNone
              end
          end
      end
  end.
Definition strip_minus (s : bytes) : bool * bytes :=
  match s with b :: r => if beq b 45 then (true, r) else (false, s) | [] => (false, s) end.
Definition classify_number (s : bytes) : numclass := classify_unsigned (snd (strip_minus s)).

Definition int64_ok (z : Z) : bool := ((- 2 ^ 63 <=? z) && (z <=? 2 ^ 63 - 1))%Z.

(* ---------- the fast path ------------------------------------------------ *)
Definition fold_eq (s lower : bytes) : bool := bytes_eqb (map lower_byte s) lower.
Definition kw_true : bytes := [x74; x72; x75; x65].
Definition kw_false : bytes := [x66; x61; x6c; x73; x65].

Definition simple_string (t : bytes) : option bytes :=
  match t with
  | q :: r =>
      if beq q 34 then
        match rev r with
        | q2 :: inner_rev =>
            if beq q2 34 then
              let inner := rev inner_rev in
              if negb (existsb (fun b => beq b 92 || beq b 34) inner) && utf8_valid inner then Some inner else None
            else None
        | [] => None
        end
      else None
  | [] => None
  end.

(* tryInsertLiteral: Some l = it inserted the literal l and returned nil.
   ovf: strconv.ParseFloat reports a range error for the trimmed text. *)
Definition try_core (ovf : bool) (t : bytes) : option lit :=
  if fold_eq t kw_true then Some (LBool true)
  else if fold_eq t kw_false then Some (LBool false)
  else
    let '(neg, u) := strip_minus t in
    let num :=
      match classify_unsigned u with
      | NumInt => let z := (if neg then - dec_value u else dec_value u)%Z in
                  if int64_ok z then Some (LInt z) else None
      | NumReal => if ovf then None else Some (LReal neg u)
      | NumNone => None
      end in
    match num with
    | Some l => Some l
    | None => option_map LStr (simple_string t)
    end.
Definition try_literal (ovf : bool) (v : bytes) : option lit := try_core ovf (trim_space v).

(* decodeOldClassAdString *)
Fixpoint decode_old_string (s : bytes) : option bytes :=
  match s with
  | [] => Some []
  | b :: r =>
      if beq b 92 then
        match r with
        | q :: r2 => if beq q 34 then option_map (cons q) (decode_old_string r2)
                     else option_map (cons b) (decode_old_string r)
        | [] => Some [b]
        end
      else if beq b 34 then None
      else option_map (cons b) (decode_old_string r)
  end.

(* parseAndInsertExpression: name and value text, or None (no '=', or empty name) *)
Fixpoint split_at_eq (s : bytes) (acc : bytes) : option (bytes * bytes) :=
  match s with
  | [] => None
  | b :: r => if beq b 61 then Some (rev acc, r) else split_at_eq r (b :: acc)
  end.
Definition split_expr (e : bytes) : option (bytes * bytes) :=
  match split_at_eq e [] with
  | Some (n, v) => let n' := trim_space n in
                   match n' with [] => None | _ => Some (n', trim_space v) end
  | None => None
  end.

(* ---------- the lexer, on single literals -------------------------------- *)
(* scanNumber after its first character; acc = text so far, reversed *)
Fixpoint scan_num (s : bytes) (has_dec has_exp : bool) (acc : bytes) : option (bytes * bytes * bool) :=
  match s with
  | [] => Some (rev acc, [], has_dec || has_exp)
  | c :: r =>
      if is_digit c then scan_num r has_dec has_exp (c :: acc)
      else if beq c 46 && negb has_dec && negb has_exp then
        match r with
        | d :: _ => if is_digit d then scan_num r true has_exp (c :: acc) else None
        | [] => None                                  (* "expected digit after decimal point" *)
        end
      else if (beq c 101 || beq c 69) && negb has_exp then
        match r with
        | sg :: r' => if beq sg 43 || beq sg 45 then scan_num r' true true (sg :: c :: acc)
                      else scan_num r true true (c :: acc)
        | [] => scan_num r true true (c :: acc)
        end
      else Some (rev acc, s, has_dec || has_exp)
  end.

Definition last_is_digit (s : bytes) : bool :=
  match rev s with b :: _ => is_digit b | [] => false end.

Inductive numtok := TInt (z : Z) | TMinMag | TReal (text : bytes).

(* a number token at the head of s (s starts with a digit, or with '.' and a digit) *)
Definition lex_number (s : bytes) : option (numtok * bytes) :=
  match s with
  | c :: r =>
      let start := if is_digit c then Some false
                   else if beq c 46 then match r with d :: _ => if is_digit d then Some true else None | [] => None end
                   else None in
      match start with
      | None => None
      | Some dec0 =>
          match scan_num r dec0 false [c] with
          | None => None
          | Some (text, rest, real) =>
              if real then
                (* ParseFloat(text): a syntax error iff an exponent marker is not followed by a digit *)
                if last_is_digit text then Some (TReal text, rest) else None
              else
                match text with
                | d :: _ :: _ => if beq d 48 then None else
                                 let z := dec_value text in
                                 if (z <? 2 ^ 63)%Z then Some (TInt z, rest)
                                 else if (z =? 2 ^ 63)%Z then Some (TMinMag, rest) else None
                | _ => let z := dec_value text in Some (TInt z, rest)
                end
          end
      end
  | [] => None
  end.

Fixpoint span_ident (s : bytes) : bytes * bytes :=
  match s with
  | b :: r => if is_ident_char b then let '(d, rest) := span_ident r in (b :: d, rest) else ([], s)
  | [] => ([], [])
  end.

Definition kw_my : bytes := [x6d; x79].
Definition kw_target : bytes := [x74; x61; x72; x67; x65; x74].
Definition kw_parent : bytes := [x70; x61; x72; x65; x6e; x74].

(* a boolean keyword token at the head of s *)
Definition lex_bool (s : bytes) : option (bool * bytes) :=
  let '(w, rest) := span_ident s in
  let scoped := match rest with
                | d :: _ => beq d 46 && (fold_eq w kw_my || fold_eq w kw_target || fold_eq w kw_parent)
                | [] => false
                end in
  if scoped then None
  else if fold_eq w kw_true then Some (true, rest)
  else if fold_eq w kw_false then Some (false, rest)
  else None.

Definition is_octal (b : byte) : bool := in_rng b 48 55.

(* scanString after the opening quote; acc reversed *)
Fixpoint scan_str (fuel : nat) (s : bytes) (acc : bytes) : option (bytes * bytes) :=
  match fuel with
  | O => None
  | S f =>
      match s with
      | [] => None                                        (* unterminated *)
      | c :: r =>
          if beq c 34 then Some (rev acc, r)
          else if beq c 92 then
            match r with
            | [] => None
            | e :: r2 =>
                let simple (b : byte) := scan_str f r2 (b :: acc) in
                if beq e 98 then simple x08
                else if beq e 116 then simple x09
                else if beq e 110 then simple x0a
                else if beq e 102 then simple x0c
                else if beq e 114 then simple x0d
                else if beq e 92 then simple x5c
                else if beq e 34 then simple x22
                else if beq e 39 then simple x27
                else if is_octal e then
                  let maxd := if b2n e <=? 51 then 3%nat else 2%nat in
                  let v1 := b2n e - 48 in
                  let '(v2, r3, n2) :=
                    match r2 with
                    | d :: r' => if is_octal d then (v1 * 8 + (b2n d - 48), r', 2%nat) else (v1, r2, 1%nat)
                    | [] => (v1, r2, 1%nat)
                    end in
                  let '(v3, r4) :=
                    if (n2 =? 2)%nat && (maxd =? 3)%nat then
                      match r3 with
                      | d :: r' => if is_octal d then (v2 * 8 + (b2n d - 48), r') else (v2, r3)
                      | [] => (v2, r3)
                      end
                    else (v2, r3) in
                  if v3 =? 0 then None
                  else scan_str f r4 (rev (encode_small v3) ++ acc)
                else None                                   (* invalid escape sequence *)
            end
          else
            let '(w, ok) := utf8_step s in
            if ok then scan_str f (skipn w s) (rev (firstn w s) ++ acc)
            else scan_str f r (rev replacement_char ++ acc)
      end
  end.

(* one or more adjacent string tokens, then only white space *)
Fixpoint lex_strings (fuel : nat) (s : bytes) (acc : bytes) : option bytes :=
  match fuel with
  | O => None
  | S f =>
      match s with
      | q :: r =>
          if beq q 34 then
            match scan_str (S (length r)) r [] with
            | Some (v, rest) =>
                match trim_left rest with
                | [] => Some (acc ++ v)
                | rest' => lex_strings f rest' (acc ++ v)
                end
            | None => None
            end
          else None
      | [] => None
      end
  end.

Definition only_space_after {A} (x : option (A * bytes)) : option A :=
  match x with
  | Some (a, rest) => match trim_left rest with [] => Some a | _ => None end
  | None => None
  end.

Definition starts_number (s : bytes) : bool :=
  match s with
  | c :: r => is_digit c || (beq c 46 && match r with d :: _ => is_digit d | [] => false end)
  | [] => false
  end.

(* the text is one literal: what the parser reads it as *)
Definition lex_core (s : bytes) : option lit :=
  match s with
  | [] => None
  | c :: r =>
      if beq c 45 || beq c 43 then
        let neg := beq c 45 in
        match only_space_after (lex_number (trim_left r)) with
        | Some (TInt z) => Some (LInt (if neg then - z else z)%Z)
        | Some TMinMag => if neg then Some (LInt (- 2 ^ 63)%Z) else None
        | Some (TReal t) => Some (LReal neg t)
        | None => None
        end
      else if starts_number s then
        match only_space_after (lex_number s) with
        | Some (TInt z) => Some (LInt z)
        | Some (TReal t) => Some (LReal false t)
        | _ => None
        end
      else if beq c 34 then option_map LStr (lex_strings (S (length s)) s [])
      else if is_letter c || beq c 95 then option_map LBool (only_space_after (lex_bool s))
      else None
  end.
Definition lex_literal (v : bytes) : option lit := lex_core (trim_left v).
