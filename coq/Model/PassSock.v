(* Model/PassSock.v — client/sharedport/endpoint_protocol.go: the CEDAR-framed header that
   condor_shared_port sends over the Unix-domain socket before it passes the client fd.

     readPassSockHeader(r io.Reader) error      -> read_pass_sock_header
     writePassSockHeader(w io.Writer) error     -> write_pass_sock_header

   The reader is modelled on an in-memory byte stream: io.ReadFull(r, buf[:n]) delivers n
   bytes, or -- when fewer are left -- consumes what is there and fails.  make() is charged to
   ps_alloc; the slice hdr[1:5] and make([]byte, length) are explicit partial operations
   (PsPanic), proved unreachable.  The constants come from /repo (gen/FactsC13.v). *)
From Coq Require Import List NArith ZArith Lia Bool.
From Cedar Require Import Lib.Bytes gen.FactsC13 Model.Msg Model.Decode.
Import ListNotations.
Local Open Scope N_scope.

Inductive ps_err := PsShort | PsBadLen | PsBadSize | PsBadCmd.
Inductive ps_res := PsOk | PsErr (e : ps_err) | PsPanic.
(* what is left of the stream, and the bytes requested from make() *)
Record ps_state := { ps_in : bytes; ps_alloc : N }.

(* io.ReadFull on an in-memory stream *)
Definition read_full (inp : bytes) (n : N) : option bytes * bytes :=
  if len_lt inp n then (None, [])
  else (Some (firstn (N.to_nat n) inp), skipn (N.to_nat n) inp).

Definition read_pass_sock_header (inp : bytes) : ps_res * ps_state :=
  match read_full inp PsHeaderSize with
  | (None, rest) => (PsErr PsShort, {| ps_in := rest; ps_alloc := 0 |})
  | (Some hdr, rest) =>
      match go_slice hdr 1 5 with
      | None => (PsPanic, {| ps_in := rest; ps_alloc := 0 |})
      | Some lb =>
          let length := be_dec lb in                          (* binary.BigEndian.Uint32 *)
          if (length =? 0) || (PsMaxHeaderPayload <? length)
          then (PsErr PsBadLen, {| ps_in := rest; ps_alloc := 0 |})
          else
            match go_make (Z.of_N length) with
            | None => (PsPanic, {| ps_in := rest; ps_alloc := 0 |})
            | Some n =>
                match read_full rest n with
                | (None, rest') => (PsErr PsShort, {| ps_in := rest'; ps_alloc := n |})
                | (Some payload, rest') =>
                    let st := {| ps_in := rest'; ps_alloc := n |} in
                    if negb (lenN payload =? PsIntPayloadLen) then (PsErr PsBadSize, st)
                    else if be_dec payload =? PassSockCmd then (PsOk, st)   (* int64(Uint64(payload)) == 76 *)
                    else (PsErr PsBadCmd, st)
                end
            end
      end
  end.

(* frame[0] = 1; PutUint32(frame[1:5], 8); PutUint64(frame[5:13], SHARED_PORT_PASS_SOCK) *)
Definition write_pass_sock_header : bytes :=
  x01 :: be_enc 4 PsIntPayloadLen ++ be_enc 8 PassSockCmd.
