(* Model/Double.v — message/message.go PutDouble / GetDouble, bit-exact on Flocq binary64.

     PutDouble(v):  frac, exp := math.Frexp(v)
                    fracInt := int32(frac * float64(FracConst))      // FracConst = 2^31-1
                    PutInt32(fracInt); PutInt32(int32(exp))
     GetDouble():   fracInt := GetInt32(); exp := GetInt32()
                    return math.Ldexp(float64(fracInt) / float64(FracConst), int(exp))

   Doubles enter and leave the model as their 64-bit patterns.  Floating-point
   operations are Flocq's (round-to-nearest-even); the float->int32 conversion has the
   semantics of the amd64 instruction the Go compiler emits (CVTTSD2SL: truncation, and
   the "integer indefinite" value -2^31 for NaN, infinities and out-of-range values) -
   the Go specification leaves that case implementation-defined.  Observed on the real
   code (go1.23, amd64): NaN and +-Inf are sent as (fracInt, exp) = (-2147483648, 0) and
   decode as -(2^31)/(2^31-1); -0 is sent as (0, 0) and decodes as +0. *)
From Coq Require Import ZArith NArith Bool List.
From Flocq Require Import Core.Zaux IEEE754.BinarySingleNaN.
From Flocq Require IEEE754.Binary IEEE754.Bits.
From Cedar Require Import Lib.Bytes gen.Consts Model.Msg.
Import ListNotations.
Local Open Scope Z_scope.

#[global] Instance prec53_gt_0 : FLX.Prec_gt_0 53 := eq_refl.
#[global] Instance prec53_lt_emax : Prec_lt_emax 53 1024 := eq_refl.

Definition b64 : Type := BinarySingleNaN.binary_float 53 1024.

(* 64-bit pattern <-> float (all NaNs are one value; GetDouble never returns one) *)
Definition of_bits (z : Z) : b64 := Binary.B2BSN 53 1024 (Bits.b64_of_bits (z mod 2 ^ 64)).
Definition to_bits (x : b64) : Z :=
  match x with
  | B754_zero s => if s then 2 ^ 63 else 0
  | B754_infinity s => (if s then 2 ^ 63 else 0) + 2047 * 2 ^ 52
  | B754_nan => 2047 * 2 ^ 52 + 2 ^ 51
  | B754_finite s m e _ =>
      (if s then 2 ^ 63 else 0) +
      (if Zpos m <? 2 ^ 52 then Zpos m                       (* subnormal: e = -1074 *)
       else (e + 1075) * 2 ^ 52 + (Zpos m - 2 ^ 52))
  end.

(* float64(k) for an integer below 2^53 in magnitude: exact *)
Definition of_int (k : Z) : b64 := binary_normalize 53 1024 _ _ mode_NE k 0 false.
Definition frac_const : b64 := of_int (Z.of_N FracConst).

(* math.Frexp: 0, +-Inf and NaN are returned unchanged with exponent 0 *)
Definition go_frexp (x : b64) : b64 * Z :=
  match x with
  | B754_finite _ _ _ _ => Bfrexp x
  | _ => (x, 0)
  end.

(* int32(f) on amd64 (CVTTSD2SL) *)
Definition int32_indefinite : Z := - 2 ^ 31.
Definition go_int32_of_float (x : b64) : Z :=
  match x with
  | B754_nan | B754_infinity _ => int32_indefinite
  | _ => let t := Btrunc x in
         if (- 2 ^ 31 <=? t) && (t <? 2 ^ 31) then t else int32_indefinite
  end.

(* the two integers PutDouble writes *)
Definition double_ints (d : b64) : Z * Z :=
  let '(fr, e) := go_frexp d in
  (go_int32_of_float (Bmult mode_NE fr frac_const), wrap32 e).

Definition put_double (w : writer) (bits : Z) : writer :=
  let '(fi, e) := double_ints (of_bits bits) in
  put_int (put_int w fi) e.

(* math.Ldexp (pure-Go version used on amd64): zero, infinities and NaN unchanged;
   underflow below 2^-1075 to a signed zero, overflow to a signed infinity, otherwise
   the correctly rounded (nearest-even) value of frac * 2^exp.  The range tests come
   first, as in the Go code, so the exponent handed to Bldexp is always small. *)
Definition go_ldexp (f : b64) (exp : Z) : b64 :=
  match f with
  | B754_finite s _ _ _ =>
      let e0 := snd (Bfrexp f) in               (* |f| = m * 2^e0, 1/2 <= m < 1 *)
      let e := exp + e0 - 1 in                  (* exponent of the result, 1 <= m' < 2 *)
      if e <? -1075 then B754_zero s
      else if 1023 <? e then B754_infinity s
      else Bldexp mode_NE f exp
  | _ => f
  end.

(* the value GetDouble computes from the two wire integers (after GetInt32's truncation) *)
Definition double_of_ints (fi e : Z) : b64 :=
  go_ldexp (Bdiv mode_NE (of_int fi) frac_const) e.

Definition get_double (r : reader) : reader * mres Z :=
  match get_int32 r with
  | (r1, MOk fi) =>
      match get_int32 r1 with
      | (r2, MOk e) => (r2, MOk (to_bits (double_of_ints fi e)))
      | (r2, MErr er) => (r2, MErr er)
      | (r2, MPanic) => (r2, MPanic)
      end
  | (r1, MErr er) => (r1, MErr er)
  | (r1, MPanic) => (r1, MPanic)
  end.
