(* Model/ClaimId.v — executable model of cedar's claim-id ("match password")
   sessions: security/claim_mint.go, security/claim_session.go and the parts of
   security/inherited_session.go they use.

     Go                               Gallina
     -------------------------------  ------------------------------
     ParseClaimIDStrict               parse_strict
     ParseClaimID                     parse_loose
     ClaimID.SecSessionID            sec_session_id
     ClaimID.PublicClaimID           public_of_parsed
     ImportSessionInfoAttributes      import_attrs      (code after fix 2bac469)
     ImportSecSessionInfo             import_info
     ExportSecSessionInfo             export_info
     shortVersion                     short_version
     deriveSessionKey                 derive_session_key  (symbolic HKDF, Lib/SymC16)
     deriveClaimKeyInfo               derive_claim_key
     claimExpiration                  claim_expiration
     mapClaimCommands                 map_claim_commands
     MintClaimSession                 mint
     ImportClaimSession               import_claim
     ImportFileTransferSession        import_ft

   Strings are [bytes].  strings.TrimSpace / strings.Fields are modelled for
   ASCII white space only (the correspondence feeds bytes < 0x80).  Definitions
   only; proofs live in Proofs/C16*.v. *)
From Coq Require Import List NArith ZArith Bool.
From Coq Require String.
From Cedar Require Import Lib.Bytes Lib.SymC16.
Import ListNotations.

Definition lit (s : String.string) : bytes := String.list_byte_of_string s.

Inductive res (A : Type) := Ok (a : A) | Err | Panic.
Arguments Ok {A} a.
Arguments Err {A}.
Arguments Panic {A}.

(* ---- characters ------------------------------------------------------- *)
Definition ch_hash : byte := x23.    (* # *)
Definition ch_lbr : byte := x5b.     (* [ *)
Definition ch_rbr : byte := x5d.     (* ] *)
Definition ch_semi : byte := x3b.    (* ; *)
Definition ch_eq : byte := x3d.      (* = *)
Definition ch_quote : byte := x22.   (* double quote *)
Definition ch_comma : byte := x2c.   (* , *)
Definition ch_dot : byte := x2e.     (* . *)
Definition ch_space : byte := x20.
Definition ch_dollar : byte := x24.  (* $ *)
Definition ch_minus : byte := x2d.
Definition ch_plus : byte := x2b.
Definition ch_lt : byte := x3c.      (* < *)
Definition ch_gt : byte := x3e.      (* > *)
Definition ch_lbrace : byte := x7b.  (* { *)
Definition ch_rbrace : byte := x7d.  (* } *)

(* ---- Go strings functions over bytes ---------------------------------- *)
Definition is_space (b : byte) : bool :=
  byte_eqb b x20 || byte_eqb b x09 || byte_eqb b x0a || byte_eqb b x0b || byte_eqb b x0c || byte_eqb b x0d.

Definition is_nil (s : bytes) : bool := match s with [] => true | _ => false end.

Fixpoint contains (c : byte) (s : bytes) : bool :=
  match s with [] => false | b :: r => byte_eqb b c || contains c r end.

Fixpoint trim_left (s : bytes) : bytes :=
  match s with
  | [] => []
  | b :: r => if is_space b then trim_left r else s
  end.
Fixpoint trim_right (s : bytes) : bytes :=
  match s with
  | [] => []
  | b :: r => match trim_right r with
              | [] => if is_space b then [] else [b]
              | r' => b :: r'
              end
  end.
Definition trim_space (s : bytes) : bytes := trim_right (trim_left s).

(* strings.Split(s, c) for a one-byte separator: head piece and the remaining pieces *)
Fixpoint split1 (c : byte) (s : bytes) : bytes * list bytes :=
  match s with
  | [] => ([], [])
  | b :: r => let '(h, t) := split1 c r in
              if byte_eqb b c then ([], h :: t) else (b :: h, t)
  end.
Definition split_on (c : byte) (s : bytes) : list bytes := let '(h, t) := split1 c s in h :: t.
Definition split_head (c : byte) (s : bytes) : bytes := fst (split1 c s).

(* strings.Index for one byte *)
Fixpoint index_of (c : byte) (s : bytes) : option nat :=
  match s with
  | [] => None
  | b :: r => if byte_eqb b c then Some O
              else match index_of c r with Some i => Some (S i) | None => None end
  end.
(* strings.LastIndex for one byte *)
Fixpoint last_index (c : byte) (s : bytes) : option nat :=
  match s with
  | [] => None
  | b :: r => match last_index c r with
              | Some i => Some (S i)
              | None => if byte_eqb b c then Some O else None
              end
  end.

Definition starts_with (c : byte) (s : bytes) : bool :=
  match s with b :: _ => byte_eqb b c | [] => false end.
Fixpoint ends_with (c : byte) (s : bytes) : bool :=
  match s with
  | [] => false
  | [b] => byte_eqb b c
  | _ :: r => ends_with c r
  end.
(* strings.TrimPrefix / TrimSuffix with a one-byte affix *)
Definition trim_prefix1 (c : byte) (s : bytes) : bytes :=
  match s with b :: r => if byte_eqb b c then r else s | [] => [] end.
Fixpoint trim_suffix1 (c : byte) (s : bytes) : bytes :=
  match s with
  | [] => []
  | [b] => if byte_eqb b c then [] else [b]
  | b :: r => b :: trim_suffix1 c r
  end.
Definition replace_all (a b : byte) (s : bytes) : bytes :=
  map (fun x => if byte_eqb x a then b else x) s.

(* strings.Fields, ASCII white space *)
Fixpoint fields_aux (cur : bytes) (s : bytes) : list bytes :=
  match s with
  | [] => if is_nil cur then [] else [rev cur]
  | b :: r => if is_space b
              then (if is_nil cur then fields_aux [] r else rev cur :: fields_aux [] r)
              else fields_aux (b :: cur) r
  end.
Definition fields (s : bytes) : list bytes := fields_aux [] s.

(* strings.TrimRight(s, ';,') *)
Fixpoint trim_right_set (f : byte -> bool) (s : bytes) : bytes :=
  match s with
  | [] => []
  | b :: r => match trim_right_set f r with
              | [] => if f b then [] else [b]
              | r' => b :: r'
              end
  end.

(* ---- decimal integers: strconv.FormatInt / Itoa / %d and strconv.ParseInt(s,10,64) *)
Local Open Scope N_scope.
Definition digit (n : N) : byte := n2b (48 + n).
Fixpoint dec_fuel (f : nat) (n : N) (acc : bytes) : bytes :=
  match f with
  | O => acc
  | S f' => let acc' := digit (n mod 10) :: acc in
            if n <? 10 then acc' else dec_fuel f' (n / 10) acc'
  end.
Definition dec_of_N (n : N) : bytes := dec_fuel (S (N.to_nat (N.log2 n))) n [].
Definition dec_of_Z (z : Z) : bytes :=
  if (z <? 0)%Z then ch_minus :: dec_of_N (Z.to_N (- z)) else dec_of_N (Z.to_N z).

Definition digit_val (b : byte) : option N :=
  let n := b2n b in if (48 <=? n) && (n <=? 57) then Some (n - 48) else None.
Fixpoint parse_digits (acc : N) (s : bytes) : option N :=
  match s with
  | [] => Some acc
  | b :: r => match digit_val b with
              | Some d => parse_digits (acc * 10 + d) r
              | None => None
              end
  end.
Definition two63 : N := 9223372036854775808.
(* strconv.ParseInt(s, 10, 64): optional sign, at least one digit, digits only,
   range error outside int64 *)
Definition parse_int64 (s : bytes) : option Z :=
  let '(neg, ds) :=
    match s with
    | b :: r => if byte_eqb b ch_plus then (false, r)
                else if byte_eqb b ch_minus then (true, r) else (false, s)
    | [] => (false, [])
    end in
  match ds with
  | [] => None
  | _ => match parse_digits 0 ds with
         | None => None
         | Some n => if neg then (if n <=? two63 then Some (- Z.of_N n)%Z else None)
                     else (if n <? two63 then Some (Z.of_N n) else None)
         end
  end.
Local Close Scope N_scope.

(* ---- ClassAd-like policies: attribute name -> typed value -------------- *)
Inductive pval := PStr (s : bytes) | PInt (z : Z) | PBool (b : bool).
Definition policy := list (bytes * pval).

Fixpoint plookup (n : bytes) (p : policy) : option pval :=
  match p with
  | [] => None
  | (k, v) :: r => if bytes_eqb k n then Some v else plookup n r
  end.
(* ClassAd.Set: replace in place or append *)
Fixpoint pset (n : bytes) (v : pval) (p : policy) : policy :=
  match p with
  | [] => [(n, v)]
  | (k, w) :: r => if bytes_eqb k n then (k, v) :: r else (k, w) :: pset n v r
  end.
(* EvaluateAttrString / EvaluateAttrInt: succeed only on a value of that type *)
Definition get_str (p : policy) (n : bytes) : option bytes :=
  match plookup n p with Some (PStr s) => Some s | _ => None end.
Definition get_int (p : policy) (n : bytes) : option Z :=
  match plookup n p with Some (PInt z) => Some z | _ => None end.

(* Go map[string]string *)
Definition smap := list (bytes * bytes).
Fixpoint slookup (n : bytes) (m : smap) : option bytes :=
  match m with
  | [] => None
  | (k, v) :: r => if bytes_eqb k n then Some v else slookup n r
  end.
Fixpoint sset (n v : bytes) (m : smap) : smap :=
  match m with
  | [] => [(n, v)]
  | (k, w) :: r => if bytes_eqb k n then (k, v) :: r else (k, w) :: sset n v r
  end.

(* attribute names *)
Import String.StringSyntax.
Local Open Scope string_scope.
Definition A_Integrity := lit "Integrity".
Definition A_Encryption := lit "Encryption".
Definition A_ValidCommands := lit "ValidCommands".
Definition A_SessionExpires := lit "SessionExpires".
Definition A_CryptoMethods := lit "CryptoMethods".
Definition A_CryptoMethodsList := lit "CryptoMethodsList".
Definition A_RemoteVersion := lit "RemoteVersion".
Definition A_ShortVersion := lit "ShortVersion".
Definition A_SecUseSession := lit "SecUseSession".
Definition A_Sid := lit "Sid".
Definition A_Enact := lit "Enact".
Definition A_NegotiatedSession := lit "NegotiatedSession".
Definition A_AuthMethods := lit "AuthMethods".
Definition A_User := lit "User".
Definition A_Authenticated := lit "Authenticated".
Definition S_YES := lit "YES".
Definition S_NO := lit "NO".
Definition S_AES := lit "AES".
Definition S_AESGCM := lit "AESGCM".
Definition S_MATCH := lit "MATCH".
Definition S_submit_side := lit "submit-side@matchsession".
Definition S_execute_side := lit "execute-side@matchsession".
Definition S_filetrans := lit "filetrans.".
Definition S_public_tail := lit "#...".
Definition S_htcondor := lit "htcondor".
Definition S_keygen := lit "keygen".
Local Close Scope string_scope.

(* ---- claim id grammar -------------------------------------------------- *)
Record parsed := { c_sid : bytes; c_info : bytes; c_key : bytes }.

(* ParseClaimIDStrict: split on the LAST '#'; the info block is present only when
   the byte right after that '#' is '[' and the last ']' of the whole string lies
   behind that '#'. *)
Definition parse_strict (claim : bytes) : parsed :=
  match last_index ch_hash claim with
  | None => {| c_sid := []; c_info := []; c_key := [] |}
  | Some h =>
      let after := skipn (S h) claim in
      let plain := {| c_sid := []; c_info := []; c_key := after |} in
      if starts_with ch_lbr after then
        match last_index ch_rbr claim with
        | Some rb => if Nat.ltb h rb
                     then {| c_sid := firstn h claim;
                             c_info := firstn (rb - h) (skipn (S h) claim);   (* claim[h+1 : rb+1] *)
                             c_key := skipn (S rb) claim |}
                     else plain
        | None => plain
        end
      else plain
  end.

(* ClaimID.SecSessionID  : no session info, no security session *)
Definition sec_session_id (c : parsed) : bytes := if is_nil (c_info c) then [] else c_sid c.
(* ClaimID.PublicClaimID   *)
Definition public_of_parsed (c : parsed) : bytes :=
  if is_nil (c_sid c) then [] else c_sid c ++ S_public_tail.

(* ParseClaimID (CONDOR_INHERIT path): SplitN(claim, '#', 3), then the key glued behind ']' *)
Definition parse_loose (claim : bytes) : parsed :=
  let '(p0, rest) :=
    match index_of ch_hash claim with
    | None => (claim, None)
    | Some i => (firstn i claim, Some (skipn (S i) claim))
    end in
  let '(p1, p2) :=
    match rest with
    | None => ([], [])
    | Some r => match index_of ch_hash r with
                | None => (r, [])
                | Some j => (firstn j r, skipn (S j) r)
                end
    end in
  if is_nil p2 && negb (is_nil p1) then
    match last_index ch_rbr p1 with
    | Some idx => if Nat.ltb (S idx) (length p1)
                  then {| c_sid := p0; c_info := firstn (S idx) p1; c_key := skipn (S idx) p1 |}
                  else {| c_sid := p0; c_info := p1; c_key := p2 |}
    | None => {| c_sid := p0; c_info := p1; c_key := p2 |}
    end
  else {| c_sid := p0; c_info := p1; c_key := p2 |}.

(* ---- session_info: parse ------------------------------------------------ *)
(* value of one attribute: quotes removed when the value has at least two bytes
   and both ends are a double quote (fix 2bac469; before it a lone double quote panicked) *)
Definition unquote (v : bytes) : bytes :=
  match v with
  | q :: r => if byte_eqb q ch_quote && negb (is_nil r) && ends_with ch_quote r
              then removelast r else v
  | [] => []
  end.

Definition import_item (m : smap) (item0 : bytes) : smap :=
  let item := trim_space item0 in
  if is_nil item then m else
  match index_of ch_eq item with
  | None => m
  | Some O => m
  | Some eq => sset (trim_space (firstn eq item)) (unquote (trim_space (skipn (S eq) item))) m
  end.

(* ImportSessionInfoAttributes *)
Definition import_attrs (info : bytes) : smap :=
  if is_nil info then [] else
  fold_left import_item (split_on ch_semi (trim_suffix1 ch_rbr (trim_prefix1 ch_lbr info))) [].

(* ImportSecSessionInfo *)
Definition copy_if (attrs : smap) (n : bytes) (p : policy) : policy :=
  match slookup n attrs with Some v => pset n (PStr v) p | None => p end.

Definition import_info (info : bytes) : res policy :=
  if is_nil info then Ok [] else
  if negb (starts_with ch_lbr info && ends_with ch_rbr info) then Err else
  let attrs := import_attrs info in
  let p := copy_if attrs A_ValidCommands
             (copy_if attrs A_SessionExpires
               (copy_if attrs A_CryptoMethods
                 (copy_if attrs A_Encryption
                   (copy_if attrs A_Integrity [])))) in
  let p :=
    match slookup A_CryptoMethodsList attrs with
    | Some ((_ :: _) as l) => pset A_CryptoMethods (PStr (replace_all ch_dot ch_comma l)) p
    | _ => match slookup A_CryptoMethods attrs with
           | Some cm => pset A_CryptoMethods (PStr (replace_all ch_dot ch_comma cm)) p
           | None => p
           end
    end in
  let p :=
    match slookup A_ShortVersion attrs with
    | Some sv => pset A_RemoteVersion (PStr sv) p
    | None => p
    end in
  Ok p.

(* ---- session_info: render ---------------------------------------------- *)
Definition quote (v : bytes) : bytes := ch_quote :: v ++ [ch_quote].

Definition is_digit (b : byte) : bool := match digit_val b with Some _ => true | None => false end.

(* shortVersion *)
Definition version_token (tok : bytes) : bool :=
  contains ch_dot tok && match tok with b :: _ => is_digit b | [] => false end.
Definition short_version (full : bytes) : bytes :=
  if negb (contains ch_space full || contains ch_dollar full) then full else
  match find version_token (fields full) with
  | Some tok => trim_right_set (fun b => byte_eqb b ch_semi || byte_eqb b ch_comma) tok
  | None => full
  end.

Definition str_item (p : policy) (n : bytes) : list (bytes * bytes) :=
  match get_str p n with
  | Some ((_ :: _) as v) => [(n, quote v)]
  | _ => []
  end.

Definition expires_item (p : policy) : list (bytes * bytes) :=
  match get_int p A_SessionExpires with
  | Some v => if Z.eqb v 0 then [] else [(A_SessionExpires, dec_of_Z v)]
  | None =>
      match get_str p A_SessionExpires with
      | Some ((_ :: _) as s) =>
          match parse_int64 (trim_space s) with
          | Some n => if Z.eqb n 0 then [] else [(A_SessionExpires, dec_of_Z n)]
          | None => []
          end
      | _ => []
      end
  end.

Definition crypto_items (p : policy) : list (bytes * bytes) :=
  match get_str p A_CryptoMethods with
  | Some ((_ :: _) as cm) =>
      if contains ch_comma cm
      then [(A_CryptoMethods, quote (trim_space (split_head ch_comma cm)));
            (A_CryptoMethodsList, quote (replace_all ch_comma ch_dot cm))]
      else [(A_CryptoMethods, quote cm)]
  | _ => []
  end.

Definition version_item (p : policy) : list (bytes * bytes) :=
  match get_str p A_RemoteVersion with
  | Some ((_ :: _) as rv) => [(A_ShortVersion, quote (short_version rv))]
  | _ => []
  end.

(* the exported attributes in sorted name order (sortStrings over a subset of
   seven fixed names: CryptoMethods < CryptoMethodsList < Encryption < Integrity
   < SessionExpires < ShortVersion < ValidCommands) *)
Definition export_items (p : policy) : list (bytes * bytes) :=
  crypto_items p ++ str_item p A_Encryption ++ str_item p A_Integrity
  ++ expires_item p ++ version_item p ++ str_item p A_ValidCommands.

Definition render_item (it : bytes * bytes) : bytes := fst it ++ ch_eq :: snd it ++ [ch_semi].
Definition render_items (items : list (bytes * bytes)) : bytes :=
  ch_lbr :: concat (map render_item items) ++ [ch_rbr].

(* what ExportSecSessionInfo refuses besides '#' (fix d5d613e): a ';' in any rendered value
   (the importer splits on ';' without looking at quotes) and a '.' in the cipher list
   ('.' stands in for ',' inside a claim id).  [ne]: a present, non-empty string. *)
Definition ne (o : option bytes) : option bytes :=
  match o with Some ((_ :: _) as v) => Some v | _ => None end.
Definition str_safe (p : policy) (k : bytes) : bool :=
  match ne (get_str p k) with Some v => negb (contains ch_semi v) | None => true end.
Definition policy_safe (p : policy) : bool :=
  str_safe p A_Integrity && str_safe p A_Encryption && str_safe p A_ValidCommands
  && match ne (get_str p A_CryptoMethods) with
     | Some cm => negb (contains ch_semi cm) && negb (contains ch_dot cm)
     | None => true
     end
  && match ne (get_str p A_RemoteVersion) with
     | Some rv => negb (contains ch_semi (short_version rv))
     | None => true
     end.

(* ExportSecSessionInfo (policy non-nil) *)
Definition export_info (p : policy) : res bytes :=
  if negb (policy_safe p) then Err else
  let info := render_items (export_items p) in
  if contains ch_hash info then Err else Ok info.

(* ---- keys --------------------------------------------------------------- *)
(* deriveSessionKey: HKDF-SHA256(ikm = secret, salt htcondor, info keygen) *)
Definition derive_session_key (secret : bytes) (len : N) : res key :=
  if is_nil secret then Err else Ok (Kdf S_htcondor S_keygen len secret).

(* deriveClaimKeyInfo: first listed method must be AES / AESGCM; key is always AESGCM/32 *)
Definition derive_claim_key (p : policy) (secret : bytes) : res (key * bytes) :=
  let m :=
    match get_str p A_CryptoMethods with
    | Some ((_ :: _) as cm) =>
        match trim_space (split_head ch_comma cm) with
        | [] => S_AESGCM
        | first => first
        end
    | _ => S_AESGCM
    end in
  if negb (bytes_eqb m S_AES || bytes_eqb m S_AESGCM) then Err else
  match derive_session_key secret 32 with
  | Ok k => Ok (k, S_AESGCM)
  | _ => Err
  end.

(* ---- expiry -------------------------------------------------------------- *)
(* an absolute unix time (seconds), now + d (d in ns) or the zero time *)
Inductive expiry := ExpNone | ExpAbs (secs : Z) | ExpRel (dur_ns : Z).

(* claimExpiration *)
Definition claim_expiration (p : policy) (fallback_ns : Z) : expiry :=
  let fb := if (0 <? fallback_ns)%Z then ExpRel fallback_ns else ExpNone in
  match get_str p A_SessionExpires with
  | Some v => match parse_int64 (trim_space v) with
              | Some secs => if (0 <? secs)%Z then ExpAbs secs else fb
              | None => fb
              end
  | None => fb
  end.

(* ---- command map --------------------------------------------------------- *)
Definition cmd_key (tag addr cmd : bytes) : bytes :=
  if is_nil tag
  then ch_lbrace :: addr ++ ch_comma :: ch_lt :: cmd ++ [ch_gt; ch_rbrace]
  else ch_lbrace :: tag ++ ch_comma :: addr ++ ch_comma :: ch_lt :: cmd ++ [ch_gt; ch_rbrace].

(* mapClaimCommands: the keys written into commandMap, each mapped to sid *)
Definition map_claim_commands (p : policy) (addr tag : bytes) (extra : list Z) : list bytes :=
  if is_nil addr then [] else
  let from_policy :=
    match get_str p A_ValidCommands with
    | Some ((_ :: _) as vc) =>
        filter (fun c => negb (is_nil c)) (map trim_space (split_on ch_comma vc))
    | _ => []
    end in
  map (cmd_key tag addr) (from_policy ++ map dec_of_Z extra).

(* ---- cache entries ------------------------------------------------------- *)
Record entry := {
  e_id : bytes; e_addr : bytes; e_key : key; e_proto : bytes; e_policy : policy;
  e_expiry : expiry; e_lease : Z; e_tag : bytes; e_inherited : bool }.

(* the attributes CreateNonNegotiatedSecuritySession adds, in the order of the Set calls *)
Definition finish_policy (p : policy) (sid user proto : bytes) : policy :=
  pset A_CryptoMethods (PStr proto)
   (pset A_Authenticated (PBool true)
    (pset A_User (PStr user)
     (pset A_AuthMethods (PStr S_MATCH)
      (pset A_NegotiatedSession (PBool false)
       (pset A_Enact (PStr S_YES)
        (pset A_Sid (PStr sid)
         (pset A_SecUseSession (PStr S_YES) p))))))).

(* what both MintClaimSession and ImportClaimSession do once they hold
   (session id, session_info, secret) *)
Definition register (sid info secret : bytes) (peer_fqu default_fqu addr tag : bytes)
           (fallback_ns : Z) (extra : list Z) : res (entry * list bytes) :=
  match import_info info with
  | Ok p =>
      match derive_claim_key p secret with
      | Ok (k, proto) =>
          let user := if is_nil peer_fqu then default_fqu else peer_fqu in
          let p' := finish_policy p sid user proto in
          Ok ({| e_id := sid; e_addr := addr; e_key := k; e_proto := proto; e_policy := p';
                 e_expiry := claim_expiration p' fallback_ns; e_lease := 0; e_tag := tag;
                 e_inherited := true |},
              map_claim_commands p' addr tag extra)
      | _ => Err
      end
  | _ => Err
  end.

(* ---- MintClaimSession ----------------------------------------------------- *)
Record mint_opts := {
  mo_sinful : bytes; mo_birth : Z; mo_seq : Z; mo_peer_fqu : bytes; mo_peer_addr : bytes;
  mo_enc : option bool; mo_integ : option bool; mo_crypto : bytes; mo_version : bytes;
  mo_lifetime_ns : Z; mo_extra : list Z; mo_valid : list Z; mo_tag : bytes }.

Definition yes_no (v : option bool) : bytes :=
  match v with Some false => S_NO | _ => S_YES end.

Fixpoint join_with (c : byte) (l : list bytes) : bytes :=
  match l with
  | [] => []
  | [x] => x
  | x :: r => x ++ c :: join_with c r
  end.
Definition join_ints (l : list Z) : bytes := join_with ch_comma (map dec_of_Z l).

Definition ns_per_s : Z := 1000000000.
(* time.Now().Add(lifetime).Unix() *)
Definition expires_at (now_ns lifetime_ns : Z) : Z := ((now_ns + lifetime_ns) / ns_per_s)%Z.

Definition mint_crypto (o : mint_opts) : bytes :=
  if is_nil (mo_crypto o) then S_AES else mo_crypto o.

Definition mint_wire (o : mint_opts) (now_ns : Z) : policy :=
  let w := [(A_Encryption, PStr (yes_no (mo_enc o))); (A_Integrity, PStr (yes_no (mo_integ o)));
            (A_CryptoMethods, PStr (mint_crypto o))] in
  let w := if is_nil (mo_version o) then w else pset A_RemoteVersion (PStr (mo_version o)) w in
  let w := match mo_valid o with [] => w | _ => pset A_ValidCommands (PStr (join_ints (mo_valid o))) w end in
  if (0 <? mo_lifetime_ns o)%Z
  then pset A_SessionExpires (PInt (expires_at now_ns (mo_lifetime_ns o))) w else w.

Definition mint_sid (o : mint_opts) : bytes :=
  mo_sinful o ++ ch_hash :: dec_of_Z (mo_birth o) ++ ch_hash :: dec_of_Z (mo_seq o).

Record minted := {
  m_claim : bytes; m_public : bytes; m_sid : bytes; m_entry : entry; m_cmds : list bytes }.

(* MintClaimSession with the random secret and the clock as inputs *)
Definition mint (o : mint_opts) (secret : bytes) (now_ns : Z) : res minted :=
  if is_nil (mo_sinful o) then Err else
  let first := trim_space (split_head ch_comma (mint_crypto o)) in
  if negb (bytes_eqb first S_AES || bytes_eqb first S_AESGCM) then Err else
  match export_info (mint_wire o now_ns) with
  | Ok info =>
      let sid := mint_sid o in
      let claim := sid ++ ch_hash :: info ++ secret in
      match register sid info secret (mo_peer_fqu o) S_submit_side (mo_peer_addr o) (mo_tag o)
                     (mo_lifetime_ns o) (mo_extra o) with
      | Ok (e, cmds) =>
          Ok {| m_claim := claim; m_public := sid ++ S_public_tail; m_sid := sid;
                m_entry := e; m_cmds := cmds |}
      | _ => Err
      end
  | _ => Err
  end.

(* ---- ImportClaimSession / ImportFileTransferSession ---------------------- *)
Record import_opts := {
  io_peer_addr : bytes; io_peer_fqu : bytes; io_duration_ns : Z; io_tag : bytes; io_extra : list Z }.

Definition import_claim (claim : bytes) (o : import_opts) : res (bytes * entry * list bytes) :=
  let c := parse_strict claim in
  let sid := sec_session_id c in
  if is_nil sid then Err else
  if is_nil (c_key c) then Err else
  match register sid (c_info c) (c_key c) (io_peer_fqu o) S_execute_side (io_peer_addr o) (io_tag o)
                 (io_duration_ns o) (io_extra o) with
  | Ok (e, cmds) => Ok (sid, e, cmds)
  | _ => Err
  end.

Definition ft_policy (ftid user : bytes) : policy :=
  pset A_CryptoMethods (PStr S_AESGCM)
   (pset A_Integrity (PStr S_YES)
    (pset A_Encryption (PStr S_YES)
     (pset A_Authenticated (PBool true)
      (pset A_User (PStr user)
       (pset A_AuthMethods (PStr S_MATCH)
        (pset A_NegotiatedSession (PBool false)
         (pset A_Enact (PStr S_YES)
          (pset A_Sid (PStr ftid)
           (pset A_SecUseSession (PStr S_YES) []))))))))).

Definition import_ft (claim : bytes) (o : import_opts) : res (bytes * entry * list bytes) :=
  let c := parse_strict claim in
  let base := sec_session_id c in
  if is_nil base then Err else
  if is_nil (c_key c) then Err else
  let ftid := S_filetrans ++ base in
  match derive_session_key (c_key c) 32 with
  | Ok k =>
      let user := if is_nil (io_peer_fqu o) then S_execute_side else io_peer_fqu o in
      let p := ft_policy ftid user in
      Ok (ftid,
          {| e_id := ftid; e_addr := io_peer_addr o; e_key := k; e_proto := S_AESGCM; e_policy := p;
             e_expiry := (if (0 <? io_duration_ns o)%Z then ExpRel (io_duration_ns o) else ExpNone);
             e_lease := 0; e_tag := io_tag o; e_inherited := true |},
          map_claim_commands p (io_peer_addr o) (io_tag o) (io_extra o))
  | _ => Err
  end.

(* ---- the session cache: SessionCache.Store overwrites the entry filed under the id ---- *)
Definition cache := list entry.
Fixpoint cache_lookup (id : bytes) (c : cache) : option entry :=
  match c with
  | [] => None
  | e :: r => if bytes_eqb (e_id e) id then Some e else cache_lookup id r
  end.
Fixpoint cache_store (e : entry) (c : cache) : cache :=
  match c with
  | [] => [e]
  | x :: r => if bytes_eqb (e_id x) (e_id e) then e :: r else x :: cache_store e r
  end.

(* the cache proper: entries by id plus the command map {tag,addr,<cmd>} -> id.
   Store (fix dcd50bb) drops the mappings of the id it (re)files; the importer / minter then
   installs its own with MapCommand (which overwrites a key already present). *)
Record cstate := { cs_entries : cache; cs_cmds : list (bytes * bytes) }.
Definition cstate_empty : cstate := {| cs_entries := []; cs_cmds := [] |}.
Definition cstate_file (e : entry) (cmds : list bytes) (s : cstate) : cstate :=
  {| cs_entries := cache_store e (cs_entries s);
     cs_cmds := map (fun k => (k, e_id e)) cmds
                ++ filter (fun kv => negb (bytes_eqb (snd kv) (e_id e)) && negb (existsb (bytes_eqb (fst kv)) cmds))
                          (cs_cmds s) |}.

(* ImportClaimSession / ImportFileTransferSession / MintClaimSession acting on a cache that
   may already hold entries (of any origin): whatever was filed under the id is replaced *)
Definition import_into (ft : bool) (c : cstate) (claim : bytes) (o : import_opts)
  : cstate * res (bytes * entry * list bytes) :=
  match (if ft then import_ft claim o else import_claim claim o) with
  | Ok (sid, e, cmds) => (cstate_file e cmds c, Ok (sid, e, cmds))
  | r => (c, r)
  end.
Definition mint_into (c : cstate) (o : mint_opts) (secret : bytes) (now_ns : Z) : cstate * res minted :=
  match mint o secret now_ns with
  | Ok m => (cstate_file (m_entry m) (m_cmds m) c, Ok m)
  | r => (c, r)
  end.
Definition import_seq (steps : list (bool * bytes * import_opts)) (c : cstate) : cstate :=
  fold_left (fun c st => let '(ft, claim, o) := st in fst (import_into ft c claim o)) steps c.
