(* Model/File.v — Stream.PutFile / Stream.GetFile of /repo/stream/stream.go: a file travels as
   one message holding its size (8 bytes big-endian), the content in messages of at most
   FileChunk bytes, and one message holding the end marker 666 (4 bytes).  The receiver reads
   single frames (ReceiveFrame).  Definitions only. *)
From Coq Require Import List NArith ZArith Bool.
From Cedar Require Import Lib.Bytes Lib.Sym gen.Consts Model.Frame.
Import ListNotations.
Local Open Scope N_scope.

(* the content cut into pieces of FileChunk bytes (file.Read into a 64 KiB buffer) *)
Fixpoint chunks (fuel : nat) (d : bytes) : list bytes :=
  match fuel with
  | O => []
  | S f => match d with
           | [] => []
           | _ => firstn (N.to_nat FileChunk) d :: chunks f (skipn (N.to_nat FileChunk) d)
           end
  end.

Definition file_msgs (d : bytes) : list bytes :=
  be_enc 8 (lenN d) :: chunks (length d) d ++ [be_enc 4 FileEofMarker].

(* SendMessage for each, stopping at the first refusal; frames already written stay written *)
Fixpoint send_msgs (s : stream) (ms : list bytes) : stream * N * list frame :=
  match ms with
  | [] => (s, 0, [])
  | m :: r =>
      match send_frame s m EndFlagComplete with
      | (s1, SOk f) => let '(s2, e, fs) := send_msgs s1 r in (s2, e, f :: fs)
      | (s1, SErr _) => (s1, 1, [])
      end
  end.
Definition put_file (s : stream) (d : bytes) : stream * N * list frame := send_msgs s (file_msgs d).

(* int64(binary.BigEndian.Uint64(sizeData)) *)
Definition to_i64 (n : N) : Z := if n <? 9223372036854775808 then Z.of_N n else (Z.of_N n - 18446744073709551616)%Z.

(* for totalReceived < fileSize { chunk := ReceiveFrame; write } *)
Fixpoint get_chunks (s : stream) (size : Z) (tot : N) (got : bytes) (fs : list frame)
  : stream * sres bytes * list frame :=
  if (size <=? Z.of_N tot)%Z then (s, SOk got, fs) else
  match fs with
  | [] => (s, SErr EEOF, [])
  | f :: r =>
      match recv_frame s f with
      | (s1, SOk c) => get_chunks s1 size (tot + lenN c) (got ++ c) r
      | (s1, SErr e) => (s1, SErr e, r)
      end
  end.

Definition get_file (s : stream) (fs : list frame) : stream * sres bytes * list frame :=
  match fs with
  | [] => (s, SErr EEOF, [])
  | f :: r =>
      match recv_frame s f with
      | (s1, SErr e) => (s1, SErr e, r)
      | (s1, SOk sd) =>
          if negb (lenN sd =? FileSizeLen) then (s1, SErr EState, r) else
          match get_chunks s1 (to_i64 (be_dec sd)) 0 [] r with
          | (s2, SErr e, r2) => (s2, SErr e, r2)
          | (s2, SOk content, r2) =>
              match r2 with
              | [] => (s2, SErr EEOF, [])
              | m :: r3 =>
                  match recv_frame s2 m with
                  | (s3, SErr e) => (s3, SErr e, r3)
                  | (s3, SOk md) =>
                      if negb (lenN md =? FileMarkerLen) then (s3, SErr EState, r3)
                      else if negb (be_dec md =? FileEofMarker) then (s3, SErr EState, r3)
                      else (s3, SOk content, r3)
                  end
              end
          end
      end
  end.
