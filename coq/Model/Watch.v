(* Model/Watch.v — watch/watch.go: DecodeRequest, DecodeHeader, decodeBytes and the encoders
   EncodeRequest, EncodeHeader, encodeBytes; underneath, encoding/base64 StdEncoding
   (DecodeString / EncodeToString) with its exact acceptance behaviour:

   * '\r' and '\n' are ignored anywhere, also between and after the padding characters;
   * a quantum is 4 alphabet characters, or 2 + "==" or 3 + "=" as the LAST quantum: anything
     but newlines after the padding is an error ("trailing garbage"), missing padding is an
     error, '=' in position 0 or 1 is an error;
   * StdEncoding is not strict: the unused low bits of a padded quantum are not checked.

   DecodeString allocates make([]byte, len(s)/4*3) up front (b64_cap) and decodeQuantum writes
   dst[0..dlen-2] of dst[n:]: an index outside that buffer would be a run-time panic.  The
   model keeps that bound check explicit (B64Panic), so "never panics" is a theorem about the
   buffer arithmetic and not an artefact of lists.  Go's 8- and 4-character fast paths decode
   exactly what repeated decodeQuantum calls decode (they fall back to it on any non-alphabet
   character), so the model is the slow path only.  The shifts and ors that assemble the 24-bit
   value act on disjoint 6-bit fields and are written as arithmetic.

   The ClassAd itself is outside this model: a request / header is the result of the three
   EvaluateAttr* calls (None = attribute absent or of another type). *)
From Coq Require Import List NArith ZArith Lia Bool.
From Cedar Require Import Lib.Bytes Model.Decode.
Import ListNotations.
Local Open Scope N_scope.

(* ---------- base64.StdEncoding ------------------------------------------------------ *)
(* decodeMap: None = 0xff *)
Definition b64_val (c : byte) : option N :=
  let n := b2n c in
  if (65 <=? n) && (n <=? 90) then Some (n - 65)
  else if (97 <=? n) && (n <=? 122) then Some (n - 71)
  else if (48 <=? n) && (n <=? 57) then Some (n + 4)
  else if n =? 43 then Some 62
  else if n =? 47 then Some 63
  else None.
Definition b64_char (v : N) : byte :=
  if v <? 26 then n2b (65 + v)
  else if v <? 52 then n2b (71 + v)
  else if v <? 62 then n2b (v - 4)
  else if v =? 62 then x2b else x2f.

Definition is_nl (c : byte) : bool := byte_eqb c x0a || byte_eqb c x0d.
Definition is_pad (c : byte) : bool := byte_eqb c x3d.
Fixpoint skip_nl (s : bytes) : bytes :=
  match s with c :: r => if is_nl c then skip_nl r else s | [] => [] end.
Definition is_nil (s : bytes) : bool := match s with [] => true | _ => false end.

(* the three bytes of val = a<<18 | b<<12 | c<<6 | d *)
Definition q_bytes (a b c d : N) : bytes :=
  let val := ((a * 64 + b) * 64 + c) * 64 + d in
  [n2b (val / 65536); n2b ((val / 256) mod 256); n2b (val mod 256)].

(* one decodeQuantum call on the rest of the source *)
Inductive q_res :=
| QEnd                                             (* j = 0 at the end of the source: (si, 0, nil) *)
| QErr                                             (* CorruptInputError, nothing written *)
| QOut (out : bytes) (rest : bytes) (garbage : bool). (* dlen-1 bytes written; garbage = trailing-garbage error *)

(* vals: the sextets read so far, most recent first (j = length vals <= 3) *)
Fixpoint quantum (s : bytes) (vals : list N) : q_res :=
  match s with
  | [] => match vals with [] => QEnd | _ => QErr end
  | c :: r =>
      match b64_val c with
      | Some v =>
          match vals with
          | [c2; c1; c0] => QOut (q_bytes c0 c1 c2 v) r false
          | _ => quantum r (v :: vals)
          end
      | None =>
          if is_nl c then quantum r vals
          else if negb (is_pad c) then QErr
          else
            match vals with
            | [c1; c0] =>                               (* "==" expected; the first '=' is consumed *)
                match skip_nl r with
                | [] => QErr                            (* not enough padding *)
                | d :: r2 =>
                    if is_pad d
                    then let r3 := skip_nl r2 in QOut (firstn 1 (q_bytes c0 c1 0 0)) r3 (negb (is_nil r3))
                    else QErr
                end
            | [c2; c1; c0] =>
                let r3 := skip_nl r in QOut (firstn 2 (q_bytes c0 c1 c2 0)) r3 (negb (is_nil r3))
            | _ => QErr                                 (* '=' in position 0 or 1 *)
            end
      end
  end.

Inductive b64_res := B64Ok (out : bytes) | B64Err | B64Panic.

(* the `for si < len(src)` loop of Decode; n = bytes written, cap = len(dst), acc = output reversed *)
Fixpoint b64_loop (fuel : nat) (s : bytes) (n cap : N) (acc : bytes) : b64_res :=
  match fuel with
  | O => B64Err
  | S f =>
      match s with
      | [] => B64Ok (rev' acc)
      | _ =>
          match quantum s [] with
          | QEnd => B64Ok (rev' acc)
          | QErr => B64Err
          | QOut out rest garbage =>
              if cap <? n + lenN out then B64Panic           (* dst[k] out of range *)
              else if garbage then B64Err
              else b64_loop f rest (n + lenN out) cap (rev_append out acc)
          end
      end
  end.

(* DecodedLen(len(s)) for a padded encoding *)
Definition b64_cap (s : bytes) : N := lenN s / 4 * 3.
(* StdEncoding.DecodeString *)
Definition b64_decode (s : bytes) : b64_res := b64_loop (S (length s)) s 0 (b64_cap s) [].

(* StdEncoding.EncodeToString *)
Fixpoint b64_encode (b : bytes) : bytes :=
  match b with
  | [] => []
  | [x] =>
      let v := b2n x * 65536 in
      [b64_char (v / 262144); b64_char ((v / 4096) mod 64); x3d; x3d]
  | [x; y] =>
      let v := b2n x * 65536 + b2n y * 256 in
      [b64_char (v / 262144); b64_char ((v / 4096) mod 64); b64_char ((v / 64) mod 64); x3d]
  | x :: y :: z :: r =>
      let v := b2n x * 65536 + b2n y * 256 + b2n z in
      b64_char (v / 262144) :: b64_char ((v / 4096) mod 64) :: b64_char ((v / 64) mod 64) :: b64_char (v mod 64)
      :: b64_encode r
  end.

(* ---------- watch.encodeBytes / decodeBytes ------------------------------------------- *)
Definition encode_bytes (b : bytes) : bytes := match b with [] => [] | _ => b64_encode b end.
Definition decode_bytes (s : bytes) : b64_res := match s with [] => B64Ok [] | _ => b64_decode s end.

(* ---------- DecodeRequest / EncodeRequest ------------------------------------------------ *)
(* the request ad as its three string lookups *)
Record wreq_ad := { wa_type : option bytes; wa_constraint : option bytes; wa_cursor : option bytes }.
Inductive wres (A : Type) := WOk (a : A) | WErr | WPanic.
Arguments WOk {A} a. Arguments WErr {A}. Arguments WPanic {A}.

Definition opt_str (o : option bytes) : bytes := match o with Some s => s | None => [] end.

Definition decode_request (ad : wreq_ad) : wres (bytes * bytes * bytes) :=
  match wa_type ad with
  | None | Some [] => WErr                                   (* request missing WatchAdType *)
  | Some t =>
      match decode_bytes (opt_str (wa_cursor ad)) with
      | B64Ok cur => WOk (t, opt_str (wa_constraint ad), cur)
      | B64Err => WErr
      | B64Panic => WPanic
      end
  end.

Definition encode_request (adtype constraint cursor : bytes) : wreq_ad :=
  {| wa_type := Some adtype;
     wa_constraint := match constraint with [] => None | _ => Some constraint end;
     wa_cursor := Some (encode_bytes cursor) |}.

(* ---------- DecodeHeader / EncodeHeader ---------------------------------------------------- *)
Record whdr_ad := { wh_kind : option Z; wh_key : option bytes; wh_cursor : option bytes }.

(* `if s, ok := ...; ok && s != "" { x, err = decodeBytes(s) }` : absent or empty = nil *)
Definition decode_opt (o : option bytes) : b64_res :=
  match o with
  | None | Some [] => B64Ok []
  | Some s => decode_bytes s
  end.

Definition decode_header (ad : whdr_ad) : wres (Z * bytes * bytes) :=
  match wh_kind ad with
  | None => WErr                                             (* event missing WatchKind *)
  | Some k =>
      match decode_opt (wh_key ad) with
      | B64Panic => WPanic
      | B64Err => WErr
      | B64Ok key =>
          match decode_opt (wh_cursor ad) with
          | B64Panic => WPanic
          | B64Err => WErr
          | B64Ok cur => WOk (k, key, cur)
          end
      end
  end.

(* key / cursor: None = nil (attribute not inserted) *)
Definition encode_header (kind : Z) (key cursor : option bytes) : whdr_ad :=
  {| wh_kind := Some kind;
     wh_key := option_map encode_bytes key;
     wh_cursor := option_map encode_bytes cursor |}.
