// Package mock provides an in-memory message.StreamInterface: it records the
// frames a Message writes and serves a fixed list of frames to a reader.
package mock

import (
	"context"
	"errors"
)

type Frame struct {
	Data []byte
	EOM  bool
}

type Stream struct {
	Enc bool
	Out []Frame // frames written
	In  []Frame // frames still to be read
}

var ErrNoMoreFrames = errors.New("mock: no more frames")

func (s *Stream) ReadFrame(ctx context.Context) ([]byte, bool, error) {
	if len(s.In) == 0 {
		return nil, false, ErrNoMoreFrames
	}
	f := s.In[0]
	s.In = s.In[1:]
	return append([]byte(nil), f.Data...), f.EOM, nil
}
func (s *Stream) WriteFrame(ctx context.Context, data []byte, isEOM bool) error {
	s.Out = append(s.Out, Frame{append([]byte(nil), data...), isEOM})
	return nil
}
func (s *Stream) IsEncrypted() bool { return s.Enc }

// Cut splits data into frames at the given sorted cut offsets; last frame is EOM.
func Cut(data []byte, cuts []int) []Frame {
	var out []Frame
	prev := 0
	for _, c := range cuts {
		out = append(out, Frame{append([]byte(nil), data[prev:c]...), false})
		prev = c
	}
	out = append(out, Frame{append([]byte(nil), data[prev:]...), true})
	return out
}
