// Package core is the shared plumbing of the correspondence harness: a seeded
// PRNG, Coq term printers, case-file sharding, distribution counters and the
// meta.json every generator leaves for bin/check.
package core

import (
	"encoding/hex"
	"encoding/json"
	"flag"
	"fmt"
	"math/rand"
	"os"
	"path/filepath"
	"sort"
	"strings"
)

// OracleFailure is a direct violation of the property observed on the
// implementation (independent of the model).
type OracleFailure struct {
	Key    string      `json:"key"`  // stable key, matched against known_findings.txt
	Desc   string      `json:"desc"` // one line
	Replay interface{} `json:"replay"`
}

type Meta struct {
	Property           string                   `json:"property"`
	Tier               string                   `json:"tier"`
	Seed               int64                    `json:"seed"`
	Evaluations        int                      `json:"evaluations"`
	DistinctNontrivial int                      `json:"distinct_nontrivial"`
	Rule               string                   `json:"rule"`
	Samples            []interface{}            `json:"samples"`
	Exhaustive         bool                     `json:"exhaustive"`
	Distribution       map[string]int           `json:"distribution"`
	CaseFiles          []string                 `json:"case_files"`
	CaseIndex          map[string][]interface{} `json:"case_index"`
	OracleFailures     []OracleFailure          `json:"oracle_failures"`
	OracleChecks       int                      `json:"oracle_checks"`
	Assumptions        []string                 `json:"assumptions"`
	Notes              []string                 `json:"notes"`
}

type Ctx struct {
	Prop    string
	Tier    string
	Seed    int64
	OutDir  string
	Rng     *rand.Rand
	RunMod  string // Coq module providing `case` and `mismatches`, default Run.<Prop>
	PerFile int

	meta     Meta
	cases    []string
	weights  []int
	descs    []interface{}
	distinct map[string]bool
}

func (c *Ctx) Quick() bool { return c.Tier != "thorough" }

// AddCase appends one case (a Coq term of type `case`) with a JSON-able
// description used for replay files.
func (c *Ctx) AddCase(term string, desc interface{}) { c.AddCaseW(term, desc, 1) }

// AddCaseW is AddCase with a relative evaluation cost (1 = a small case; a case
// moving a MiB through the model costs a few hundred); case files are cut so
// that each stays below ~300 units, which lets bin/check evaluate them in parallel.
func (c *Ctx) AddCaseW(term string, desc interface{}, weight int) {
	if weight < 1 {
		weight = 1
	}
	c.weights = append(c.weights, weight)
	c.cases = append(c.cases, term)
	c.descs = append(c.descs, desc)
	c.meta.Evaluations++
}

// Nontrivial records a canonical form of a case that took a non-error /
// non-degenerate path; distinct ones are counted.
func (c *Ctx) Nontrivial(canon string)   { c.distinct[canon] = true }
func (c *Ctx) Count(kind string)         { c.meta.Distribution[kind]++ }
func (c *Ctx) CountN(kind string, n int) { c.meta.Distribution[kind] += n }
func (c *Ctx) Sample(x interface{}) {
	if len(c.meta.Samples) < 8 {
		c.meta.Samples = append(c.meta.Samples, x)
	}
}
func (c *Ctx) Rule(s string)     { c.meta.Rule = s }
func (c *Ctx) Exhaustive(b bool) { c.meta.Exhaustive = b }
func (c *Ctx) Assume(s string)   { c.meta.Assumptions = append(c.meta.Assumptions, s) }
func (c *Ctx) Note(s string)     { c.meta.Notes = append(c.meta.Notes, s) }
func (c *Ctx) OracleCheck()      { c.meta.OracleChecks++ }
func (c *Ctx) Evaluated(n int)   { c.meta.Evaluations += n }
func (c *Ctx) OracleFail(key, desc string, replay interface{}) {
	if len(c.meta.OracleFailures) < 200 {
		c.meta.OracleFailures = append(c.meta.OracleFailures, OracleFailure{key, desc, replay})
	}
}

func (c *Ctx) flush() error {
	if err := os.MkdirAll(c.OutDir, 0o755); err != nil {
		return err
	}
	old, _ := filepath.Glob(filepath.Join(c.OutDir, "cases_*.v*"))
	for _, f := range old {
		os.Remove(f)
	}
	old, _ = filepath.Glob(filepath.Join(c.OutDir, "cases_*.glob"))
	for _, f := range old {
		os.Remove(f)
	}
	per := c.PerFile
	if per <= 0 {
		per = 300
	}
	c.meta.CaseIndex = map[string][]interface{}{}
	for i, k := 0, 0; i < len(c.cases); k++ {
		j, wsum := i, 0
		for j < len(c.cases) && j-i < per && (j == i || wsum+c.weights[j] <= 300) {
			wsum += c.weights[j]
			j++
		}
		name := fmt.Sprintf("cases_%d.v", k)
		var b strings.Builder
		b.WriteString("From Coq Require Import List NArith ZArith String.\n")
		b.WriteString("From Cedar Require Import Lib.Bytes " + c.RunMod + ".\n")
		b.WriteString("Import ListNotations.\nOpen Scope string_scope.\nOpen Scope N_scope.\n")
		b.WriteString("Definition cases : list case := [\n")
		for n, t := range c.cases[i:j] {
			if n > 0 {
				b.WriteString(";\n")
			}
			b.WriteString("  " + t)
		}
		b.WriteString("\n].\n")
		b.WriteString("Definition M := Eval vm_compute in mismatches cases.\nPrint M.\n")
		if err := os.WriteFile(filepath.Join(c.OutDir, name), []byte(b.String()), 0o644); err != nil {
			return err
		}
		c.meta.CaseFiles = append(c.meta.CaseFiles, name)
		c.meta.CaseIndex[name] = c.descs[i:j]
		i = j
	}
	c.meta.DistinctNontrivial = len(c.distinct)
	js, err := json.MarshalIndent(&c.meta, "", " ")
	if err != nil {
		return err
	}
	return os.WriteFile(filepath.Join(c.OutDir, "meta.json"), js, 0o644)
}

// Main is the entry point of every vh-<id> binary.
//
//	vh-<id> gen -seed N -tier quick|thorough -out DIR
//	vh-<id> replay FILE
func Main(prop string, gen func(*Ctx) error, replay func(raw json.RawMessage) error) {
	MainWithFacts(prop, gen, replay, nil)
}

// MainWithFacts additionally serves `vh-<id> facts FILE`: facts(w) must print a
// complete Coq file (constants / structural facts regenerated from /repo's
// source) which bin/check installs as coq/gen/Facts<ID>.v before building.
func MainWithFacts(prop string, gen func(*Ctx) error, replay func(raw json.RawMessage) error, facts func(w *strings.Builder) error) {
	if len(os.Args) >= 3 && os.Args[1] == "facts" {
		if facts == nil {
			os.Exit(4)
		}
		var b strings.Builder
		if err := facts(&b); err != nil {
			fmt.Fprintln(os.Stderr, "facts error:", err)
			os.Exit(3)
		}
		old, _ := os.ReadFile(os.Args[2])
		if string(old) != b.String() {
			if err := os.WriteFile(os.Args[2], []byte(b.String()), 0o644); err != nil {
				fmt.Fprintln(os.Stderr, err)
				os.Exit(3)
			}
		}
		return
	}
	if len(os.Args) >= 2 && os.Args[1] == "facts" {
		os.Exit(4)
	}
	if len(os.Args) < 2 {
		fmt.Fprintln(os.Stderr, "usage: gen|replay")
		os.Exit(2)
	}
	switch os.Args[1] {
	case "gen":
		fs := flag.NewFlagSet("gen", flag.ExitOnError)
		seed := fs.Int64("seed", 1, "")
		tier := fs.String("tier", "quick", "")
		out := fs.String("out", "", "")
		fs.Parse(os.Args[2:])
		c := &Ctx{Prop: prop, Tier: *tier, Seed: *seed, OutDir: *out,
			Rng: rand.New(rand.NewSource(*seed)), RunMod: "Run." + prop,
			distinct: map[string]bool{}}
		c.meta.Property, c.meta.Tier, c.meta.Seed = prop, *tier, *seed
		c.meta.Distribution = map[string]int{}
		if err := gen(c); err != nil {
			fmt.Fprintln(os.Stderr, "gen error:", err)
			os.Exit(3)
		}
		if err := c.flush(); err != nil {
			fmt.Fprintln(os.Stderr, "flush error:", err)
			os.Exit(3)
		}
	case "replay":
		if replay == nil {
			fmt.Println("no replay function for", prop)
			return
		}
		raw, err := os.ReadFile(os.Args[2])
		if err != nil {
			fmt.Fprintln(os.Stderr, err)
			os.Exit(2)
		}
		var doc struct {
			Case json.RawMessage `json:"case"`
		}
		if err := json.Unmarshal(raw, &doc); err != nil || doc.Case == nil {
			doc.Case = raw
		}
		if err := replay(doc.Case); err != nil {
			fmt.Println("REPLAY: property fails:", err)
			os.Exit(1)
		}
		fmt.Println("REPLAY: property holds on this case")
	default:
		os.Exit(2)
	}
}

// ---- Coq term printers -------------------------------------------------

// Hex prints a byte string as a list of Init.Byte constructors ([x0a; xff]): elaborating a
// string literal costs ~10 ms in coqc, a constructor list is far cheaper.
func Hex(b []byte) string {
	if len(b) == 0 {
		return "(@nil byte)"
	}
	var sb strings.Builder
	sb.Grow(5*len(b) + 2)
	sb.WriteByte('[')
	const digits = "0123456789abcdef"
	for i, x := range b {
		if i > 0 {
			sb.WriteString("; ")
		}
		sb.WriteByte('x')
		sb.WriteByte(digits[x>>4])
		sb.WriteByte(digits[x&15])
	}
	sb.WriteByte(']')
	return sb.String()
}

// HexStr is the string-literal form (hx "...").
func HexStr(b []byte) string { return `(hx "` + hex.EncodeToString(b) + `")` }
func N(n uint64) string      { return fmt.Sprintf("%d", n) }
func Nat(n int) string       { return fmt.Sprintf("%d%%nat", n) }
func Z(z int64) string {
	if z < 0 {
		return fmt.Sprintf("(%d)%%Z", z)
	}
	return fmt.Sprintf("%d%%Z", z)
}
func Bool(b bool) string {
	if b {
		return "true"
	}
	return "false"
}
func List(xs []string) string { return "[" + strings.Join(xs, "; ") + "]" }
func Opt(some bool, x string) string {
	if some {
		return "(Some " + x + ")"
	}
	return "None"
}
func Pair(a, b string) string { return "(" + a + ", " + b + ")" }
func App(f string, args ...string) string {
	return "(" + f + " " + strings.Join(args, " ") + ")"
}

// Str prints a Coq string literal; only for printable ASCII (others -> use Hex).
func Str(s string) string {
	for i := 0; i < len(s); i++ {
		if s[i] < 32 || s[i] > 126 {
			panic("core.Str: non printable; use Hex")
		}
	}
	return `"` + strings.ReplaceAll(s, `"`, `""`) + `"`
}

// Payload mirrors Lib/Bytes.v payload: len bytes of the cyclic 0..250 table from off.
func Payload(off, n int) []byte {
	out := make([]byte, n)
	p := off % 251
	for i := range out {
		out[i] = byte(p)
		p++
		if p == 251 {
			p = 0
		}
	}
	return out
}
func PayloadTerm(off, n int) string { return fmt.Sprintf("(payload %d %d)", off, n) }

func SortedKeys(m map[string]int) []string {
	ks := make([]string, 0, len(m))
	for k := range m {
		ks = append(ks, k)
	}
	sort.Strings(ks)
	return ks
}
