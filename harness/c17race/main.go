// c17race: stress scenarios for C17, meant to be built with `go build -race`
// (vh-c17 gen does that) and run once per (scenario, GOMAXPROCS, seed). The race
// detector reports to stderr / exit code 66; this program prints one JSON line
// with the quiescence post-conditions.
//
//	c17race <scenario> <seed> <workers> <iterations>
package main

import (
	"bytes"
	"context"
	"encoding/json"
	"fmt"
	"io"
	"log/slog"
	"math/rand"
	"net"
	"os"
	"runtime"
	"strconv"
	"sync"
	"sync/atomic"
	"time"

	"github.com/PelicanPlatform/classad/classad"
	"github.com/bbockelm/cedar/client"
	"github.com/bbockelm/cedar/commands"
	"github.com/bbockelm/cedar/message"
	"github.com/bbockelm/cedar/security"
	"github.com/bbockelm/cedar/server"
	"github.com/bbockelm/cedar/stream"
)

// progress counts completed operations across all workers of the running scenario.
// A deadlock is reported only when it has not advanced for a long window; a scenario
// that is merely slow (loaded machine, race detector, GOMAXPROCS=1) runs on, and if it
// exceeds the generous overall cap the run is INCONCLUSIVE, never a violation.
var progress int64

func tick() { atomic.AddInt64(&progress, 1) }

const (
	stallWindow = 60 * time.Second // zero progress for this long = deadlock
	overallCap  = 12 * time.Minute
)

type result struct {
	Inconclusive string   `json:"inconclusive,omitempty"`
	Scenario     string   `json:"scenario"`
	PostOK       bool     `json:"post_ok"`
	Problems     []string `json:"problems,omitempty"`
	Ops          int      `json:"ops"`
	Procs        int      `json:"gomaxprocs"`
}

func main() {
	if len(os.Args) < 5 {
		fmt.Fprintln(os.Stderr, "usage: c17race scenario seed workers iterations")
		os.Exit(2)
	}
	slog.SetDefault(slog.New(slog.NewTextHandler(io.Discard, nil)))
	scen := os.Args[1]
	seed, _ := strconv.ParseInt(os.Args[2], 10, 64)
	workers, _ := strconv.Atoi(os.Args[3])
	iters, _ := strconv.Atoi(os.Args[4])
	out := os.Stdout
	if f, err := os.OpenFile(os.DevNull, os.O_WRONLY, 0); err == nil {
		os.Stdout = f // the library prints diagnostics to stdout
	}
	r := result{Scenario: scen, PostOK: true, Procs: runtime.GOMAXPROCS(0)}
	var rmu sync.Mutex
	fail := func(f string, a ...interface{}) {
		rmu.Lock()
		defer rmu.Unlock()
		r.PostOK = false
		if len(r.Problems) < 10 {
			r.Problems = append(r.Problems, fmt.Sprintf(f, a...))
		}
	}
	done := make(chan struct{})
	go func() {
		switch scen {
		case "cache-basic":
			cacheScenario(seed, workers, iters, false, &r, fail)
		case "cache-maint":
			cacheScenario(seed, workers, iters, true, &r, fail)
		case "client-shared-config":
			clientScenario(seed, workers, iters, &r, fail)
		case "secman-shared-config":
			secmanScenario(seed, workers, iters, &r, fail)
		case "session-ids":
			sessionIDScenario(seed, workers, iters, &r, fail)
		case "cache-atomicity":
			atomicityScenario(seed, workers, iters, &r, fail)
		case "percommand-shared-config":
			perCommandScenario(seed, workers, iters, &r, fail)
		case "cache-route":
			routeScenario(seed, workers, iters, &r, fail)
		case "secret-duplex":
			secretDuplexScenario(seed, workers, iters, &r, fail)
		case "fresh-key-duplex":
			freshKeyDuplexScenario(seed, workers, iters, &r, fail)
		case "stream-duplex":
			duplexScenario(seed, workers, iters, &r, fail)
		case "mixed-policy-resume":
			mixedPolicyScenario(seed, workers, iters, &r, fail)
		default:
			fail("unknown scenario %s", scen)
		}
		close(done)
	}()
	begin := time.Now()
	last, lastChange := atomic.LoadInt64(&progress), time.Now()
	tk := time.NewTicker(500 * time.Millisecond)
watch:
	for {
		select {
		case <-done:
			break watch
		case <-tk.C:
			if p := atomic.LoadInt64(&progress); p != last {
				last, lastChange = p, time.Now()
			} else if time.Since(lastChange) > stallWindow {
				fail("no operation completed for %s after %d completed operations (deadlock?)", stallWindow, p)
				break watch
			}
			if time.Since(begin) > overallCap {
				rmu.Lock()
				r.Inconclusive = fmt.Sprintf("still making progress (%d operations) after %s: machine too loaded, rerun with fewer iterations", last, overallCap)
				rmu.Unlock()
				break watch
			}
		}
	}
	tk.Stop()
	rmu.Lock()
	js, _ := json.Marshal(r)
	rmu.Unlock()
	fmt.Fprintln(out, string(js))
}

// ---- session cache ---------------------------------------------------------

func cacheScenario(seed int64, workers, iters int, maint bool, r *result, fail func(string, ...interface{})) {
	c := security.NewSessionCache()
	const nKeys = 12
	ids := make([]string, nKeys)
	for i := range ids {
		ids[i] = fmt.Sprintf("sess-%d", i)
	}
	mkEntry := func(i int, rng *rand.Rand) *security.SessionEntry {
		exp := time.Now().Add(time.Duration(rng.Intn(3000)-500) * time.Millisecond) // some already expired
		if rng.Intn(5) == 0 {
			exp = time.Time{}
		}
		lease := time.Duration(rng.Intn(3)) * 700 * time.Millisecond
		pol := classad.New()
		_ = pol.Set("AuthMethods", "FS")
		return security.NewSessionEntry(ids[i], "<10.0.0.1:9618>", &security.KeyInfo{Data: []byte("k"), Protocol: "AESGCM"}, pol, exp, lease, "")
	}
	var wg sync.WaitGroup
	var ops int64
	var mu sync.Mutex
	for w := 0; w < workers; w++ {
		wg.Add(1)
		go func(w int) {
			defer wg.Done()
			rng := rand.New(rand.NewSource(seed*1000 + int64(w)))
			n := 0
			for it := 0; it < iters; it++ {
				k := rng.Intn(nKeys)
				nOps := 12
				if maint {
					nOps = 16
				}
				switch rng.Intn(nOps) {
				case 0, 1:
					c.Store(mkEntry(k, rng))
				case 2:
					if e, ok := c.Lookup(ids[k]); ok {
						_ = e.Expiration()
						_ = e.IsExpired()
					}
				case 3:
					if e, ok := c.LookupNonExpired(ids[k]); ok {
						e.RenewLease()
						c.Store(e)
					}
				case 4:
					c.MapCommand("", "<10.0.0.1:9618>", strconv.Itoa(k%4), ids[k])
				case 5:
					if e, ok := c.LookupByCommand("", "<10.0.0.1:9618>", strconv.Itoa(k%4)); ok {
						e.RenewLease()
						_ = e.KeyInfo()
						_ = e.Policy()
					}
				case 6:
					c.Invalidate(ids[k])
				case 7:
					_ = c.Size()
				case 8:
					for _, e := range c.Snapshot() {
						_ = e.IsExpired()
						_ = e.IsInherited()
						_ = e.ID()
					}
				case 9:
					if e, ok := c.Lookup(ids[k]); ok {
						e.SetLastPeerVersion("v" + strconv.Itoa(it))
						_ = e.LastPeerVersion()
						e.SetInherited(it%2 == 0)
					}
				case 10:
					if e, ok := c.Lookup(ids[k]); ok {
						e.RenewLease()
					}
				case 11:
					runtime.Gosched() // injected yield
				case 12, 13:
					c.InvalidateExpired()
				case 14:
					_ = c.DebugDump()
				case 15:
					if e, ok := c.Lookup(ids[k]); ok {
						e.RenewLease()
					}
				}
				n++
				tick()
			}
			mu.Lock()
			ops += int64(n)
			mu.Unlock()
		}(w)
	}
	wg.Wait()
	r.Ops = int(ops)
	// quiescence: an invalidated id is unreachable by every lookup; counts consistent
	for i := 0; i < nKeys; i += 2 {
		c.Store(mkEntry(i, rand.New(rand.NewSource(seed))))
		c.MapCommand("", "<10.0.0.1:9618>", "c"+strconv.Itoa(i), ids[i])
	}
	var wg2 sync.WaitGroup
	for i := 0; i < nKeys; i += 2 {
		wg2.Add(1)
		go func(i int) { defer wg2.Done(); c.Invalidate(ids[i]) }(i)
	}
	wg2.Wait()
	for i := 0; i < nKeys; i += 2 {
		if _, ok := c.Lookup(ids[i]); ok {
			fail("invalidated %s still reachable by Lookup", ids[i])
		}
		if _, ok := c.LookupNonExpired(ids[i]); ok {
			fail("invalidated %s still reachable by LookupNonExpired", ids[i])
		}
		if _, ok := c.LookupByCommand("", "<10.0.0.1:9618>", "c"+strconv.Itoa(i)); ok {
			fail("invalidated %s still reachable by LookupByCommand", ids[i])
		}
		for k := 0; k < 4; k++ {
			if e, ok := c.LookupByCommand("", "<10.0.0.1:9618>", strconv.Itoa(k)); ok && e.ID() == ids[i] {
				fail("invalidated %s still reachable through command %d", ids[i], k)
			}
		}
	}
	snap := c.Snapshot()
	if len(snap) != c.Size() {
		fail("Size()=%d but Snapshot has %d entries", c.Size(), len(snap))
	}
	seen := map[string]bool{}
	for _, e := range snap {
		if seen[e.ID()] {
			fail("duplicate id %s in snapshot", e.ID())
		}
		seen[e.ID()] = true
		for i := 0; i < nKeys; i += 2 {
			if e.ID() == ids[i] {
				fail("invalidated %s present in snapshot", ids[i])
			}
		}
	}
	c.Clear()
	if c.Size() != 0 {
		fail("Size after Clear = %d", c.Size())
	}
}

// ---- no lost updates: expiry sweeps against re-Store / RenewLease around the expiry ----
//
// Each owner goroutine works on its own ids (so "the last operation on this id" is
// well defined) while sweeper goroutines run InvalidateExpired / LookupNonExpired
// continuously. An id whose last operation was a Store with a future expiry, or a
// RenewLease+Store that moved the expiry into the future, must be reachable
// immediately afterwards and at quiescence: a sweep may only remove what is
// expired at the moment it removes it.
func atomicityScenario(seed int64, workers, iters int, r *result, fail func(string, ...interface{})) {
	c := security.NewSessionCache()
	key := &security.KeyInfo{Data: make([]byte, 32), Protocol: "AESGCM"}
	var stop int32
	var swg sync.WaitGroup
	var smu sync.Mutex
	stopped := func() bool { smu.Lock(); defer smu.Unlock(); return stop != 0 }
	for i := 0; i < 3; i++ {
		swg.Add(1)
		go func(i int) {
			defer swg.Done()
			for !stopped() {
				c.InvalidateExpired()
				if i == 0 {
					c.LookupNonExpired("probe-never-stored")
				}
				runtime.Gosched() // never starve the owners (GOMAXPROCS=1)
			}
		}(i)
	}
	type last struct {
		id    string
		entry *security.SessionEntry
	}
	lasts := make([][]last, workers)
	var wg sync.WaitGroup
	var mu sync.Mutex
	ops, lost := 0, 0
	for w := 0; w < workers; w++ {
		wg.Add(1)
		go func(w int) {
			defer wg.Done()
			rng := rand.New(rand.NewSource(seed*100 + int64(w)))
			n := 0
			for it := 0; it < iters; it++ {
				id := fmt.Sprintf("own-%d-%d", w, it%3)
				var live *security.SessionEntry
				if rng.Intn(2) == 0 {
					// an expired entry is replaced by a fresh one under the same id
					c.Store(security.NewSessionEntry(id, "<10.0.0.2:9618>", key, nil, time.Now().Add(-time.Minute), 0, ""))
					runtime.Gosched()
					live = security.NewSessionEntry(id, "<10.0.0.2:9618>", key, nil, time.Now().Add(time.Hour), 0, "")
					c.Store(live)
				} else {
					// an entry past its expiry is renewed and stored again (what a resuming handshake does)
					live = security.NewSessionEntry(id, "<10.0.0.2:9618>", key, nil, time.Now().Add(-time.Second), time.Hour, "")
					c.Store(live)
					runtime.Gosched()
					live.RenewLease()
					c.Store(live)
				}
				n += 2
				tick()
				for k := 0; k < 20; k++ {
					if e, ok := c.Lookup(id); !ok || e != live {
						mu.Lock()
						lost++
						mu.Unlock()
						fail("live session %s (stored/renewed with a future expiry as the last operation on it) was removed by a concurrent sweep", id)
						c.Store(live)
						break
					}
					runtime.Gosched()
				}
				if it >= iters-3 {
					lasts[w] = append(lasts[w], last{id, live})
				}
				mu.Lock()
				done := lost >= 3
				mu.Unlock()
				if done {
					break
				}
			}
			mu.Lock()
			ops += n
			mu.Unlock()
		}(w)
	}
	wg.Wait()
	smu.Lock()
	stop = 1
	smu.Unlock()
	swg.Wait()
	c.InvalidateExpired()
	// quiescence: the last live entry of every id is still reachable
	seen := map[string]bool{}
	for w := range lasts {
		for i := len(lasts[w]) - 1; i >= 0; i-- {
			l := lasts[w][i]
			if seen[l.id] {
				continue
			}
			seen[l.id] = true
			if e, ok := c.LookupNonExpired(l.id); !ok || e != l.entry {
				fail("at quiescence the last stored/renewed session %s is unreachable", l.id)
			}
		}
	}
	r.Ops = ops
}

// ---- many client connections sharing one configuration object and one cache --

// srvCfg is the shared server-side policy: like secCfg, but its method list starts
// with a method this build does not implement (PASSWORD) followed by further ones,
// as an administrator's SEC_*_AUTHENTICATION_METHODS may.
func srvCfg() *security.SecurityConfig {
	c := secCfg(nil)
	c.AuthMethods = []security.AuthMethod{security.AuthPassword, security.AuthFS, security.AuthClaimToBe}
	c.CryptoMethods = []security.CryptoMethod{security.CryptoAES, security.CryptoMethod("BLOWFISH")}
	return c
}

// fingerprint renders every data field of a configuration (deeply: slice contents),
// so "the caller's configuration object is unchanged by the handshakes" can be checked.
func fingerprint(c *security.SecurityConfig) string {
	return fmt.Sprintf("peer=%q auth=%v/%v crypto=%v/%v integ=%v cert=%q key=%q ca=%q sn=%q tok=%d tf=%q td=%q pool=%q skd=%q age=%d ik=%v rv=%q dom=%q sub=%q pid=%d dur=%d lease=%d cmd=%d acmd=%d ecdh=%q tag=%q sid=%q",
		c.PeerName, c.AuthMethods, c.Authentication, c.CryptoMethods, c.Encryption, c.Integrity, c.CertFile, c.KeyFile, c.CAFile, c.ServerName,
		len(c.Token), c.TokenFile, c.TokenDir, c.TokenPoolSigningKeyFile, c.TokenSigningKeyDir, c.TokenMaxAge, c.IssuerKeys, c.RemoteVersion,
		c.TrustDomain, c.Subsystem, c.ServerPid, c.SessionDuration, c.SessionLease, c.Command, c.AuthCommand, c.ECDHPublicKey, c.SecurityTag, c.SessionID)
}

// distinct reports identifiers issued more than once
func distinct(ids []string, what string, fail func(string, ...interface{})) {
	seen := map[string]int{}
	for _, id := range ids {
		seen[id]++
	}
	for id, n := range seen {
		if n > 1 {
			fail("%s %q was issued %d times (two sessions share one id)", what, id, n)
		}
	}
}

func secCfg(cache *security.SessionCache) *security.SecurityConfig {
	return &security.SecurityConfig{
		AuthMethods:    []security.AuthMethod{security.AuthClaimToBe},
		Authentication: security.SecurityRequired,
		CryptoMethods:  []security.CryptoMethod{security.CryptoAES},
		Encryption:     security.SecurityRequired,
		Integrity:      security.SecurityOptional,
		Command:        commands.DC_NOP,
		SessionCache:   cache,
	}
}

func clientScenario(seed int64, workers, iters int, r *result, fail func(string, ...interface{})) {
	l, err := net.Listen("tcp", "127.0.0.1:0")
	if err != nil {
		fail("listen: %v", err)
		return
	}
	defer l.Close()
	srvConfig := srvCfg() // shared by every server-side handshake (ServeConn copies it shallowly)
	srv := server.New(srvConfig)
	srvBefore := fingerprint(srvConfig)
	srv.Handle(commands.DC_NOP, func(ctx context.Context, c *server.Conn) error {
		m := message.NewMessageForStream(c.Stream)
		if err := m.PutInt(ctx, 7); err != nil {
			return err
		}
		return m.FinishMessage(ctx)
	})
	ctx, cancel := context.WithCancel(context.Background())
	defer cancel()
	go func() { _ = srv.Serve(ctx, l) }()
	shared := secCfg(security.NewSessionCache()) // ONE configuration object and ONE cache for every client
	shared.AuthMethods = []security.AuthMethod{security.AuthPassword, security.AuthClaimToBe}
	sharedBefore := fingerprint(shared)
	addr := l.Addr().String()
	var mu sync.Mutex
	okCount, resumed := 0, 0
	var freshIDs []string
	for round := 0; round < iters; round++ { // round 0: fresh handshakes; later rounds: resumptions of the shared session
		var wg sync.WaitGroup
		for w := 0; w < workers; w++ {
			wg.Add(1)
			go func() {
				defer wg.Done()
				cctx, cc := context.WithTimeout(ctx, 10*time.Minute)
				defer cc()
				cl, err := client.ConnectAndAuthenticateWithConfig(cctx, &client.ClientConfig{Address: addr, Security: shared})
				if err != nil {
					fail("client handshake: %v", err)
					return
				}
				defer cl.Close()
				st := cl.GetStream()
				m := message.NewMessageFromStream(st)
				v, err := m.GetInt(cctx)
				if err != nil || v != 7 {
					fail("reply over the authenticated stream: v=%d err=%v (handshakes disturbed one another?)", v, err)
					return
				}
				tick()
				mu.Lock()
				okCount++
				if n := cl.GetSecurityNegotiation(); n != nil && n.SessionResumed {
					resumed++
				} else if n != nil {
					freshIDs = append(freshIDs, n.SessionId)
				}
				mu.Unlock()
			}()
		}
		wg.Wait()
	}
	r.Ops = okCount
	if okCount != workers*iters {
		fail("%d of %d client connections succeeded", okCount, workers*iters)
	}
	if iters > 1 && resumed == 0 {
		fail("no connection resumed the shared session")
	}
	distinct(freshIDs, "session id", fail)
	// the configuration objects the caller shares between connections are inputs: unchanged
	if after := fingerprint(shared); after != sharedBefore {
		fail("the clients' shared SecurityConfig was modified by the handshakes: before {%s} after {%s}", sharedBefore, after)
	}
	if after := fingerprint(srvConfig); after != srvBefore {
		fail("the server's shared SecurityConfig was modified by the handshakes: before {%s} after {%s}", srvBefore, after)
	}
}

// a server whose SecurityConfigForCommand returns ONE shared *SecurityConfig for the
// command, and many overlapping FRESH handshakes (no resumption) for that command:
// every handshake must succeed and yield a working encrypted stream
func perCommandScenario(seed int64, workers, iters int, r *result, fail func(string, ...interface{})) {
	l, err := net.Listen("tcp", "127.0.0.1:0")
	if err != nil {
		fail("listen: %v", err)
		return
	}
	defer l.Close()
	srv := server.New(srvCfg())
	perCmd := srvCfg() // the one shared per-command policy object
	perCmdBefore := fingerprint(perCmd)
	var ids []string
	srv.SecurityConfigForCommand = func(cmd int) *security.SecurityConfig {
		if cmd == commands.DC_NOP {
			return perCmd
		}
		return nil
	}
	srv.Handle(commands.DC_NOP, func(ctx context.Context, c *server.Conn) error {
		m := message.NewMessageForStream(c.Stream)
		if err := m.PutInt(ctx, 9); err != nil {
			return err
		}
		return m.FinishMessage(ctx)
	})
	ctx, cancel := context.WithCancel(context.Background())
	defer cancel()
	go func() { _ = srv.Serve(ctx, l) }()
	addr := l.Addr().String()
	var mu sync.Mutex
	okCount := 0
	start := make(chan struct{})
	var wg sync.WaitGroup
	for w := 0; w < workers; w++ {
		wg.Add(1)
		go func() {
			defer wg.Done()
			<-start
			for it := 0; it < iters; it++ {
				cctx, cc := context.WithTimeout(ctx, 10*time.Minute)
				cl, err := client.ConnectAndAuthenticateWithConfig(cctx, &client.ClientConfig{Address: addr, Security: secCfg(security.NewSessionCache())}) // own cache: never resumes
				if err != nil {
					fail("fresh handshake for the per-command policy: %v", err)
					cc()
					continue
				}
				m := message.NewMessageFromStream(cl.GetStream())
				v, err := m.GetInt(cctx)
				if err != nil || v != 9 || !cl.GetStream().IsEncrypted() {
					fail("reply over the encrypted stream: v=%d err=%v encrypted=%v", v, err, cl.GetStream().IsEncrypted())
				} else {
					tick()
					mu.Lock()
					okCount++
					if n := cl.GetSecurityNegotiation(); n != nil {
						ids = append(ids, n.SessionId)
					}
					mu.Unlock()
				}
				_ = cl.Close()
				cc()
				if it%3 == 0 {
					runtime.Gosched()
				}
			}
		}()
	}
	close(start)
	wg.Wait()
	r.Ops = okCount
	if okCount != workers*iters {
		fail("%d of %d overlapping handshakes succeeded", okCount, workers*iters)
	}
	distinct(ids, "session id", fail) // every fresh handshake gets its own session
	if after := fingerprint(perCmd); after != perCmdBefore {
		fail("the shared per-command SecurityConfig was modified by the handshakes: before {%s} after {%s}", perCmdBefore, after)
	}
}

// the session-id generator under real parallelism: no two callers get the same
// counter, hence no two sessions the same id (all accesses are atomic, so the race
// detector is silent about a Load..Store increment; only the values tell)
func sessionIDScenario(seed int64, workers, iters int, r *result, fail func(string, ...interface{})) {
	out := make([][]int, workers)
	ids := make([][]string, workers)
	start := make(chan struct{})
	var wg sync.WaitGroup
	for w := 0; w < workers; w++ {
		wg.Add(1)
		go func(w int) {
			defer wg.Done()
			vals := make([]int, 0, iters)
			var sids []string
			<-start
			for i := 0; i < iters; i++ {
				v := security.GetNextSessionCounter()
				vals = append(vals, v)
				if i%1024 == 0 {
					tick()
				}
				if i%64 == 0 {
					sids = append(sids, security.GenerateSessionID(security.GetNextSessionCounter()))
				}
			}
			out[w], ids[w] = vals, sids
		}(w)
	}
	close(start)
	wg.Wait()
	seen := map[int]int{}
	n := 0
	for w := range out {
		prev := 0
		for _, v := range out[w] {
			seen[v]++
			n++
			if v <= prev {
				fail("counter not increasing for one caller: %d after %d", v, prev)
			}
			prev = v
		}
	}
	dups := 0
	for v, k := range seen {
		if k > 1 {
			dups++
			if dups <= 3 {
				fail("session counter value %d was handed out %d times", v, k)
			}
		}
	}
	if dups > 0 {
		fail("%d of %d counter values were handed out more than once", dups, n)
	}
	var all []string
	for _, x := range ids {
		all = append(all, x...)
	}
	distinct(all, "generated session id", fail)
	r.Ops = n
}

// one SecurityManager (one configuration) used for many handshakes at once
func secmanScenario(seed int64, workers, iters int, r *result, fail func(string, ...interface{})) {
	cm := security.NewSecurityManager()
	sm := security.NewSecurityManager()
	var wg sync.WaitGroup
	var mu sync.Mutex
	n := 0
	for w := 0; w < workers; w++ {
		wg.Add(1)
		go func() {
			defer wg.Done()
			for it := 0; it < iters; it++ {
				a, b := net.Pipe()
				sa, sb := stream.NewStream(a), stream.NewStream(b)
				errc := make(chan error, 1)
				go func() { errc <- sm.ServerHandshake(context.Background(), sb) }()
				ctx, cancel := context.WithTimeout(context.Background(), 10*time.Minute)
				err := cm.ClientHandshake(ctx, sa)
				cancel()
				serr := <-errc
				_ = a.Close()
				_ = b.Close()
				if err != nil || serr != nil {
					fail("SecurityManager handshake failed: client=%v server=%v", err, serr)
					return
				}
				tick()
				mu.Lock()
				n++
				mu.Unlock()
			}
		}()
	}
	wg.Wait()
	r.Ops = n
}

// ---- command routing under interleaved registration and invalidation ----------
//
// A client-session registration is Store(entry) followed by MapCommand(...): two
// critical sections. Invalidators hit the same ids all the time, so invalidations land
// between the two steps. Afterwards a DIFFERENT entry is stored under the id without
// mapping any command for it: from then on a lookup by the old command key must not
// find anything - a hit would route the old key to a session it was never mapped for.
func routeScenario(seed int64, workers, iters int, r *result, fail func(string, ...interface{})) {
	c := security.NewSessionCache()
	key := &security.KeyInfo{Data: make([]byte, 32), Protocol: "AESGCM"}
	const addr = "<10.0.0.3:9618>"
	var stop int32
	var swg sync.WaitGroup
	for i := 0; i < 2; i++ {
		swg.Add(1)
		go func() {
			defer swg.Done()
			for atomic.LoadInt32(&stop) == 0 {
				for w := 0; w < workers; w++ {
					c.Invalidate(fmt.Sprintf("route-%d", w))
				}
				runtime.Gosched()
			}
		}()
	}
	var wg sync.WaitGroup
	var mu sync.Mutex
	n := 0
	for w := 0; w < workers; w++ {
		wg.Add(1)
		go func(w int) {
			defer wg.Done()
			id := fmt.Sprintf("route-%d", w)
			cmd := fmt.Sprintf("%d", 400+w)
			bad := 0
			for it := 0; it < iters && bad < 3; it++ {
				first := security.NewSessionEntry(id, addr, key, nil, time.Now().Add(time.Hour), 0, "")
				c.Store(first) // registration, step 1
				if it%2 == 0 {
					runtime.Gosched()
				}
				c.MapCommand("", addr, cmd, id) // registration, step 2
				second := security.NewSessionEntry(id, addr, key, nil, time.Now().Add(time.Hour), 0, "")
				c.Store(second) // a different session takes the id; nothing is mapped for it
				for k := 0; k < 3; k++ {
					if e, ok := c.LookupByCommand("", addr, cmd); ok && e == second {
						bad++
						fail("command key {%s,<%s>} mapped for an earlier session of id %s is routed to the session stored later under that id", addr, cmd, id)
						break
					}
				}
				c.Invalidate(id)
				tick()
				mu.Lock()
				n++
				mu.Unlock()
			}
		}(w)
	}
	wg.Wait()
	atomic.StoreInt32(&stop, 1)
	swg.Wait()
	r.Ops = n
}

// ---- full duplex with private attributes in the legacy wire form ----------------
//
// An established AES stream used by a writer and a reader goroutine at once, where the
// ads arriving carry a private attribute as SECRET_MARKER ("ZKM") + put_secret field -
// what a C++ peer that was not told a modern version sends even under AES-GCM. Reading
// it goes through the crypto-for-secret toggle, which on an already encrypted channel
// must be a no-op that does not touch state the send path reads.
func secretDuplexScenario(seed int64, workers, iters int, r *result, fail func(string, ...interface{})) {
	key := bytes.Repeat([]byte{0x33}, 32)
	ctx := context.Background()
	var wg sync.WaitGroup
	var mu sync.Mutex
	total := 0
	putLegacyAd := func(st *stream.Stream, i int) error {
		m := message.NewMessageForStream(st)
		if err := m.PutInt(ctx, 2); err != nil { // two expressions; marker + secret count as one
			return err
		}
		if err := m.PutString(ctx, fmt.Sprintf("Seq = %d", i)); err != nil {
			return err
		}
		if err := m.PutString(ctx, message.SecretMarker); err != nil {
			return err
		}
		if err := m.PutString(ctx, fmt.Sprintf("ClaimId = \"secret-%d\"", i)); err != nil {
			return err
		}
		if err := m.PutString(ctx, ""); err != nil {
			return err
		}
		if err := m.PutString(ctx, ""); err != nil {
			return err
		}
		return m.FinishMessage(ctx)
	}
	for w := 0; w < workers; w++ {
		wg.Add(1)
		go func(w int) {
			defer wg.Done()
			a, b := net.Pipe()
			defer a.Close()
			defer b.Close()
			sa, sb := stream.NewStream(a), stream.NewStream(b)
			if err := sa.SetSymmetricKey(key); err != nil {
				fail("key: %v", err)
				return
			}
			if err := sb.SetSymmetricKey(key); err != nil {
				fail("key: %v", err)
				return
			}
			var g sync.WaitGroup
			send := func(st *stream.Stream) {
				defer g.Done()
				for i := 0; i < iters; i++ {
					if err := putLegacyAd(st, i); err != nil {
						fail("send %d: %v", i, err)
						return
					}
					tick()
				}
			}
			recv := func(st *stream.Stream) {
				defer g.Done()
				for i := 0; i < iters; i++ {
					m := message.NewMessageFromStream(st)
					ad, err := m.GetClassAd(ctx)
					if err != nil {
						fail("recv %d: %v", i, err)
						return
					}
					if v, ok := ad.EvaluateAttrString("ClaimId"); !ok || v != fmt.Sprintf("secret-%d", i) {
						fail("recv %d: private attribute lost or wrong (%q)", i, v)
						return
					}
					if !st.IsEncrypted() {
						fail("recv %d: the stream's encryption was switched off", i)
						return
					}
				}
			}
			g.Add(4)
			go send(sa)
			go recv(sb)
			go send(sb)
			go recv(sa)
			g.Wait()
			mu.Lock()
			total += 2 * iters
			mu.Unlock()
		}(w)
	}
	wg.Wait()
	r.Ops = total
}

// ---- first send and first receive overlapping on a freshly keyed stream ----------
//
// A stream on which NO protected frame has travelled yet in either direction when it
// is handed to a writer and a reader goroutine: a key installed directly with
// SetSymmetricKey (what a resumed session does with the cached key) after some
// cleartext traffic. The very first protected send and the very first protected
// receive of each endpoint overlap; every message must arrive intact.
func freshKeyDuplexScenario(seed int64, workers, iters int, r *result, fail func(string, ...interface{})) {
	key := bytes.Repeat([]byte{0x42}, 32)
	ctx := context.Background()
	var wg sync.WaitGroup
	var mu sync.Mutex
	total := 0
	for w := 0; w < workers; w++ {
		wg.Add(1)
		go func(w int) {
			defer wg.Done()
			for it := 0; it < iters; it++ {
				a, b := net.Pipe()
				sa, sb := stream.NewStream(a), stream.NewStream(b)
				// cleartext prologue in both directions (feeds the handshake digests), strictly alternating
				pro := make(chan error, 1)
				go func() {
					if _, err := sb.ReceiveFrame(ctx); err != nil {
						pro <- err
						return
					}
					pro <- sb.SendMessage(ctx, []byte("hello-back"))
				}()
				if err := sa.SendMessage(ctx, []byte("hello")); err != nil {
					fail("prologue: %v", err)
					return
				}
				if _, err := sa.ReceiveFrame(ctx); err != nil {
					fail("prologue: %v", err)
					return
				}
				if err := <-pro; err != nil {
					fail("prologue: %v", err)
					return
				}
				if err := sa.SetSymmetricKey(key); err != nil {
					fail("key: %v", err)
					return
				}
				if err := sb.SetSymmetricKey(key); err != nil {
					fail("key: %v", err)
					return
				}
				// now: writer and reader goroutine on each endpoint, all four started together
				start := make(chan struct{})
				var g sync.WaitGroup
				send := func(st *stream.Stream, tag byte) {
					defer g.Done()
					<-start
					for i := 0; i < 3; i++ {
						if err := st.SendMessage(ctx, bytes.Repeat([]byte{tag + byte(i)}, 64+i)); err != nil {
							fail("first protected send: %v", err)
							return
						}
					}
				}
				recv := func(st *stream.Stream, tag byte) {
					defer g.Done()
					<-start
					for i := 0; i < 3; i++ {
						d, err := st.ReceiveFrame(ctx)
						if err != nil || !bytes.Equal(d, bytes.Repeat([]byte{tag + byte(i)}, 64+i)) {
							fail("first protected receive: err=%v", err)
							return
						}
					}
				}
				g.Add(4)
				go send(sa, 10)
				go recv(sb, 10)
				go send(sb, 50)
				go recv(sa, 50)
				close(start)
				g.Wait()
				_ = a.Close()
				_ = b.Close()
				tick()
				mu.Lock()
				total++
				mu.Unlock()
			}
		}(w)
	}
	wg.Wait()
	r.Ops = total
}

// ---- simultaneous send and receive on one established stream -------------------

func duplexScenario(seed int64, workers, iters int, r *result, fail func(string, ...interface{})) {
	l, err := net.Listen("tcp", "127.0.0.1:0")
	if err != nil {
		fail("listen: %v", err)
		return
	}
	defer l.Close()
	payload := func(i int) []byte { return bytes.Repeat([]byte{byte(i)}, 100+(i%7)*900) }
	pump := func(ctx context.Context, st *stream.Stream, tag string) {
		// one goroutine writes, another reads, on the SAME stream, at the same time
		var wg sync.WaitGroup
		wg.Add(2)
		go func() {
			defer wg.Done()
			for i := 0; i < iters; i++ {
				m := message.NewMessageForStream(st)
				if err := m.PutInt(ctx, i); err != nil {
					fail("%s send %d: %v", tag, i, err)
					return
				}
				if err := m.PutBytes(ctx, payload(i)); err != nil {
					fail("%s send %d: %v", tag, i, err)
					return
				}
				if err := m.FinishMessage(ctx); err != nil {
					fail("%s send %d: %v", tag, i, err)
					return
				}
				tick()
				if i%5 == 0 {
					runtime.Gosched()
				}
			}
		}()
		go func() {
			defer wg.Done()
			for i := 0; i < iters; i++ {
				m := message.NewMessageFromStream(st)
				v, err := m.GetInt(ctx)
				if err != nil || v != i {
					fail("%s recv %d: v=%d err=%v", tag, i, v, err)
					return
				}
				b, err := m.GetBytes(ctx, len(payload(i)))
				if err != nil || !bytes.Equal(b, payload(i)) {
					fail("%s recv %d: payload differs (err=%v)", tag, i, err)
					return
				}
				tick()
			}
		}()
		wg.Wait()
	}
	srv := server.New(secCfg(nil))
	handled := make(chan struct{}, workers)
	srv.Handle(commands.DC_NOP, func(ctx context.Context, c *server.Conn) error {
		defer func() { handled <- struct{}{} }()
		pump(ctx, c.Stream, "server")
		return nil
	})
	ctx, cancel := context.WithCancel(context.Background())
	defer cancel()
	go func() { _ = srv.Serve(ctx, l) }()
	var wg sync.WaitGroup
	for w := 0; w < workers; w++ {
		wg.Add(1)
		go func() {
			defer wg.Done()
			cctx, cc := context.WithTimeout(ctx, 10*time.Minute)
			defer cc()
			cl, err := client.ConnectAndAuthenticateWithConfig(cctx, &client.ClientConfig{Address: l.Addr().String(), Security: secCfg(security.NewSessionCache())})
			if err != nil {
				fail("handshake: %v", err)
				return
			}
			defer cl.Close()
			if !cl.GetStream().IsEncrypted() {
				fail("stream not encrypted")
			}
			pump(cctx, cl.GetStream(), "client")
		}()
	}
	wg.Wait()
	for w := 0; w < workers; w++ {
		select {
		case <-handled:
		case <-time.After(10 * time.Minute): // the progress watchdog in main reports a real deadlock much earlier
			fail("a server-side handler did not finish")
			w = workers
		}
	}
	r.Ops = workers * iters * 2
}

// mixed-policy-resume: connections with DIFFERENT local policies share one cache and one
// cached session for the same peer/command. The session is negotiated unauthenticated;
// clients with Authentication=OPTIONAL resume it, clients with Authentication=REQUIRED
// look up the same entry, have the peer accept the resumption and then refuse it locally
// (checkResumedSession). Refused and successful resumptions overlap. Post-conditions:
// every handshake that reported success exchanges a message over its stream, and the key
// bytes of the cached entry (shared, lock-free, by all of them) are unchanged.
func mixedPolicyScenario(seed int64, workers, iters int, r *result, fail func(string, ...interface{})) {
	const peer = "<192.0.2.17:9618>"
	shared := security.NewSessionCache()
	ctx, cancel := context.WithTimeout(context.Background(), 10*time.Minute)
	defer cancel()
	serverCfg := func() *security.SecurityConfig {
		return &security.SecurityConfig{
			AuthMethods:    []security.AuthMethod{security.AuthNone},
			Authentication: security.SecurityOptional,
			CryptoMethods:  []security.CryptoMethod{security.CryptoAES},
			Encryption:     security.SecurityRequired,
			Integrity:      security.SecurityRequired,
		}
	}
	clientCfg := func(level security.SecurityLevel) *security.SecurityConfig {
		return &security.SecurityConfig{
			AuthMethods:    []security.AuthMethod{security.AuthNone},
			Authentication: level,
			CryptoMethods:  []security.CryptoMethod{security.CryptoAES},
			Encryption:     security.SecurityRequired,
			Integrity:      security.SecurityRequired,
			Command:        commands.DC_NOP,
			PeerName:       peer,
			SessionCache:   shared,
		}
	}
	type hs struct {
		neg *security.SecurityNegotiation
		err error
	}
	// one connection: both ends over an in-memory pipe; returns the client's verdict
	connect := func(level security.SecurityLevel, tag string) (resumed bool, refused bool) {
		sc, cc := net.Pipe()
		defer sc.Close()
		defer cc.Close()
		cs, ss := stream.NewStream(cc), stream.NewStream(sc)
		srvCh := make(chan hs, 1)
		go func() {
			neg, err := security.NewAuthenticator(serverCfg(), ss).ServerHandshake(ctx)
			srvCh <- hs{neg, err}
		}()
		neg, err := security.NewAuthenticator(clientCfg(level), cs).ClientHandshake(ctx)
		if err != nil {
			_ = cc.Close()
			_ = sc.Close()
			<-srvCh
			if level != security.SecurityRequired {
				fail("%s: a client whose policy the session satisfies failed: %v", tag, err)
			}
			return false, true
		}
		if sr := <-srvCh; sr.err != nil {
			fail("%s: server side of a handshake the client reports successful failed: %v", tag, sr.err)
			return false, false
		}
		done := make(chan error, 1)
		go func() {
			m := message.NewMessageForStream(cs)
			if err := m.PutInt(ctx, 424242); err != nil {
				done <- err
				return
			}
			done <- m.FinishMessage(ctx)
		}()
		got, err := message.NewMessageFromStream(ss).GetInt(ctx)
		if err != nil || got != 424242 {
			fail("%s: first message on a handshake that reported success (resumed=%v): got=%d err=%v (handshakes disturbed one another?)", tag, neg.SessionResumed, got, err)
			_ = cc.Close()
			_ = sc.Close()
			<-done
			return neg.SessionResumed, false
		}
		if err := <-done; err != nil {
			fail("%s: send on a successful handshake: %v", tag, err)
		}
		return neg.SessionResumed, false
	}
	if res, ref := connect(security.SecurityOptional, "initial"); res || ref {
		fail("initial handshake: resumed=%v refused=%v", res, ref)
		return
	}
	snap := shared.Snapshot()
	if len(snap) != 1 || snap[0].KeyInfo() == nil || len(snap[0].KeyInfo().Data) == 0 {
		fail("initial session not cached with a key (%d entries)", len(snap))
		return
	}
	entry := snap[0]
	keyBefore := append([]byte(nil), entry.KeyInfo().Data...)
	var mu sync.Mutex
	nres, nref, ops := 0, 0, 0
	for round := 0; round < iters; round++ {
		var wg sync.WaitGroup
		for w := 0; w < workers; w++ {
			wg.Add(1)
			level := security.SecurityOptional
			if w%2 == 1 {
				level = security.SecurityRequired
			}
			go func(w int) {
				defer wg.Done()
				res, ref := connect(level, fmt.Sprintf("round %d worker %d (%v)", round, w, level))
				tick()
				mu.Lock()
				ops++
				if res {
					nres++
				}
				if ref {
					nref++
				}
				mu.Unlock()
			}(w)
		}
		wg.Wait()
		if e, ok := shared.Lookup(entry.ID()); ok && !bytes.Equal(e.KeyInfo().Data, keyBefore) {
			fail("round %d: the cached session's key bytes were modified (now %x...) by a connection's handshake", round, e.KeyInfo().Data[:4])
			break
		}
	}
	r.Ops = ops
	if nres == 0 {
		fail("no connection resumed the shared session")
	}
	if nref == 0 {
		fail("no resumption was refused by a stricter local policy (scenario vacuous)")
	}
	if !bytes.Equal(entry.KeyInfo().Data, keyBefore) {
		fail("the cached session's key bytes changed")
	}
}
