module verifharness

go 1.25.0

require github.com/bbockelm/cedar v0.0.0

require (
	github.com/PelicanPlatform/classad v0.4.0
	github.com/golang-jwt/jwt/v5 v5.3.0 // indirect
	github.com/hashicorp/go-uuid v1.0.3 // indirect
	github.com/jcmturner/aescts/v2 v2.0.0 // indirect
	github.com/jcmturner/dnsutils/v2 v2.0.0 // indirect
	github.com/jcmturner/gofork v1.7.6 // indirect
	github.com/jcmturner/gokrb5/v8 v8.4.4 // indirect
	github.com/jcmturner/rpc/v2 v2.0.3 // indirect
	github.com/pkg/errors v0.9.1 // indirect
	golang.org/x/crypto v0.53.0
	golang.org/x/net v0.55.0 // indirect
)

replace github.com/bbockelm/cedar => /repo
