module verifharness

go 1.25.0

require github.com/bbockelm/cedar v0.0.0

require github.com/PelicanPlatform/classad v0.4.0 // indirect

replace github.com/bbockelm/cedar => /repo
